(* FormatTokens.v — what the formatter writes, read as tokens (C12).  The invariant Inv d f ts says of a
   formatter state f: whatever text X is written after it (starting with a blank, a line end, a comma or
   a punctuator whenever the text so far ends inside a word), the text so far followed by X is read by the
   lexer as the tokens ts followed by the tokens of X.  Each writer operation extends ts by the tokens of
   what it writes; the printers of values, types, arguments, directives, variable definitions, selections,
   operations and fragments extend it by the token sequence the grammar assigns to the tree (ParseComplete
   .v: flat_* ), so the printed document is read as exactly flat_doc of the document. *)
From Coq Require Import List NArith ZArith Lia Bool.
From GQL.model Require Import Base Utf8 Lexer Ast Schema Parser Prog ParseQuery Format.
From GQL.proofs Require Import StrFacts ProgFacts NumberGrammar QuoteRoundtrip ParserTotal TypeRoundtrip ValueRoundtrip TokenStream JsonRoundtrip ParseComplete.
Import ListNotations.
Open Scope N_scope.

(* a character after which, and before which, any token may stand *)
Definition safe_char (c : N) : Prop := ign_char c \/ exists k, punct c = Some k.
Definition safe_head (X : str) : Prop := match X with [] => True | c :: _ => safe_char c end.
(* the text ends inside a word: its last character is neither ignored nor a punctuator *)
(* a character that ends a token by itself: those, and the last dot of `...` *)
Definition end_safe (c : N) : Prop := safe_char c \/ c = 46.
Definition open_end (o : str) : Prop := match o with [] => False | c :: _ => ~ end_safe c end.   (* o reversed *)

Lemma safe_noname : forall X, safe_head X -> noname_head X.
Proof.
  intros [|c r] H; [exact I|]. cbn in *. destruct H as [[-> | [-> | [-> | ->]]]|[k Hk]]; try reflexivity.
  unfold punct in Hk. repeat match type of Hk with (if (c =? ?n) then _ else _) = _ => destruct (N.eqb_spec c n); [subst; reflexivity|] end. discriminate.
Qed.

Lemma safe_follow : forall X, safe_head X -> follow_ok X.
Proof.
  intros [|c r] H; [exact I|]. cbn in *. destruct H as [[-> | [-> | [-> | ->]]]|[k Hk]]; try (repeat split; try reflexivity; discriminate).
  unfold punct in Hk. repeat match type of Hk with (if (c =? ?n) then _ else _) = _ => destruct (N.eqb_spec c n); [subst; repeat split; try reflexivity; discriminate|] end. discriminate.
Qed.

Lemma safe_noquote : forall X, safe_head X -> match X with 34 :: _ => False | _ => True end.
Proof.
  intros [|c r] H; [exact I|]. cbn in *. destruct H as [[-> | [-> | [-> | ->]]]|[k Hk]]; try exact I.
  destruct (N.eqb_spec c 34) as [->|n]; [cbn in Hk; discriminate|].
  destruct c as [|p]; [exact I|]. do 6 (destruct p as [p|p|]; try exact I). exfalso. apply n. reflexivity.
Qed.

Lemma last_of_app : forall (a b : str) c r, rev b = c :: r -> exists r', rev (a ++ b) = c :: r'.
Proof. intros a b c r E. rewrite rev_app_distr, E. eexists. reflexivity. Qed.

Lemma alldigits_last : forall ds, ds <> [] -> alldigits ds -> exists c r, rev ds = c :: r /\ is_digit c = true.
Proof.
  intros ds Hne Hall. destruct (rev ds) as [|c r] eqn:E.
  - apply (f_equal (@rev N)) in E. rewrite rev_involutive in E. cbn in E. congruence.
  - exists c, r. split; [reflexivity|]. unfold alldigits in Hall. rewrite forallb_forall in Hall. apply Hall. apply in_rev. rewrite E. left. reflexivity.
Qed.

Lemma unsigned_last : forall u, unsigned_int u -> exists c r, rev u = c :: r /\ is_digit c = true.
Proof.
  intros u H. inversion H as [|c ds Hc Hnz Hds]; subst.
  - exists 48, []. split; reflexivity.
  - apply alldigits_last; [discriminate|]. unfold alldigits in *. cbn [forallb]. rewrite Hc, Hds. reflexivity.
Qed.

Lemma int_last : forall v, int_value v -> exists c r, rev v = c :: r /\ is_digit c = true.
Proof.
  intros v [Hu|[u [-> Hu]]]; [exact (unsigned_last v Hu)|].
  destruct (unsigned_last u Hu) as [c [r [E Hc]]]. change (45 :: u) with ([45] ++ u).
  destruct (last_of_app [45] u c r E) as [r' E']. exists c, r'. auto.
Qed.

Lemma float_last : forall v, float_value v -> exists c r, rev v = c :: r /\ is_digit c = true.
Proof.
  intros v [i [f [x [-> [Hi [Hf [Hx Hne]]]]]]].
  destruct Hx as [->|[ec [sg [ds [-> [_ [_ [Hd1 Hd2]]]]]]]].
  - rewrite app_nil_r. destruct Hf as [->|[ds [-> [Hd1 Hd2]]]]; [destruct Hne; congruence|].
    destruct (alldigits_last ds Hd1 Hd2) as [c [r [E Hc]]].
    destruct (last_of_app (i ++ [46]) ds c r E) as [r' E']. exists c, r'. split; [|exact Hc].
    rewrite <- E', <- app_assoc. reflexivity.
  - destruct (alldigits_last ds Hd1 Hd2) as [c [r [E Hc]]].
    destruct (last_of_app (i ++ f ++ ec :: sg) ds c r E) as [r' E']. exists c, r'. split; [|exact Hc].
    rewrite <- E', <- !app_assoc. cbn [app]. rewrite <- ?app_assoc. reflexivity.
Qed.

Section Fmt.
  Variable d : dev.
  Variable o : fopts.
  Hypothesis indent_ws : Forall ign_char (fo_indent o).

  Definition Inv (f : fmt) (ts : list tk) : Prop :=
    (forall X tsX, (open_end (out f) -> safe_head X) -> toks d X tsX -> toks d (rev (out f) ++ X) (ts ++ tsX))
    /\ (lineHead f = true -> exists tl, out f = 10 :: tl).

  Lemma inv_start : Inv fmt0 [].
  Proof. split; [intros X tsX _ H; exact H|discriminate]. Qed.

  Lemma inv_done : forall f ts, Inv f ts -> toks d (rev (out f)) ts.
  Proof.
    intros f ts [H _]. specialize (H [] [] (fun _ => I) (toks_eof d)). rewrite !app_nil_r in H. exact H.
  Qed.

  (* what pre writes: the indentation at the head of a line, else one blank if padding is due *)
  Definition pre_text (f : fmt) : str :=
    if lineHead f then concat (repeat (fo_indent o) (isz f)) else if padNext f then [32] else [].

  Lemma pre_spec : forall f, out (pre o f) = rev (pre_text f) ++ out f /\ lineHead (pre o f) = false /\ isz (pre o f) = isz f.
  Proof.
    intro f. unfold pre, pre_text, writeIndent, emit. destruct (lineHead f) eqn:EL; cbn [out isz padNext lineHead].
    - rewrite rev_append_rev. auto.
    - destruct (padNext f); cbn [out isz padNext lineHead rev_append rev app]; auto.
  Qed.

  Lemma pre_ign : forall f, Forall ign_char (pre_text f).
  Proof.
    intro f. unfold pre_text. destruct (lineHead f).
    - induction (isz f) as [|n IH]; cbn [repeat concat]; [constructor|]. apply Forall_app. split; [exact indent_ws|exact IH].
    - destruct (padNext f); [constructor; [right; left; reflexivity|constructor]|constructor].
  Qed.

  (* a piece of text w that is read as the tokens tw in front of any continuation that does not continue
     its last word *)
  Definition piece (w : str) (tw : list tk) : Prop :=
    w <> [] /\ forall X tsX, (open_end (rev w) -> safe_head X) -> toks d X tsX -> toks d (w ++ X) (tw ++ tsX).

  Lemma open_end_app : forall w o0, w <> [] -> (open_end (rev w ++ o0) <-> open_end (rev w)).
  Proof.
    intros w o0 Hw. destruct (rev w) as [|c r] eqn:E; [|reflexivity].
    exfalso. apply Hw. apply (f_equal (@rev N)) in E. rewrite rev_involutive in E. exact E.
  Qed.

  (* the one step all writers share: lead (ignored characters) then the piece *)
  Lemma inv_write : forall f ts w tw f', Inv f ts -> piece w tw ->
    (open_end (out f) -> pre_text f <> [] \/ safe_head w) ->
    out f' = rev w ++ rev (pre_text f) ++ out f -> lineHead f' = false ->
    Inv f' (ts ++ tw).
  Proof.
    intros f ts w tw f' [Hf Hl] [Hw Hp] Hstart Hout Hlh. split; [|rewrite Hlh; discriminate].
    intros X tsX HX HtX. rewrite Hout, !rev_app_distr, !rev_involutive, <- !app_assoc.
    apply Hf.
    - intro Ho. destruct (Hstart Ho) as [Hne|Hs].
      + pose proof (pre_ign f) as Hi. destruct (pre_text f) as [|c r]; [congruence|]. inversion Hi; subst. left. assumption.
      + pose proof (pre_ign f) as Hi. destruct (pre_text f) as [|c r].
        * cbn [app]. destruct w as [|c w']; [congruence|exact Hs].
        * inversion Hi; subst. left. assumption.
    - apply toks_ign; [apply pre_ign|]. apply Hp; [|exact HtX].
      intro Ho. apply HX. rewrite Hout. apply open_end_app; assumption.
  Qed.

  Lemma trim_left_id : forall s, match s with c :: _ => is_space c = false | [] => True end -> trim_left s = s.
  Proof. intros [|c r] H; [reflexivity|]. cbn [trim_left]. rewrite H. reflexivity. Qed.

  Definition no_space_ends (w : str) : Prop :=
    match w with c :: _ => is_space c = false | [] => True end /\ match rev w with c :: _ => is_space c = false | [] => True end.

  Lemma trim_space_id : forall w, no_space_ends w -> trim_space w = w.
  Proof.
    intros w [H1 H2]. unfold trim_space. rewrite (trim_left_id w H1), (trim_left_id (rev w) H2). apply rev_involutive.
  Qed.

  Lemma WriteWord_inv : forall f ts w tw, Inv f ts -> piece w tw -> no_space_ends w ->
    (open_end (out f) -> pre_text f <> [] \/ safe_head w) ->
    Inv (WriteWord o w f) (ts ++ tw) /\ padNext (WriteWord o w f) = true /\ lineHead (WriteWord o w f) = false
    /\ isz (WriteWord o w f) = isz f /\ out (WriteWord o w f) = rev w ++ rev (pre_text f) ++ out f.
  Proof.
    intros f ts w tw Hf Hp Hn Hs. destruct (pre_spec f) as [P1 [P2 P3]].
    assert (Hout : out (WriteWord o w f) = rev w ++ rev (pre_text f) ++ out f).
    { unfold WriteWord, emit. cbn [out]. rewrite (trim_space_id w Hn), rev_append_rev, P1. reflexivity. }
    assert (Hlh : lineHead (WriteWord o w f) = false) by (unfold WriteWord, emit; cbn [lineHead]; exact P2).
    split; [exact (inv_write f ts w tw _ Hf Hp Hs Hout Hlh)|]. split; [reflexivity|]. split; [exact Hlh|]. split; [|exact Hout].
    unfold WriteWord, emit. cbn [isz]. exact P3.
  Qed.

  Lemma WriteString_inv : forall f ts w tw, Inv f ts -> piece w tw ->
    (open_end (out f) -> pre_text f <> [] \/ safe_head w) ->
    Inv (WriteString o w f) (ts ++ tw) /\ padNext (WriteString o w f) = false /\ lineHead (WriteString o w f) = false
    /\ isz (WriteString o w f) = isz f /\ out (WriteString o w f) = rev w ++ rev (pre_text f) ++ out f.
  Proof.
    intros f ts w tw Hf Hp Hs. destruct (pre_spec f) as [P1 [P2 P3]].
    assert (Hout : out (WriteString o w f) = rev w ++ rev (pre_text f) ++ out f).
    { unfold WriteString, emit. cbn [out]. rewrite rev_append_rev, P1. reflexivity. }
    assert (Hlh : lineHead (WriteString o w f) = false) by (unfold WriteString, emit; cbn [lineHead]; exact P2).
    split; [exact (inv_write f ts w tw _ Hf Hp Hs Hout Hlh)|]. split; [reflexivity|]. split; [exact Hlh|]. split; [|exact Hout].
    unfold WriteString, emit. cbn [isz]. exact P3.
  Qed.

  Lemma WriteNewline_inv : forall f ts, Inv f ts ->
    Inv (WriteNewline f) ts /\ lineHead (WriteNewline f) = true /\ ~ open_end (out (WriteNewline f)) /\ isz (WriteNewline f) = isz f.
  Proof.
    intros f ts [Hf Hl]. unfold WriteNewline. cbn [out lineHead isz]. split; [|split; [reflexivity|split; [|reflexivity]]].
    - split; [|intros _; cbn [out]; eexists; reflexivity]. intros X tsX _ HtX. cbn [out rev]. rewrite <- app_assoc. cbn [app].
      apply Hf; [intros _; left; right; right; right; reflexivity|].
      apply (toks_ign d [10] X tsX); [constructor; [right; right; right; reflexivity|constructor]|exact HtX].
    - cbn. intro H. apply H. left. left. right. right. right. reflexivity.
  Qed.

  (* the operations that touch neither the text nor the line head *)
  Lemma Inv_same_out : forall f f' ts, Inv f ts -> out f' = out f -> lineHead f' = lineHead f -> Inv f' ts.
  Proof. intros f f' ts [H1 H2] Eo El. split; rewrite Eo; [exact H1|rewrite El; exact H2]. Qed.

  (* ---- pieces ---- *)
  Lemma piece_punct : forall c k, punct c = Some k -> 33 <= c -> c <> 44 -> c <> 239 -> piece [c] [(k, [])].
  Proof.
    intros c k Hk H1 H2 H3. split; [discriminate|]. intros X tsX _ HtX. cbn [app]. apply toks_punct; assumption.
  Qed.

  Lemma piece_name : forall v, name_text v -> piece v [(Name, v)].
  Proof.
    intros v Hv. split; [destruct Hv as [c [tl [-> _]]]; discriminate|]. intros X tsX HX HtX. cbn [app].
    apply toks_name; [exact Hv| |exact HtX]. apply safe_noname. apply HX.
    destruct Hv as [c [tl [-> [Hc Htl]]]].
    assert (Hlast : forall l, l <> [] -> forallb is_name_cont l = true -> open_end (rev l)).
    { intros l Hl Hall. destruct (rev l) as [|x r] eqn:E; [apply (f_equal (@rev N)) in E; rewrite rev_involutive in E; cbn in E; congruence|].
      assert (Hx : is_name_cont x = true).
      { rewrite forallb_forall in Hall. apply Hall. apply in_rev. rewrite E. left. reflexivity. }
      cbn. intros [[[-> | [-> | [-> | ->]]]|[k Hk]]| ->]; try (cbn in Hx; discriminate).
      unfold punct in Hk. repeat match type of Hk with (if (x =? ?n) then _ else _) = _ => destruct (N.eqb_spec x n); [subst; discriminate|] end. discriminate. }
    apply (Hlast (c :: tl)); [discriminate|]. cbn [forallb]. rewrite Htl.
    assert (is_name_cont c = true) as ->; [|reflexivity].
    unfold is_name_start, is_name_cont in *. apply orb_true_iff. left. exact Hc.
  Qed.

  Lemma piece_comma : piece [44] [].
  Proof.
    split; [discriminate|]. intros X tsX _ HtX. cbn [app].
    apply (toks_ign d [44] X tsX); [constructor; [right; right; left; reflexivity|constructor]|exact HtX].
  Qed.

  Lemma piece_app : forall w1 t1 w2 t2, piece w1 t1 -> piece w2 t2 -> (open_end (rev w1) -> safe_head w2) -> piece (w1 ++ w2) (t1 ++ t2).
  Proof.
    intros w1 t1 w2 t2 [N1 P1] [N2 P2] Hs. split; [destruct w1; [congruence|discriminate]|].
    intros X tsX HX HtX. rewrite <- !app_assoc. apply P1.
    - intro Ho. destruct w2 as [|c r]; [congruence|]. exact (Hs Ho).
    - apply P2; [|exact HtX]. intro Ho. apply HX. rewrite rev_app_distr. apply open_end_app; assumption.
  Qed.

  Lemma piece_cons_punct : forall c k w tw, punct c = Some k -> 33 <= c -> c <> 44 -> c <> 239 -> piece w tw -> piece (c :: w) ((k, []) :: tw).
  Proof.
    intros c k w tw Hk H1 H2 H3 Hw. change (c :: w) with ([c] ++ w). change ((k, []) :: tw) with ([(k, [])] ++ tw).
    apply piece_app; [apply piece_punct; assumption|exact Hw|].
    intro Ho. exfalso. apply Ho. left. right. exists k. exact Hk.
  Qed.

  Lemma piece_snoc_punct : forall c k w tw, punct c = Some k -> 33 <= c -> c <> 44 -> c <> 239 -> piece w tw -> piece (w ++ [c]) (tw ++ [(k, [])]).
  Proof.
    intros c k w tw Hk H1 H2 H3 Hw. apply piece_app; [exact Hw|apply piece_punct; assumption|].
    intros _. right. exists k. exact Hk.
  Qed.

  (* ---- types ---- *)
  Lemma piece_type : forall t, type_names_ok t -> piece (type_string t) (flat_type t).
  Proof.
    induction t as [n nn p|e IH nn p]; intro Hok; cbn [type_string flat_type].
    - cbn in Hok. destruct nn.
      + apply (piece_snoc_punct 33 Bang n [(Name, n)]); try reflexivity; try lia; try discriminate. apply piece_name. exact Hok.
      + rewrite app_nil_r. apply piece_name. exact Hok.
    - cbn in Hok. apply (piece_cons_punct 91 BracketL); try reflexivity; try lia; try discriminate.
      destruct nn.
      + change (93 :: [33]) with ([93] ++ [33]). change (P BracketR :: [P Bang]) with ([P BracketR] ++ [P Bang]). rewrite !app_assoc.
        apply (piece_snoc_punct 33 Bang); try reflexivity; try lia; try discriminate.
        apply (piece_snoc_punct 93 BracketR); try reflexivity; try lia; try discriminate. apply IH. exact Hok.
      + apply (piece_snoc_punct 93 BracketR); try reflexivity; try lia; try discriminate. apply IH. exact Hok.
  Qed.

  (* ---- values ---- *)
  Hypothesis lookahead : d F_L1 = false.

  Fixpoint unblock (v : value) : value :=
    match v with
    | mkValue k raw ch p => mkValue (erase_kind k) raw (map (fun c => let '(n, op, cv) := c in (n, op, unblock cv)) ch) p
    end.

  Lemma piece_number : forall (k : kind) v, ((k = Int /\ int_value v) \/ (k = Float /\ float_value v)) -> piece v [(k, v)].
  Proof.
    intros k v Hv. split.
    - destruct Hv as [[_ H]|[_ H]]; [destruct (int_head v H) as [c [tl [-> _]]]|destruct (float_head v H) as [c [tl [-> _]]]]; discriminate.
    - intros X tsX HX HtX. cbn [app].
      assert (Hopen : open_end (rev v)).
      { assert (Hlast : exists c r, rev v = c :: r /\ (is_digit c = true)).
        { destruct Hv as [[_ H]|[_ H]]; [exact (int_last v H)|exact (float_last v H)]. }
        destruct Hlast as [c [r [E Hc]]]. rewrite E. cbn. intros [[[-> | [-> | [-> | ->]]]|[k0 Hk]]| ->]; try (cbn in Hc; discriminate).
        unfold punct in Hk. repeat match type of Hk with (if (c =? ?n) then _ else _) = _ => destruct (N.eqb_spec c n); [subst; discriminate|] end. discriminate. }
      apply (toks_cons d _ X k v tsX); [destruct Hv as [[-> _]|[-> _]]; discriminate| |exact HtX].
      intros s Hs. apply (fresh_number d s k v X lookahead Hs Hv). apply safe_follow. exact (HX Hopen).
  Qed.

  Lemma piece_string : forall v, wf_utf8 v -> piece (quoteString v) [(String_, v)].
  Proof.
    intros v Hwf. split; [discriminate|]. intros X tsX HX HtX. cbn [app].
    assert (Hopen : open_end (rev (quoteString v))).
    { unfold quoteString. cbn [rev]. rewrite rev_app_distr. cbn [rev app]. unfold open_end, end_safe, safe_char, ign_char. intros [[[E | [E | [E | E]]]|[k Hk]]|E]; discriminate. }
    apply (toks_cons d _ X String_ v tsX); [discriminate| |exact HtX].
    intros s Hs. apply (fresh_string d s v X Hs Hwf). intros _. apply safe_noquote. exact (HX Hopen).
  Qed.

  Lemma piece_join : forall (A : Type) (txt : A -> str) (tkf : A -> list tk) l, l <> [] ->
    Forall (fun a => piece (txt a) (tkf a)) l -> piece (join [44] (map txt l)) (flat_map tkf l).
  Proof.
    intros A txt tkf. induction l as [|a tl IH]; intros Hne Hall; [congruence|].
    inversion Hall as [|a0 tl0 Ha Htl]; subst. destruct tl as [|b tl'].
    - cbn [map join flat_map]. rewrite app_nil_r. exact Ha.
    - change (join [44] (map txt (a :: b :: tl'))) with (txt a ++ [44] ++ join [44] (map txt (b :: tl'))).
      change (flat_map tkf (a :: b :: tl')) with (tkf a ++ [] ++ flat_map tkf (b :: tl')).
      apply piece_app; [exact Ha| |intros _; left; right; right; left; reflexivity].
      apply piece_app; [exact piece_comma|apply IH; [discriminate|exact Htl]|].
      intro Ho. exfalso. apply Ho. left. left. right. right. left. reflexivity.
  Qed.

  Lemma scalar_ok_inv : forall k raw, scalar_ok k raw ->
    match k with
    | VVar => name_text raw
    | VInt => int_value raw
    | VFloat => float_value raw
    | VString | VBlock => wf_utf8 raw
    | VEnum | VBool | VNull => name_text raw
    | _ => False
    end.
  Proof.
    intros k raw H. destruct H as [n Hn|r Hr|r Hr|r Hr|r Hr|r Hr]; try assumption.
    unfold word_kind. destruct (str_eqb r (b "true") || str_eqb r (b "false")); [exact Hr|]. destruct (str_eqb r (b "null")); exact Hr.
  Qed.

  Theorem piece_value : forall v, value_ok v -> piece (value_string v) (flat_value (unblock v)).
  Proof.
    induction v as [k raw ch p IH] using value_ind'. intro Hok.
    assert (Hsc : scalar_ok k raw /\ ch = [] -> match k with VList | VObject => False | _ => True end ->
              piece (value_string (mkValue k raw ch p)) (flat_value (unblock (mkValue k raw ch p)))).
    { intros [Hs ->] Hk. pose proof (scalar_ok_inv k raw Hs) as Hi. cbn [unblock map value_string flat_value].
      destruct k; cbn [erase_kind]; try (exfalso; exact Hk).
      - change (36 :: raw) with ([36] ++ raw). change [P Dollar; (Name, raw)] with ([P Dollar] ++ [(Name, raw)]).
        apply piece_app; [apply piece_punct; try reflexivity; try lia; discriminate|apply piece_name; exact Hi|].
        intro Ho. exfalso. apply Ho. left. right. exists Dollar. reflexivity.
      - apply piece_number. left. auto.
      - apply piece_number. right. auto.
      - apply piece_string. exact Hi.
      - apply piece_string. exact Hi.
      - apply piece_name. exact Hi.
      - apply piece_name. exact Hi.
      - apply piece_name. exact Hi. }
    destruct k; try (apply Hsc; [exact Hok|exact I]).
    - (* a list *)
      clear Hsc. destruct Hok as [-> Hch]. cbn [unblock erase_kind value_string flat_value].
      assert (Hcase : ch = [] \/ ch <> []) by (destruct ch; [left; reflexivity|right; discriminate]). destruct Hcase as [->|Hne].
      + cbn [map join flat_map app]. change [91; 93] with ([91] ++ [93]). change [P BracketL; P BracketR] with ([P BracketL] ++ [P BracketR]).
        apply piece_app; [apply piece_punct; try reflexivity; try lia; discriminate|apply piece_punct; try reflexivity; try lia; discriminate|].
        intros _. right. exists BracketR. reflexivity.
      + idtac.
        apply (piece_cons_punct 91 BracketL); try reflexivity; try lia; try discriminate.
        apply (piece_snoc_punct 93 BracketR); try reflexivity; try lia; try discriminate.
        assert (Hall : Forall (fun c : str * option pos * value => piece (value_string (snd c)) (flat_value (unblock (snd c)))) ch).
        { rewrite Forall_forall in IH. apply Forall_forall. intros c Hin. apply (IH c Hin).
          clear - Hin Hch. induction ch as [|[[n1 o1] c1] r IHl]; [destruct Hin|]. destruct Hch as [_ [Hc1 Hr]].
          destruct Hin as [<-|Hin]; [exact Hc1|exact (IHl Hr Hin)]. }
        pose proof (piece_join _ (fun c : str * option pos * value => value_string (snd c)) (fun c => flat_value (unblock (snd c))) ch Hne Hall) as Hj.
        assert (E1 : map (fun c : str * option pos * value => let '(_, _, cv) := c in value_string cv) ch = map (fun c => value_string (snd c)) ch)
          by (apply map_ext; intros [[n0 o0] cv]; reflexivity).
        assert (E2 : flat_map (fun c : str * option pos * value => let '(_, _, cv) := c in flat_value cv) (map (fun c : str * option pos * value => let '(n, op, cv) := c in (n, op, unblock cv)) ch)
                     = flat_map (fun c => flat_value (unblock (snd c))) ch).
        { clear. induction ch as [|[[n0 o0] cv] r IHr]; [reflexivity|]. cbn [map flat_map snd]. rewrite IHr. reflexivity. }
        rewrite E1, E2. exact Hj.
    - (* an input object *)
      clear Hsc. destruct Hok as [-> Hch]. cbn [unblock erase_kind value_string flat_value].
      assert (Hcase : ch = [] \/ ch <> []) by (destruct ch; [left; reflexivity|right; discriminate]). destruct Hcase as [->|Hne].
      + cbn [map join flat_map app]. change [123; 125] with ([123] ++ [125]). change [P BraceL; P BraceR] with ([P BraceL] ++ [P BraceR]).
        apply piece_app; [apply piece_punct; try reflexivity; try lia; discriminate|apply piece_punct; try reflexivity; try lia; discriminate|].
        intros _. right. exists BraceR. reflexivity.
      + idtac.
        apply (piece_cons_punct 123 BraceL); try reflexivity; try lia; try discriminate.
        apply (piece_snoc_punct 125 BraceR); try reflexivity; try lia; try discriminate.
        assert (Hall : Forall (fun c : str * option pos * value => piece (fst (fst c) ++ 58 :: value_string (snd c)) ((Name, fst (fst c)) :: P Colon :: flat_value (unblock (snd c)))) ch).
        { rewrite Forall_forall in IH. apply Forall_forall. intros c Hin.
          assert (Hc : name_text (fst (fst c)) /\ value_ok (snd c)).
          { clear - Hin Hch. induction ch as [|[[n1 o1] c1] r IHl]; [destruct Hin|]. destruct Hch as [Hn1 [Hc1 Hr]].
            destruct Hin as [<-|Hin]; [split; assumption|exact (IHl Hr Hin)]. }
          destruct Hc as [Hn Hv].
          change ((Name, fst (fst c)) :: P Colon :: flat_value (unblock (snd c))) with ([(Name, fst (fst c))] ++ (P Colon :: flat_value (unblock (snd c)))).
          apply piece_app; [apply piece_name; exact Hn| |intros _; right; exists Colon; reflexivity].
          apply (piece_cons_punct 58 Colon); try reflexivity; try lia; try discriminate. exact (IH c Hin Hv). }
        pose proof (piece_join _ (fun c : str * option pos * value => fst (fst c) ++ 58 :: value_string (snd c))
                      (fun c => (Name, fst (fst c)) :: P Colon :: flat_value (unblock (snd c))) ch Hne Hall) as Hj.
        match goal with |- piece (join [44] (map ?g ch)) (flat_map ?h (map ?u ch)) =>
          assert (E1 : map g ch = map (fun c : str * option pos * value => fst (fst c) ++ 58 :: value_string (snd c)) ch)
            by (apply map_ext; intros [[n0 o0] cv]; reflexivity);
          assert (E2 : flat_map h (map u ch) = flat_map (fun c : str * option pos * value => (Name, fst (fst c)) :: P Colon :: flat_value (unblock (snd c))) ch)
            by (clear; induction ch as [|[[n0 o0] cv] r IHr]; [reflexivity|]; cbn [map flat_map fst snd]; rewrite IHr; reflexivity)
        end.
        rewrite E1, E2. exact Hj.
  Qed.

  (* ---- state facts ---- *)
  (* a word may be written now: the text so far does not end inside a word, or something will be put in between *)
  Definition Ready (f : fmt) : Prop := open_end (out f) -> pre_text f <> [].
  Definition padded (f : fmt) : Prop := padNext f = true /\ lineHead f = false.

  Lemma ready_padded : forall f, padded f -> Ready f.
  Proof. intros f [H1 H2] _. unfold pre_text. rewrite H2, H1. discriminate. Qed.
  Lemma ready_closed : forall f, ~ open_end (out f) -> Ready f.
  Proof. intros f H Ho. contradiction. Qed.
  Lemma ready_start : forall f w, Ready f -> open_end (out f) -> pre_text f <> [] \/ safe_head w.
  Proof. intros f w H Ho. left. exact (H Ho). Qed.
  Lemma start_punct : forall f c k w, punct c = Some k -> open_end (out f) -> pre_text f <> [] \/ safe_head (c :: w).
  Proof. intros f c k w Hk _. right. right. exists k. exact Hk. Qed.
  Lemma closed_punct_out : forall c k r, punct c = Some k -> ~ open_end (c :: r).
  Proof. intros c k r Hk H. apply H. left. right. exists k. exact Hk. Qed.

  Definition norm_arg (a : argument) : argument := mkArg a.(a_name) (unblock a.(a_value)) a.(a_pos).
  Definition norm_dir (x : directive) : directive := mkDir x.(d_name) (map norm_arg x.(d_args)) x.(d_pos).
  Definition arg_lok (a : argument) : Prop := name_text a.(a_name) /\ value_ok a.(a_value).
  Definition dir_lok (x : directive) : Prop := name_text x.(d_name) /\ Forall arg_lok x.(d_args).

  Lemma name_no_space : forall v, name_text v -> no_space_ends v.
  Proof.
    intros v [c [tl [-> [Hc Htl]]]].
    assert (Hns : forall x, is_name_cont x = true -> is_space x = false).
    { intros x Hx. unfold is_space. destruct (N.eqb_spec x 32) as [->|]; [discriminate|]. cbn [orb].
      unfold in_range. destruct (9 <=? x) eqn:E1; [|reflexivity]. destruct (x <=? 13) eqn:E2; [|reflexivity].
      apply N.leb_le in E1. apply N.leb_le in E2. exfalso.
      assert (Hx' : x = 9 \/ x = 10 \/ x = 11 \/ x = 12 \/ x = 13) by lia. destruct Hx' as [-> | [-> | [-> | [-> | ->]]]]; discriminate. }
    assert (Hcc : is_name_cont c = true) by (unfold is_name_start, is_name_cont in *; apply orb_true_iff; left; exact Hc).
    split; [cbn; apply Hns; exact Hcc|].
    destruct (rev (c :: tl)) as [|x r] eqn:E; [exact I|]. apply Hns.
    assert (Hin : In x (c :: tl)) by (apply in_rev; rewrite E; left; reflexivity).
    destruct Hin as [<-|Hin]; [exact Hcc|]. rewrite forallb_forall in Htl. exact (Htl x Hin).
  Qed.

  Lemma punct_no_space : forall c k, punct c = Some k -> no_space_ends [c].
  Proof.
    intros c k Hk. unfold punct in Hk.
    repeat match type of Hk with (if (c =? ?n) then _ else _) = _ => destruct (N.eqb_spec c n); [subst; split; reflexivity|] end. discriminate.
  Qed.

  (* ---- argument lists ---- *)
  Lemma args_items : forall l f ts, Forall arg_lok l -> Inv f ts -> Ready f -> lineHead f = false ->
    Inv (FormatArgumentList_items o l f) (ts ++ flat_map flat_arg (map norm_arg l))
    /\ lineHead (FormatArgumentList_items o l f) = false /\ isz (FormatArgumentList_items o l f) = isz f.
  Proof.
    induction l as [|a tl IH]; intros f ts Hl Hf Hr Hlh.
    - cbn [FormatArgumentList_items map flat_map]. rewrite app_nil_r. auto.
    - inversion Hl as [|a0 tl0 [Hn Hv] Htl]; subst. cbn [FormatArgumentList_items map flat_map].
      (* name *)
      destruct (WriteWord_inv f ts (a_name a) [(Name, a_name a)] Hf (piece_name _ Hn) (name_no_space _ Hn) (ready_start f _ Hr)) as [I1 [P1 [L1 [Z1 O1]]]].
      set (f1 := WriteWord o (a_name a) f) in *.
      (* colon *)
      assert (I1n : Inv (NoPadding f1) (ts ++ [(Name, a_name a)])) by (apply (Inv_same_out f1); [exact I1|reflexivity|reflexivity]).
      destruct (WriteString_inv (NoPadding f1) _ [58] [P Colon] I1n (piece_punct 58 Colon eq_refl ltac:(lia) ltac:(discriminate) ltac:(discriminate))
                  (start_punct _ 58 Colon [] eq_refl)) as [I2 [P2 [L2 [Z2 O2]]]].
      set (f2 := WriteString o [58] (NoPadding f1)) in *.
      (* value *)
      assert (I2n : Inv (NeedPadding f2) ((ts ++ [(Name, a_name a)]) ++ [P Colon])) by (apply (Inv_same_out f2); [exact I2|reflexivity|reflexivity]).
      assert (R2 : Ready (NeedPadding f2)) by (apply ready_padded; split; [reflexivity|exact L2]).
      destruct (WriteString_inv (NeedPadding f2) _ (value_string (a_value a)) (flat_value (unblock (a_value a))) I2n (piece_value _ Hv)
                  (ready_start _ _ R2)) as [I3 [P3 [L3 [Z3 O3]]]].
      set (f3 := WriteString o (value_string (a_value a)) (NeedPadding f2)) in *.
      assert (Etok : ((ts ++ [(Name, a_name a)]) ++ [P Colon]) ++ flat_value (unblock (a_value a)) = ts ++ flat_arg (norm_arg a)).
      { unfold flat_arg, norm_arg. cbn [a_name a_value]. rewrite <- !app_assoc. reflexivity. }
      rewrite Etok in I3.
      assert (Z3' : isz f3 = isz f) by (rewrite Z3; cbn [NeedPadding isz]; rewrite Z2; cbn [NoPadding isz]; exact Z1).
      destruct tl as [|b tl'].
      + cbn [is_last FormatArgumentList_items map flat_map]. rewrite app_nil_r. auto.
      + cbn [is_last].
        assert (I3n : Inv (NoPadding f3) (ts ++ flat_arg (norm_arg a))) by (apply (Inv_same_out f3); [exact I3|reflexivity|reflexivity]).
        destruct (WriteWord_inv (NoPadding f3) _ [44] [] I3n piece_comma ltac:(split; reflexivity)
                    ltac:(intros _; right; left; right; right; left; reflexivity)) as [I4 [P4 [L4 [Z4 O4]]]].
        rewrite app_nil_r in I4.
        destruct (IH _ _ Htl I4 (ready_padded _ (conj P4 L4)) L4) as [I5 [L5 Z5]].
        split; [|split; [exact L5|]].
        * rewrite <- app_assoc in I5. exact I5.
        * rewrite Z5, Z4. cbn [NoPadding isz]. exact Z3'.
  Qed.

  Lemma FormatArgumentList_inv : forall l f ts, Forall arg_lok l -> Inv f ts -> lineHead f = false ->
    Inv (FormatArgumentList o l f) (ts ++ flat_args (map norm_arg l))
    /\ lineHead (FormatArgumentList o l f) = false /\ isz (FormatArgumentList o l f) = isz f
    /\ (l = [] /\ FormatArgumentList o l f = f \/ padded (FormatArgumentList o l f)).
  Proof.
    intros l f ts Hl Hf Hlh. destruct l as [|a tl].
    - cbn [FormatArgumentList map flat_args]. rewrite app_nil_r. auto 6.
    - remember (a :: tl) as l eqn:El. assert (Efa : FormatArgumentList o l f = NeedPadding (WriteString o [41] (FormatArgumentList_items o l (WriteString o [40] (NoPadding f))))) by (subst l; reflexivity). rewrite Efa.
      assert (Hfn : Inv (NoPadding f) ts) by (apply (Inv_same_out f); [exact Hf|reflexivity|reflexivity]).
      destruct (WriteString_inv (NoPadding f) _ [40] [P ParenL] Hfn (piece_punct 40 ParenL eq_refl ltac:(lia) ltac:(discriminate) ltac:(discriminate))
                  (start_punct _ 40 ParenL [] eq_refl)) as [I1 [P1 [L1 [Z1 O1]]]].
      set (f1 := WriteString o [40] (NoPadding f)) in *.
      assert (R1 : Ready f1) by (apply ready_closed; rewrite O1; cbn [rev app]; apply (closed_punct_out 40 ParenL); reflexivity).
      destruct (args_items l f1 _ Hl I1 R1 L1) as [I2 [L2 Z2]].
      set (f2 := FormatArgumentList_items o l f1) in *.
      destruct (WriteString_inv f2 _ [41] [P ParenR] I2 (piece_punct 41 ParenR eq_refl ltac:(lia) ltac:(discriminate) ltac:(discriminate))
                  (start_punct _ 41 ParenR [] eq_refl)) as [I3 [P3 [L3 [Z3 O3]]]].
      set (f3 := WriteString o [41] f2) in *.
      split; [|split; [exact L3|split; [|right; split; [reflexivity|exact L3]]]].
      + apply (Inv_same_out f3); [|reflexivity|reflexivity].
        assert (E : ((ts ++ [P ParenL]) ++ flat_map flat_arg (map norm_arg l)) ++ [P ParenR] = ts ++ flat_args (map norm_arg l)).
        { subst l. unfold flat_args. cbn [map]. rewrite <- !app_assoc. reflexivity. }
        rewrite <- E. exact I3.
      + cbn [NeedPadding isz]. rewrite Z3, Z2, Z1. reflexivity.
  Qed.

  (* ---- directives ---- *)
  Lemma flat_dir_norm : forall x, flat_dir (norm_dir x) = P At :: (Name, d_name x) :: flat_args (map norm_arg (d_args x)).
  Proof. intros [n args p]. reflexivity. Qed.

  Lemma FormatDirective_inv : forall x f ts, dir_lok x -> Inv f ts -> lineHead f = false ->
    Inv (FormatDirective o x f) (ts ++ flat_dir (norm_dir x))
    /\ lineHead (FormatDirective o x f) = false /\ isz (FormatDirective o x f) = isz f /\ padded (FormatDirective o x f).
  Proof.
    intros x f ts [Hn Ha] Hf Hlh. unfold FormatDirective.
    destruct (WriteString_inv f _ [64] [P At] Hf (piece_punct 64 At eq_refl ltac:(lia) ltac:(discriminate) ltac:(discriminate))
                (start_punct _ 64 At [] eq_refl)) as [I1 [P1 [L1 [Z1 O1]]]].
    set (f1 := WriteString o [64] f) in *.
    assert (R1 : Ready f1) by (apply ready_closed; rewrite O1; cbn [rev app]; apply (closed_punct_out 64 At); reflexivity).
    destruct (WriteWord_inv f1 _ (d_name x) [(Name, d_name x)] I1 (piece_name _ Hn) (name_no_space _ Hn) (ready_start _ _ R1)) as [I2 [P2 [L2 [Z2 O2]]]].
    set (f2 := WriteWord o (d_name x) f1) in *.
    destruct (FormatArgumentList_inv (d_args x) f2 _ Ha I2 L2) as [I3 [L3 [Z3 E3]]].
    split; [|split; [exact L3|split; [rewrite Z3, Z2, Z1; reflexivity|]]].
    - rewrite flat_dir_norm. rewrite <- !app_assoc in I3. exact I3.
    - destruct E3 as [[_ E]|E]; [rewrite E; split; [exact P2|exact L2]|exact E].
  Qed.

  Lemma FormatDirectiveList_inv : forall l f ts, Forall dir_lok l -> Inv f ts -> lineHead f = false ->
    Inv (FormatDirectiveList o l f) (ts ++ flat_dirs (map norm_dir l))
    /\ lineHead (FormatDirectiveList o l f) = false /\ isz (FormatDirectiveList o l f) = isz f
    /\ (l = [] /\ FormatDirectiveList o l f = f \/ padded (FormatDirectiveList o l f)).
  Proof.
    unfold FormatDirectiveList. induction l as [|x tl IH]; intros f ts Hl Hf Hlh.
    - cbn [fold_left map flat_dirs flat_map]. rewrite app_nil_r. auto 6.
    - inversion Hl as [|x0 tl0 Hx Htl]; subst. cbn [fold_left map].
      destruct (FormatDirective_inv x f ts Hx Hf Hlh) as [I1 [L1 [Z1 P1]]].
      destruct (IH _ _ Htl I1 L1) as [I2 [L2 [Z2 E2]]].
      split; [|split; [exact L2|split; [rewrite Z2, Z1; reflexivity|right]]].
      + unfold flat_dirs in *. cbn [flat_map]. rewrite <- app_assoc in I2. exact I2.
      + destruct E2 as [[_ E]|E]; [rewrite E; exact P1|exact E].
  Qed.

  (* ---- types as words ---- *)
  Lemma type_no_space : forall t, type_names_ok t -> no_space_ends (type_string t).
  Proof.
    assert (Hlast : forall (w : str) c, match rev (w ++ [c]) with x :: _ => x = c | [] => False end).
    { intros w c. rewrite rev_app_distr. reflexivity. }
    induction t as [n nn p|e IH nn p]; intro Hok; cbn [type_string]; cbn in Hok.
    - destruct nn.
      + destruct (name_no_space n Hok) as [H1 _]. split.
        * destruct Hok as [c [tl [-> _]]]. exact H1.
        * rewrite rev_app_distr. reflexivity.
      + rewrite app_nil_r. apply name_no_space. exact Hok.
    - split; [reflexivity|]. destruct nn.
      + cbn [rev]. rewrite rev_app_distr. reflexivity.
      + cbn [rev]. rewrite rev_app_distr. reflexivity.
  Qed.

  (* ---- variable definitions ---- *)
  Definition norm_vardef (v : vardef) : vardef :=
    mkVarDef v.(vd_var) v.(vd_type) (option_map unblock v.(vd_default)) (map norm_dir v.(vd_dirs)) v.(vd_pos).
  Definition vardef_lok (v : vardef) : Prop :=
    name_text v.(vd_var) /\ type_names_ok v.(vd_type)
    /\ match v.(vd_default) with Some dv => value_ok dv | None => True end /\ Forall dir_lok v.(vd_dirs).

  Lemma FormatVariableDefinition_inv : forall v f ts, vardef_lok v -> Inv f ts -> lineHead f = false ->
    Inv (FormatVariableDefinition o v f) (ts ++ flat_vardef (norm_vardef v))
    /\ lineHead (FormatVariableDefinition o v f) = false /\ isz (FormatVariableDefinition o v f) = isz f
    /\ padded (FormatVariableDefinition o v f).
  Proof.
    intros [n t dv dirs p] f ts [Hn [Ht [Hdv Hdirs]]] Hf Hlh. cbn [vd_var vd_type vd_default vd_dirs] in *.
    unfold FormatVariableDefinition. cbn [vd_var vd_type vd_default vd_dirs].
    destruct (WriteString_inv f _ [36] [P Dollar] Hf (piece_punct 36 Dollar eq_refl ltac:(lia) ltac:(discriminate) ltac:(discriminate))
                (start_punct _ 36 Dollar [] eq_refl)) as [I1 [P1 [L1 [Z1 O1]]]].
    set (f1 := WriteString o [36] f) in *.
    assert (R1 : Ready f1) by (apply ready_closed; rewrite O1; cbn [rev app]; apply (closed_punct_out 36 Dollar); reflexivity).
    destruct (WriteWord_inv f1 _ n [(Name, n)] I1 (piece_name _ Hn) (name_no_space _ Hn) (ready_start _ _ R1)) as [I2 [P2 [L2 [Z2 O2]]]].
    set (f2 := WriteWord o n f1) in *.
    assert (I2n : Inv (NoPadding f2) ((ts ++ [P Dollar]) ++ [(Name, n)])) by (apply (Inv_same_out f2); [exact I2|reflexivity|reflexivity]).
    destruct (WriteString_inv (NoPadding f2) _ [58] [P Colon] I2n (piece_punct 58 Colon eq_refl ltac:(lia) ltac:(discriminate) ltac:(discriminate))
                (start_punct _ 58 Colon [] eq_refl)) as [I3 [P3 [L3 [Z3 O3]]]].
    set (f3 := WriteString o [58] (NoPadding f2)) in *.
    assert (I3n : Inv (NeedPadding f3) (((ts ++ [P Dollar]) ++ [(Name, n)]) ++ [P Colon])) by (apply (Inv_same_out f3); [exact I3|reflexivity|reflexivity]).
    assert (R3 : Ready (NeedPadding f3)) by (apply ready_padded; split; [reflexivity|exact L3]).
    unfold FormatType.
    destruct (WriteWord_inv (NeedPadding f3) _ (type_string t) (flat_type t) I3n (piece_type t Ht) (type_no_space t Ht) (ready_start _ _ R3)) as [I4 [P4 [L4 [Z4 O4]]]].
    set (f4 := WriteWord o (type_string t) (NeedPadding f3)) in *.
    assert (Z4' : isz f4 = isz f) by (rewrite Z4; cbn [NeedPadding isz]; rewrite Z3; cbn [NoPadding isz]; rewrite Z2, Z1; reflexivity).
    assert (Hmid : exists f5, f5 = match dv with Some dv0 => FormatValue o dv0 (WriteWord o [61] f4) | None => f4 end
                    /\ Inv f5 ((((ts ++ [P Dollar]) ++ [(Name, n)]) ++ [P Colon]) ++ flat_type t ++ match option_map unblock dv with Some dv0 => P Equals :: flat_value dv0 | None => [] end)
                    /\ lineHead f5 = false /\ isz f5 = isz f).
    { destruct dv as [dv|]; cbn [option_map].
      - destruct (WriteWord_inv f4 _ [61] [P Equals] I4 (piece_punct 61 Equals eq_refl ltac:(lia) ltac:(discriminate) ltac:(discriminate))
                    (punct_no_space 61 Equals eq_refl) (start_punct _ 61 Equals [] eq_refl)) as [I5 [P5 [L5 [Z5 O5]]]].
        unfold FormatValue.
        destruct (WriteString_inv (WriteWord o [61] f4) _ (value_string dv) (flat_value (unblock dv)) I5 (piece_value _ Hdv)
                    (ready_start _ _ (ready_padded _ (conj P5 L5)))) as [I6 [P6 [L6 [Z6 O6]]]].
        eexists. split; [reflexivity|]. split; [|split; [exact L6|rewrite Z6, Z5; exact Z4']].
        rewrite <- !app_assoc in I6. rewrite <- !app_assoc. exact I6.
      - exists f4. split; [reflexivity|]. split; [rewrite app_nil_r; exact I4|split; [exact L4|exact Z4']]. }
    destruct Hmid as [f5 [E5 [I5 [L5 Z5]]]]. rewrite <- E5.
    assert (I5n : Inv (NeedPadding f5) ((((ts ++ [P Dollar]) ++ [(Name, n)]) ++ [P Colon]) ++ flat_type t ++ match option_map unblock dv with Some dv0 => P Equals :: flat_value dv0 | None => [] end))
      by (apply (Inv_same_out f5); [exact I5|reflexivity|reflexivity]).
    destruct (FormatDirectiveList_inv dirs (NeedPadding f5) _ Hdirs I5n L5) as [I6 [L6 [Z6 E6]]].
    split; [|split; [exact L6|split; [rewrite Z6; cbn [NeedPadding isz]; exact Z5|]]].
    - unfold flat_vardef, norm_vardef. cbn [vd_var vd_type vd_default vd_dirs]. rewrite <- !app_assoc in I6. cbn [app] in I6. rewrite <- ?app_assoc. exact I6.
    - destruct E6 as [[_ E]|E]; [rewrite E; split; [reflexivity|exact L5]|exact E].
  Qed.

  Lemma vardef_items : forall l f ts, Forall vardef_lok l -> Inv f ts -> lineHead f = false ->
    Inv (FormatVariableDefinitionList_items o l f) (ts ++ flat_map flat_vardef (map norm_vardef l))
    /\ lineHead (FormatVariableDefinitionList_items o l f) = false /\ isz (FormatVariableDefinitionList_items o l f) = isz f.
  Proof.
    induction l as [|v tl IH]; intros f ts Hl Hf Hlh.
    - cbn [FormatVariableDefinitionList_items map flat_map]. rewrite app_nil_r. auto.
    - inversion Hl as [|v0 tl0 Hv Htl]; subst. cbn [FormatVariableDefinitionList_items map flat_map].
      destruct (FormatVariableDefinition_inv v f ts Hv Hf Hlh) as [I1 [L1 [Z1 P1]]].
      destruct tl as [|v2 tl'].
      + cbn [is_last FormatVariableDefinitionList_items map flat_map]. rewrite app_nil_r. auto.
      + cbn [is_last].
        assert (I1n : Inv (NoPadding (FormatVariableDefinition o v f)) (ts ++ flat_vardef (norm_vardef v))) by (apply (Inv_same_out (FormatVariableDefinition o v f)); [exact I1|reflexivity|reflexivity]).
        destruct (WriteWord_inv (NoPadding (FormatVariableDefinition o v f)) _ [44] [] I1n piece_comma ltac:(split; reflexivity)
                    ltac:(intros _; right; left; right; right; left; reflexivity)) as [I4 [P4 [L4 [Z4 O4]]]].
        rewrite app_nil_r in I4.
        destruct (IH _ _ Htl I4 L4) as [I5 [L5 Z5]].
        split; [|split; [exact L5|]].
        * rewrite <- app_assoc in I5. exact I5.
        * rewrite Z5, Z4. cbn [NoPadding isz]. exact Z1.
  Qed.

  Lemma FormatVariableDefinitionList_inv : forall l f ts, Forall vardef_lok l -> Inv f ts -> lineHead f = false ->
    Inv (FormatVariableDefinitionList o l f) (ts ++ flat_vardefs (map norm_vardef l))
    /\ lineHead (FormatVariableDefinitionList o l f) = false /\ isz (FormatVariableDefinitionList o l f) = isz f
    /\ (l = [] /\ FormatVariableDefinitionList o l f = f \/ padded (FormatVariableDefinitionList o l f)).
  Proof.
    intros l f ts Hl Hf Hlh. destruct l as [|a tl].
    - cbn [FormatVariableDefinitionList map flat_vardefs]. rewrite app_nil_r. auto 6.
    - remember (a :: tl) as l eqn:El.
      assert (Efa : FormatVariableDefinitionList o l f = NeedPadding (WriteString o [41] (NoPadding (FormatVariableDefinitionList_items o l (WriteString o [40] f))))) by (subst l; reflexivity).
      rewrite Efa.
      destruct (WriteString_inv f _ [40] [P ParenL] Hf (piece_punct 40 ParenL eq_refl ltac:(lia) ltac:(discriminate) ltac:(discriminate))
                  (start_punct _ 40 ParenL [] eq_refl)) as [I1 [P1 [L1 [Z1 O1]]]].
      set (f1 := WriteString o [40] f) in *.
      destruct (vardef_items l f1 _ Hl I1 L1) as [I2 [L2 Z2]].
      set (f2 := FormatVariableDefinitionList_items o l f1) in *.
      assert (I2n : Inv (NoPadding f2) ((ts ++ [P ParenL]) ++ flat_map flat_vardef (map norm_vardef l))) by (apply (Inv_same_out f2); [exact I2|reflexivity|reflexivity]).
      destruct (WriteString_inv (NoPadding f2) _ [41] [P ParenR] I2n (piece_punct 41 ParenR eq_refl ltac:(lia) ltac:(discriminate) ltac:(discriminate))
                  (start_punct _ 41 ParenR [] eq_refl)) as [I3 [P3 [L3 [Z3 O3]]]].
      set (f3 := WriteString o [41] (NoPadding f2)) in *.
      split; [|split; [exact L3|split; [|right; split; [reflexivity|exact L3]]]].
      + apply (Inv_same_out f3); [|reflexivity|reflexivity].
        assert (E : ((ts ++ [P ParenL]) ++ flat_map flat_vardef (map norm_vardef l)) ++ [P ParenR] = ts ++ flat_vardefs (map norm_vardef l)).
        { subst l. unfold flat_vardefs. cbn [map]. rewrite <- !app_assoc. reflexivity. }
        rewrite <- E. exact I3.
      + cbn [NeedPadding isz]. rewrite Z3. cbn [NoPadding isz]. rewrite Z2, Z1. reflexivity.
  Qed.

  (* ---- selections ---- *)
  Lemma toks_spread : forall X ts, toks d X ts -> toks d (46 :: 46 :: 46 :: X) ((Spread, []) :: ts).
  Proof.
    intros X ts Ht. apply (toks_cons d _ X Spread [] ts); [discriminate| |exact Ht].
    intros s [He [Hp [Hl Hr]]].
    exists (mkTok Spread [] (endR (plx s)) (endR (plx s) + 3)%Z (line (plx s)) (endR (plx s) - lsr (plx s) + 1)%Z).
    split; [|split; reflexivity]. split; [reflexivity|]. left. eexists. split; [exact He|]. split; [exact Hp|]. split; [exact Hl|].
    unfold readToken. rewrite Hr. rewrite ws_stays by (try lia; discriminate). cbn [punct N.eqb Pos.eqb]. unfold mk_tok. split; reflexivity.
  Qed.

  Lemma piece_spread : piece [46; 46; 46] [(Spread, [])].
  Proof. split; [discriminate|]. intros X tsX _ HtX. cbn [app]. apply toks_spread. exact HtX. Qed.

  Fixpoint norm_sel (s : selection) : selection :=
    match s with
    | SField al n args dirs sels p =>
      SField (match al with [] => n | _ => al end) n (map norm_arg args) (map norm_dir dirs) (map norm_sel sels) p
    | SSpread n dirs p => SSpread n (map norm_dir dirs) p
    | SInline tc dirs sels p => SInline tc (map norm_dir dirs) (map norm_sel sels) p
    end.

  Fixpoint sel_lok (s : selection) : Prop :=
    match s with
    | SField al n args dirs sels _ =>
      (al = [] \/ name_text al) /\ name_text n /\ Forall arg_lok args /\ Forall dir_lok dirs
      /\ (fix all (l : list selection) : Prop := match l with [] => True | c :: tl => sel_lok c /\ all tl end) sels
    | SSpread n dirs _ => name_text n /\ Forall dir_lok dirs
    | SInline tc dirs sels _ =>
      (tc = [] \/ name_text tc) /\ Forall dir_lok dirs /\ sels <> []
      /\ (fix all (l : list selection) : Prop := match l with [] => True | c :: tl => sel_lok c /\ all tl end) sels
    end.

  Lemma all_lok_Forall : forall sels,
    (fix all (l : list selection) : Prop := match l with [] => True | c :: tl => sel_lok c /\ all tl end) sels -> Forall sel_lok sels.
  Proof. induction sels as [|c tl IH]; intro H; constructor; [exact (proj1 H)|exact (IH (proj2 H))]. Qed.

  Definition sel_set (l : list selection) (f : fmt) : fmt :=
    match l with
    | [] => f
    | _ => WriteString o [125] (DecrementIndent (fold_left (fun acc x => WriteNewline (FormatSelection o x acc)) l
                                                  (IncrementIndent (WriteNewline (WriteString o [123] f)))))
    end.

  Definition Pfs (c : selection) : Prop :=
    sel_lok c -> forall f ts, Inv f ts -> Ready f ->
    Inv (FormatSelection o c f) (ts ++ flat_sel (norm_sel c)) /\ lineHead (FormatSelection o c f) = false
    /\ isz (FormatSelection o c f) = isz f.

  Lemma sel_fold : forall l, Forall Pfs l -> Forall sel_lok l -> forall f ts, Inv f ts -> lineHead f = true ->
    Inv (fold_left (fun acc x => WriteNewline (FormatSelection o x acc)) l f) (ts ++ flat_map flat_sel (map norm_sel l))
    /\ lineHead (fold_left (fun acc x => WriteNewline (FormatSelection o x acc)) l f) = true
    /\ isz (fold_left (fun acc x => WriteNewline (FormatSelection o x acc)) l f) = isz f.
  Proof.
    induction l as [|c tl IH]; intros HP Hl f ts Hf Hlh.
    - cbn [fold_left map flat_map]. rewrite app_nil_r. auto.
    - inversion HP as [|c0 tl0 Hc HPt]; subst. inversion Hl as [|c1 tl1 Hlc Hlt]; subst. cbn [fold_left map flat_map].
      assert (Hr : Ready f).
      { apply ready_closed. destruct Hf as [_ H10]. destruct (H10 Hlh) as [r ->]. cbn. intro H. apply H. left. left. right. right. right. reflexivity. }
      destruct (Hc Hlc f ts Hf Hr) as [I1 [L1 Z1]].
      destruct (WriteNewline_inv _ _ I1) as [I2 [L2 [C2 Z2]]].
      destruct (IH HPt Hlt _ _ I2 L2) as [I3 [L3 Z3]].
      split; [rewrite <- app_assoc in I3; exact I3|]. split; [exact L3|rewrite Z3, Z2, Z1; reflexivity].
  Qed.

  Lemma sel_set_inv : forall l, l <> [] -> Forall Pfs l -> Forall sel_lok l -> forall f ts, Inv f ts ->
    Inv (sel_set l f) (ts ++ flat_selset (map norm_sel l)) /\ lineHead (sel_set l f) = false /\ isz (sel_set l f) = isz f.
  Proof.
    intros l Hne HP Hl f ts Hf. destruct l as [|c tl]; [congruence|]. remember (c :: tl) as l eqn:El.
    assert (E : sel_set l f = WriteString o [125] (DecrementIndent (fold_left (fun acc x => WriteNewline (FormatSelection o x acc)) l
                                                  (IncrementIndent (WriteNewline (WriteString o [123] f)))))) by (subst l; reflexivity).
    rewrite E.
    destruct (WriteString_inv f _ [123] [P BraceL] Hf (piece_punct 123 BraceL eq_refl ltac:(lia) ltac:(discriminate) ltac:(discriminate))
                (start_punct _ 123 BraceL [] eq_refl)) as [I1 [P1 [L1 [Z1 O1]]]].
    destruct (WriteNewline_inv _ _ I1) as [I2 [L2 [C2 Z2]]].
    set (f2 := WriteNewline (WriteString o [123] f)) in *.
    assert (I2i : Inv (IncrementIndent f2) (ts ++ [P BraceL])) by (apply (Inv_same_out f2); [exact I2|reflexivity|reflexivity]).
    destruct (sel_fold l HP Hl (IncrementIndent f2) _ I2i L2) as [I3 [L3 Z3]].
    set (f3 := fold_left (fun acc x => WriteNewline (FormatSelection o x acc)) l (IncrementIndent f2)) in *.
    assert (I3d : Inv (DecrementIndent f3) ((ts ++ [P BraceL]) ++ flat_map flat_sel (map norm_sel l))) by (apply (Inv_same_out f3); [exact I3|reflexivity|reflexivity]).
    destruct (WriteString_inv (DecrementIndent f3) _ [125] [P BraceR] I3d (piece_punct 125 BraceR eq_refl ltac:(lia) ltac:(discriminate) ltac:(discriminate))
                (start_punct _ 125 BraceR [] eq_refl)) as [I4 [P4 [L4 [Z4 O4]]]].
    split; [|split; [exact L4|]].
    - unfold flat_selset. rewrite <- !app_assoc in I4. cbn [app] in I4. exact I4.
    - rewrite Z4. cbn [DecrementIndent isz]. rewrite Z3. cbn [IncrementIndent isz Nat.pred]. rewrite Z2, Z1. reflexivity.
  Qed.

  Lemma FormatSelection_field : forall al n args dirs sels p f,
    FormatSelection o (SField al n args dirs sels p) f
    = sel_set sels (FormatDirectiveList o dirs
        (let f2 := WriteWord o n (if negb (match al with [] => true | _ => false end) && negb (str_eqb al n)
                                  then NeedPadding (WriteString o [58] (NoPadding (WriteWord o al f))) else f) in
         match args with [] => f2 | _ => NeedPadding (FormatArgumentList o args (NoPadding f2)) end)).
  Proof. intros. destruct sels; reflexivity. Qed.

  Lemma FormatSelection_inline : forall tc dirs sels p f,
    FormatSelection o (SInline tc dirs sels p) f
    = sel_set sels (FormatDirectiveList o dirs
        (let f1 := WriteWord o [46; 46; 46] f in match tc with [] => f1 | _ => WriteWord o tc (WriteWord o (b "on") f1) end)).
  Proof. intros. destruct sels; reflexivity. Qed.

  Lemma dots_no_space : no_space_ends [46; 46; 46]. Proof. split; reflexivity. Qed.

  Theorem FormatSelection_inv : forall c, Pfs c.
  Proof.
    induction c as [al n args dirs sels p IH|n dirs p|tc dirs sels p IH] using sel_ind'; intros Hok f ts Hf Hr.
    - (* a field *)
      destruct Hok as [Hal [Hn [Ha [Hd Hs]]]]. apply all_lok_Forall in Hs. rewrite FormatSelection_field. cbv zeta.
      (* the alias *)
      assert (Hhead : exists f1, f1 = (if negb (match al with [] => true | _ => false end) && negb (str_eqb al n)
                                      then NeedPadding (WriteString o [58] (NoPadding (WriteWord o al f))) else f)
                /\ Inv f1 (ts ++ (if str_eqb (match al with [] => n | _ => al end) n then [] else [(Name, al); P Colon]))
                /\ Ready f1 /\ isz f1 = isz f).
      { destruct al as [|a0 al'].
        - cbn [negb andb]. rewrite str_eqb_refl. exists f. rewrite app_nil_r. auto.
        - cbn [negb andb]. destruct (str_eqb (a0 :: al') n) eqn:Ean; cbn [negb].
          + exists f. rewrite app_nil_r. auto.
          + destruct Hal as [Hal|Hal]; [discriminate|].
            destruct (WriteWord_inv f ts _ [(Name, a0 :: al')] Hf (piece_name _ Hal) (name_no_space _ Hal) (ready_start f _ Hr)) as [I1 [P1 [L1 [Z1 O1]]]].
            set (f1 := WriteWord o (a0 :: al') f) in *.
            assert (I1n : Inv (NoPadding f1) (ts ++ [(Name, a0 :: al')])) by (apply (Inv_same_out f1); [exact I1|reflexivity|reflexivity]).
            destruct (WriteString_inv (NoPadding f1) _ [58] [P Colon] I1n (piece_punct 58 Colon eq_refl ltac:(lia) ltac:(discriminate) ltac:(discriminate))
                        (start_punct _ 58 Colon [] eq_refl)) as [I2 [P2 [L2 [Z2 O2]]]].
            set (f2 := WriteString o [58] (NoPadding f1)) in *.
            exists (NeedPadding f2). split; [reflexivity|]. split; [|split].
            * apply (Inv_same_out f2); [|reflexivity|reflexivity]. rewrite <- app_assoc in I2. exact I2.
            * apply ready_padded. split; [reflexivity|exact L2].
            * cbn [NeedPadding isz]. rewrite Z2. cbn [NoPadding isz]. exact Z1. }
      destruct Hhead as [f1 [E1 [I1 [R1 Z1]]]]. rewrite <- E1.
      destruct (WriteWord_inv f1 _ n [(Name, n)] I1 (piece_name _ Hn) (name_no_space _ Hn) (ready_start f1 _ R1)) as [I2 [P2 [L2 [Z2 O2]]]].
      set (f2 := WriteWord o n f1) in *.
      assert (Hargs : exists f3, f3 = match args with [] => f2 | _ => NeedPadding (FormatArgumentList o args (NoPadding f2)) end
                /\ Inv f3 (((ts ++ (if str_eqb (match al with [] => n | _ => al end) n then [] else [(Name, al); P Colon])) ++ [(Name, n)]) ++ flat_args (map norm_arg args))
                /\ lineHead f3 = false /\ isz f3 = isz f).
      { destruct args as [|a0 atl].
        - exists f2. cbn [map flat_args]. rewrite app_nil_r. split; [reflexivity|]. split; [exact I2|]. split; [exact L2|rewrite Z2; exact Z1].
        - assert (I2n : Inv (NoPadding f2) ((ts ++ (if str_eqb (match al with [] => n | _ => al end) n then [] else [(Name, al); P Colon])) ++ [(Name, n)]))
            by (apply (Inv_same_out f2); [exact I2|reflexivity|reflexivity]).
          destruct (FormatArgumentList_inv (a0 :: atl) (NoPadding f2) _ Ha I2n L2) as [I3 [L3 [Z3 _]]].
          eexists. split; [reflexivity|]. split; [apply (Inv_same_out (FormatArgumentList o (a0 :: atl) (NoPadding f2))); [exact I3|reflexivity|reflexivity]|].
          split; [exact L3|]. cbn [NeedPadding isz]. rewrite Z3. cbn [NoPadding isz]. rewrite Z2. exact Z1. }
      destruct Hargs as [f3 [E3 [I3 [L3 Z3]]]]. rewrite <- E3.
      destruct (FormatDirectiveList_inv dirs f3 _ Hd I3 L3) as [I4 [L4 [Z4 _]]].
      set (f4 := FormatDirectiveList o dirs f3) in *.
      assert (Etok : forall tail, (((ts ++ (if str_eqb (match al with [] => n | _ => al end) n then [] else [(Name, al); P Colon])) ++ [(Name, n)]) ++ flat_args (map norm_arg args)) ++ flat_dirs (map norm_dir dirs) ++ tail
                     = ts ++ (if str_eqb (match al with [] => n | _ => al end) n then [(Name, n)] else [(Name, match al with [] => n | _ => al end); P Colon; (Name, n)])
                       ++ flat_args (map norm_arg args) ++ flat_dirs (map norm_dir dirs) ++ tail).
      { intro tail. destruct (str_eqb (match al with [] => n | _ => al end) n) eqn:E.
        - rewrite <- !app_assoc. reflexivity.
        - destruct al as [|a0 al']; [rewrite str_eqb_refl in E; discriminate|]. rewrite <- !app_assoc. reflexivity. }
      cbn [norm_sel]. rewrite flat_sel_field.
      destruct sels as [|s0 stl].
      + cbn [sel_set map flat_optset]. split; [|split; [exact L4|rewrite Z4; exact Z3]].
        specialize (Etok []). rewrite !app_nil_r in Etok. rewrite app_nil_r. rewrite <- Etok. exact I4.
      + destruct (sel_set_inv (s0 :: stl) ltac:(discriminate) IH Hs f4 _ I4) as [I5 [L5 Z5]].
        split; [|split; [exact L5|rewrite Z5, Z4; exact Z3]].
        cbn [map flat_optset]. rewrite <- Etok. rewrite <- app_assoc in I5. exact I5.
    - (* a fragment spread *)
      destruct Hok as [Hn Hd]. cbn [FormatSelection norm_sel flat_sel].
      destruct (WriteWord_inv f ts _ [(Spread, [])] Hf piece_spread dots_no_space (ready_start f _ Hr)) as [I1 [P1 [L1 [Z1 O1]]]].
      set (f1 := WriteWord o [46; 46; 46] f) in *.
      assert (Hc1 : ~ open_end (out f1)) by (rewrite O1; cbn; intro H; apply H; right; reflexivity).
      assert (I2p : exists f2, f2 = (if fo_compact o then NoPadding f1 else f1) /\ Inv f2 (ts ++ [(Spread, [])]) /\ Ready f2 /\ isz f2 = isz f).
      { destruct (fo_compact o).
        - exists (NoPadding f1). split; [reflexivity|]. split; [apply (Inv_same_out f1); [exact I1|reflexivity|reflexivity]|]. split; [apply ready_closed; exact Hc1|exact Z1].
        - exists f1. split; [reflexivity|]. split; [exact I1|]. split; [apply ready_closed; exact Hc1|exact Z1]. }
      destruct I2p as [f2 [E2 [I2 [R2 Z2]]]]. rewrite <- E2.
      destruct (WriteWord_inv f2 _ n [(Name, n)] I2 (piece_name _ Hn) (name_no_space _ Hn) (ready_start f2 _ R2)) as [I3 [P3 [L3 [Z3 O3]]]].
      destruct (FormatDirectiveList_inv dirs _ _ Hd I3 L3) as [I4 [L4 [Z4 _]]].
      split; [|split; [exact L4|rewrite Z4, Z3; exact Z2]].
      rewrite <- !app_assoc in I4. exact I4.
    - (* an inline fragment *)
      destruct Hok as [Htc [Hd [Hne Hs]]]. apply all_lok_Forall in Hs. rewrite FormatSelection_inline. cbv zeta. cbn [norm_sel]. rewrite flat_sel_inline.
      destruct (WriteWord_inv f ts _ [(Spread, [])] Hf piece_spread dots_no_space (ready_start f _ Hr)) as [I1 [P1 [L1 [Z1 O1]]]].
      set (f1 := WriteWord o [46; 46; 46] f) in *.
      assert (Hmid : exists f2, f2 = match tc with [] => f1 | _ => WriteWord o tc (WriteWord o (b "on") f1) end
                /\ Inv f2 ((ts ++ [(Spread, [])]) ++ match tc with [] => [] | _ => [(Name, b "on"); (Name, tc)] end)
                /\ lineHead f2 = false /\ isz f2 = isz f).
      { destruct tc as [|c0 ctl].
        - exists f1. rewrite app_nil_r. auto.
        - destruct Htc as [Htc|Htc]; [discriminate|].
          assert (Hon : name_text (b "on")) by (exists 111, [110]; repeat split).
          destruct (WriteWord_inv f1 _ (b "on") [(Name, b "on")] I1 (piece_name _ Hon) (name_no_space _ Hon) (ready_start f1 _ (ready_padded _ (conj P1 L1)))) as [I2 [P2 [L2 [Z2 O2]]]].
          destruct (WriteWord_inv _ _ (c0 :: ctl) [(Name, c0 :: ctl)] I2 (piece_name _ Htc) (name_no_space _ Htc) (ready_start _ _ (ready_padded _ (conj P2 L2)))) as [I3 [P3 [L3 [Z3 O3]]]].
          eexists. split; [reflexivity|]. split; [rewrite <- !app_assoc in I3; rewrite <- app_assoc; exact I3|]. split; [exact L3|rewrite Z3, Z2; exact Z1]. }
      destruct Hmid as [f2 [E2 [I2 [L2 Z2]]]]. rewrite <- E2.
      destruct (FormatDirectiveList_inv dirs f2 _ Hd I2 L2) as [I3 [L3 [Z3 _]]].
      destruct (sel_set_inv sels Hne IH Hs _ _ I3) as [I4 [L4 Z4]].
      split; [|split; [exact L4|rewrite Z4, Z3; exact Z2]].
      rewrite <- !app_assoc in I4. cbn [app] in I4. cbn [app]. exact I4.
  Qed.

  (* ---- operations, fragments, documents ---- *)
  Definition norm_op (x : opdef) : opdef :=
    mkOp x.(o_op) x.(o_name) (map norm_vardef x.(o_vars)) (map norm_dir x.(o_dirs)) (map norm_sel x.(o_sels)) x.(o_pos).
  Definition norm_frag (x : fragdef) : fragdef :=
    mkFrag x.(f_name) (map norm_vardef x.(f_vars)) x.(f_typecond) (map norm_dir x.(f_dirs)) (map norm_sel x.(f_sels)) x.(f_pos).
  Definition norm_doc (q : qdoc) : qdoc := mkQDoc (map norm_op q.(q_ops)) (map norm_frag q.(q_frags)) q.(q_pos).

  Definition op_lok (x : opdef) : Prop :=
    x.(o_op) <> OpNone /\ (x.(o_name) = [] \/ name_text x.(o_name)) /\ Forall vardef_lok x.(o_vars) /\ Forall dir_lok x.(o_dirs)
    /\ x.(o_sels) <> [] /\ Forall sel_lok x.(o_sels).
  Definition frag_lok (x : fragdef) : Prop :=
    name_text x.(f_name) /\ Forall vardef_lok x.(f_vars) /\ name_text x.(f_typecond) /\ Forall dir_lok x.(f_dirs)
    /\ x.(f_sels) <> [] /\ Forall sel_lok x.(f_sels).
  Definition doc_lok (q : qdoc) : Prop := Forall op_lok q.(q_ops) /\ Forall frag_lok q.(q_frags).

  Lemma FormatSelectionSet_eq : forall l f, FormatSelectionSet o l f = sel_set l f.
  Proof. intros [|c tl] f; reflexivity. Qed.

  Lemma all_Pfs : forall l, Forall Pfs l.
  Proof. intro l. apply Forall_forall. intros c _. apply FormatSelection_inv. Qed.

  Lemma kw_text : forall op, op <> OpNone -> name_text (optype_word op) /\ optype_word op = optype_kw op.
  Proof.
    intros op H. destruct op; try congruence; (split; [|reflexivity]).
    - exists 113, (b "uery"). repeat split.
    - exists 109, (b "utation"). repeat split.
    - exists 115, (b "ubscription"). repeat split.
  Qed.

  Lemma FormatOperationDefinition_inv : forall x f ts, op_lok x -> Inv f ts -> Ready f ->
    Inv (FormatOperationDefinition o x f) (ts ++ flat_op (norm_op x)) /\ lineHead (FormatOperationDefinition o x f) = true.
  Proof.
    intros [op n vars dirs sels p] f ts [Hop [Hn [Hv [Hd [Hne Hs]]]]] Hf Hr. cbn [o_op o_name o_vars o_dirs o_sels] in *.
    unfold FormatOperationDefinition. cbn [o_op o_name o_vars o_dirs o_sels].
    destruct (kw_text op Hop) as [Hkw Ekw].
    destruct (WriteWord_inv f ts _ [(Name, optype_word op)] Hf (piece_name _ Hkw) (name_no_space _ Hkw) (ready_start f _ Hr)) as [I1 [P1 [L1 [Z1 O1]]]].
    set (f1 := WriteWord o (optype_word op) f) in *.
    assert (Hname : exists f2, f2 = match n with [] => f1 | _ => let g := WriteWord o n f1 in if fo_compact o then NoPadding g else g end
              /\ Inv f2 ((ts ++ [(Name, optype_word op)]) ++ match n with [] => [] | _ => [(Name, n)] end) /\ lineHead f2 = false).
    { destruct n as [|c0 ctl].
      - exists f1. rewrite app_nil_r. auto.
      - destruct Hn as [Hn|Hn]; [discriminate|]. cbv zeta.
        destruct (WriteWord_inv f1 _ (c0 :: ctl) [(Name, c0 :: ctl)] I1 (piece_name _ Hn) (name_no_space _ Hn) (ready_start f1 _ (ready_padded _ (conj P1 L1)))) as [I2 [P2 [L2 [Z2 O2]]]].
        destruct (fo_compact o).
        + eexists. split; [reflexivity|]. split; [apply (Inv_same_out (WriteWord o (c0 :: ctl) f1)); [exact I2|reflexivity|reflexivity]|exact L2].
        + eexists. split; [reflexivity|]. split; [exact I2|exact L2]. }
    destruct Hname as [f2 [E2 [I2 L2]]].
    match goal with |- context [FormatVariableDefinitionList o vars ?g] => replace g with f2 by (rewrite E2; destruct n; reflexivity) end.
    destruct (FormatVariableDefinitionList_inv vars f2 _ Hv I2 L2) as [I3 [L3 [Z3 _]]].
    destruct (FormatDirectiveList_inv dirs _ _ Hd I3 L3) as [I4 [L4 [Z4 _]]].
    set (f4 := FormatDirectiveList o dirs (FormatVariableDefinitionList o vars f2)) in *.
    destruct sels as [|s0 stl]; [congruence|]. rewrite FormatSelectionSet_eq.
    destruct (sel_set_inv (s0 :: stl) Hne (all_Pfs _) Hs f4 _ I4) as [I5 [L5 Z5]].
    destruct (WriteNewline_inv _ _ I5) as [I6 [L6 _]].
    split; [|exact L6].
    unfold flat_op, norm_op. cbn [o_op o_name o_vars o_dirs o_sels]. rewrite <- Ekw.
    rewrite <- !app_assoc in I6. cbn [app] in I6. destruct n; cbn [app] in *; exact I6.
  Qed.

  Lemma FormatFragmentDefinition_inv : forall x f ts, frag_lok x -> Inv f ts -> Ready f ->
    Inv (FormatFragmentDefinition o x f) (ts ++ flat_frag (norm_frag x)) /\ lineHead (FormatFragmentDefinition o x f) = true.
  Proof.
    intros [n vars tc dirs sels p] f ts [Hn [Hv [Htc [Hd [Hne Hs]]]]] Hf Hr. cbn [f_name f_vars f_typecond f_dirs f_sels] in *.
    unfold FormatFragmentDefinition. cbn [f_name f_vars f_typecond f_dirs f_sels].
    assert (Hfr : name_text (b "fragment")) by (exists 102, (b "ragment"); repeat split).
    assert (Hon : name_text (b "on")) by (exists 111, [110]; repeat split).
    destruct (WriteWord_inv f ts _ [(Name, b "fragment")] Hf (piece_name _ Hfr) (name_no_space _ Hfr) (ready_start f _ Hr)) as [I1 [P1 [L1 [Z1 O1]]]].
    destruct (WriteWord_inv _ _ n [(Name, n)] I1 (piece_name _ Hn) (name_no_space _ Hn) (ready_start _ _ (ready_padded _ (conj P1 L1)))) as [I2 [P2 [L2 [Z2 O2]]]].
    set (f2 := WriteWord o n (WriteWord o (b "fragment") f)) in *.
    destruct (FormatVariableDefinitionList_inv vars f2 _ Hv I2 L2) as [I3 [L3 [Z3 E3]]].
    set (f3 := FormatVariableDefinitionList o vars f2) in *.
    assert (R3 : Ready f3) by (apply ready_padded; destruct E3 as [[_ E]|E]; [rewrite E; split; assumption|exact E]).
    destruct (WriteWord_inv f3 _ (b "on") [(Name, b "on")] I3 (piece_name _ Hon) (name_no_space _ Hon) (ready_start f3 _ R3)) as [I4 [P4 [L4 [Z4 O4]]]].
    destruct (WriteWord_inv _ _ tc [(Name, tc)] I4 (piece_name _ Htc) (name_no_space _ Htc) (ready_start _ _ (ready_padded _ (conj P4 L4)))) as [I5 [P5 [L5 [Z5 O5]]]].
    destruct (FormatDirectiveList_inv dirs _ _ Hd I5 L5) as [I6 [L6 [Z6 _]]].
    set (f6 := FormatDirectiveList o dirs (WriteWord o tc (WriteWord o (b "on") f3))) in *.
    destruct sels as [|s0 stl]; [congruence|]. rewrite FormatSelectionSet_eq.
    destruct (sel_set_inv (s0 :: stl) Hne (all_Pfs _) Hs f6 _ I6) as [I7 [L7 Z7]].
    destruct (WriteNewline_inv _ _ I7) as [I8 [L8 _]].
    split; [|exact L8].
    unfold flat_frag, norm_frag. cbn [f_name f_vars f_typecond f_dirs f_sels].
    rewrite <- !app_assoc in I8. cbn [app] in I8. exact I8.
  Qed.

  Lemma ready_linehead : forall f ts, Inv f ts -> lineHead f = true -> Ready f.
  Proof.
    intros f ts [_ H10] Hlh. apply ready_closed. destruct (H10 Hlh) as [r ->]. cbn. intro H. apply H. left. left. right. right. right. reflexivity.
  Qed.

  Lemma ops_fold : forall l f ts, Forall op_lok l -> Inv f ts -> Ready f -> (l <> [] \/ lineHead f = true \/ out f = []) ->
    let f' := fold_left (fun acc x => FormatOperationDefinition o x acc) l f in
    Inv f' (ts ++ flat_map flat_op (map norm_op l)) /\ (lineHead f' = true \/ out f' = []).
  Proof.
    induction l as [|x tl IH]; intros f ts Hl Hf Hr Hst; cbv zeta.
    - cbn [fold_left map flat_map]. rewrite app_nil_r. split; [exact Hf|]. destruct Hst as [H|H]; [congruence|exact H].
    - inversion Hl as [|x0 tl0 Hx Htl]; subst. cbn [fold_left map flat_map].
      destruct (FormatOperationDefinition_inv x f ts Hx Hf Hr) as [I1 L1].
      destruct (IH _ _ Htl I1 (ready_linehead _ _ I1 L1) (or_intror (or_introl L1))) as [I2 E2].
      split; [rewrite <- app_assoc in I2; exact I2|exact E2].
  Qed.

  Lemma frags_fold : forall l f ts, Forall frag_lok l -> Inv f ts -> Ready f ->
    Inv (fold_left (fun acc x => FormatFragmentDefinition o x acc) l f) (ts ++ flat_map flat_frag (map norm_frag l)).
  Proof.
    induction l as [|x tl IH]; intros f ts Hl Hf Hr.
    - cbn [fold_left map flat_map]. rewrite app_nil_r. exact Hf.
    - inversion Hl as [|x0 tl0 Hx Htl]; subst. cbn [fold_left map flat_map].
      destruct (FormatFragmentDefinition_inv x f ts Hx Hf Hr) as [I1 L1].
      pose proof (IH _ _ Htl I1 (ready_linehead _ _ I1 L1)) as I2. rewrite <- app_assoc in I2. exact I2.
  Qed.

  Lemma flat_doc_norm : forall q, flat_doc (norm_doc q) = flat_map flat_op (map norm_op (q_ops q)) ++ flat_map flat_frag (map norm_frag (q_frags q)).
  Proof.
    intros [ops frags p]. unfold flat_doc, doc_defs, norm_doc. cbn [q_ops q_frags]. rewrite flat_map_app.
    f_equal; [induction (map norm_op ops) as [|x tl IH]|induction (map norm_frag frags) as [|x tl IH]]; cbn [map flat_map flat_qdef]; try reflexivity; rewrite IH; reflexivity.
  Qed.

  (* the printed document, read by the lexer, is the token sequence of the document *)
  Theorem format_tokens : forall q, doc_lok q -> toks d (FormatQueryDocument o q) (flat_doc (norm_doc q)).
  Proof.
    intros q [Ho Hfr]. unfold FormatQueryDocument. rewrite flat_doc_norm.
    assert (R0 : Ready fmt0) by (apply ready_closed; cbn; tauto).
    destruct (ops_fold (q_ops q) fmt0 [] Ho inv_start R0 (or_intror (or_intror eq_refl))) as [I1 E1].
    set (f1 := fold_left (fun acc x => FormatOperationDefinition o x acc) (q_ops q) fmt0) in *.
    assert (R1 : Ready f1) by (destruct E1 as [E|E]; [exact (ready_linehead _ _ I1 E)|apply ready_closed; rewrite E; cbn; tauto]).
    pose proof (frags_fold (q_frags q) f1 _ Hfr I1 R1) as I2. cbn [app] in I2.
    exact (inv_done _ _ I2).
  Qed.
End Fmt.

(* ------------------------------------------------------------------ *)
(* formatting and parsing back                                          *)
Theorem format_parse_roundtrip : forall d o q fuel,
  Forall ign_char (fo_indent o) -> d F_L1 = false -> doc_lok q -> doc_wok d (norm_doc q) ->
  (doc_depth (norm_doc q) <= fuel)%nat -> (doc_width (norm_doc q) < fuel)%nat ->
  exists q' s, parseQueryWith d fuel 0 (FormatQueryDocument o q) = (POk q', s) /\ erase_qdoc q' = erase_qdoc (norm_doc q).
Proof.
  intros d o q fuel Hind Hd Hl Hw Hdep Hwid.
  exact (parseQuery_complete d (norm_doc q) (FormatQueryDocument o q) fuel Hw (format_tokens d o Hind Hd q Hl) Hdep Hwid).
Qed.

