(* Linked.v — a document that passes validation is linked: every field selected in an operation
   or a fragment definition has a known parent type and a definition on it, every inline
   fragment a known type, every spread a fragment definition (C09). *)
From Coq Require Import List NArith ZArith Bool Permutation.
From GQL.model Require Import Base Utf8 Lexer Ast Schema Walk Rules Rules2 Validate.
From GQL.proofs Require Import StrFacts RuleCompose JsonRoundtrip.
Import ListNotations.

(* ---- no error from a stateless rule: its handler is silent on every event ---- *)
Lemma stateless_silent : forall n h evs, run_events [stateless n h] evs = [] ->
  forall e, In e evs -> h e = [].
Proof.
  intros n h. induction evs as [|e0 tl IH]; intros H e Hin; [destruct Hin|].
  unfold stateless in *. cbn [run_events deliver rinst_step] in H. rewrite app_nil_r in H.
  apply app_eq_nil in H as [H1 H2]. destruct Hin as [<-|Hin].
  - destruct (h e0); [reflexivity|discriminate].
  - apply IH; assumption.
Qed.

(* no errors at all: no errors from any one rule of the list *)
Lemma validate_silent : forall rs r evs, NoDup (map rinst_name rs) -> In r rs ->
  run_events rs evs = [] -> run_events [r] evs = [].
Proof.
  intros rs r evs ND Hin H. rewrite <- (rule_alone_or_together rs r evs ND Hin), H. reflexivity.
Qed.

Section Linked.
  Variable s : schema.
  Variable doc : qdoc.

  (* every field of every type of the schema, and the meta field __typename, has a type in the schema *)
  Definition fields_resolve : Prop :=
    is_some (stype s (b "String")) = true /\
    forall n od fd, stype s n = Some od -> In fd od.(df_fields) -> is_some (stype s (type_name fd.(fd_type))) = true.

  Fixpoint linked (parent : option definition) (sel : selection) : Prop :=
    match sel with
    | SField _ n _ _ sels _ =>
      is_some parent = true /\
      match field_def_of parent n with
      | Some fd => let next := stype s (type_name fd.(fd_type)) in
                   is_some next = true /\
                   (fix all (l : list selection) : Prop := match l with [] => True | x :: tl => linked next x /\ all tl end) sels
      | None => False
      end
    | SInline tc _ sels _ =>
      let next := match tc with [] => parent | _ => stype s tc end in
      is_some next = true /\
      (fix all (l : list selection) : Prop := match l with [] => True | x :: tl => linked next x /\ all tl end) sels
    | SSpread n _ _ => is_some (find_frag n doc.(q_frags)) = true
    end.

  (* ---- the walk emits, for every node, its observer event with the statically known parent ---- *)
  Lemma walk_sel_field : forall f parent al n args dirs sels p st,
    walk_sel s doc (S f) parent (SField al n args dirs sels p) st =
    let fd := field_def_of parent n in
    let next := match fd with Some x => stype s (type_name x.(fd_type)) | None => None end in
    let ev_args := flat_map (fun a => walk_argument s
                       (match fd with Some x => find_argdef a.(a_name) x.(fd_args) | None => None end) a) args in
    let st1 := mkWst st.(w_visited) (st.(w_used) ++ flat_map (fun a => value_vars a.(a_value)) args ++ dirs_vars dirs) in
    let '(ev_sels, st2) := fold_left (fun acc x => let '(ev, st') := walk_sel s doc (S f) next x (snd acc) in (fst acc ++ ev, st'))
                                     sels ([], st1) in
    (EvAnnotate p.(p_start) :: ev_args ++ walk_directives s dirs (b "FIELD") ++ ev_sels ++ [EvField (SField al n args dirs sels p) parent fd], st2).
  Proof. reflexivity. Qed.

  Lemma walk_sel_inline : forall f parent tc dirs sels p st,
    walk_sel s doc (S f) parent (SInline tc dirs sels p) st =
    let next := match tc with [] => parent | _ => stype s tc end in
    let st1 := mkWst st.(w_visited) (st.(w_used) ++ dirs_vars dirs) in
    let '(ev_sels, st2) := fold_left (fun acc x => let '(ev, st') := walk_sel s doc (S f) next x (snd acc) in (fst acc ++ ev, st'))
                                     sels ([], st1) in
    (walk_directives s dirs (b "INLINE_FRAGMENT") ++ ev_sels ++ [EvInline (SInline tc dirs sels p) parent], st2).
  Proof. reflexivity. Qed.

  Lemma fold_walk_in : forall f next sels acc0 st0 x e,
    In x sels -> (forall st, In e (fst (walk_sel s doc (S f) next x st))) ->
    In e (fst (fold_left (fun acc y => let '(ev, st') := walk_sel s doc (S f) next y (snd acc) in (fst acc ++ ev, st'))
                         sels (acc0, st0))).
  Proof.
    intros f next. induction sels as [|y tl IH]; intros acc0 st0 x e Hin He; [destruct Hin|].
    cbn [fold_left snd fst].
    assert (Hkeep : forall l a b, In e a ->
              In e (fst (fold_left (fun acc y => let '(ev, st') := walk_sel s doc (S f) next y (snd acc) in (fst acc ++ ev, st'))
                                   l (a, b)))).
    { induction l as [|z l IHl]; intros a b' Ha; [exact Ha|]. cbn [fold_left snd fst].
      destruct (walk_sel s doc (S f) next z b') as [ev st']. apply IHl. apply in_or_app. left. exact Ha. }
    destruct (walk_sel s doc (S f) next y st0) as [ev st'] eqn:Ew.
    destruct Hin as [<-|Hin].
    - apply Hkeep. apply in_or_app. right. specialize (He st0). rewrite Ew in He. exact He.
    - eapply IH; eassumption.
  Qed.

  Lemma walk_sel_spread_event : forall f parent n dirs p st,
    In (EvSpread (SSpread n dirs p) parent) (fst (walk_sel s doc (S f) parent (SSpread n dirs p) st)).
  Proof.
    intros. cbn [walk_sel].
    match goal with |- context [let '(ev_body, st2) := ?X in _] => destruct X as [ev_body st2] end.
    cbn [fst]. right. apply in_or_app. right. apply in_or_app. right. left. reflexivity.
  Qed.

  (* the three handlers that matter, on bare events *)
  Definition h_fields (e : event) : list rerr :=
    match e with
    | EvField (SField _ n _ _ _ p) (Some od) None => [err_at p]
    | _ => []
    end.
  Definition quiet (e : event) : Prop :=
    (* FieldsOnCorrectType *)
    (forall al n args dirs sels p od, e = EvField (SField al n args dirs sels p) (Some od) None -> False)
    (* KnownTypeNames *)
    /\ (forall tc dirs sels p od, e = EvInline (SInline tc dirs sels p) od -> nil_str tc || is_some (stype s tc) = true)
    (* KnownFragmentNames *)
    /\ (forall n dirs p od, e = EvSpread (SSpread n dirs p) od -> is_some (find_frag n doc.(q_frags)) = true).

  Definition in_schema (parent : option definition) : Prop :=
    exists n od, parent = Some od /\ stype s n = Some od.

  (* a child's events, at the state in which the walk reaches it, are among the parent's child events *)
  Lemma fold_walk_sub : forall f next sels acc0 st0 x, In x sels ->
    exists stx, forall e, In e (fst (walk_sel s doc (S f) next x stx)) ->
      In e (fst (fold_left (fun acc y => let '(ev, st') := walk_sel s doc (S f) next y (snd acc) in (fst acc ++ ev, st'))
                           sels (acc0, st0))).
  Proof.
    intros f next. induction sels as [|y tl IH]; intros acc0 st0 x Hin; [destruct Hin|].
    cbn [fold_left snd fst].
    assert (Hkeep : forall l a b e, In e a ->
              In e (fst (fold_left (fun acc y => let '(ev, st') := walk_sel s doc (S f) next y (snd acc) in (fst acc ++ ev, st'))
                                   l (a, b)))).
    { induction l as [|z l IHl]; intros a b' e Ha; [exact Ha|]. cbn [fold_left snd fst].
      destruct (walk_sel s doc (S f) next z b') as [ev st']. apply IHl. apply in_or_app. left. exact Ha. }
    destruct (walk_sel s doc (S f) next y st0) as [ev st'] eqn:Ew.
    destruct Hin as [<-|Hin].
    - exists st0. intros e He. rewrite Ew in He. apply Hkeep. apply in_or_app. right. exact He.
    - apply IH. exact Hin.
  Qed.

  Lemma linked_of_quiet : fields_resolve -> forall f sel parent,
    in_schema parent ->
    (exists st, forall e, In e (fst (walk_sel s doc (S f) parent sel st)) -> quiet e) ->
    linked parent sel.
  Proof.
    intros [Hstr Hres] f. induction sel as [al n args dirs sels p IH|n dirs p|tc dirs sels p IH] using sel_ind';
      intros parent Hin [st Hq].
    - (* field *)
      destruct Hin as [pn [od [-> Hod]]]. cbn [linked is_some]. split; [reflexivity|].
      rewrite walk_sel_field in Hq. cbv zeta in Hq.
      destruct (field_def_of (Some od) n) as [fd|] eqn:Ef.
      + assert (Hnext : is_some (stype s (type_name (fd_type fd))) = true).
        { unfold field_def_of in Ef. destruct (str_eqb n (b "__typename")).
          - inversion Ef; subst. exact Hstr.
          - eapply Hres; [exact Hod|]. clear - Ef. induction (df_fields od) as [|x l IHl]; [discriminate|].
            cbn [find_field] in Ef. destruct (str_eqb (fd_name x) n); [inversion Ef; left; reflexivity|right; apply IHl; exact Ef]. }
        split; [exact Hnext|].
        destruct (stype s (type_name (fd_type fd))) as [nd|] eqn:En; [|discriminate].
        assert (Hin' : in_schema (Some nd)) by (exists (type_name (fd_type fd)), nd; split; [reflexivity|exact En]).
        set (st1 := mkWst (w_visited st) (w_used st ++ flat_map (fun a => value_vars (a_value a)) args ++ dirs_vars dirs)) in *.
        assert (Hchild : forall x, In x sels ->
                  exists stx, forall e, In e (fst (walk_sel s doc (S f) (Some nd) x stx)) -> quiet e).
        { intros x Hx. destruct (fold_walk_sub f (Some nd) sels [] st1 x Hx) as [stx Hsub].
          exists stx. intros e He. apply Hq.
          destruct (fold_left (fun acc x0 => let '(ev, st') := walk_sel s doc (S f) (Some nd) x0 (snd acc) in (fst acc ++ ev, st'))
                              sels ([], st1)) as [ev_sels st2] eqn:EX.
          cbn [fst]. right. apply in_or_app. right. apply in_or_app. right. apply in_or_app. left.
          specialize (Hsub e He). exact Hsub. }
        clear Hq. induction IH as [|x tl Hx Htl IHtl]; [exact I|].
        split; [apply Hx; [exact Hin'|apply Hchild; left; reflexivity]|].
        apply IHtl. intros y Hy. apply Hchild. right. exact Hy.
      + exfalso.
        match type of Hq with context [let '(ev_sels, st2) := ?X in _] => destruct X as [ev_sels st2] end.
        assert (Hev : quiet (EvField (SField al n args dirs sels p) (Some od) None)).
        { apply Hq. cbn [fst]. right. apply in_or_app. right. apply in_or_app. right. apply in_or_app. right. left. reflexivity. }
        destruct Hev as [Hf _]. eapply Hf. reflexivity.
    - cbn [linked]. destruct (Hq _ (walk_sel_spread_event f parent n dirs p st)) as [_ [_ Hs]].
      eapply Hs. reflexivity.
    - (* inline fragment *)
      cbn [linked]. rewrite walk_sel_inline in Hq. cbv zeta in Hq.
      set (next := match tc with [] => parent | _ => stype s tc end) in *.
      set (st1 := mkWst (w_visited st) (w_used st ++ dirs_vars dirs)) in *.
      assert (Hev : quiet (EvInline (SInline tc dirs sels p) parent)).
      { apply Hq.
        destruct (fold_left (fun acc x0 => let '(ev, st') := walk_sel s doc (S f) next x0 (snd acc) in (fst acc ++ ev, st'))
                            sels ([], st1)) as [ev_sels st2].
        cbn [fst]. apply in_or_app. right. apply in_or_app. right. left. reflexivity. }
      destruct Hev as [_ [Hi _]]. specialize (Hi tc dirs sels p parent eq_refl).
      assert (Hnext : in_schema next).
      { subst next. destruct tc as [|c t]; [exact Hin|].
        cbn [nil_str orb] in Hi. destruct (stype s (c :: t)) as [nd|] eqn:En; [|discriminate].
        exists (c :: t), nd. split; [reflexivity|exact En]. }
      split; [destruct Hnext as [? [? [-> _]]]; reflexivity|].
      assert (Hchild : forall x, In x sels ->
                exists stx, forall e, In e (fst (walk_sel s doc (S f) next x stx)) -> quiet e).
      { intros x Hx. destruct (fold_walk_sub f next sels [] st1 x Hx) as [stx Hsub].
        exists stx. intros e He. apply Hq.
        destruct (fold_left (fun acc x0 => let '(ev, st') := walk_sel s doc (S f) next x0 (snd acc) in (fst acc ++ ev, st'))
                            sels ([], st1)) as [ev_sels st2] eqn:EX.
        cbn [fst]. apply in_or_app. right. apply in_or_app. left.
        specialize (Hsub e He). exact Hsub. }
      clear Hq. induction IH as [|x tl Hx Htl IHtl]; [exact I|].
      split; [apply Hx; [exact Hnext|apply Hchild; left; reflexivity]|].
      apply IHtl. intros y Hy. apply Hchild. right. exact Hy.
  Qed.

  (* ---- from "no validation errors" to quiet events ---- *)
  Hypothesis Hvalid : validate s doc = [].

  Lemma rule_silent : forall r, In r (default_rules false s doc) -> run_events [r] (walk s doc) = [].
  Proof.
    intros r Hin. eapply validate_silent; [apply default_rules_names_nodup|exact Hin|exact Hvalid].
  Qed.

  Lemma walk_events_quiet : forall a c e, In (a, c, e) (walk s doc) -> quiet e.
  Proof.
    intros a c e Hin. unfold quiet. split; [|split].
    - intros al n args dirs sels p od ->.
      assert (Hr : In (r_FieldsOnCorrectType s false) (default_rules false s doc)) by (cbn; auto).
      pose proof (stateless_silent _ _ _ (rule_silent _ Hr) _ Hin) as Hs. cbn in Hs. discriminate.
    - intros tc dirs sels p od ->.
      assert (Hr : In (r_KnownTypeNames s false) (default_rules false s doc)) by (cbn; auto 10).
      pose proof (stateless_silent _ _ _ (rule_silent _ Hr) _ Hin) as Hs. cbn [snd] in Hs.
      destruct (nil_str tc || is_some (stype s tc)); [reflexivity|discriminate].
    - intros n dirs p od ->.
      assert (Hr : In (r_KnownFragmentNames doc) (default_rules false s doc)) by (cbn; auto 10).
      pose proof (stateless_silent _ _ _ (rule_silent _ Hr) _ Hin) as Hs. cbn [snd] in Hs.
      destruct (is_some (find_frag n (q_frags doc))); [reflexivity|discriminate].
  Qed.

  Lemma root_known : forall o, In o doc.(q_ops) -> in_schema (root_def s o.(o_op)).
  Proof.
    intros o Ho.
    assert (Hin : exists used, In (Some o, Some o, EvOperation o used) (walk s doc)).
    { assert (Ho' : exists used, In (Some o, Some o, EvOperation o used) (walk_operation s doc o)).
      { unfold walk_operation.
        match goal with |- context [let '(ev3, st) := ?X in _] => destruct X as [ev3 st] end.
        eexists. apply (in_map (fun e => (Some o, Some o, e))).
        apply in_or_app. right. apply in_or_app. right. apply in_or_app. right. apply in_or_app. right. left. reflexivity. }
      destruct Ho' as [used Hu]. exists used. unfold walk. apply in_or_app. left. apply in_flat_map. exists o. split; assumption. }
    destruct Hin as [used Hin].
    assert (Hr : In (r_KnownRootType s) (default_rules false s doc)) by (cbn; auto 10).
    pose proof (stateless_silent _ _ _ (rule_silent _ Hr) _ Hin) as Hs. cbn [snd] in Hs.
    destruct (root_def s (o_op o)) as [od|] eqn:Er; [|discriminate].
    unfold root_def in Er. unfold in_schema.
    destruct (o_op o); repeat match type of Er with match ?x with _ => _ end = _ => destruct x as [rn|] eqn:?; [|discriminate] end;
      exists rn, od; split; auto.
  Qed.

  Theorem validated_operations_linked : fields_resolve ->
    forall o, In o doc.(q_ops) -> forall sel, In sel o.(o_sels) -> linked (root_def s o.(o_op)) sel.
  Proof.
    intros Hres o Ho sel Hsel. eapply (linked_of_quiet Hres (S (length (q_frags doc)))); [apply root_known; exact Ho|].
    (* the events of sel, at the state in which the operation's walk reaches it *)
    unfold walk_sels in *.
    set (used0 := flat_map (fun v => (match vd_default v with Some dv => value_vars dv | None => [] end) ++ dirs_vars (vd_dirs v)) (o_vars o)
                  ++ dirs_vars (o_dirs o)).
    destruct (fold_walk_sub (S (length (q_frags doc))) (root_def s (o_op o)) (o_sels o) [] (mkWst [] used0) sel Hsel) as [stx Hsub].
    exists stx. intros e He. apply (walk_events_quiet (Some o) (Some o)).
    unfold walk. apply in_or_app. left. apply in_flat_map. exists o. split; [exact Ho|].
    unfold walk_operation, walk_sels, walk_fuel. fold used0.
    specialize (Hsub e He).
    destruct (fold_left (fun acc x => let '(ev, st1) := walk_sel s doc (S (S (length (q_frags doc)))) (root_def s (o_op o)) x (snd acc) in (fst acc ++ ev, st1))
                        (o_sels o) ([], mkWst [] used0)) as [ev3 st].
    apply in_map. apply in_or_app. right. apply in_or_app. right. apply in_or_app. right. apply in_or_app. left. exact Hsub.
  Qed.

  Theorem validated_fragments_linked : fields_resolve ->
    forall f, In f doc.(q_frags) ->
      is_some (stype s f.(f_typecond)) = true /\ forall sel, In sel f.(f_sels) -> linked (stype s f.(f_typecond)) sel.
  Proof.
    intros Hres f Hf.
    assert (Hfrag : In (None, stale_op doc f, EvFragment f) (walk s doc)).
    { unfold walk. apply in_or_app. right. apply in_flat_map. exists f. split; [exact Hf|].
      unfold walk_fragment.
      match goal with |- context [let '(ev, _) := ?X in _] => destruct X as [ev st] end.
      apply in_or_app. right. apply in_map. apply in_or_app. right. left. reflexivity. }
    assert (Hr : In (r_KnownTypeNames s false) (default_rules false s doc)) by (cbn; auto 10).
    pose proof (stateless_silent _ _ _ (rule_silent _ Hr) _ Hfrag) as Hs. cbn [snd] in Hs.
    destruct (is_some (stype s (f_typecond f))) eqn:Et; [|discriminate]. split; [reflexivity|].
    intros sel Hsel. eapply (linked_of_quiet Hres (S (length (q_frags doc)))).
    - destruct (stype s (f_typecond f)) as [td|] eqn:E; [|discriminate]. exists (f_typecond f), td. split; [reflexivity|exact E].
    - destruct (fold_walk_sub (S (length (q_frags doc))) (stype s (f_typecond f)) (f_sels f) [] (mkWst [] []) sel Hsel) as [stx Hsub].
      exists stx. intros e He. apply (walk_events_quiet None (stale_op doc f)).
      unfold walk. apply in_or_app. right. apply in_flat_map. exists f. split; [exact Hf|].
      unfold walk_fragment, walk_sels, walk_fuel. specialize (Hsub e He).
      destruct (fold_left (fun acc x => let '(ev, st1) := walk_sel s doc (S (S (length (q_frags doc)))) (stype s (f_typecond f)) x (snd acc) in (fst acc ++ ev, st1))
                          (f_sels f) ([], mkWst [] [])) as [ev st].
      apply in_or_app. right. apply in_map. apply in_or_app. left. exact Hsub.
  Qed.
End Linked.

(* ---- loaded schemas qualify ---- *)
From GQL.proofs Require Import LoadedClosed.

Lemma closed_fields_resolve : forall s, closed s ->
  is_some (stype s (b "String")) = true -> is_some (stype s (b "__Schema")) = true -> is_some (stype s (b "__Type")) = true ->
  fields_resolve s.
Proof.
  intros s [Hdefs _] Hstr Hsch Hty. split; [exact Hstr|].
  intros n od fd Hod Hfd. destruct (Hdefs n od Hod) as [Hf _]. destruct (Hf fd Hfd) as [Hi|[[td [Htd _]] _]].
  - cbn in Hi. destruct Hi as [<-|[<-|[]]]; cbn [fd_type type_name]; assumption.
  - unfold stype. rewrite Htd. reflexivity.
Qed.
