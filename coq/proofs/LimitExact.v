(* LimitExact.v — C16 for the two entry points, from the generic simulation of ProgFacts. *)
From GQL.model Require Import Base Utf8 Lexer Ast Parser Prog ParseQuery ParseSchema.
From GQL.proofs Require Import LexerTotal ProgFacts.
Open Scope Z_scope.

Lemma init_lock : forall L input ix, lock L (pst_init input 0 ix) (pst_init input L ix).
Proof. intros. unfold lock, pst_init, with_lim; simpl. repeat split; try congruence; lia. Qed.

(* tokens consumed by the unlimited run (comments counted, EOF not) *)
Definition query_tokens_consumed (d : dev) (input : str) : N :=
  cnt (snd (parseQueryWith d (query_fuel input) 0 input)).
Definition schema_tokens_consumed (d : dev) (ix : N) (bi : bool) (input : str) : N :=
  cnt (snd (parseSchemaWith d (query_fuel input) 0 ix bi input)).

Theorem parseQuery_limit_exact : forall d L input, L <> 0%N ->
  parseQuery d L input =
  if (query_tokens_consumed d input <=? L)%N then parseQuery d 0 input else PErr PLimit.
Proof.
  intros d L input HL. unfold parseQuery, query_tokens_consumed, parseQueryWith.
  pose proof (run_limit_sim d L HL _ (parseQueryDocument d (query_fuel input)) (query_fuel input) _ _
                            (init_lock L input 0)) as H.
  destruct (run d (parseQueryDocument d (query_fuel input)) (query_fuel input) (pst_init input 0 0)) as [doc0 s0].
  destruct (run d (parseQueryDocument d (query_fuel input)) (query_fuel input) (pst_init input L 0)) as [docL sL].
  simpl in H. destruct H as [[[H1 [H2 [H3 H4]]] Heq]|[D1 [D2 D3]]].
  - subst sL docL. simpl perr_.
    assert (Hc : cnt (snd (match perr_ s0 with None => (POk doc0, s0) | Some e => (PErr e, s0) end)) = cnt s0)
      by (destruct (perr_ s0); reflexivity).
    rewrite Hc. apply N.leb_le in H4. rewrite H4. destruct (perr_ s0); reflexivity.
  - rewrite D1. simpl.
    assert (Hc : cnt (snd (match perr_ s0 with None => (POk doc0, s0) | Some e => (PErr e, s0) end)) = cnt s0)
      by (destruct (perr_ s0); reflexivity).
    rewrite Hc. apply N.leb_gt in D3. rewrite D3. reflexivity.
Qed.

Theorem parseSchema_limit_exact : forall d L ix bi input, L <> 0%N ->
  parseSchema d L ix bi input =
  if (schema_tokens_consumed d ix bi input <=? L)%N then parseSchema d 0 ix bi input else PErr PLimit.
Proof.
  intros d L ix bi input HL. unfold parseSchema, schema_tokens_consumed, parseSchemaWith.
  pose proof (run_limit_sim d L HL _ (parseSchemaDocument d (query_fuel input)) (query_fuel input) _ _
                            (init_lock L input ix)) as H.
  destruct (run d (parseSchemaDocument d (query_fuel input)) (query_fuel input) (pst_init input 0 ix)) as [doc0 s0].
  destruct (run d (parseSchemaDocument d (query_fuel input)) (query_fuel input) (pst_init input L ix)) as [docL sL].
  simpl in H. destruct H as [[[H1 [H2 [H3 H4]]] Heq]|[D1 [D2 D3]]].
  - subst sL docL. simpl perr_.
    match goal with |- _ = if (cnt (snd ?x) <=? L)%N then _ else _ =>
      assert (Hc : cnt (snd x) = cnt s0) by (destruct (perr_ s0); reflexivity) end.
    rewrite Hc. apply N.leb_le in H4. rewrite H4. destruct (perr_ s0); reflexivity.
  - rewrite D1. simpl.
    match goal with |- _ = if (cnt (snd ?x) <=? L)%N then _ else _ =>
      assert (Hc : cnt (snd x) = cnt s0) by (destruct (perr_ s0); reflexivity) end.
    rewrite Hc. apply N.leb_gt in D3. rewrite D3. reflexivity.
Qed.

(* monotone: success under L is success, with the same tree, under every larger limit and without limit *)
Corollary parseQuery_limit_monotone : forall d L L' input doc, L <> 0%N -> (L <= L')%N ->
  parseQuery d L input = POk doc -> parseQuery d L' input = POk doc /\ parseQuery d 0 input = POk doc.
Proof.
  intros d L L' input doc HL Hle H. rewrite parseQuery_limit_exact in H by auto.
  destruct (query_tokens_consumed d input <=? L)%N eqn:E; [|discriminate].
  split; [|exact H]. rewrite parseQuery_limit_exact by lia.
  apply N.leb_le in E. assert (E' : (query_tokens_consumed d input <=? L')%N = true) by (apply N.leb_le; lia).
  rewrite E'. exact H.
Qed.

Corollary parseSchema_limit_monotone : forall d L L' ix bi input doc, L <> 0%N -> (L <= L')%N ->
  parseSchema d L ix bi input = POk doc ->
  parseSchema d L' ix bi input = POk doc /\ parseSchema d 0 ix bi input = POk doc.
Proof.
  intros d L L' ix bi input doc HL Hle H. rewrite parseSchema_limit_exact in H by auto.
  destruct (schema_tokens_consumed d ix bi input <=? L)%N eqn:E; [|discriminate].
  split; [|exact H]. rewrite parseSchema_limit_exact by lia.
  apply N.leb_le in E. assert (E' : (schema_tokens_consumed d ix bi input <=? L')%N = true) by (apply N.leb_le; lia).
  rewrite E'. exact H.
Qed.

(* work: at most L + 2 tokens are ever requested from the lexer under limit L *)
Theorem parseQuery_limit_work : forall d L input, L <> 0%N ->
  (reads (snd (parseQueryWith d (query_fuel input) L input)) <= L + 2)%N.
Proof.
  intros d L input HL. unfold parseQueryWith.
  pose proof (run_reads_bounded d _ (parseQueryDocument d (query_fuel input)) (query_fuel input) input L 0 HL) as H.
  destruct (run d (parseQueryDocument d (query_fuel input)) (query_fuel input) (pst_init input L 0)) as [doc s].
  simpl in H. destruct (perr_ s); exact H.
Qed.

Theorem parseSchema_limit_work : forall d L ix bi input, L <> 0%N ->
  (reads (snd (parseSchemaWith d (query_fuel input) L ix bi input)) <= L + 2)%N.
Proof.
  intros d L ix bi input HL. unfold parseSchemaWith.
  pose proof (run_reads_bounded d _ (parseSchemaDocument d (query_fuel input)) (query_fuel input) input L ix HL) as H.
  destruct (run d (parseSchemaDocument d (query_fuel input)) (query_fuel input) (pst_init input L ix)) as [doc s].
  simpl in H. destruct (perr_ s); exact H.
Qed.

(* ---- several sources: every source by itself is subject to the limit ---- *)
Fixpoint schemas_under_limit (d : dev) (L : N) (ix : N) (srcs : list (bool * str)) (acc : sdoc) : pres sdoc :=
  match srcs with
  | [] => POk acc
  | (bi, inp) :: tl =>
    if (schema_tokens_consumed d ix bi inp <=? L)%N then
      match parseSchema d 0 ix bi inp with
      | PErr e => PErr e
      | POk doc => schemas_under_limit d L (ix + 1)%N tl (merge_sdoc acc doc)
      end
    else PErr PLimit
  end.

Theorem parseSchemas_limit_exact : forall d L srcs, L <> 0%N ->
  parseSchemas d L srcs = schemas_under_limit d L 0 srcs sdoc0.
Proof.
  intros d L srcs HL. unfold parseSchemas. generalize 0%N as ix, sdoc0 as acc.
  induction srcs as [|[bi inp] tl IH]; intros ix acc; [reflexivity|].
  cbn [parseSchemas_from schemas_under_limit]. rewrite parseSchema_limit_exact by exact HL.
  destruct (schema_tokens_consumed d ix bi inp <=? L)%N; [|reflexivity].
  destruct (parseSchema d 0 ix bi inp); [apply IH|reflexivity].
Qed.
