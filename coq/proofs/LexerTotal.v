(* LexerTotal.v — the internal fuel of the scanner loops never runs out, and every
   ReadToken call that returns a proper token consumes input (progress). *)
From GQL.model Require Import Base Utf8 Lexer.
Open Scope Z_scope.

Lemma decode_width_pos : forall l, l <> [] -> (1 <= snd (decode_rune l))%nat.
Proof.
  intros l Hl. destruct l as [|b0 tl]; [congruence|]. unfold decode_rune.
  repeat match goal with
  | |- context [if ?c then _ else _] => destruct c
  | |- context [match ?x with _ => _ end] => destruct x
  end; simpl; try lia.
Qed.

Lemma skipn_length_lt : forall (w : nat) (l : str), (1 <= w)%nat -> l <> [] -> (length (skipn w l) < length l)%nat.
Proof.
  intros w l Hw Hl. rewrite skipn_length. destruct l; [congruence|]. cbn [length]. lia.
Qed.

Lemma step_width_lt : forall (r : N) (l : str),
  l <> [] -> (length (skipn (snd (if (r <? 127)%N then (r, 1%nat) else decode_rune l)) l) < length l)%nat.
Proof.
  intros r l Hl. apply skipn_length_lt; auto.
  destruct (r <? 127)%N; simpl; auto. apply decode_width_pos; auto.
Qed.

Lemma readString_loop_some : forall d fuel l raw buf start e ln ls,
  (length l < fuel)%nat -> readString_loop d fuel l raw buf start e ln ls <> None.
Proof.
  induction fuel as [|f IH]; intros l raw buf start e ln ls Hf; [lia|].
  cbn [readString_loop]. destruct l as [|r tl]; [discriminate|].
  destruct ((r =? 10)%N || (r =? 13)%N); [discriminate|].
  destruct ((r <? 32)%N && negb (r =? 9)%N); [discriminate|].
  destruct (r =? 34)%N; [discriminate|].
  destruct (r =? 92)%N.
  - destruct tl as [|esc tl2]; [discriminate|].
    destruct (esc =? 117)%N.
    + destruct tl2 as [|h1 [|h2 [|h3 [|h4 [|x tl6]]]]]; try discriminate.
      destruct (unhex4 h1 h2 h3 h4); [|discriminate].
      apply IH. simpl in *. lia.
    + match goal with |- context [match ?o with Some _ => _ | None => _ end] => destruct o end;
        [|discriminate]. apply IH. simpl in *. lia.
  - pose proof (step_width_lt r (r :: tl)) as Hw.
    destruct (if (r <? 127)%N then (r, 1%nat) else decode_rune (r :: tl)) as [ch w] eqn:E.
    apply IH. simpl in Hw. assert (r :: tl <> []) by discriminate. specialize (Hw H). simpl in *. lia.
Qed.

Lemma count_quotes_len : forall l, (length (snd (count_quotes l)) <= length l)%nat.
Proof.
  induction l as [|c tl IH]; simpl; auto.
  destruct c as [|p]; simpl; auto.
  repeat (destruct p; simpl; auto).
  destruct (count_quotes tl); simpl in *. lia.
Qed.

Lemma readBlock_loop_some : forall d fuel l buf start e ln ls sl sls,
  (length l < fuel)%nat -> readBlock_loop d fuel l buf start e ln ls sl sls <> None.
Proof.
  induction fuel as [|f IH]; intros l buf start e ln ls sl sls Hf; [lia|].
  cbn [readBlock_loop]. destruct l as [|r tl]; [discriminate|].
  destruct (count_quotes (r :: tl)) as [qc after].
  destruct (3 <=? qc)%nat; [discriminate|].
  match goal with |- context [if ?c then Some _ else _] => destruct c end; [discriminate|].
  assert (Hdef : forall buf' e' ln' ls',
    readBlock_loop d f (skipn (snd (if (r <? 127)%N then (r, 1%nat) else decode_rune (r :: tl))) (r :: tl))
       buf' start e' ln' ls' sl sls <> None).
  { intros. apply IH. pose proof (step_width_lt r (r :: tl)) as Hw.
    assert (r :: tl <> []) by discriminate. specialize (Hw H). lia. }
  assert (Hgen : forall (tl' : str) buf' e' ln' ls', (length tl' <= length tl)%nat ->
    readBlock_loop d f tl' buf' start e' ln' ls' sl sls <> None).
  { intros. apply IH. simpl in Hf. lia. }
  destruct (if (r <? 127)%N then (r, 1%nat) else decode_rune (r :: tl)) as [ch w] eqn:E.
  simpl snd in Hdef.
  destruct r as [|p]; [apply Hdef|].
  (* split on the literal patterns 92 / 13 *)
  repeat (destruct p as [p|p|]; try apply Hdef);
    destruct tl as [|c1 tl1]; try apply Hdef; try (apply Hgen; simpl; lia);
    repeat match goal with
    | |- context [match ?x with _ => _ end] =>
        match x with
        | N0 => fail 1
        | _ => destruct x; try apply Hdef; try (apply Hgen; simpl; lia)
        end
    end.
Qed.

(* ---------- no call grows the unread input; proper tokens consume ---------- *)

Definition rest_of (r : res) : str := rest (snd r).
Definition is_err (r : res) : bool := match snd (fst r) with Some _ => true | None => false end.

Lemma ws_len : forall d l e ln ls, (length (fst (fst (fst (ws d l e ln ls)))) <= length l)%nat.
Proof.
  intros d l. remember (length l) as n eqn:Hn. revert l Hn.
  induction n as [n IH] using lt_wf_ind. intros l Hn e ln ls.
  destruct l as [|c tl]; [simpl; lia|]. cbn [ws].
  assert (Hs : forall (t : str) e' ln' ls', (length t < n)%nat ->
     (length (fst (fst (fst (ws d t e' ln' ls')))) <= length t)%nat).
  { intros. eapply IH; eauto. }
  simpl in Hn.
  destruct ((c =? 9)%N || (c =? 32)%N || (c =? 44)%N).
  { pose proof (Hs tl (e+1) ln ls ltac:(lia)). simpl. lia. }
  destruct (c =? 10)%N.
  { pose proof (Hs tl (e+1) (ln+1) (e+1) ltac:(lia)). simpl. lia. }
  destruct (c =? 13)%N.
  { destruct tl as [|c1 tl1].
    - simpl. lia.
    - assert (Hb : (length (fst (fst (fst (ws d (c1 :: tl1) (e+1) (ln+1) (e+1))))) <= length (c1 :: tl1))%nat)
        by (apply Hs; simpl in *; lia).
      assert (Ha : forall x, (length (fst (fst (fst (ws d tl1 (e+2) (ln+1) x)))) <= length tl1)%nat)
        by (intro; apply Hs; simpl in *; lia).
      destruct c1 as [|p]; [simpl in *; lia|].
      repeat (destruct p as [p|p|]; try (simpl in *; lia)).
      specialize (Ha (if d F_P3 then e + 1 else e + 2)). simpl in *. lia. }
  destruct (c =? 239)%N; [|simpl in *; lia].
  destruct tl as [|c1 tl1]; [simpl in *; lia|].
  destruct c1 as [|p]; [simpl in *; lia|].
  repeat (destruct p as [p|p|]; try (simpl in *; lia)).
  destruct tl1 as [|c2 tl2]; [simpl in *; lia|].
  destruct c2 as [|p]; [simpl in *; lia|].
  repeat (destruct p as [p|p|]; try (simpl in *; lia)).
  pose proof (Hs tl2 (e+1) ln ls ltac:(simpl in *; lia)). simpl in *. lia.
Qed.

Lemma take_name_len : forall l, (length (snd (take_name l)) <= length l)%nat.
Proof.
  induction l as [|c tl IH]; simpl; auto. destruct (is_name_cont c); simpl; auto.
  destruct (take_name tl); simpl in *. lia.
Qed.

Lemma take_digits_len : forall l, (length (snd (take_digits l)) <= length l)%nat.
Proof.
  induction l as [|c tl IH]; simpl; auto. destruct (is_digit c); simpl; auto.
  destruct (take_digits tl); simpl in *. lia.
Qed.

Lemma take_digits_nonempty_len : forall l ds r, take_digits l = (ds, r) -> ds <> [] -> (length r < length l)%nat.
Proof.
  intros l ds r H Hd. destruct l as [|c tl]; simpl in H.
  - inversion H; subst; congruence.
  - destruct (is_digit c).
    + pose proof (take_digits_len tl). destruct (take_digits tl). inversion H; subst. simpl in *. lia.
    + inversion H; subst; congruence.
Qed.

Lemma take_comment_len : forall fuel l, (length (snd (take_comment fuel l)) <= length l)%nat.
Proof.
  induction fuel as [|f IH]; intros l; [simpl; auto|].
  destruct l as [|c tl]; [simpl; lia|].
  cbn [take_comment].
  destruct (decode_rune (c :: tl)) as [r w] eqn:E.
  destruct ((31 <? r)%N || (r =? 9)%N); [|simpl; lia].
  specialize (IH (skipn w (c :: tl))). rewrite skipn_length in IH.
  destruct (take_comment f (skipn w (c :: tl))) as [[a n] rst].
  cbn [snd] in *. lia.
Qed.

Lemma accept1_len : forall c l, (length (snd (accept1 c l)) <= length l)%nat.
Proof. intros c [|x tl]; simpl; auto. destruct (x =? c)%N; simpl; lia. Qed.
Lemma accept2_len : forall c1 c2 l, (length (snd (accept2 c1 c2 l)) <= length l)%nat.
Proof. intros c1 c2 [|x tl]; simpl; auto. destruct ((x =? c1)%N || (x =? c2)%N); simpl; lia. Qed.

Lemma readNumber_progress : forall d l start ln ls,
  is_err (readNumber d l start ln ls) = false ->
  (length (rest_of (readNumber d l start ln ls)) < length l)%nat.
Proof.
  intros d l start ln ls. unfold readNumber.
  pose proof (accept1_len 45 l) as H1. destruct (accept1 45 l) as [neg l1]. simpl in H1.
  pose proof (accept1_len 48 l1) as H2. destruct (accept1 48 l1) as [z l2] eqn:Ez. simpl in H2.
  (* direct case analysis instead *)
  destruct z.
  - destruct (take_digits l2) as [ds l3'] eqn:Ed. destruct ds as [|dd ds'].
    2:{ simpl. discriminate. }
    assert (Hl2 : (length l2 < length l)%nat).
    { unfold accept1 in Ez. destruct l1 as [|x t]; [inversion Ez|].
      destruct (x =? 48)%N; inversion Ez; subst. simpl in *. lia. }
    revert Hl2. generalize ((if neg then [45%N] else []) ++ [48%N]). generalize ((if neg then start + 1 else start) + 1).
    intros e3 v1 Hl2. clear Ed.
    pose proof (accept1_len 46 l2) as H4. destruct (accept1 46 l2) as [dot l4]. simpl in H4.
    destruct dot.
    + pose proof (take_digits_len l4) as H5. destruct (take_digits l4) as [ds5 l5]. simpl in H5.
      destruct ds5; [simpl; discriminate|].
      pose proof (accept2_len 101 69 l5) as H6. destruct (accept2 101 69 l5) as [ex l6]. simpl in H6.
      destruct ex.
      * pose proof (accept2_len 45 43 l6) as H7. destruct (accept2 45 43 l6) as [sg l7]. simpl in H7.
        pose proof (take_digits_len l7) as H8. destruct (take_digits l7) as [ds8 l8]. simpl in H8.
        destruct ds8; [simpl; discriminate|].
        match goal with |- context [if ?c then mk_err _ _ _ _ _ _ else _] => destruct c end;
          unfold is_err, rest_of, mk_tok, mk_err; simpl; try discriminate; intros; lia.
      * match goal with |- context [if ?c then mk_err _ _ _ _ _ _ else _] => destruct c end;
          unfold is_err, rest_of, mk_tok, mk_err; simpl; try discriminate; intros; lia.
    + pose proof (accept2_len 101 69 l2) as H6. destruct (accept2 101 69 l2) as [ex l6]. simpl in H6.
      destruct ex.
      * pose proof (accept2_len 45 43 l6) as H7. destruct (accept2 45 43 l6) as [sg l7]. simpl in H7.
        pose proof (take_digits_len l7) as H8. destruct (take_digits l7) as [ds8 l8]. simpl in H8.
        destruct ds8; [simpl; discriminate|].
        match goal with |- context [if ?c then mk_err _ _ _ _ _ _ else _] => destruct c end;
          unfold is_err, rest_of, mk_tok, mk_err; simpl; try discriminate; intros; lia.
      * match goal with |- context [if ?c then mk_err _ _ _ _ _ _ else _] => destruct c end;
          unfold is_err, rest_of, mk_tok, mk_err; simpl; try discriminate; intros; lia.
  - destruct (take_digits l1) as [ds l3] eqn:Ed. destruct ds as [|dd ds'].
    { simpl. discriminate. }
    assert (Hl3 : (length l3 < length l)%nat).
    { pose proof (take_digits_nonempty_len _ _ _ Ed). assert (dd :: ds' <> []) by discriminate. intuition lia. }
    revert Hl3. generalize ((if neg then [45%N] else []) ++ dd :: ds'). generalize ((if neg then start + 1 else start) + zlen (dd :: ds')).
    intros e3 v1 Hl3. clear Ed.
    pose proof (accept1_len 46 l3) as H4. destruct (accept1 46 l3) as [dot l4]. simpl in H4.
    destruct dot.
    + pose proof (take_digits_len l4) as H5. destruct (take_digits l4) as [ds5 l5]. simpl in H5.
      destruct ds5; [simpl; discriminate|].
      pose proof (accept2_len 101 69 l5) as H6. destruct (accept2 101 69 l5) as [ex l6]. simpl in H6.
      destruct ex.
      * pose proof (accept2_len 45 43 l6) as H7. destruct (accept2 45 43 l6) as [sg l7]. simpl in H7.
        pose proof (take_digits_len l7) as H8. destruct (take_digits l7) as [ds8 l8]. simpl in H8.
        destruct ds8; [simpl; discriminate|].
        match goal with |- context [if ?c then mk_err _ _ _ _ _ _ else _] => destruct c end;
          unfold is_err, rest_of, mk_tok, mk_err; simpl; try discriminate; intros; lia.
      * match goal with |- context [if ?c then mk_err _ _ _ _ _ _ else _] => destruct c end;
          unfold is_err, rest_of, mk_tok, mk_err; simpl; try discriminate; intros; lia.
    + pose proof (accept2_len 101 69 l3) as H6. destruct (accept2 101 69 l3) as [ex l6]. simpl in H6.
      destruct ex.
      * pose proof (accept2_len 45 43 l6) as H7. destruct (accept2 45 43 l6) as [sg l7]. simpl in H7.
        pose proof (take_digits_len l7) as H8. destruct (take_digits l7) as [ds8 l8]. simpl in H8.
        destruct ds8; [simpl; discriminate|].
        match goal with |- context [if ?c then mk_err _ _ _ _ _ _ else _] => destruct c end;
          unfold is_err, rest_of, mk_tok, mk_err; simpl; try discriminate; intros; lia.
      * match goal with |- context [if ?c then mk_err _ _ _ _ _ _ else _] => destruct c end;
          unfold is_err, rest_of, mk_tok, mk_err; simpl; try discriminate; intros; lia.
Qed.

Lemma readString_loop_len : forall d fuel l raw buf start e ln ls r,
  readString_loop d fuel l raw buf start e ln ls = Some r -> (length (rest_of r) <= length l)%nat.
Proof.
  induction fuel as [|f IH]; intros l raw buf start e ln ls r H; [discriminate|].
  cbn [readString_loop] in H. destruct l as [|c tl].
  { inversion H; subst. unfold rest_of, mk_err; simpl. lia. }
  destruct ((c =? 10)%N || (c =? 13)%N).
  { inversion H; subst. unfold rest_of, mk_err; simpl. lia. }
  destruct ((c <? 32)%N && negb (c =? 9)%N).
  { inversion H; subst. unfold rest_of, mk_err; simpl. lia. }
  destruct (c =? 34)%N.
  { inversion H; subst. unfold rest_of; simpl. lia. }
  destruct (c =? 92)%N.
  - destruct tl as [|esc tl2].
    { inversion H; subst. unfold rest_of, mk_err; simpl. lia. }
    destruct (esc =? 117)%N.
    + destruct tl2 as [|h1 [|h2 [|h3 [|h4 [|x tl6]]]]];
        try (inversion H; subst; unfold rest_of, mk_err; simpl; lia).
      destruct (unhex4 h1 h2 h3 h4).
      * apply IH in H. simpl in *. lia.
      * inversion H; subst; unfold rest_of, mk_err; simpl; lia.
    + match type of H with context [match ?o with Some _ => _ | None => _ end] => destruct o end.
      * apply IH in H. simpl in *. lia.
      * inversion H; subst; unfold rest_of, mk_err; simpl; lia.
  - destruct (if (c <? 127)%N then (c, 1%nat) else decode_rune (c :: tl)) as [ch w].
    apply IH in H. rewrite skipn_length in H. lia.
Qed.

Lemma count_quotes_after : forall l n after, count_quotes l = (n, after) -> (length after + n = length l)%nat.
Proof.
  induction l as [|c tl IH]; intros n after H; simpl in H.
  - inversion H; subst; auto.
  - destruct c as [|p]; [inversion H; subst; simpl; lia|].
    repeat (destruct p as [p|p|]; try (inversion H; subst; simpl; lia)).
    destruct (count_quotes tl) as [n' r'] eqn:E. inversion H; subst.
    specialize (IH _ _ eq_refl). simpl. lia.
Qed.

Lemma readBlock_loop_len : forall d fuel l buf start e ln ls sl sls r,
  readBlock_loop d fuel l buf start e ln ls sl sls = Some r -> (length (rest_of r) <= length l)%nat.
Proof.
  induction fuel as [|f IH]; intros l buf start e ln ls sl sls r H; [discriminate|].
  cbn [readBlock_loop] in H. destruct l as [|c tl].
  { inversion H; subst. unfold rest_of, mk_err; simpl. lia. }
  destruct (count_quotes (c :: tl)) as [qc after] eqn:Eq.
  destruct (3 <=? qc)%nat.
  { inversion H; subst. unfold rest_of; cbn [snd rest].
    pose proof (count_quotes_after _ _ _ Eq). destruct (d F_L3); [lia|]. destruct tl as [|? [|? ?]]; simpl; lia. }
  match type of H with context [if ?c then Some _ else _] => destruct c end.
  { inversion H; subst. unfold rest_of, mk_err; simpl. lia. }
  assert (Hdef : forall buf' e' ln' ls',
    readBlock_loop d f (skipn (snd (if (c <? 127)%N then (c, 1%nat) else decode_rune (c :: tl))) (c :: tl))
       buf' start e' ln' ls' sl sls = Some r -> (length (rest_of r) <= length (c :: tl))%nat).
  { intros ? ? ? ? H'. apply IH in H'. rewrite skipn_length in H'. lia. }
  assert (Hgen : forall (tl' : str) buf' e' ln' ls', (length tl' <= length tl)%nat ->
    readBlock_loop d f tl' buf' start e' ln' ls' sl sls = Some r -> (length (rest_of r) <= length (c :: tl))%nat).
  { intros ? ? ? ? ? Hl H'. apply IH in H'. simpl. lia. }
  destruct (if (c <? 127)%N then (c, 1%nat) else decode_rune (c :: tl)) as [ch w] eqn:E.
  simpl snd in Hdef.
  destruct c as [|p]; [eapply Hdef; eauto|].
  repeat (destruct p as [p|p|]; try (eapply Hdef; eauto; fail));
    destruct tl as [|c1 tl1]; try (eapply Hdef; eauto; fail); try (eapply Hgen; [|eauto]; simpl; lia);
    repeat match type of H with
    | context [match ?x with _ => _ end] =>
        match x with
        | N0 => fail 1
        | _ => destruct x; try (eapply Hdef; eauto; fail); try (eapply Hgen; [|eauto]; simpl; lia)
        end
    end.
Qed.

(* ---------- ReadToken is total, and proper tokens make progress ---------- *)

Theorem readToken_total : forall d s, readToken d s <> None.
Proof.
  intros d s. unfold readToken.
  destruct (ws d (rest s) (endR s) (line s) (lsr s)) as [[[l e] ln] ls].
  destruct l as [|c tl]; [discriminate|].
  destruct (punct c); [discriminate|].
  destruct (c =? 46)%N.
  { destruct tl as [|c1 tl1]; [discriminate|]. destruct c1 as [|p]; [discriminate|].
    repeat (destruct p as [p|p|]; try discriminate).
    destruct tl1 as [|c2 tl2]; [discriminate|]. destruct c2 as [|p]; [discriminate|].
    repeat (destruct p as [p|p|]; try discriminate). }
  destruct (c =? 35)%N.
  { destruct (take_comment (length tl) tl) as [[body n] rst]. discriminate. }
  destruct (is_name_start c).
  { destruct (take_name tl). discriminate. }
  destruct ((c =? 45)%N || is_digit c); [discriminate|].
  destruct (c =? 34)%N.
  { assert (Hs : readString_loop d (S (length tl)) tl [] None e (e + 1) ln ls <> None)
      by (apply readString_loop_some; lia).
    destruct tl as [|c1 tl1]; [exact Hs|]. destruct c1 as [|p]; [exact Hs|].
    repeat (destruct p as [p|p|]; try exact Hs).
    destruct tl1 as [|c2 tl2]; [exact Hs|]. destruct c2 as [|p]; [exact Hs|].
    repeat (destruct p as [p|p|]; try exact Hs).
    apply readBlock_loop_some. lia. }
  destruct ((c <? 32)%N && negb (c =? 9)%N && negb (c =? 10)%N && negb (c =? 13)%N); [discriminate|].
  destruct (c =? 39)%N; discriminate.
Qed.

Theorem readToken_progress : forall d s t s',
  readToken d s = Some (t, None, s') -> tkind t <> EOF ->
  (length (rest s') < length (rest s))%nat.
Proof.
  intros d s t s' H Hk. unfold readToken in H.
  pose proof (ws_len d (rest s) (endR s) (line s) (lsr s)) as Hw.
  destruct (ws d (rest s) (endR s) (line s) (lsr s)) as [[[l e] ln] ls]. simpl in Hw.
  destruct l as [|c tl].
  { inversion H; subst. simpl in Hk. congruence. }
  destruct (punct c).
  { inversion H; subst. simpl in *. lia. }
  destruct (c =? 46)%N.
  { destruct tl as [|c1 tl1]; [discriminate|]. destruct c1 as [|p]; [discriminate|].
    repeat (destruct p as [p|p|]; try discriminate).
    destruct tl1 as [|c2 tl2]; [discriminate|]. destruct c2 as [|p]; [discriminate|].
    repeat (destruct p as [p|p|]; try discriminate).
    inversion H; subst. simpl in *. lia. }
  destruct (c =? 35)%N.
  { pose proof (take_comment_len (length tl) tl) as Hc.
    destruct (take_comment (length tl) tl) as [[body n] rst]. inversion H; subst. simpl in *. lia. }
  destruct (is_name_start c).
  { pose proof (take_name_len tl) as Hc. destruct (take_name tl). inversion H; subst. simpl in *. lia. }
  destruct ((c =? 45)%N || is_digit c).
  { pose proof (readNumber_progress d (c :: tl) e ln ls) as Hn.
    inversion H as [H']. rewrite H' in Hn. unfold is_err, rest_of in Hn. simpl in Hn.
    specialize (Hn eq_refl). simpl in *. lia. }
  destruct (c =? 34)%N.
  { assert (Hs : readString_loop d (S (length tl)) tl [] None e (e + 1) ln ls = Some (t, None, s') ->
                 (length (rest s') < length (rest s))%nat).
    { intro Hr. apply readString_loop_len in Hr. unfold rest_of in Hr. simpl in *. lia. }
    destruct tl as [|c1 tl1]; [auto|]. destruct c1 as [|p]; [auto|].
    repeat (destruct p as [p|p|]; try (apply Hs; exact H)).
    destruct tl1 as [|c2 tl2]; [auto|]. destruct c2 as [|p]; [auto|].
    repeat (destruct p as [p|p|]; try (apply Hs; exact H)).
    apply readBlock_loop_len in H. unfold rest_of in H. simpl in *. lia. }
  destruct ((c <? 32)%N && negb (c =? 9)%N && negb (c =? 10)%N && negb (c =? 13)%N); [discriminate|].
  destruct (c =? 39)%N; discriminate.
Qed.


Theorem lex_all_total : forall d fuel s,
  (length (rest s) < fuel)%nat -> lex_all d fuel s <> None.
Proof.
  induction fuel as [|f IH]; intros s Hf; [lia|].
  cbn [lex_all]. pose proof (readToken_total d s) as Ht.
  destruct (readToken d s) as [[[t oe] s']|] eqn:E; [|congruence].
  destruct oe; [discriminate|].
  destruct (tkind t) eqn:Ek; try discriminate;
    (pose proof (readToken_progress d s t s' E ltac:(rewrite Ek; discriminate)) as Hp;
     specialize (IH s' ltac:(lia)); destruct (lex_all d f s') as [[ts er]|]; [discriminate|congruence]).
Qed.

Theorem lex_total : forall d input, lex d input <> None.
Proof. intros. unfold lex. apply lex_all_total. simpl. lia. Qed.
