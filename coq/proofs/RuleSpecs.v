(* RuleSpecs.v — some validation rules against their declarative reading (C08): the rule reports
   nothing exactly when the document satisfies the specification's condition. *)
From Coq Require Import List NArith ZArith Bool Lia.
From GQL.model Require Import Base Utf8 Lexer Ast Schema Walk Rules Rules2 Validate.
From GQL.proofs Require Import StrFacts RuleCompose JsonRoundtrip Linked.
Import ListNotations.

(* ---- which events a walk produces ---- *)
Definition top_event (e : event) : bool :=
  match e with EvOperation _ _ | EvFragment _ | EvVariable _ => true | _ => false end.

Lemma walk_value_no_top : forall s v exp def, forallb (fun e => negb (top_event e)) (walk_value s v exp def) = true.
Proof.
  intros s. induction v as [k raw ch p IH] using value_ind'. intros exp def. cbn [walk_value].
  rewrite forallb_app. apply andb_true_iff. split; [|reflexivity].
  destruct k; try reflexivity.
  - (* list *)
    induction IH as [|c tl Hc Htl IHl]; [reflexivity|]. cbn [flat_map]. rewrite forallb_app. apply andb_true_iff. split; [|exact IHl].
    destruct c as [[n op] cv]. cbn [snd] in Hc. destruct exp as [[| ]|]; apply Hc.
  - (* object *)
    induction IH as [|c tl Hc Htl IHl]; [reflexivity|]. cbn [flat_map]. rewrite forallb_app. apply andb_true_iff. split; [|exact IHl].
    destruct c as [[n op] cv]. cbn [snd] in Hc. destruct def as [d|]; [destruct (find_field n (df_fields d))|]; apply Hc.
Qed.

Lemma walk_directives_no_top : forall s ds loc, forallb (fun e => negb (top_event e)) (walk_directives s ds loc) = true.
Proof.
  intros s ds loc. unfold walk_directives. rewrite forallb_app. apply andb_true_iff. split; [|reflexivity].
  induction ds as [|x tl IH]; [reflexivity|]. cbn [flat_map]. rewrite !forallb_app. apply andb_true_iff. split; [|exact IH].
  apply andb_true_iff. split; [|reflexivity].
  induction (d_args x) as [|a al IHa]; [reflexivity|]. cbn [flat_map]. rewrite forallb_app. apply andb_true_iff. split; [|exact IHa].
  unfold walk_argument. destruct (match sdir s (d_name x) with Some y => find_argdef (a_name a) (dd_args y) | None => None end);
    apply walk_value_no_top.
Qed.

Section Events.
  Variable s : schema.
  Variable doc : qdoc.

  Definition no_top (l : list event) : Prop := forallb (fun e => negb (top_event e)) l = true.

  Lemma no_top_app : forall a c, no_top a -> no_top c -> no_top (a ++ c).
  Proof. intros a c Ha Hc. unfold no_top in *. rewrite forallb_app, Ha, Hc. reflexivity. Qed.

  Lemma fold_no_top : forall (W : selection -> wst -> list event * wst) sels acc st,
    (forall x, In x sels -> forall st', no_top (fst (W x st'))) -> no_top acc ->
    no_top (fst (fold_left (fun a x => let '(ev, st') := W x (snd a) in (fst a ++ ev, st')) sels (acc, st))).
  Proof.
    intros W. induction sels as [|x tl IH]; intros acc st Hx Hacc; [exact Hacc|].
    cbn [fold_left fst snd]. destruct (W x st) as [ev st'] eqn:E. apply IH.
    - intros y Hy. apply Hx. right. exact Hy.
    - apply no_top_app; [exact Hacc|]. specialize (Hx x (or_introl eq_refl) st). rewrite E in Hx. exact Hx.
  Qed.

  Lemma args_no_top : forall (F : argument -> option argdef) args,
    no_top (flat_map (fun a => walk_argument s (F a) a) args).
  Proof.
    intros F. induction args as [|a tl IH]; [reflexivity|]. cbn [flat_map]. apply no_top_app; [|exact IH].
    unfold walk_argument. destruct (F a); apply walk_value_no_top.
  Qed.

  Lemma walk_sel_no_top : forall fuel sel parent st, no_top (fst (walk_sel s doc fuel parent sel st)).
  Proof.
    induction fuel as [|f IHf]; intros sel; [intros; reflexivity|].
    induction sel as [al n args dirs sels p IH|n dirs p|tc dirs sels p IH] using sel_ind'; intros parent st.
    - rewrite walk_sel_field. cbv zeta.
      set (next := match field_def_of parent n with Some x => stype s (type_name (fd_type x)) | None => None end).
      set (st1 := mkWst (w_visited st) (w_used st ++ flat_map (fun a => value_vars (a_value a)) args ++ dirs_vars dirs)).
      assert (Hf : no_top (fst (fold_left (fun a x => let '(ev, st') := walk_sel s doc (S f) next x (snd a) in (fst a ++ ev, st')) sels ([], st1)))).
      { apply (fold_no_top (fun x st' => walk_sel s doc (S f) next x st')); [|reflexivity].
        intros x Hx st'. exact (proj1 (Forall_forall _ _) IH x Hx next st'). }
      match goal with |- context [let '(ev_sels, st2) := ?X in _] => destruct X as [ev_sels st2] eqn:EX end.
      cbn [fst]. unfold no_top. cbn [forallb top_event negb andb].
      change (no_top (flat_map (fun a => walk_argument s (match field_def_of parent n with Some x => find_argdef (a_name a) (fd_args x) | None => None end) a) args
                      ++ walk_directives s dirs (b "FIELD") ++ ev_sels ++ [EvField (SField al n args dirs sels p) parent (field_def_of parent n)])).
      apply no_top_app; [apply args_no_top|]. apply no_top_app; [apply walk_directives_no_top|].
      apply no_top_app; [|reflexivity]. exact Hf.
    - cbn [walk_sel].
      match goal with |- context [let '(ev_body, st2) := ?X in _] => assert (Hb : no_top (fst X)) end.
      { destruct (find_frag n (q_frags doc)) as [x|]; [|reflexivity].
        destruct (mem_str (f_name x) _); [reflexivity|].
        apply (fold_no_top (fun y st' => walk_sel s doc f _ y st')); [|reflexivity]. intros y _ st'. apply IHf. }
      match goal with |- context [let '(ev_body, st2) := ?X in _] => destruct X as [ev_body st2] end.
      cbn [fst] in *. unfold no_top. cbn [forallb top_event negb andb].
      change (no_top (walk_directives s dirs (b "FRAGMENT_SPREAD") ++ ev_body ++ [EvSpread (SSpread n dirs p) parent])).
      apply no_top_app; [apply walk_directives_no_top|]. apply no_top_app; [exact Hb|reflexivity].
    - rewrite walk_sel_inline. cbv zeta.
      set (next := match tc with [] => parent | _ => stype s tc end).
      set (st1 := mkWst (w_visited st) (w_used st ++ dirs_vars dirs)).
      assert (Hf : no_top (fst (fold_left (fun a x => let '(ev, st') := walk_sel s doc (S f) next x (snd a) in (fst a ++ ev, st')) sels ([], st1)))).
      { apply (fold_no_top (fun x st' => walk_sel s doc (S f) next x st')); [|reflexivity].
        intros x Hx st'. exact (proj1 (Forall_forall _ _) IH x Hx next st'). }
      match goal with |- context [let '(ev_sels, st2) := ?X in _] => destruct X as [ev_sels st2] eqn:EX end.
      cbn [fst].
      apply no_top_app; [apply walk_directives_no_top|]. apply no_top_app; [|reflexivity]. exact Hf.
  Qed.
End Events.

(* ---- a rule only sees the events it reacts to ---- *)
Lemma run_events_filter : forall n St (step : St -> cev -> St * list rerr) (P : cev -> bool),
  (forall st e, P e = false -> step st e = (st, [])) ->
  forall evs st, run_events [RI n St st step] evs = run_events [RI n St st step] (filter P evs).
Proof.
  intros n St step P HP. induction evs as [|e tl IH]; intro st; [reflexivity|].
  cbn [filter]. destruct (P e) eqn:E.
  - cbn [run_events deliver rinst_step]. destruct (step st e) as [st' errs]. rewrite !app_nil_r. f_equal. apply IH.
  - cbn [run_events deliver rinst_step]. rewrite (HP st e E). cbn. apply IH.
Qed.

Section OpEvents.
  Variable s : schema.
  Variable doc : qdoc.

  Definition is_op (e : cev) : bool := match snd e with EvOperation _ _ => true | _ => false end.
  Definition is_frag (e : cev) : bool := match snd e with EvFragment _ => true | _ => false end.

  Lemma filter_map_wrap : forall (P : event -> bool) (a c : option opdef) l,
    filter (fun e : cev => P (snd e)) (map (fun e => (a, c, e)) l) = map (fun e => (a, c, e)) (filter P l).
  Proof. intros P a c. induction l as [|e l IH]; [reflexivity|]. cbn. destruct (P e); cbn; rewrite IH; reflexivity. Qed.

  Lemma filter_no_top : forall (P : event -> bool) l, (forall e, P e = true -> top_event e = true) -> no_top l -> filter P l = [].
  Proof.
    intros P l HP H. induction l as [|e l IH]; [reflexivity|]. unfold no_top in H. cbn in H. apply andb_true_iff in H as [H1 H2].
    cbn. destruct (P e) eqn:E; [apply HP in E; rewrite E in H1; discriminate|]. apply IH. exact H2.
  Qed.

  Definition ev_isop (e : event) : bool := match e with EvOperation _ _ => true | _ => false end.
  Definition ev_isfrag (e : event) : bool := match e with EvFragment _ => true | _ => false end.

  Lemma walk_sels_no_top : forall fuel parent l st, no_top (fst (walk_sels s doc fuel parent l st)).
  Proof.
    intros. unfold walk_sels. apply (fold_no_top (fun x st' => walk_sel s doc fuel parent x st')); [|reflexivity].
    intros x _ st'. apply walk_sel_no_top.
  Qed.

  Lemma vardefs_no_top : forall (o : opdef),
    no_top (flat_map (fun v => (match vd_default v with
                                | Some dv => walk_value s dv (Some (vd_type v)) (stype s (type_name (vd_type v)))
                                | None => [] end) ++ walk_directives s (vd_dirs v) (b "VARIABLE_DEFINITION")) (o_vars o)).
  Proof.
    intro o. induction (o_vars o) as [|v tl IH]; [reflexivity|]. cbn [flat_map]. apply no_top_app; [|exact IH].
    apply no_top_app; [destruct (vd_default v); [apply walk_value_no_top|reflexivity]|apply walk_directives_no_top].
  Qed.

  (* the operation events of the walk: one per operation, in document order *)
  Lemma walk_operation_ops : forall o, exists used,
    filter is_op (walk_operation s doc o) = [(Some o, Some o, EvOperation o used)].
  Proof.
    intro o. unfold walk_operation.
    match goal with |- context [let '(ev3, st) := walk_sels s doc ?F ?D ?L ?S0 in _] =>
      pose proof (walk_sels_no_top F D L S0) as H3; destruct (walk_sels s doc F D L S0) as [ev3 st] end.
    cbn [fst] in H3. eexists.
    change is_op with (fun e : cev => ev_isop (snd e)). rewrite filter_map_wrap. f_equal.
    assert (Hop : forall e, ev_isop e = true -> top_event e = true) by (intros []; cbn; congruence).
    rewrite !filter_app.
    rewrite (filter_no_top ev_isop _ Hop (vardefs_no_top o)).
    rewrite (filter_no_top ev_isop _ Hop (walk_directives_no_top s (o_dirs o) _)).
    rewrite (filter_no_top ev_isop _ Hop H3).
    assert (Hv : filter ev_isop (map EvVariable (o_vars o)) = []) by (induction (o_vars o); [reflexivity|assumption]).
    rewrite Hv. reflexivity.
  Qed.

  Lemma walk_fragment_ops : forall f, filter is_op (walk_fragment s doc f) = [].
  Proof.
    intro f. unfold walk_fragment.
    match goal with |- context [let '(ev, _) := walk_sels s doc ?F ?D ?L ?S0 in _] =>
      pose proof (walk_sels_no_top F D L S0) as H3; destruct (walk_sels s doc F D L S0) as [ev st] end.
    cbn [fst] in H3. change is_op with (fun e : cev => ev_isop (snd e)).
    assert (Hop : forall e, ev_isop e = true -> top_event e = true) by (intros []; cbn; congruence).
    rewrite filter_app, !filter_map_wrap, filter_app.
    rewrite (filter_no_top ev_isop _ Hop (walk_directives_no_top s (f_dirs f) _)), (filter_no_top ev_isop _ Hop H3). reflexivity.
  Qed.
End OpEvents.

Section UniqueOps.
  Variable s : schema.
  Variable doc : qdoc.

  Definition op_event (o : opdef) (e : cev) : Prop := exists used, e = (Some o, Some o, EvOperation o used).

  Lemma walk_ops : Forall2 op_event doc.(q_ops) (filter is_op (walk s doc)).
  Proof.
    unfold walk. rewrite filter_app.
    assert (Hf : filter is_op (flat_map (walk_fragment s doc) (q_frags doc)) = []).
    { induction (q_frags doc) as [|f tl IH]; [reflexivity|]. cbn [flat_map]. rewrite filter_app, walk_fragment_ops, IH. reflexivity. }
    rewrite Hf, app_nil_r. induction (q_ops doc) as [|o tl IH]; [constructor|].
    cbn [flat_map]. rewrite filter_app. destruct (walk_operation_ops s doc o) as [used Hu]. rewrite Hu.
    cbn [app]. constructor; [exists used; reflexivity|exact IH].
  Qed.

  Lemma mem_str_in : forall x l, mem_str x l = true <-> In x l.
  Proof.
    intros x l. unfold mem_str. rewrite existsb_exists. split.
    - intros [y [Hy E]]. apply str_eqb_eq in E. subst. exact Hy.
    - intro H. exists x. split; [exact H|apply str_eqb_refl].
  Qed.

  (* UniqueOperationNames reports nothing exactly when no two operations share a name *)
  Lemma unique_ops_run : forall ops L seen, Forall2 op_event ops L ->
    (run_events [RI (b "UniqueOperationNames") (list str) seen
                    (fun seen e => match snd e with
                                   | EvOperation o _ => (o.(o_name) :: seen, if mem_str o.(o_name) seen then [err_at o.(o_pos)] else [])
                                   | _ => (seen, [])
                                   end)] L = []
     <-> (forall o, In o ops -> ~ In o.(o_name) seen) /\ NoDup (map o_name ops)).
  Proof.
    induction ops as [|o tl IH]; intros L seen H; inversion H as [|? e ? L' [used ->] H2]; subst.
    - cbn. split; [intros _; split; [intros ? []|constructor]|reflexivity].
    - cbn [run_events deliver rinst_step snd map]. rewrite app_nil_r.
      specialize (IH L' (o_name o :: seen) H2). split.
      + intro Hr. apply app_eq_nil in Hr as [H1 Hr]. apply IH in Hr as [Ha Hb].
        destruct (mem_str (o_name o) seen) eqn:Em; [discriminate|].
        split.
        * intros o' [<-|Hin].
          -- intro Hin. apply mem_str_in in Hin. congruence.
          -- intro Hs. apply (Ha o' Hin). right. exact Hs.
        * constructor; [|exact Hb]. intro Hin. apply in_map_iff in Hin as [o' [En Ho']]. apply (Ha o' Ho'). left. symmetry. exact En.
      + intros [Ha Hb]. apply NoDup_cons_iff in Hb as [Hn Hb].
        assert (Em : mem_str (o_name o) seen = false).
        { destruct (mem_str (o_name o) seen) eqn:E; [|reflexivity]. apply mem_str_in in E. exfalso. apply (Ha o (or_introl eq_refl)). exact E. }
        rewrite Em. cbn [map app]. apply IH. split; [|exact Hb].
        intros o' Ho' [E|Hs]; [apply Hn; rewrite E; apply in_map; exact Ho'|apply (Ha o' (or_intror Ho')); exact Hs].
  Qed.

  Theorem UniqueOperationNames_spec :
    run_events [r_UniqueOperationNames] (walk s doc) = [] <-> NoDup (map o_name doc.(q_ops)).
  Proof.
    unfold r_UniqueOperationNames.
    rewrite (run_events_filter _ _ _ is_op).
    2:{ intros st [[a c] e] Hp; destruct e; try reflexivity. unfold is_op in Hp; cbn [snd] in Hp. discriminate Hp. }
    rewrite (unique_ops_run _ _ [] walk_ops). split; [intros [_ H]; exact H|intro H; split; [intros o _ []|exact H]].
  Qed.

  Lemma lone_run : forall (n : nat) ops L, Forall2 op_event ops L ->
    (run_events [RI (b "LoneAnonymousOperation") unit tt
                    (fun (_ : unit) (e : cev) =>
                       (tt, match snd e with
                            | EvOperation o _ => if nil_str o.(o_name) && (1 <? n)%nat then [err_at o.(o_pos)] else []
                            | _ => []
                            end))] L = []
     <-> (forall o, In o ops -> o.(o_name) = [] -> n <= 1)%nat).
  Proof.
    intros n. induction ops as [|o tl IH]; intros L H; inversion H as [|? e ? L' [used ->] H2]; subst.
    - cbn. split; [intros _ ? []|reflexivity].
    - cbn [run_events deliver rinst_step snd]. rewrite app_nil_r. specialize (IH L' H2). split.
      + intro Hr. apply app_eq_nil in Hr as [H1 Hr0]. pose proof (proj1 IH Hr0) as Hr. intros o' [<-|Hin] Hnil.
        * unfold nil_str in H1. rewrite Hnil in H1. cbn [andb] in H1. destruct (1 <? n)%nat eqn:E; [discriminate|]. apply Nat.ltb_ge in E. exact E.
        * apply (Hr o' Hin Hnil).
      + intro Ha. assert (H1 : (if nil_str (o_name o) && (1 <? n)%nat then [err_at (o_pos o)] else []) = []).
        { destruct (nil_str (o_name o)) eqn:En; [|reflexivity]. cbn [andb].
          assert (Hl : (n <= 1)%nat) by (apply (Ha o (or_introl eq_refl)); destruct (o_name o); [reflexivity|discriminate]).
          destruct (1 <? n)%nat eqn:E; [apply Nat.ltb_lt in E; lia|reflexivity]. }
        rewrite H1. cbn [app map]. apply (proj2 IH). intros o' Hin. apply Ha. right. exact Hin.
  Qed.

  (* LoneAnonymousOperation reports nothing exactly when an anonymous operation is the only one *)
  Theorem LoneAnonymousOperation_spec :
    run_events [r_LoneAnonymousOperation doc] (walk s doc) = []
    <-> (forall o, In o doc.(q_ops) -> o.(o_name) = [] -> length doc.(q_ops) <= 1)%nat.
  Proof.
    unfold r_LoneAnonymousOperation, stateless.
    rewrite (run_events_filter _ _ _ is_op).
    2:{ intros [] [[a c] e] Hp; destruct e; try reflexivity. unfold is_op in Hp; cbn [snd] in Hp. discriminate Hp. }
    exact (lone_run (length (q_ops doc)) _ _ walk_ops).
  Qed.

  (* ---- fragment definitions ---- *)
  Lemma walk_operation_frags : forall o, filter is_frag (walk_operation s doc o) = [].
  Proof.
    intro o. unfold walk_operation.
    match goal with |- context [let '(ev3, st) := walk_sels s doc ?F ?D ?L ?S0 in _] =>
      pose proof (walk_sels_no_top s doc F D L S0) as H3; destruct (walk_sels s doc F D L S0) as [ev3 st] end.
    cbn [fst] in H3. change is_frag with (fun e : cev => ev_isfrag (snd e)). rewrite filter_map_wrap.
    assert (Hop : forall e, ev_isfrag e = true -> top_event e = true) by (intros []; cbn; congruence).
    rewrite !filter_app.
    rewrite (filter_no_top ev_isfrag _ Hop (vardefs_no_top s o)).
    rewrite (filter_no_top ev_isfrag _ Hop (walk_directives_no_top s (o_dirs o) _)).
    rewrite (filter_no_top ev_isfrag _ Hop H3).
    assert (Hv : filter ev_isfrag (map EvVariable (o_vars o)) = []) by (induction (o_vars o); [reflexivity|assumption]).
    rewrite Hv. reflexivity.
  Qed.

  Definition frag_event (f : fragdef) (e : cev) : Prop := exists a c, e = (a, c, EvFragment f).

  Lemma walk_frags : Forall2 frag_event doc.(q_frags) (filter is_frag (walk s doc)).
  Proof.
    unfold walk. rewrite filter_app.
    assert (Hf : filter is_frag (flat_map (walk_operation s doc) (q_ops doc)) = []).
    { induction (q_ops doc) as [|o tl IH]; [reflexivity|]. cbn [flat_map]. rewrite filter_app, walk_operation_frags, IH. reflexivity. }
    rewrite Hf. cbn [app]. induction (q_frags doc) as [|f tl IH]; [constructor|].
    cbn [flat_map]. rewrite filter_app.
    assert (Hone : filter is_frag (walk_fragment s doc f) = [(None, stale_op doc f, EvFragment f)]).
    { unfold walk_fragment.
      match goal with |- context [let '(ev, _) := walk_sels s doc ?F ?D ?L ?S0 in _] =>
        pose proof (walk_sels_no_top s doc F D L S0) as H3; destruct (walk_sels s doc F D L S0) as [ev st] end.
      cbn [fst] in H3. change is_frag with (fun e : cev => ev_isfrag (snd e)).
      assert (Hop : forall e, ev_isfrag e = true -> top_event e = true) by (intros []; cbn; congruence).
      rewrite filter_app, !filter_map_wrap, filter_app.
      rewrite (filter_no_top ev_isfrag _ Hop (walk_directives_no_top s (f_dirs f) _)), (filter_no_top ev_isfrag _ Hop H3). reflexivity. }
    rewrite Hone. cbn [app]. constructor; [eexists; eexists; reflexivity|exact IH].
  Qed.

  Lemma unique_frags_run : forall frs L seen, Forall2 frag_event frs L ->
    (run_events [RI (b "UniqueFragmentNames") (list str) seen
                    (fun seen e => match snd e with
                                   | EvFragment f => (f.(f_name) :: seen, if mem_str f.(f_name) seen then [err_at f.(f_pos)] else [])
                                   | _ => (seen, [])
                                   end)] L = []
     <-> (forall f, In f frs -> ~ In f.(f_name) seen) /\ NoDup (map f_name frs)).
  Proof.
    induction frs as [|f tl IH]; intros L seen H; inversion H as [|? e ? L' [a [c ->]] H2]; subst.
    - cbn. split; [intros _; split; [intros ? []|constructor]|reflexivity].
    - cbn [run_events deliver rinst_step snd map]. rewrite app_nil_r.
      specialize (IH L' (f_name f :: seen) H2). split.
      + intro Hr. apply app_eq_nil in Hr as [H1 Hr0]. destruct (proj1 IH Hr0) as [Ha Hb].
        destruct (mem_str (f_name f) seen) eqn:Em; [discriminate|].
        split.
        * intros f' [<-|Hin].
          -- intro Hin. apply mem_str_in in Hin. congruence.
          -- intro Hs. apply (Ha f' Hin). right. exact Hs.
        * constructor; [|exact Hb]. intro Hin. apply in_map_iff in Hin as [f' [En Hf']]. apply (Ha f' Hf'). left. symmetry. exact En.
      + intros [Ha Hb]. apply NoDup_cons_iff in Hb as [Hn Hb].
        assert (Em : mem_str (f_name f) seen = false).
        { destruct (mem_str (f_name f) seen) eqn:E; [|reflexivity]. apply mem_str_in in E. exfalso. apply (Ha f (or_introl eq_refl)). exact E. }
        rewrite Em. cbn [map app]. apply (proj2 IH). split; [|exact Hb].
        intros f' Hf' [E|Hs]; [apply Hn; rewrite E; apply in_map; exact Hf'|apply (Ha f' (or_intror Hf')); exact Hs].
  Qed.

  (* UniqueFragmentNames reports nothing exactly when no two fragment definitions share a name *)
  Theorem UniqueFragmentNames_spec :
    run_events [r_UniqueFragmentNames] (walk s doc) = [] <-> NoDup (map f_name doc.(q_frags)).
  Proof.
    unfold r_UniqueFragmentNames.
    rewrite (run_events_filter _ _ _ is_frag).
    2:{ intros st [[a c] e] Hp; destruct e; try reflexivity. unfold is_frag in Hp; cbn [snd] in Hp. discriminate Hp. }
    rewrite (unique_frags_run _ _ [] walk_frags). split; [intros [_ H]; exact H|intro H; split; [intros f _ []|exact H]].
  Qed.

  (* and for a whole validation: no errors at all implies each of the three conditions *)
  Theorem valid_document_names : validate s doc = [] ->
    NoDup (map o_name doc.(q_ops)) /\ NoDup (map f_name doc.(q_frags))
    /\ (forall o, In o doc.(q_ops) -> o.(o_name) = [] -> length doc.(q_ops) <= 1)%nat.
  Proof.
    intro Hv.
    assert (Hr : forall r, In r (default_rules false s doc) -> run_events [r] (walk s doc) = [])
      by (intros r Hin; eapply validate_silent; [apply default_rules_names_nodup|exact Hin|exact Hv]).
    split; [|split].
    - apply UniqueOperationNames_spec. apply Hr. cbn. auto 30.
    - apply UniqueFragmentNames_spec. apply Hr. cbn. auto 30.
    - apply LoneAnonymousOperation_spec. apply Hr. cbn. auto 30.
  Qed.
End UniqueOps.
