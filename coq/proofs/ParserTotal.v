(* ParserTotal.v — the parsers never exhaust their fuel: for every input, every token limit and
   every deviation flag, parsing ends with a document or a located error, never with the
   internal "stall" outcome (C01).  A small Hoare logic over Prog.prog with a measure (bytes
   left to lex, plus one for a proper token already peeked) that every consumed token lowers. *)
From Coq Require Import List NArith ZArith Bool Lia.
From GQL.model Require Import Base Utf8 Lexer Ast Parser Prog.
From GQL.proofs Require Import LexerTotal ProgFacts LexPos.
Import ListNotations.

(* ---- the lexer never lengthens the input ---- *)
Lemma readNumber_len : forall d l start ln ls, (length (rest_of (readNumber d l start ln ls)) <= length l)%nat.
Proof.
  intros d l start ln ls. pose proof (readNumber_ok_gen d l start ln ls) as H. unfold res_ok in H. unfold rest_of.
  destruct (readNumber d l start ln ls) as [[t er] s']. destruct H as [H _]. cbn [snd]. eapply reach_len. exact H.
Qed.

Theorem readToken_len : forall d s t e s', readToken d s = Some (t, e, s') -> (length (rest s') <= length (rest s))%nat.
Proof.
  intros d s t e s' H. unfold readToken in H.
  pose proof (ws_len d (rest s) (endR s) (line s) (lsr s)) as Hw.
  destruct (ws d (rest s) (endR s) (line s) (lsr s)) as [[[l e0] ln] ls]. cbn [fst] in Hw.
  destruct l as [|c tl].
  { inversion H; subst. cbn in *. lia. }
  destruct (punct c).
  { inversion H; subst. cbn in *. lia. }
  destruct (c =? 46)%N.
  { assert (Herr : forall r, Some (mk_err (46%N :: tl) e0 e0 ln ls 1) = Some r -> (length (rest (snd r)) <= length (rest s))%nat)
      by (intros r Hr; inversion Hr; subst; cbn in *; lia).
    destruct tl as [|c1 tl1]; [inversion H; subst; cbn in *; lia|]. destruct c1 as [|p]; [inversion H; subst; cbn in *; lia|].
    repeat (destruct p as [p|p|]; try (inversion H; subst; cbn in *; lia)).
    destruct tl1 as [|c2 tl2]; [inversion H; subst; cbn in *; lia|]. destruct c2 as [|p]; [inversion H; subst; cbn in *; lia|].
    repeat (destruct p as [p|p|]; try (inversion H; subst; cbn in *; lia)). }
  destruct (c =? 35)%N.
  { pose proof (take_comment_len (length tl) tl) as Hc.
    destruct (take_comment (length tl) tl) as [[body n] rst]. inversion H; subst. cbn in *. lia. }
  destruct (is_name_start c).
  { pose proof (take_name_len tl) as Hc. destruct (take_name tl). inversion H; subst. cbn in *. lia. }
  destruct ((c =? 45)%N || is_digit c).
  { pose proof (readNumber_len d (c :: tl) e0 ln ls) as Hn.
    inversion H as [H']. rewrite H' in Hn. unfold rest_of in Hn. cbn in *. lia. }
  destruct (c =? 34)%N.
  { assert (Hs : readString_loop d (S (length tl)) tl [] None e0 (e0 + 1) ln ls = Some (t, e, s') ->
                 (length (rest s') <= length (rest s))%nat).
    { intro Hr. apply readString_loop_len in Hr. unfold rest_of in Hr. cbn in *. lia. }
    destruct tl as [|c1 tl1]; [auto|]. destruct c1 as [|p]; [auto|].
    repeat (destruct p as [p|p|]; try (apply Hs; exact H)).
    destruct tl1 as [|c2 tl2]; [auto|]. destruct c2 as [|p]; [auto|].
    repeat (destruct p as [p|p|]; try (apply Hs; exact H)).
    apply readBlock_loop_len in H. unfold rest_of in H. cbn in *. lia. }
  repeat match type of H with (if ?c then _ else _) = _ => destruct c end; inversion H; subst; cbn in *; lia.
Qed.

(* ---- only the end-of-input token has kind EOF, and its value is empty ---- *)
From GQL.proofs Require Import LexIgnored.

Definition rkind (r : res) : kind := tkind (fst (fst r)).

Lemma readNumber_kind : forall d l start ln ls, rkind (readNumber d l start ln ls) <> EOF.
Proof.
  intros d l s1 n1 l1. unfold readNumber, mk_err, mk_tok, rkind.
  repeat (match goal with
          | |- context [match ?x with _ => _ end] => free_of x s1; free_of x n1; free_of x l1; destruct x
          | |- context [if ?x then _ else _] => free_of x s1; free_of x n1; free_of x l1; destruct x
          end; cbv beta iota zeta); cbn; discriminate.
Qed.

Lemma readString_loop_kind : forall d fuel l raw buf s1 e1 n1 l1 r,
  readString_loop d fuel l raw buf s1 e1 n1 l1 = Some r -> rkind r <> EOF.
Proof.
  intros d. induction fuel as [|f IH]; intros l raw buf s1 e1 n1 l1 r H; [discriminate|].
  cbn [readString_loop] in H. unfold mk_err in H.
  repeat (match type of H with
          | context [match ?x with _ => _ end] =>
            free_of x s1; free_of x e1; free_of x n1; free_of x l1;
            lazymatch x with context [readString_loop] => fail | _ => idtac end; destruct x
          | context [if ?x then _ else _] =>
            free_of x s1; free_of x e1; free_of x n1; free_of x l1; destruct x
          end; cbv beta iota zeta in H);
  try (inversion H; subst; unfold rkind; cbn; discriminate); try (eapply IH; exact H).
Qed.

Lemma readBlock_loop_kind : forall d fuel l buf s1 e1 n1 l1 a1 b1 r,
  readBlock_loop d fuel l buf s1 e1 n1 l1 a1 b1 = Some r -> rkind r <> EOF.
Proof.
  intros d. induction fuel as [|f IH]; intros l buf s1 e1 n1 l1 a1 b1 r H; [discriminate|].
  cbn [readBlock_loop] in H. unfold mk_err in H.
  repeat (match type of H with
          | context [match ?x with _ => _ end] =>
            free_of x s1; free_of x e1; free_of x n1; free_of x l1; free_of x a1; free_of x b1;
            lazymatch x with context [readBlock_loop] => fail | _ => idtac end; destruct x
          | context [if ?x then _ else _] =>
            free_of x s1; free_of x e1; free_of x n1; free_of x l1; free_of x a1; free_of x b1; destruct x
          end; cbv beta iota zeta in H);
  try (inversion H; subst; unfold rkind; cbn; discriminate); try (eapply IH; exact H).
Qed.

Lemma punct_not_eof : forall c k, punct c = Some k -> k <> EOF.
Proof.
  intros c k H. unfold punct in H.
  repeat match type of H with (if ?x then _ else _) = _ => destruct x; [inversion H; discriminate|] end. discriminate.
Qed.

Theorem readToken_eof_val : forall d s t e s', readToken d s = Some (t, e, s') -> tkind t = EOF -> tval t = [].
Proof.
  intros d s t e s' H Hk. unfold readToken in H.
  destruct (ws d (rest s) (endR s) (line s) (lsr s)) as [[[l e0] ln] ls].
  destruct l as [|c tl]; [inversion H; subst; reflexivity|]. exfalso.
  destruct (punct c) as [k|] eqn:Ep; [inversion H; subst; cbn in Hk; exact (punct_not_eof _ _ Ep Hk)|].
  destruct (c =? 46)%N.
  { destruct tl as [|c1 tl1]; [inversion H; subst; discriminate|]. destruct c1 as [|p]; [inversion H; subst; discriminate|].
    repeat (destruct p as [p|p|]; try (inversion H; subst; discriminate)).
    destruct tl1 as [|c2 tl2]; [inversion H; subst; discriminate|]. destruct c2 as [|p]; [inversion H; subst; discriminate|].
    repeat (destruct p as [p|p|]; try (inversion H; subst; discriminate)). }
  destruct (c =? 35)%N.
  { destruct (take_comment (length tl) tl) as [[body n] rst]. inversion H; subst. discriminate. }
  destruct (is_name_start c).
  { destruct (take_name tl). inversion H; subst. discriminate. }
  destruct ((c =? 45)%N || is_digit c).
  { inversion H as [H']. pose proof (readNumber_kind d (c :: tl) e0 ln ls) as Hn. rewrite H' in Hn. apply Hn. exact Hk. }
  destruct (c =? 34)%N.
  { assert (Hs : readString_loop d (S (length tl)) tl [] None e0 (e0 + 1) ln ls = Some (t, e, s') -> False)
      by (intro Hr; apply readString_loop_kind in Hr; apply Hr; exact Hk).
    destruct tl as [|c1 tl1]; [auto|]. destruct c1 as [|p]; [auto|].
    repeat (destruct p as [p|p|]; try (apply Hs; exact H)).
    destruct tl1 as [|c2 tl2]; [auto|]. destruct c2 as [|p]; [auto|].
    repeat (destruct p as [p|p|]; try (apply Hs; exact H)).
    apply readBlock_loop_kind in H. apply H. exact Hk. }
  repeat match type of H with (if ?x then _ else _) = _ => destruct x end; inversion H; subst; discriminate.
Qed.

Theorem readToken_eof_rest : forall d s t e s', readToken d s = Some (t, e, s') -> tkind t = EOF -> rest s' = [].
Proof.
  intros d s t e s' H Hk. unfold readToken in H.
  destruct (ws d (rest s) (endR s) (line s) (lsr s)) as [[[l e0] ln] ls].
  destruct l as [|c tl]; [inversion H; subst; reflexivity|]. exfalso.
  destruct (punct c) as [k|] eqn:Ep; [inversion H; subst; cbn in Hk; exact (punct_not_eof _ _ Ep Hk)|].
  destruct (c =? 46)%N.
  { destruct tl as [|c1 tl1]; [inversion H; subst; discriminate|]. destruct c1 as [|p]; [inversion H; subst; discriminate|].
    repeat (destruct p as [p|p|]; try (inversion H; subst; discriminate)).
    destruct tl1 as [|c2 tl2]; [inversion H; subst; discriminate|]. destruct c2 as [|p]; [inversion H; subst; discriminate|].
    repeat (destruct p as [p|p|]; try (inversion H; subst; discriminate)). }
  destruct (c =? 35)%N.
  { destruct (take_comment (length tl) tl) as [[body n] rst]. inversion H; subst. discriminate. }
  destruct (is_name_start c).
  { destruct (take_name tl). inversion H; subst. discriminate. }
  destruct ((c =? 45)%N || is_digit c).
  { inversion H as [H']. pose proof (readNumber_kind d (c :: tl) e0 ln ls) as Hn. rewrite H' in Hn. apply Hn. exact Hk. }
  destruct (c =? 34)%N.
  { assert (Hs : readString_loop d (S (length tl)) tl [] None e0 (e0 + 1) ln ls = Some (t, e, s') -> False)
      by (intro Hr; apply readString_loop_kind in Hr; apply Hr; exact Hk).
    destruct tl as [|c1 tl1]; [auto|]. destruct c1 as [|p]; [auto|].
    repeat (destruct p as [p|p|]; try (apply Hs; exact H)).
    destruct tl1 as [|c2 tl2]; [auto|]. destruct c2 as [|p]; [auto|].
    repeat (destruct p as [p|p|]; try (apply Hs; exact H)).
    apply readBlock_loop_kind in H. apply H. exact Hk. }
  repeat match type of H with (if ?x then _ else _) = _ => destruct x end; inversion H; subst; discriminate.
Qed.

(* ---- measure and the primitives ---- *)
Definition good (s : pst) : Prop := perr_ s <> Some PStall.
Definition pk_weight (p : option (token * option lexerr)) : nat :=
  match p with
  | Some (t, None) => if kind_eqb (tkind t) EOF then 0 else 1
  | _ => 0
  end.
Definition meas (s : pst) : nat := length (rest (plx s)) + pk_weight (peeked s).
(* an end-of-input token carries no text: a state whose peeked token obeys this is well formed *)
Definition eofval (t : token) : Prop := tkind t = EOF -> tval t = [].
Definition wf (s : pst) : Prop :=
  (forall t e, peeked s = Some (t, e) -> eofval t) /\ eofval (prev s)
  /\ (forall t e, peeked s = Some (t, e) -> tkind t = EOF -> rest (plx s) = []).

Lemma kind_eqb_eq : forall a c, kind_eqb a c = true <-> a = c.
Proof. intros a c. unfold kind_eqb. rewrite N.eqb_eq. split; [destruct a, c; cbn; congruence|intros ->; reflexivity]. Qed.

Lemma has_err_none : forall s, has_err s = false <-> perr_ s = None.
Proof. intro s. unfold has_err. destruct (perr_ s); split; congruence. Qed.

Lemma good_noerr : forall s, has_err s = false -> good s.
Proof. intros s H. apply has_err_none in H. unfold good. rewrite H. discriminate. Qed.

Lemma wf_init : forall input limit srcix, wf (pst_init input limit srcix).
Proof. intros. split; [intros t e E; discriminate|]. split; [intros _; reflexivity|intros t e E; discriminate]. Qed.

Section Prim.
  Variable d : dev.

  Lemma read_peek_spec : forall s, has_err s = false -> peeked s = None ->
    let s1 := read_peek d s in
    has_err s1 = false /\ (exists t e, peeked s1 = Some (t, e)) /\ (meas s1 <= meas s)%nat /\ (wf s -> wf s1).
  Proof.
    intros s He Hp. unfold read_peek. destruct (readToken d (plx s)) as [[[t e] lx']|] eqn:Er; [|exfalso; eapply readToken_total; exact Er].
    cbn. split; [exact He|]. split; [eexists; eexists; reflexivity|].
    split; [|intros [_ [Wp _]]; split; [intros t1 e1 E Hk; cbn in E; inversion E; subst; eapply readToken_eof_val; eassumption|split; [exact Wp|intros t1 e1 E Hk; cbn in E |- *; inversion E; subst; eapply readToken_eof_rest; eassumption]]].
    unfold meas. cbn [plx peeked]. rewrite Hp. cbn [pk_weight]. rewrite Nat.add_0_r.
    pose proof (readToken_len _ _ _ _ _ Er) as Hl.
    destruct e as [le|]; cbn [pk_weight]; [lia|].
    destruct (kind_eqb (tkind t) EOF) eqn:Ek; [lia|].
    assert (Hne : tkind t <> EOF) by (intro E; apply kind_eqb_eq in E; congruence).
    pose proof (readToken_progress _ _ _ _ Er Hne). lia.
  Qed.

  Lemma next_peeked_spec : forall s t e, has_err s = false -> peeked s = Some (t, e) ->
    let s1 := next_peeked s t e in
    good s1 /\ (meas s1 <= meas s)%nat /\ (wf s -> wf s1)
    /\ (has_err s1 = false -> peeked s1 = None /\ prev s1 = t /\ plx s1 = plx s /\ (tkind t <> EOF -> meas s1 < meas s)%nat).
  Proof.
    intros s t e He Hp. unfold next_peeked.
    destruct (negb (lim s =? 0)%N && (lim s <? cnt s + 1)%N).
    - cbn. split; [unfold good; cbn; discriminate|]. split; [unfold meas; cbn; lia|]. split; [intros W; exact W|]. discriminate.
    - split; [unfold good; cbn; destruct e; cbn; discriminate|].
      split; [unfold meas; cbn [plx peeked pk_weight]; lia|].
      split; [intros [W _]; split; [intros t1 e1 E; cbn in E; discriminate|split; [cbn; exact (W t e Hp)|intros t1 e1 E; cbn in E; discriminate]]|].
      intro Hne. unfold has_err in Hne. cbn [perr_] in Hne. destruct e as [le|]; [discriminate|].
      cbn. split; [reflexivity|]. split; [reflexivity|]. split; [reflexivity|].
      intro Hk. unfold meas. cbn [plx peeked]. rewrite Hp. cbn [pk_weight].
      destruct (kind_eqb (tkind t) EOF) eqn:Ek; [apply kind_eqb_eq in Ek; contradiction|lia].
  Qed.

  (* consumeCommentGroup: never out of fuel, leaves a peeked non-comment token *)
  Lemma consume_group_spec : forall fuel s, has_err s = false -> (meas s < fuel)%nat ->
    let s1 := consume_group d fuel s in
    good s1 /\ (meas s1 <= meas s)%nat /\ (wf s -> wf s1)
    /\ (has_err s1 = false -> exists t e, peeked s1 = Some (t, e) /\ kind_eqb (tkind t) Comment = false).
  Proof.
    induction fuel as [|f IH]; intros s He Hf; [lia|].
    rewrite consume_group_S. rewrite He.
    assert (Hs1 : exists s1, s1 = (match peeked s with Some _ => s | None => read_peek d s end)
                  /\ has_err s1 = false /\ (exists t e, peeked s1 = Some (t, e)) /\ (meas s1 <= meas s)%nat /\ (wf s -> wf s1)).
    { destruct (peeked s) as [[t e]|] eqn:Ep.
      - exists s. split; [reflexivity|]. split; [exact He|]. split; [eexists; eexists; exact Ep|]. split; [lia|auto].
      - eexists. split; [reflexivity|]. destruct (read_peek_spec s He Ep) as [A1 [A2 [A3 A4]]]. split; [exact A1|]. split; [exact A2|]. split; [exact A3|]. exact A4. }
    destruct Hs1 as [s1 [-> [He1 [[t [e Hp1]] [Hm1 Hw1]]]]]. cbv zeta.
    set (s1 := match peeked s with Some _ => s | None => read_peek d s end) in *.
    rewrite He1, Hp1.
    destruct (kind_eqb (tkind t) Comment) eqn:Ek.
    - destruct (next_peeked_spec s1 t e He1 Hp1) as [Hg [Hm [Hw Hn]]].
      destruct (has_err (next_peeked s1 t e)) eqn:He2.
      + (* the limit was hit: the recursive call returns at once *)
        destruct f as [|f']; [rewrite consume_group_O, set_err_sticky by exact He2|rewrite consume_group_S, He2];
          (split; [exact Hg|]; split; [lia|]; split; [auto|]; intro Hc; congruence).
      + destruct (Hn eq_refl) as [_ [_ [_ Hlt]]].
        assert (Hne : tkind t <> EOF) by (intro E; rewrite E in Ek; discriminate).
        specialize (Hlt Hne).
        destruct (IH (next_peeked s1 t e) He2 ltac:(lia)) as [G [M [W P]]].
        split; [exact G|]. split; [lia|]. split; [auto|exact P].
    - split; [apply good_noerr; exact He1|]. split; [exact Hm1|]. split; [exact Hw1|]. intros _. exists t, e. split; [exact Hp1|exact Ek].
  Qed.
End Prim.

Section Prim2.
  Variable d : dev.

  Lemma pk_weight_le1 : forall p, (pk_weight p <= 1)%nat.
  Proof. intros [[t [le|]]|]; cbn; try lia. destruct (kind_eqb (tkind t) EOF); lia. Qed.

  Lemma group_fuel_enough : forall s, (meas s < group_fuel s)%nat.
  Proof. intro s. unfold meas, group_fuel. pose proof (pk_weight_le1 (peeked s)). lia. Qed.

  Lemma peek_spec : forall s, has_err s = false ->
    let '(t, s1) := peek d s in
    good s1 /\ (meas s1 <= meas s)%nat /\ (wf s -> wf s1)
    /\ (has_err s1 = false -> exists e, peeked s1 = Some (t, e) /\ kind_eqb (tkind t) Comment = false \/ peeked s = Some (t, e) /\ s1 = s).
  Proof.
    intros s He. unfold peek. rewrite He.
    destruct (peeked s) as [[t e]|] eqn:Ep.
    - split; [apply good_noerr; exact He|]. split; [lia|]. split; [auto|]. intros _. exists e. right. split; reflexivity.
    - destruct (read_peek_spec d s He Ep) as [He1 [[t [e Hp1]] [Hm1 Hw1]]].
      set (s1 := read_peek d s) in *. rewrite Hp1.
      destruct (kind_eqb (tkind t) Comment) eqn:Ek.
      + destruct (consume_group_spec d (group_fuel s1) s1 He1 (group_fuel_enough s1)) as [G [M [W P]]].
        set (s2 := consume_group d (group_fuel s1) s1) in *.
        destruct (peeked s2) as [[t2 e2]|] eqn:Ep2.
        * split; [exact G|]. split; [lia|]. split; [intros Hw; exact (W (Hw1 Hw))|]. intro Hn. destruct (P Hn) as [t3 [e3 [Hp3 Hk3]]]. inversion Hp3; subst.
          exists e3. left. split; [first [reflexivity|exact Ep2]|exact Hk3].
        * split; [exact G|]. split; [lia|]. split; [intros Hw; exact (W (Hw1 Hw))|]. intro Hn. destruct (P Hn) as [t3 [e3 [Hp3 _]]]. congruence.
      + rewrite Hp1. split; [apply good_noerr; exact He1|]. split; [exact Hm1|]. split; [exact Hw1|]. intros _. exists e. left. split; [exact Hp1|exact Ek].
  Qed.

  Lemma next_prev : forall s, snd (next d s) = snd (next d s) /\ fst (next d s) = prev (snd (next d s)).
  Proof.
    intro s. split; [reflexivity|]. unfold next.
    destruct (has_err s); [reflexivity|]. destruct (peeked s) as [[t e]|]; [reflexivity|].
    destruct (negb (lim s =? 0)%N && (lim s <? cnt s + 1)%N); [reflexivity|].
    destruct (readToken d (plx s)) as [[[t e] lx']|]; reflexivity.
  Qed.

  Lemma next_spec : forall s, has_err s = false ->
    let '(t, s1) := next d s in
    good s1 /\ (meas s1 <= meas s)%nat /\ (wf s -> wf s1) /\ t = prev s1
    /\ (has_err s1 = false ->
          (tkind t <> EOF -> meas s1 < meas s)%nat
          /\ (forall t0 e0, peeked s = Some (t0, e0) -> t = t0)).
  Proof.
    intros s He. unfold next. rewrite He.
    destruct (peeked s) as [[t e]|] eqn:Ep.
    - destruct (next_peeked_spec s t e He Ep) as [G [M [W P]]]. cbv zeta.
      split; [exact G|]. split; [exact M|]. split; [exact W|]. split; [reflexivity|]. intro Hn. destruct (P Hn) as [_ [Hprev [_ Hlt]]].
      rewrite Hprev. split; [exact Hlt|]. intros t0 e0 E; inversion E; reflexivity.
    - destruct (negb (lim s =? 0)%N && (lim s <? cnt s + 1)%N).
      + cbv zeta. cbn [prev]. split; [unfold good; cbn; discriminate|]. split; [unfold meas; cbn; rewrite Ep; cbn; lia|].
        split; [intros [_ [Wp _]]; split; [intros t1 e1 E; cbn in E; discriminate|split; [exact Wp|intros t1 e1 E; cbn in E; discriminate]]|]. split; [reflexivity|]. discriminate.
      + destruct (readToken d (plx s)) as [[[t e] lx']|] eqn:Er; [|exfalso; eapply readToken_total; exact Er].
        cbv zeta.
        set (s1 := mkPst lx' (lexerr_to_perr e) None t (cnt s + 1)%N (lim s) (src s) (reads s + 1)%N).
        pose proof (readToken_len _ _ _ _ _ Er) as Hl.
        assert (Hm1 : (meas s1 <= meas s)%nat) by (unfold meas; cbn; rewrite Ep; cbn; lia).
        assert (Hw1 : wf s1) by (split; [intros t1 e1 E; cbn in E; discriminate|split; [intro Hk; cbn in Hk |- *; eapply readToken_eof_val; eassumption|intros t1 e1 E; cbn in E; discriminate]]).
        destruct e as [le|].
        * assert (He1 : has_err s1 = true) by reflexivity.
          assert (Hs2 : (if kind_eqb (tkind t) Comment then consume_group d (group_fuel s1) s1 else s1) = s1).
          { destruct (kind_eqb (tkind t) Comment); [|reflexivity].
            unfold group_fuel. rewrite consume_group_S, He1. reflexivity. }
          rewrite Hs2. split; [unfold good; cbn; discriminate|]. split; [exact Hm1|]. split; [intros _; exact Hw1|]. split; [reflexivity|]. intro Hn. congruence.
        * assert (He1 : has_err s1 = false) by reflexivity.
          destruct (kind_eqb (tkind t) Comment) eqn:Ek.
          -- destruct (consume_group_spec d (group_fuel s1) s1 He1 (group_fuel_enough s1)) as [G [M [W P]]].
             assert (Hne : tkind t <> EOF) by (intro E; rewrite E in Ek; discriminate).
             pose proof (readToken_progress _ _ _ _ Er Hne) as Hp.
             split; [exact G|]. split; [lia|]. split; [intros _; exact (W Hw1)|]. split; [reflexivity|]. intros _.
             split; [intros _; assert ((meas s1 < meas s)%nat) by (unfold meas; cbn; rewrite Ep; cbn; lia); lia|].
             intros t0 e0 E; discriminate.
          -- cbn [prev]. split; [apply good_noerr; exact He1|]. split; [exact Hm1|]. split; [intros _; exact Hw1|]. split; [reflexivity|]. intros _.
             split; [intro Hne; pose proof (readToken_progress _ _ _ _ Er Hne) as Hp; unfold meas; cbn; rewrite Ep; cbn; lia|].
             intros t0 e0 E; discriminate.
  Qed.
End Prim2.

(* ---- a Hoare logic for parser programs ---- *)
Definition triple {A} (P : pst -> Prop) (p : prog A) (Q : A -> pst -> Prop) : Prop :=
  forall d F s, has_err s = false -> wf s -> P s -> (meas s + 2 <= F)%nat ->
    good (snd (run d p F s)) /\ (meas (snd (run d p F s)) <= meas s)%nat /\ wf (snd (run d p F s))
    /\ (has_err (snd (run d p F s)) = false -> Q (fst (run d p F s)) (snd (run d p F s))).

Definition bnd (m : nat) (s : pst) : Prop := (meas s <= m)%nat.

Lemma t_conseq : forall A (P P' : pst -> Prop) (p : prog A) (Q Q' : A -> pst -> Prop),
  triple P p Q -> (forall s, P' s -> P s) -> (forall x s, Q x s -> Q' x s) -> triple P' p Q'.
Proof.
  intros A P P' p Q Q' H HP HQ d F s He Hw Hp Hf. destruct (H d F s He Hw (HP s Hp) Hf) as [G [M [W R]]].
  split; [exact G|]. split; [exact M|]. split; [exact W|]. intro Hn. apply HQ. apply R. exact Hn.
Qed.

Lemma t_ret : forall A (P : pst -> Prop) (a : A), triple P (Ret a) (fun x s => x = a /\ P s).
Proof. intros A P a d F s He Hw Hp Hf. cbn [run fst snd]. split; [apply good_noerr; exact He|]. split; [lia|]. split; [exact Hw|]. intros _. split; [reflexivity|exact Hp]. Qed.

Lemma t_bind : forall A B (P : pst -> Prop) (p : prog B) (Q1 : B -> pst -> Prop) (k : B -> prog A) (Q2 : A -> pst -> Prop),
  triple P p Q1 -> (forall x, triple (Q1 x) (k x) Q2) -> triple P (Bind p k) Q2.
Proof.
  intros A B P p Q1 k Q2 Hp Hk d F s He Hw HP Hf. cbn [run].
  destruct (Hp d F s He Hw HP Hf) as [G [M [W R]]]. destruct (run d p F s) as [x s1]. cbn [fst snd] in *.
  destruct (has_err s1) eqn:He1.
  - rewrite (surjective_pairing (run d (k x) F s1)). cbn [fst snd].
    rewrite (run_sticky d _ (k x) F s1 He1). split; [exact G|]. split; [exact M|]. split; [exact W|]. intro Hn. congruence.
  - destruct (Hk x d F s1 He1 W (R eq_refl) ltac:(lia)) as [G2 [M2 [W2 R2]]].
    destruct (run d (k x) F s1) as [y s2]. cbn [fst snd] in *. split; [exact G2|]. split; [lia|]. split; [exact W2|exact R2].
Qed.

Definition pk (t : token) (s : pst) : Prop := exists e, peeked s = Some (t, e).

Lemma t_peek_any : forall m, triple (bnd m) Peek (fun t s1 => bnd m s1 /\ pk t s1).
Proof.
  intros m d F s He Hw Hp Hf. cbn [run]. pose proof (peek_spec d s He) as H. destruct (peek d s) as [t s1]. cbn [fst snd].
  destruct H as [G [M [W R]]]. split; [exact G|]. split; [exact M|]. split; [exact (W Hw)|]. intro Hn. split; [unfold bnd in *; lia|].
  destruct (R Hn) as [e [[Hpk _]|[Hpk ->]]]; exists e; assumption.
Qed.

Lemma t_peek_pk : forall m t0, triple (fun s => bnd m s /\ pk t0 s) Peek (fun t s1 => t = t0 /\ bnd m s1 /\ pk t0 s1).
Proof.
  intros m t0 d F s He Hw [Hb [e0 Hpk]] Hf. cbn [run]. unfold peek. rewrite He, Hpk. cbn [fst snd].
  split; [apply good_noerr; exact He|]. split; [lia|]. split; [exact Hw|]. intros _. split; [reflexivity|]. split; [exact Hb|exists e0; exact Hpk].
Qed.

Lemma t_next_any : forall m, triple (bnd m) Next (fun _ s1 => bnd m s1).
Proof.
  intros m d F s He Hw Hp Hf. cbn [run]. pose proof (next_spec d s He) as H. destruct (next d s) as [t s1]. cbn [fst snd].
  destruct H as [G [M [W R]]]. split; [exact G|]. split; [exact M|]. split; [exact (W Hw)|]. intros _. unfold bnd in *. lia.
Qed.

Lemma t_next_pk : forall m t0, tkind t0 <> EOF ->
  triple (fun s => bnd m s /\ pk t0 s) Next (fun t s1 => t = t0 /\ (meas s1 < m)%nat).
Proof.
  intros m t0 Hk d F s He Hw [Hb [e0 Hpk]] Hf. cbn [run]. pose proof (next_spec d s He) as H. destruct (next d s) as [t s1]. cbn [fst snd].
  destruct H as [G [M [W [_ R]]]]. split; [exact G|]. split; [exact M|]. split; [exact (W Hw)|]. intro Hn. destruct (R Hn) as [Hlt Hsame].
  pose proof (Hsame t0 e0 Hpk) as ->. split; [reflexivity|]. specialize (Hlt Hk). unfold bnd in *. lia.
Qed.

Lemma t_error : forall (P : pst -> Prop) t (Q : unit -> pst -> Prop), triple P (ErrorAt t) Q.
Proof.
  intros P t Q d F s He Hw Hp Hf. cbn [run fst snd]. unfold error_at, set_err. apply has_err_none in He. rewrite He.
  split; [unfold good; cbn; discriminate|]. split; [unfold meas; cbn; lia|]. split; [exact Hw|]. cbn. discriminate.
Qed.

Lemma t_haserr : forall (P : pst -> Prop), triple P HasErr (fun b s1 => b = false /\ P s1).
Proof. intros P d F s He Hw Hp Hf. cbn [run fst snd]. split; [apply good_noerr; exact He|]. split; [lia|]. split; [exact Hw|]. intros _. split; assumption. Qed.

Lemma t_prev : forall (P : pst -> Prop), triple P Prev (fun _ s1 => P s1).
Proof. intros P d F s He Hw Hp Hf. cbn [run fst snd]. split; [apply good_noerr; exact He|]. split; [lia|]. split; [exact Hw|]. intros _. exact Hp. Qed.

Lemma t_srcix : forall (P : pst -> Prop), triple P SrcIx (fun _ s1 => P s1).
Proof. intros P d F s He Hw Hp Hf. cbn [run fst snd]. split; [apply good_noerr; exact He|]. split; [lia|]. split; [exact Hw|]. intros _. exact Hp. Qed.

Lemma t_false : forall A (p : prog A) (Q : A -> pst -> Prop), triple (fun _ => False) p Q.
Proof. intros A p Q d F s He Hw []. Qed.

Lemma t_absurd : forall A (P : pst -> Prop) (p : prog A) (Q : A -> pst -> Prop), (forall s, P s -> False) -> triple P p Q.
Proof. intros A P p Q H d F s He Hw Hp. exfalso. eapply H. exact Hp. Qed.

(* Loop: every round that goes on (returns Some) lowers the measure, so the rounds fit in the fuel;
   the round that ends the loop (returns None) establishes the exit condition E *)
Lemma t_loop_exit : forall A (body : prog (option A)) (I E : pst -> Prop) m,
  (forall m', triple (fun s => bnd m' s /\ I s) body
                (fun o s1 => I s1 /\ match o with Some _ => (meas s1 < m')%nat | None => bnd m' s1 /\ E s1 end)) ->
  triple (fun s => bnd m s /\ I s) (Loop body) (fun _ s1 => bnd m s1 /\ I s1 /\ E s1).
Proof.
  intros A body I E m Hb d F s He Hw [Hm HI] Hf. cbn [run].
  assert (Hiter : forall n s acc, has_err s = false -> wf s -> I s -> (meas s + 2 <= F)%nat -> (meas s < n)%nat ->
            good (snd (iter n (run d body F) s acc)) /\ (meas (snd (iter n (run d body F) s acc)) <= meas s)%nat
            /\ wf (snd (iter n (run d body F) s acc))
            /\ (has_err (snd (iter n (run d body F) s acc)) = false ->
                 I (snd (iter n (run d body F) s acc)) /\ E (snd (iter n (run d body F) s acc)))).
  { induction n as [|n IH]; intros s0 acc He0 Hw0 HI0 Hf0 Hn; [lia|]. cbn [iter].
    destruct (Hb (meas s0) d F s0 He0 Hw0 (conj (le_n _) HI0) Hf0) as [G [M [W R]]].
    destruct (run d body F s0) as [o s1]. cbn [fst snd] in *.
    destruct o as [x|].
    - destruct (has_err s1) eqn:He1.
      + (* in error: the remaining rounds cannot change the state *)
        rewrite (iter_sticky _ (run d body F) n s1 (x :: acc) (fun s' H' => run_sticky d _ body F s' H') He1).
        split; [exact G|]. split; [exact M|]. split; [exact W|]. intro Hc. congruence.
      + destruct (R eq_refl) as [HI1 Hlt].
        destruct (IH s1 (x :: acc) He1 W HI1 ltac:(lia) ltac:(lia)) as [G2 [M2 [W2 R2]]].
        split; [exact G2|]. split; [lia|]. split; [exact W2|exact R2].
    - cbn [snd]. split; [exact G|]. split; [exact M|]. split; [exact W|]. intro Hn1. destruct (R Hn1) as [HI1 [_ HE1]]. split; assumption. }
  destruct (Hiter F s [] He Hw HI Hf ltac:(lia)) as [G [M [W R]]].
  split; [exact G|]. split; [exact M|]. split; [exact W|]. intro Hn. split; [unfold bnd in *; lia|exact (R Hn)].
Qed.

Lemma t_loop : forall A (body : prog (option A)) (I : pst -> Prop) m,
  (forall m', triple (fun s => bnd m' s /\ I s) body (fun o s1 => I s1 /\ match o with Some _ => (meas s1 < m')%nat | None => bnd m' s1 end)) ->
  triple (fun s => bnd m s /\ I s) (Loop body) (fun _ s1 => bnd m s1 /\ I s1).
Proof.
  intros A body I m Hb. eapply t_conseq; [apply (t_loop_exit A body I (fun _ => True) m)|intros s H; exact H|intros x s [H1 [H2 _]]; split; assumption].
  intro m'. eapply t_conseq; [apply Hb|intros s H; exact H|]. intros o s [H1 H2]. split; [exact H1|]. destruct o; [exact H2|split; [exact H2|constructor]].
Qed.

(* ---- derived operations of parser.go ---- *)
Lemma kind_eqb_neq : forall a c, kind_eqb a c = false <-> a <> c.
Proof. intros a c. split; [intros H E; apply kind_eqb_eq in E; congruence|intro H; destruct (kind_eqb a c) eqn:E; [apply kind_eqb_eq in E; contradiction|reflexivity]]. Qed.

(* expect: consumes a token of the expected kind, or leaves an error *)
Lemma t_expect : forall k m, k <> EOF -> triple (bnd m) (expect k) (fun _ s1 => (meas s1 < m)%nat).
Proof.
  intros k m Hk. unfold expect. eapply t_bind; [apply t_peek_any|]. intro tok. cbv beta.
  destruct (kind_eqb (tkind tok) k) eqn:E.
  - apply kind_eqb_eq in E. eapply t_conseq; [apply (t_next_pk m tok); congruence| |]; [intros s H; exact H|intros x s [_ H]; exact H].
  - eapply t_bind; [apply (t_error _ tok (fun _ _ => False))|]. intros []. apply t_absurd. intros s H. exact H.
Qed.

Lemma t_expectKeyword : forall v m, triple (bnd m) (expectKeyword v) (fun _ s1 => (meas s1 < m)%nat).
Proof.
  intros v m. unfold expectKeyword. eapply t_bind; [apply t_peek_any|]. intro tok. cbv beta.
  destruct (is_kw tok v) eqn:E.
  - unfold is_kw in E. apply andb_true_iff in E as [E _]. apply kind_eqb_eq in E.
    eapply t_conseq; [apply (t_next_pk m tok); rewrite E; discriminate| |]; [intros s H; exact H|intros x s [_ H]; exact H].
  - eapply t_bind; [apply (t_error _ tok (fun _ _ => False))|]. intros []. apply t_absurd. intros s H. exact H.
Qed.

(* skip: true with a token consumed, or false with nothing changed *)
Lemma t_skip : forall k m, k <> EOF ->
  triple (bnd m) (skip k) (fun r s1 => if r then (meas s1 < m)%nat else bnd m s1).
Proof.
  intros k m Hk. unfold skip. eapply t_bind; [apply t_haserr|]. intro e. cbv beta.
  destruct e.
  - apply t_absurd. intros s [H _]. discriminate.
  - eapply t_bind; [eapply t_conseq; [apply t_peek_any|intros s [_ H]; exact H|intros x s H; exact H]|]. intro tok. cbv beta.
    destruct (kind_eqb (tkind tok) k) eqn:E.
    + apply kind_eqb_eq in E. eapply t_bind; [apply (t_next_pk m tok); congruence|]. intro t.
      eapply t_conseq; [apply t_ret|intros s H; exact H|]. intros x s [-> [_ H]]. exact H.
    + eapply t_conseq; [apply t_ret|intros s H; exact H|]. intros x s [-> [H _]]. exact H.
Qed.

(* skip on a known peeked token *)
Lemma t_skip_pk : forall k m t0, k <> EOF -> tkind t0 = k ->
  triple (fun s => bnd m s /\ pk t0 s) (skip k) (fun r s1 => r = true /\ (meas s1 < m)%nat).
Proof.
  intros k m t0 Hk Ht. unfold skip. eapply t_bind; [apply t_haserr|]. intro e. cbv beta.
  destruct e.
  - apply t_absurd. intros s [H _]. discriminate.
  - eapply t_bind; [eapply t_conseq; [apply (t_peek_pk m t0)|intros s [_ H]; exact H|intros x s H; exact H]|]. intro tok. cbv beta.
    destruct (kind_eqb (tkind tok) k) eqn:E.
    + eapply t_bind; [eapply t_conseq; [apply (t_next_pk m t0); congruence|intros s [_ H]; exact H|intros x s H; exact H]|]. intro t.
      eapply t_conseq; [apply t_ret|intros s H; exact H|]. intros x s [-> [_ H]]. split; [reflexivity|exact H].
    + apply t_absurd. intros s [-> _]. apply kind_eqb_neq in E. contradiction.
Qed.

Lemma t_unexpected : forall m (Q : unit -> pst -> Prop), triple (bnd m) unexpectedError Q.
Proof.
  intros m Q. unfold unexpectedError. eapply t_bind; [apply t_peek_any|]. intro tok. apply t_error.
Qed.

Lemma t_peekPos : forall m, triple (bnd m) peekPos (fun _ s1 => bnd m s1).
Proof.
  intros m. unfold peekPos. eapply t_bind; [apply t_haserr|]. intro e. destruct e.
  - apply t_absurd. intros s [H _]. discriminate.
  - eapply t_bind; [eapply t_conseq; [apply t_peek_any|intros s [_ H]; exact H|intros x s H; exact H]|]. intro tok.
    eapply t_bind; [apply t_srcix|]. intro ix. eapply t_conseq; [apply t_ret|intros s H; exact H|]. intros x s [_ [H _]]. exact H.
Qed.

Lemma t_peekPos_pk : forall m t0, triple (fun s => bnd m s /\ pk t0 s) peekPos (fun _ s1 => bnd m s1 /\ pk t0 s1).
Proof.
  intros m t0. unfold peekPos. eapply t_bind; [apply t_haserr|]. intro e. destruct e.
  - apply t_absurd. intros s [H _]. discriminate.
  - eapply t_bind; [eapply t_conseq; [apply (t_peek_pk m t0)|intros s [_ H]; exact H|intros x s H; exact H]|]. intro tok.
    eapply t_bind; [apply t_srcix|]. intro ix. eapply t_conseq; [apply t_ret|intros s H; exact H|]. intros x s [_ [_ H]]. exact H.
Qed.

Lemma t_parseName : forall m, triple (bnd m) parseName (fun _ s1 => (meas s1 < m)%nat).
Proof.
  intro m. unfold parseName. eapply t_bind; [apply (t_expect Name m); discriminate|]. intro tok.
  eapply t_conseq; [apply t_ret|intros s H; exact H|]. intros x s [_ H]. exact H.
Qed.

(* ---- loops of parser.go ---- *)
Lemma t_until_loop : forall A endk (cb : prog A) m,
  (forall m', (m' <= m)%nat -> triple (bnd m') cb (fun _ s1 => (meas s1 < m')%nat)) ->
  triple (bnd m) (until_loop endk cb) (fun _ s1 => bnd m s1).
Proof.
  intros A endk cb m Hcb. unfold until_loop.
  eapply t_conseq; [apply (t_loop _ _ (bnd m) m)| |]; [|intros s H; split; exact H|intros x s [H _]; exact H].
  intro m'. eapply t_conseq with (P := bnd (Nat.min m' m)) (Q := fun o s1 => match o with Some _ => (meas s1 < Nat.min m' m)%nat | None => bnd (Nat.min m' m) s1 end);
    [| |].
  - eapply t_bind; [apply t_peek_any|]. intro tok. eapply t_bind; [apply t_haserr|]. intro e. cbv beta.
    destruct (negb (kind_eqb (tkind tok) endk) && negb e).
    + eapply t_bind; [eapply t_conseq; [apply (Hcb (Nat.min m' m)); lia|intros s [_ [H _]]; exact H|intros x s H; exact H]|].
      intro x. eapply t_conseq; [apply t_ret|intros s H; exact H|]. intros o s [E H]. subst o. exact H.
    + eapply t_conseq; [apply t_ret|intros s H; exact H|]. intros o s [E [_ [H _]]]. subst o. exact H.
  - intros s [H1 H2]. unfold bnd in *. lia.
  - intros o s H. split; [destruct o; unfold bnd in *; lia|]. destruct o; unfold bnd in *; lia.
Qed.

(* many / some with a known opening token: the opening token is consumed *)
Lemma t_many_pk : forall A startk endk (cb : prog A) m t0, startk <> EOF -> tkind t0 = startk ->
  (forall m', (m' < m)%nat -> triple (bnd m') cb (fun _ s1 => (meas s1 < m')%nat)) ->
  triple (fun s => bnd m s /\ pk t0 s) (many startk endk cb) (fun _ s1 => (meas s1 < m)%nat).
Proof.
  intros A startk endk cb m t0 Hk Ht Hcb. unfold many.
  eapply t_bind; [apply (t_skip_pk startk m t0 Hk Ht)|]. intro has. destruct has; cbn [negb].
  - destruct m as [|m1]; [apply t_absurd; intros s [_ H]; lia|].
    eapply t_bind; [eapply t_conseq; [apply (t_until_loop _ endk cb m1); intros m' Hm'; apply Hcb; lia| |intros x s H; exact H]|].
    + intros s [_ H]. unfold bnd. lia.
    + intro xs. eapply t_bind; [apply t_next_any|]. intro t. eapply t_conseq; [apply t_ret|intros s H; exact H|].
      intros x s [_ H]. unfold bnd in H. lia.
  - apply t_absurd. intros s [H _]. discriminate.
Qed.

Lemma t_many : forall A startk endk (cb : prog A) m, startk <> EOF ->
  (forall m', (m' < m)%nat -> triple (bnd m') cb (fun _ s1 => (meas s1 < m')%nat)) ->
  triple (bnd m) (many startk endk cb) (fun _ s1 => bnd m s1).
Proof.
  intros A startk endk cb m Hk Hcb. unfold many.
  eapply t_bind; [apply (t_skip startk m Hk)|]. intro has. destruct has; cbn [negb].
  - destruct m as [|m1]; [apply t_absurd; intros s H; lia|].
    eapply t_bind; [eapply t_conseq; [apply (t_until_loop _ endk cb m1); intros m' Hm'; apply Hcb; lia| |intros x s H; exact H]|].
    + intros s H. unfold bnd. lia.
    + intro xs. eapply t_bind; [apply t_next_any|]. intro t. eapply t_conseq; [apply t_ret|intros s H; exact H|].
      intros x s [_ H]. unfold bnd in *. lia.
  - eapply t_conseq; [apply t_ret|intros s H; exact H|]. intros x s [_ H]. exact H.
Qed.

Lemma t_some : forall A startk endk (cb : prog A) m, startk <> EOF ->
  (forall m', (m' < m)%nat -> triple (bnd m') cb (fun _ s1 => (meas s1 < m')%nat)) ->
  triple (bnd m) (some startk endk cb) (fun _ s1 => bnd m s1).
Proof.
  intros A startk endk cb m Hk Hcb. unfold some.
  eapply t_bind; [apply (t_skip startk m Hk)|]. intro has. destruct has; cbn [negb].
  - destruct m as [|m1]; [apply t_absurd; intros s H; lia|].
    eapply t_bind; [eapply t_conseq; [apply (t_until_loop _ endk cb m1); intros m' Hm'; apply Hcb; lia| |intros x s H; exact H]|].
    + intros s H. unfold bnd. lia.
    + intro xs. destruct xs as [|x0 xs].
      * eapply t_bind; [apply t_peek_any|]. intro tok. eapply t_bind; [apply (t_error _ tok (fun _ _ => False))|]. intros []. apply t_absurd. intros s H. exact H.
      * eapply t_bind; [apply t_next_any|]. intro t. eapply t_conseq; [apply t_ret|intros s H; exact H|].
        intros x s [_ H]. unfold bnd in *. lia.
  - eapply t_conseq; [apply t_ret|intros s H; exact H|]. intros x s [_ H]. exact H.
Qed.

Lemma t_some_pk : forall A startk endk (cb : prog A) m t0, startk <> EOF -> tkind t0 = startk ->
  (forall m', (m' < m)%nat -> triple (bnd m') cb (fun _ s1 => (meas s1 < m')%nat)) ->
  triple (fun s => bnd m s /\ pk t0 s) (some startk endk cb) (fun _ s1 => (meas s1 < m)%nat).
Proof.
  intros A startk endk cb m t0 Hk Ht Hcb. unfold some.
  eapply t_bind; [apply (t_skip_pk startk m t0 Hk Ht)|]. intro has. destruct has; cbn [negb].
  - destruct m as [|m1]; [apply t_absurd; intros s [_ H]; lia|].
    eapply t_bind; [eapply t_conseq; [apply (t_until_loop _ endk cb m1); intros m' Hm'; apply Hcb; lia| |intros x s H; exact H]|].
    + intros s [_ H]. unfold bnd. lia.
    + intro xs. destruct xs as [|x0 xs].
      * eapply t_bind; [apply t_peek_any|]. intro tok. eapply t_bind; [apply (t_error _ tok (fun _ _ => False))|]. intros []. apply t_absurd. intros s H. exact H.
      * eapply t_bind; [apply t_next_any|]. intro t. eapply t_conseq; [apply t_ret|intros s H; exact H|].
        intros x s [_ H]. unfold bnd in H. lia.
  - apply t_absurd. intros s [H _]. discriminate.
Qed.

(* ---- sequencing helpers: BQ = the bound is kept, SQ = at least one token was consumed ---- *)
Definition BQ {A} (m : nat) : A -> pst -> Prop := fun _ s => bnd m s.
Definition SQ {A} (m : nat) : A -> pst -> Prop := fun _ s => (meas s < m)%nat.

Lemma t_bind_b : forall A B m (p : prog B) (k : B -> prog A) Q,
  triple (bnd m) p (BQ m) -> (forall x, triple (bnd m) (k x) Q) -> triple (bnd m) (Bind p k) Q.
Proof. intros A B m p k Q Hp Hk. eapply t_bind; [exact Hp|]. intro x. exact (Hk x). Qed.

Lemma t_bind_s : forall A B m (p : prog B) (k : B -> prog A) Q,
  triple (bnd m) p (SQ m) -> (forall x m1, m = S m1 -> triple (bnd m1) (k x) Q) -> triple (bnd m) (Bind p k) Q.
Proof.
  intros A B m p k Q Hp Hk. eapply t_bind; [exact Hp|]. intro x. destruct m as [|m1].
  - apply t_absurd. intros s H. unfold SQ in H. lia.
  - eapply t_conseq; [apply (Hk x m1 eq_refl)| |intros y s H; exact H]. intros s H. unfold SQ in H. unfold bnd. lia.
Qed.

Lemma t_s2b : forall A m (p : prog A), triple (bnd m) p (SQ m) -> triple (bnd m) p (BQ m).
Proof. intros A m p H. eapply t_conseq; [exact H|intros s Hs; exact Hs|]. intros x s Hs. unfold SQ, BQ, bnd in *. lia. Qed.

Lemma t_b2s : forall A m1 (p : prog A), triple (bnd m1) p (BQ m1) -> triple (bnd m1) p (SQ (S m1)).
Proof. intros A m1 p H. eapply t_conseq; [exact H|intros s Hs; exact Hs|]. intros x s Hs. unfold SQ, BQ, bnd in *. lia. Qed.

Lemma t_ret_b : forall A m (a : A), triple (bnd m) (Ret a) (BQ m).
Proof. intros. eapply t_conseq; [apply t_ret|intros s H; exact H|]. intros x s [_ H]. exact H. Qed.

Lemma t_mono : forall A m m' (p : prog A) Q, (m' <= m)%nat -> triple (bnd m) p Q -> triple (bnd m') p Q.
Proof. intros A m m' p Q Hle H. eapply t_conseq; [exact H| |intros x s Hq; exact Hq]. intros s Hs. unfold bnd in *. lia. Qed.

(* an SQ conclusion at a smaller bound is an SQ conclusion at the larger one *)
Lemma t_sq_up : forall A m1 m (p : prog A), (m1 <= m)%nat -> triple (bnd m1) p (SQ m1) -> triple (bnd m1) p (SQ m).
Proof. intros A m1 m p Hle H. eapply t_conseq; [exact H|intros s Hs; exact Hs|]. intros x s Hs. unfold SQ in *. lia. Qed.

Lemma t_bq_up : forall A m1 m (p : prog A), (m1 < m)%nat -> triple (bnd m1) p (BQ m1) -> triple (bnd m1) p (SQ m).
Proof. intros A m1 m p Hle H. eapply t_conseq; [exact H|intros s Hs; exact Hs|]. intros x s Hs. unfold SQ, BQ, bnd in *. lia. Qed.

(* ---- parser/query.go ---- *)
From GQL.model Require Import ParseQuery.

Lemma t_expect_s : forall k m, k <> EOF -> triple (bnd m) (expect k) (SQ m).
Proof. intros. apply t_expect. assumption. Qed.
Lemma t_parseName_s : forall m, triple (bnd m) parseName (SQ m).
Proof. intros. apply t_parseName. Qed.
Lemma t_peekPos_b : forall m, triple (bnd m) peekPos (BQ m).
Proof. intros. apply t_peekPos. Qed.

Lemma t_parseVariable : forall m, triple (bnd m) parseVariable (SQ m).
Proof.
  intro m. unfold parseVariable. apply t_bind_s; [apply t_expect_s; discriminate|]. intros x m1 ->.
  apply t_bq_up; [lia|]. apply t_s2b. apply t_parseName_s.
Qed.

Lemma t_stalled_absurd : forall A (x : A) (Q : A -> pst -> Prop), triple (fun _ => False) (stalled x) Q.
Proof. intros. apply t_false. Qed.

Lemma t_parseValueLiteral : forall f isConst m, (m < f)%nat -> triple (bnd m) (parseValueLiteral f isConst) (SQ m).
Proof.
  induction f as [|f IH]; intros isConst m Hm; [lia|]. cbn [parseValueLiteral].
  eapply t_bind; [apply t_peek_any|]. intro token.
  eapply t_bind; [apply t_srcix|]. intro ix. cbv beta zeta.
  assert (Hlit : forall k, tkind token <> EOF ->
            triple (fun s => bnd m s /\ pk token s) (_ <- Next ;; Ret (mkValue k (tval token) [] (pos_of_tok ix token))) (SQ m)).
  { intros k Hk. eapply t_bind; [apply (t_next_pk m token Hk)|]. intro t.
    eapply t_conseq; [apply t_ret|intros s H; exact H|]. intros x s [_ [_ H]]. exact H. }
  assert (Hunexp : triple (fun s => bnd m s /\ pk token s) (unexpectedError ;;; Ret value0) (SQ m)).
  { eapply t_bind; [eapply t_conseq; [apply (t_unexpected m (fun _ _ => False))|intros s [H _]; exact H|intros x s H; exact H]|].
    intros []. apply t_absurd. intros s H. exact H. }
  destruct (tkind token) eqn:Ek; try exact Hunexp; try (apply Hlit; congruence).
  - (* $variable *)
    destruct isConst; [exact Hunexp|].
    eapply t_bind; [eapply t_conseq; [apply t_parseVariable|intros s [H _]; exact H|intros x s H; exact H]|].
    intro n. eapply t_conseq; [apply t_ret|intros s H; exact H|]. intros x s [_ H]. exact H.
  - (* [ ... ] *)
    eapply t_bind; [apply (t_peekPos_pk m token)|]. intro p.
    eapply t_bind; [apply (t_many_pk _ BracketL BracketR _ m token); [discriminate|exact Ek|]|].
    + intros m' Hm'. eapply t_bind; [apply IH; lia|]. intro v. eapply t_conseq; [apply t_ret|intros s H; exact H|]. intros x s [_ H]. exact H.
    + intro vals. eapply t_conseq; [apply t_ret|intros s H; exact H|]. intros x s [_ H]. exact H.
  - (* { ... } *)
    eapply t_bind; [apply (t_peekPos_pk m token)|]. intro p.
    eapply t_bind; [apply (t_many_pk _ BraceL BraceR _ m token); [discriminate|exact Ek|]|].
    + intros m' Hm'. apply t_bind_b; [apply t_peekPos_b|]. intro fp.
      apply t_bind_s; [apply t_parseName_s|]. intros n m1 ->.
      apply t_bind_s; [apply t_sq_up; [lia|]; apply t_expect_s; discriminate|]. intros c m2 ->.
      eapply t_bind; [apply IH; lia|]. intro v. eapply t_conseq; [apply t_ret|intros s H; exact H|]. intros x s [_ H]. unfold SQ in *. lia.
    + intro flds. eapply t_conseq; [apply t_ret|intros s H; exact H|]. intros x s [_ H]. exact H.
Qed.

Lemma t_skip_b : forall k m, k <> EOF -> triple (bnd m) (skip k) (BQ m).
Proof.
  intros k m Hk. eapply t_conseq; [apply (t_skip k m Hk)|intros s H; exact H|]. intros r s H. unfold BQ, bnd in *. destruct r; lia.
Qed.

Lemma t_parseTypeReference : forall f m, (m < f)%nat -> triple (bnd m) (parseTypeReference f) (SQ m).
Proof.
  induction f as [|f IH]; intros m Hm; [lia|]. cbn [parseTypeReference].
  eapply t_bind; [apply (t_skip BracketL m); discriminate|]. intro isList. destruct isList.
  - (* [ consumed *)
    destruct m as [|m1]; [apply t_absurd; intros s H; lia|].
    eapply t_conseq with (P := bnd m1) (Q := SQ (S m1)); [|intros s H; unfold bnd; lia|intros x s H; exact H].
    apply t_bind_b; [apply t_peekPos_b|]. intro p.
    apply t_bind_b; [apply t_s2b; apply IH; lia|]. intro e.
    apply t_bind_b; [apply t_s2b; apply t_expect_s; discriminate|]. intro c.
    apply t_bind_b; [apply t_skip_b; discriminate|]. intro nn. apply t_b2s. apply t_ret_b.
  - apply t_bind_b; [apply t_peekPos_b|]. intro p.
    apply t_bind_s; [apply t_parseName_s|]. intros n m1 ->.
    apply t_bind_b; [apply t_skip_b; discriminate|]. intro nn. apply t_b2s. apply t_ret_b.
Qed.

Lemma t_parseArgument : forall f isConst m, (m < f)%nat -> triple (bnd m) (parseArgument f isConst) (SQ m).
Proof.
  intros f isConst m Hm. unfold parseArgument.
  apply t_bind_b; [apply t_peekPos_b|]. intro p.
  apply t_bind_s; [apply t_parseName_s|]. intros n m1 ->.
  apply t_bind_b; [apply t_s2b; apply t_expect_s; discriminate|]. intro c.
  apply t_bind_b; [apply t_s2b; apply t_parseValueLiteral; lia|]. intro v. apply t_b2s. apply t_ret_b.
Qed.

Lemma t_parseArguments : forall f isConst m, (m <= f)%nat -> triple (bnd m) (parseArguments f isConst) (BQ m).
Proof.
  intros f isConst m Hm. unfold parseArguments. apply t_some; [discriminate|].
  intros m' Hm'. apply t_parseArgument. lia.
Qed.

Lemma t_parseDirective : forall f isConst m, (m <= f)%nat -> triple (bnd m) (parseDirective f isConst) (SQ m).
Proof.
  intros f isConst m Hm. unfold parseDirective.
  apply t_bind_s; [apply t_expect_s; discriminate|]. intros a m1 ->.
  apply t_bind_b; [apply t_peekPos_b|]. intro p.
  apply t_bind_b; [apply t_s2b; apply t_parseName_s|]. intro n.
  apply t_bind_b; [apply t_parseArguments; lia|]. intro args. apply t_b2s. apply t_ret_b.
Qed.

Lemma t_parseDirectives : forall f isConst m, (m <= f)%nat -> triple (bnd m) (parseDirectives f isConst) (BQ m).
Proof.
  intros f isConst m Hm. unfold parseDirectives.
  eapply t_conseq; [apply (t_loop _ _ (bnd m) m)| |]; [|intros s H; split; exact H|intros x s [H _]; exact H].
  intro m'. eapply t_conseq with (P := bnd (Nat.min m' m)) (Q := fun o s1 => match o with Some _ => (meas s1 < Nat.min m' m)%nat | None => bnd (Nat.min m' m) s1 end).
  - eapply t_bind; [apply t_peek_any|]. intro tok. eapply t_bind; [apply t_haserr|]. intro e. cbv beta.
    destruct (kind_eqb (tkind tok) At && negb e).
    + eapply t_bind; [eapply t_conseq; [apply (t_parseDirective f isConst (Nat.min m' m)); lia|intros s [_ [H _]]; exact H|intros x s H; exact H]|].
      intro x. eapply t_conseq; [apply t_ret|intros s H; exact H|]. intros o s [E H]. subst o. exact H.
    + eapply t_conseq; [apply t_ret|intros s H; exact H|]. intros o s [E [_ [H _]]]. subst o. exact H.
  - intros s [H1 H2]. unfold bnd in *. lia.
  - intros o s H. split; [destruct o; unfold bnd in *; lia|]. destruct o; unfold bnd in *; lia.
Qed.

Lemma t_parseVariableDefinition : forall d f m, (m <= f)%nat -> triple (bnd m) (parseVariableDefinition d f) (SQ m).
Proof.
  intros d f m Hm. unfold parseVariableDefinition.
  apply t_bind_b; [apply t_peekPos_b|]. intro p.
  apply t_bind_s; [apply t_parseVariable|]. intros v m1 ->.
  apply t_bind_b; [apply t_s2b; apply t_expect_s; discriminate|]. intro c.
  apply t_bind_b; [apply t_s2b; apply t_parseTypeReference; lia|]. intro t.
  apply t_bind_b; [apply t_skip_b; discriminate|]. intro hasdef.
  apply t_bind_b; [destruct hasdef; [apply t_bind_b; [apply t_s2b; apply t_parseValueLiteral; lia|]; intro x; apply t_ret_b|apply t_ret_b]|]. intro dv.
  apply t_bind_b; [apply t_parseDirectives; lia|]. intro dirs. apply t_b2s. apply t_ret_b.
Qed.

Lemma t_parseVariableDefinitions : forall d f m, (m <= f)%nat -> triple (bnd m) (parseVariableDefinitions d f) (BQ m).
Proof.
  intros d f m Hm. unfold parseVariableDefinitions. apply t_some; [discriminate|].
  intros m' Hm'. apply t_parseVariableDefinition. lia.
Qed.

Lemma t_parseFragmentName : forall m, triple (bnd m) parseFragmentName (SQ m).
Proof.
  intro m. unfold parseFragmentName. eapply t_bind; [apply t_peek_any|]. intro tok. cbv beta.
  destruct (str_eqb (tval tok) (b "on")).
  - eapply t_bind; [eapply t_conseq; [apply (t_unexpected m (fun _ _ => False))|intros s [H _]; exact H|intros x s H; exact H]|].
    intros []. apply t_absurd. intros s H. exact H.
  - eapply t_conseq; [apply t_parseName_s|intros s [H _]; exact H|intros x s H; exact H].
Qed.

Lemma t_requiredSelectionSet : forall (sel : prog selection) m,
  (forall m', (m' < m)%nat -> triple (bnd m') sel (SQ m')) ->
  triple (bnd m) (requiredSelectionSet sel) (SQ m).
Proof.
  intros sel m Hsel. unfold requiredSelectionSet. eapply t_bind; [apply t_peek_any|]. intro tok. cbv beta.
  destruct (kind_eqb (tkind tok) BraceL) eqn:E; cbn [negb].
  - apply kind_eqb_eq in E. apply (t_some_pk _ BraceL BraceR sel m tok); [discriminate|exact E|exact Hsel].
  - eapply t_bind; [apply (t_error _ tok (fun _ _ => False))|]. intros []. apply t_absurd. intros s H. exact H.
Qed.

Lemma t_parseSelection : forall d f m, (m < f)%nat -> triple (bnd m) (parseSelection d f) (SQ m).
Proof.
  intros d. induction f as [|f IH]; intros m Hm; [lia|]. cbn [parseSelection].
  eapply t_bind; [apply t_peek_any|]. intro tok. cbv beta.
  destruct (kind_eqb (tkind tok) Spread).
  - (* fragment spread or inline fragment *)
    eapply t_conseq with (P := bnd m); [|intros s [H _]; exact H|intros x s H; exact H].
    apply t_bind_s; [apply t_expect_s; discriminate|]. intros e m1 ->.
    eapply t_conseq with (Q := BQ m1); [|intros s H; exact H|intros x s H; unfold BQ, SQ, bnd in *; lia].
    eapply t_bind; [apply t_peek_any|]. intro pk0. cbv beta.
    eapply t_conseq with (P := bnd m1); [|intros s [H _]; exact H|intros x s H; exact H].
    destruct (kind_eqb (tkind pk0) Name && negb (str_eqb (tval pk0) (b "on"))).
    + apply t_bind_b; [apply t_peekPos_b|]. intro p.
      apply t_bind_b; [apply t_s2b; apply t_parseFragmentName|]. intro n.
      apply t_bind_b; [apply t_parseDirectives; lia|]. intro dirs. apply t_ret_b.
    + apply t_bind_b; [apply t_peekPos_b|]. intro p.
      eapply t_bind; [apply t_peek_any|]. intro pk2. cbv beta.
      eapply t_conseq with (P := bnd m1); [|intros s [H _]; exact H|intros x s H; exact H].
      apply t_bind_b; [destruct (tok_is_on d pk2); [apply t_bind_b; [apply t_next_any|]; intro t; apply t_s2b; apply t_parseName_s|apply t_ret_b]|]. intro tc.
      apply t_bind_b; [apply t_parseDirectives; lia|]. intro dirs.
      apply t_bind_b; [apply t_s2b; apply t_requiredSelectionSet; intros m' Hm'; apply IH; lia|]. intro sels. apply t_ret_b.
  - (* field *)
    eapply t_conseq with (P := bnd m); [|intros s [H _]; exact H|intros x s H; exact H].
    apply t_bind_b; [apply t_peekPos_b|]. intro p.
    apply t_bind_s; [apply t_parseName_s|]. intros al m1 ->.
    eapply t_conseq with (Q := BQ m1); [|intros s H; exact H|intros x s H; unfold BQ, SQ, bnd in *; lia].
    apply t_bind_b; [apply t_skip_b; discriminate|]. intro hasColon.
    apply t_bind_b; [destruct hasColon; [apply t_s2b; apply t_parseName_s|apply t_ret_b]|]. intro n.
    apply t_bind_b; [apply t_parseArguments; lia|]. intro args.
    apply t_bind_b; [apply t_parseDirectives; lia|]. intro dirs.
    eapply t_bind; [apply t_peek_any|]. intro pk0. cbv beta.
    eapply t_conseq with (P := bnd m1); [|intros s [H _]; exact H|intros x s H; exact H].
    apply t_bind_b; [destruct (kind_eqb (tkind pk0) BraceL); [apply t_some; [discriminate|]; intros m' Hm'; apply IH; lia|apply t_ret_b]|]. intro sels.
    apply t_ret_b.
Qed.

Lemma t_parseRequiredSelectionSet : forall d f m, (m <= f)%nat -> triple (bnd m) (parseRequiredSelectionSet d f) (SQ m).
Proof.
  intros d f m Hm. unfold parseRequiredSelectionSet. apply t_requiredSelectionSet. intros m' Hm'. apply t_parseSelection. lia.
Qed.

(* parseOperationType consumes the token that was peeked (not EOF) *)
Lemma t_parseOperationType : forall d m t0, tkind t0 <> EOF ->
  triple (fun s => bnd m s /\ pk t0 s) (parseOperationType d) (SQ m).
Proof.
  intros d m t0 Hk. unfold parseOperationType. eapply t_bind; [apply (t_next_pk m t0 Hk)|]. intro tok. cbv beta zeta.
  assert (Hret : forall o : optype, triple (fun s => tok = t0 /\ (meas s < m)%nat) (Ret o) (SQ m)).
  { intro o. eapply t_conseq; [apply t_ret|intros s H; exact H|]. intros x s [_ [_ H]]. exact H. }
  repeat match goal with |- triple _ (if ?c then _ else _) _ => destruct c; [apply Hret|] end.
  eapply t_bind; [apply (t_error _ tok (fun _ _ => False))|]. intros []. apply t_absurd. intros s H. exact H.
Qed.

Lemma t_parseOperationDefinition : forall d f m t0, (m <= f)%nat -> tkind t0 <> EOF ->
  triple (fun s => bnd m s /\ pk t0 s) (parseOperationDefinition d f) (SQ m).
Proof.
  intros d f m t0 Hm Hk. unfold parseOperationDefinition.
  eapply t_bind; [apply (t_peek_pk m t0)|]. intro tok. cbv beta.
  destruct (kind_eqb (tkind tok) BraceL).
  - eapply t_conseq with (P := bnd m); [|intros s [_ [H _]]; exact H|intros x s H; exact H].
    apply t_bind_b; [apply t_peekPos_b|]. intro p.
    apply t_bind_s; [apply t_parseRequiredSelectionSet; exact Hm|]. intros sels m1 ->. apply t_b2s. apply t_ret_b.
  - eapply t_bind; [eapply t_conseq; [apply (t_peekPos_pk m t0)|intros s [_ H]; exact H|intros x s H; exact H]|]. intro p.
    eapply t_bind; [apply (t_parseOperationType d m t0 Hk)|]. intro op.
    destruct m as [|m1]; [apply t_absurd; intros s H; unfold SQ in H; lia|].
    eapply t_conseq with (P := bnd m1) (Q := BQ m1); [|intros s H; unfold SQ in H; unfold bnd; lia|intros x s H; unfold BQ, SQ, bnd in *; lia].
    eapply t_bind; [apply t_peek_any|]. intro pk0. cbv beta.
    eapply t_conseq with (P := bnd m1); [|intros s [H _]; exact H|intros x s H; exact H].
    apply t_bind_b; [destruct (kind_eqb (tkind pk0) Name); [apply t_bind_b; [apply t_next_any|]; intro t; apply t_ret_b|apply t_ret_b]|]. intro n.
    apply t_bind_b; [apply t_parseVariableDefinitions; lia|]. intro vars.
    apply t_bind_b; [apply t_parseDirectives; lia|]. intro dirs.
    apply t_bind_b; [apply t_s2b; apply t_parseRequiredSelectionSet; lia|]. intro sels. apply t_ret_b.
Qed.

Lemma t_parseFragmentDefinition : forall d f m, (m <= f)%nat -> triple (bnd m) (parseFragmentDefinition d f) (SQ m).
Proof.
  intros d f m Hm. unfold parseFragmentDefinition.
  apply t_bind_b; [apply t_peekPos_b|]. intro p.
  apply t_bind_s; [apply t_expectKeyword|]. intros k m1 ->.
  apply t_bind_b; [apply t_s2b; apply t_parseFragmentName|]. intro n.
  apply t_bind_b; [destruct (d F_Q4); [apply t_parseVariableDefinitions; lia|apply t_ret_b]|]. intro vars.
  apply t_bind_b; [apply t_s2b; apply t_expectKeyword|]. intro k2.
  apply t_bind_b; [apply t_s2b; apply t_parseName_s|]. intro tc.
  apply t_bind_b; [apply t_parseDirectives; lia|]. intro dirs.
  apply t_bind_b; [apply t_s2b; apply t_parseRequiredSelectionSet; lia|]. intro sels. apply t_b2s. apply t_ret_b.
Qed.

(* the parser has looked at the end of the input *)
Definition at_eof (s : pst) : Prop := exists t e, peeked s = Some (t, e) /\ tkind t = EOF.
(* one round of a document loop: a round that goes on has consumed a token, the round that stops has seen the end *)
Definition LQ {A} (mm : nat) : option A -> pst -> Prop :=
  fun o s1 => match o with Some _ => (meas s1 < mm)%nat | None => bnd mm s1 /\ at_eof s1 end.

Lemma t_document_body : forall d f m m', (m <= f)%nat ->
  triple (fun s => bnd m' s /\ bnd m s) (parseQueryDocument_body d f)
         (fun o s1 => bnd m s1 /\ match o with Some _ => (meas s1 < m')%nat | None => bnd m' s1 /\ at_eof s1 end).
Proof.
  intros d f m m' Hm. unfold parseQueryDocument_body.
  eapply t_conseq with (P := bnd (Nat.min m' m)) (Q := LQ (Nat.min m' m));
    [|intros s [H1 H2]; unfold bnd in *; lia|intros o s H; unfold LQ in H; destruct o as [x|]; [split; unfold bnd in *; lia|destruct H as [H E]; split; [unfold bnd in *; lia|split; [unfold bnd in *; lia|exact E]]]].
  set (mm := Nat.min m' m). assert (Hmm : (mm <= f)%nat) by (unfold mm; lia).
  eapply t_bind; [apply t_peek_any|]. intro tok. cbv beta.
  destruct (kind_eqb (tkind tok) EOF) eqn:Eeof.
  - eapply t_conseq; [apply t_ret|intros s H; exact H|]. intros o s [E [H [e Hpk]]]. subst o. split; [exact H|].
    exists tok, e. split; [exact Hpk|apply kind_eqb_eq; exact Eeof].
  - apply kind_eqb_neq in Eeof.
    eapply t_bind; [apply t_haserr|]. intro e. destruct e.
    + apply t_absurd. intros s [H _]. discriminate.
    + eapply t_bind; [eapply t_conseq; [apply (t_peekPos_pk mm tok)|intros s [_ H]; exact H|intros x s H; exact H]|]. intro p.
      eapply t_bind; [apply (t_peek_pk mm tok)|]. intro tk. cbv beta.
      assert (Hop : triple (fun s => tk = tok /\ bnd mm s /\ pk tok s) (o <- parseOperationDefinition d f ;; Ret (Some (p, QOp o))) (LQ mm)).
      { eapply t_bind; [eapply t_conseq; [apply (t_parseOperationDefinition d f mm tok Hmm Eeof)|intros s [_ H]; exact H|intros x s H; exact H]|].
        intro o. eapply t_conseq; [apply t_ret|intros s H; exact H|]. intros x s [E H]. subst x. exact H. }
      assert (Hun : triple (fun s => tk = tok /\ bnd mm s /\ pk tok s) (unexpectedError ;;; Ret (Some (p, QNone))) (LQ mm)).
      { eapply t_bind; [eapply t_conseq; [apply (t_unexpected mm (fun _ _ => False))|intros s [_ [H _]]; exact H|intros x s H; exact H]|].
        intros []. apply t_absurd. intros s H. exact H. }
      destruct (tkind tk); try exact Hun; try exact Hop.
      destruct (str_eqb (tval tk) (b "query") || str_eqb (tval tk) (b "mutation") || str_eqb (tval tk) (b "subscription")); [exact Hop|].
      destruct (str_eqb (tval tk) (b "fragment")); [|exact Hun].
      eapply t_bind; [eapply t_conseq; [apply (t_parseFragmentDefinition d f mm Hmm)|intros s [_ [H _]]; exact H|intros x s H; exact H]|].
      intro fr. eapply t_conseq; [apply t_ret|intros s H; exact H|]. intros x s [E H]. subst x. exact H.
Qed.

Lemma t_parseQueryDocument : forall d f m, (m <= f)%nat ->
  triple (bnd m) (parseQueryDocument d f) (fun _ s => bnd m s /\ at_eof s).
Proof.
  intros d f m Hm. unfold parseQueryDocument.
  eapply t_bind; [eapply t_conseq; [apply (t_loop_exit _ (parseQueryDocument_body d f) (bnd m) at_eof m)| |]|].
  - intro m'. apply t_document_body. exact Hm.
  - intros s H. split; exact H.
  - intros x s H. exact H.
  - intro defs. cbv beta zeta.
    assert (Hret : forall doc : qdoc, triple (fun s => bnd m s /\ bnd m s /\ at_eof s) (Ret doc) (fun _ s => bnd m s /\ at_eof s))
      by (intro doc; eapply t_conseq; [apply t_ret|intros s H; exact H|]; intros x s [_ [H [_ E]]]; split; assumption).
    assert (Hchk : forall doc : qdoc, triple (fun s => bnd m s /\ bnd m s /\ at_eof s)
                     (e <- HasErr ;; if d F_Q3 || e then Ret doc else unexpectedError ;;; Ret doc) (fun _ s => bnd m s /\ at_eof s)).
    { intro doc. eapply t_bind; [apply t_haserr|]. intro e. destruct (d F_Q3 || e).
      - eapply t_conseq; [apply t_ret|intros s H; exact H|]. intros x s [_ [_ [H [_ E]]]]. split; assumption.
      - eapply t_bind; [eapply t_conseq; [apply (t_unexpected m (fun _ _ => False))|intros s [_ [H _]]; exact H|intros x s H; exact H]|].
        intros []. apply t_absurd. intros s H. exact H. }
    destruct (qdoc_ops defs); destruct (qdoc_frags defs); first [apply Hchk|apply Hret].
Qed.

(* ---- the theorem: parsing an executable document never stalls ---- *)
Lemma run_parseQueryDocument : forall d limit input,
  let r := run d (parseQueryDocument d (query_fuel input)) (query_fuel input) (pst_init input limit 0) in
  good (snd r) /\ wf (snd r) /\ (has_err (snd r) = false -> at_eof (snd r)).
Proof.
  intros d limit input.
  pose proof (t_parseQueryDocument d (query_fuel input) (length input) ltac:(unfold query_fuel; lia)
                d (query_fuel input) (pst_init input limit 0) eq_refl (wf_init input limit 0)) as H.
  assert (Hm : meas (pst_init input limit 0) = length input) by (unfold meas, pst_init; cbn; lia).
  specialize (H ltac:(unfold bnd; lia) ltac:(rewrite Hm; unfold query_fuel; lia)).
  destruct H as [G [_ [W R]]]. cbv zeta. split; [exact G|]. split; [exact W|]. intro Hn. exact (proj2 (R Hn)).
Qed.

Theorem parseQuery_never_stalls : forall d limit input, parseQuery d limit input <> PErr PStall.
Proof.
  intros d limit input. unfold parseQuery, parseQueryWith.
  destruct (run_parseQueryDocument d limit input) as [G _].
  destruct (run d (parseQueryDocument d (query_fuel input)) (query_fuel input) (pst_init input limit 0)) as [doc s].
  cbn [snd] in G. unfold good in G. destruct (perr_ s) as [e|]; cbn [fst]; [|discriminate].
  intro E. inversion E. subst. apply G. reflexivity.
Qed.

(* A document is only returned once the parser has looked at the end-of-input token: nothing after the
   last definition is left unread. *)
Theorem parseQuery_reads_everything : forall d limit input doc s,
  parseQueryWith d (query_fuel input) limit input = (POk doc, s) -> at_eof s /\ rest (plx s) = [].
Proof.
  intros d limit input doc s H. unfold parseQueryWith in H.
  destruct (run_parseQueryDocument d limit input) as [_ [W R]].
  destruct (run d (parseQueryDocument d (query_fuel input)) (query_fuel input) (pst_init input limit 0)) as [doc0 s0].
  cbn [snd] in R, W. destruct (perr_ s0) as [e|] eqn:Ee; [discriminate|]. inversion H; subst.
  assert (E : at_eof s) by (apply R; apply has_err_none; exact Ee).
  split; [exact E|]. destruct E as [t [e [Hp Hk]]]. destruct W as [_ [_ W3]]. exact (W3 t e Hp Hk).
Qed.
