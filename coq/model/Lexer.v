(* Lexer.v — model of lexer/lexer.go and lexer/blockstring.go, cursor style.
   State = unread suffix + absolute rune counters (DESIGN §3.1). *)
From GQL.model Require Import Base Utf8.
Open Scope Z_scope.

Inductive kind :=
| Invalid | EOF | Bang | Dollar | Amp | ParenL | ParenR | Spread | Colon | Equals | At
| BracketL | BracketR | BraceL | BraceR | Pipe | Name | Int | Float | String_ | BlockString | Comment.

Definition kind_id (k : kind) : N :=
  match k with
  | Invalid => 0 | EOF => 1 | Bang => 2 | Dollar => 3 | Amp => 4 | ParenL => 5 | ParenR => 6
  | Spread => 7 | Colon => 8 | Equals => 9 | At => 10 | BracketL => 11 | BracketR => 12
  | BraceL => 13 | BraceR => 14 | Pipe => 15 | Name => 16 | Int => 17 | Float => 18
  | String_ => 19 | BlockString => 20 | Comment => 21
  end%N.
Definition kind_eqb (a c : kind) : bool := N.eqb (kind_id a) (kind_id c).

Record token := mkTok
  { tkind : kind; tval : str; tstart : Z; tend : Z; tline : Z; tcol : Z }.

(* a lexical error: line, column, message-template id (the id is never compared) *)
Record lexerr := mkLexErr { eline : Z; ecol : Z; ecls : N }.

Record lx := mkLx { rest : str; endR : Z; line : Z; lsr : Z }.

Definition lx_init (input : str) : lx := mkLx input 0 1 0.

(* ---------------- blockstring.go ---------------- *)

Definition MaxInt32 : Z := 2147483647.

Fixpoint split_nl_aux (l cur : str) : list str :=
  match l with
  | [] => [rev cur]
  | c :: tl => if (c =? 10)%N then rev cur :: split_nl_aux tl [] else split_nl_aux tl (c :: cur)
  end.
Definition split_nl (l : str) : list str := split_nl_aux l [].

Fixpoint join_nl (ls : list str) : str :=
  match ls with
  | [] => []
  | [x] => x
  | x :: tl => x ++ 10%N :: join_nl tl
  end.

(* leadingWhitespace: byte index of the first non space/tab, MaxInt32 if none *)
Fixpoint leadingWhitespace_aux (l : str) (i : Z) : Z :=
  match l with
  | [] => MaxInt32
  | c :: tl => if (c =? 32)%N || (c =? 9)%N then leadingWhitespace_aux tl (i + 1) else i
  end.
Definition leadingWhitespace (l : str) : Z := leadingWhitespace_aux l 0.

Definition zlen (l : str) : Z := Z.of_nat (length l).

Fixpoint commonIndent_loop (lines : list str) (ci : Z) : Z :=
  match lines with
  | [] => ci
  | ln :: tl =>
    let indent := leadingWhitespace ln in
    if (indent <? zlen ln) && (indent <? ci)
    then (if indent =? 0 then 0 else commonIndent_loop tl indent)
    else commonIndent_loop tl ci
  end.

Definition strip_indent (ci : Z) (ln : str) : str :=
  if zlen ln <? ci then [] else skipn (Z.to_nat ci) ln.

Fixpoint drop_blank_front (ls : list str) : list str :=
  match ls with
  | [] => []
  | x :: tl => if leadingWhitespace x =? MaxInt32 then drop_blank_front tl else ls
  end.

Definition blockStringValue (d : dev) (raw : str) : str :=
  let lines := split_nl raw in
  let ci := commonIndent_loop (if d F_L2 then lines else tl lines) MaxInt32 in
  let lines1 :=
    if ci =? MaxInt32 then lines
    else match lines with
         | [] => []
         | x :: rest => x :: map (strip_indent ci) rest
         end in
  let l2 := drop_blank_front lines1 in
  let l3 := rev (drop_blank_front (rev l2)) in
  join_nl l3.

(* ---------------- lexer.go ---------------- *)

(* ws: returns the suffix and the counters after ignored characters *)
Fixpoint ws (d : dev) (l : str) (e ln ls : Z) : str * Z * Z * Z :=
  match l with
  | [] => ([], e, ln, ls)
  | c :: tl =>
    if (c =? 9)%N || (c =? 32)%N || (c =? 44)%N then ws d tl (e + 1) ln ls
    else if (c =? 10)%N then ws d tl (e + 1) (ln + 1) (e + 1)
    else if (c =? 13)%N then
      match tl with
      | 10%N :: tl' => ws d tl' (e + 2) (ln + 1) (if d F_P3 then e + 1 else e + 2)
      | _ => ws d tl (e + 1) (ln + 1) (e + 1)
      end
    else if (c =? 239)%N then
      match tl with
      | 187%N :: 191%N :: tl' => ws d tl' (e + 1) ln ls
      | _ => (l, e, ln, ls)
      end
    else (l, e, ln, ls)
  end.

Definition res := (token * option lexerr * lx)%type.

(* makeError: Invalid token at [start,e), error at column e - ls + 1 *)
Definition mk_err (l : str) (start e ln ls : Z) (cls : N) : res :=
  let col := e - ls + 1 in
  (mkTok Invalid [] start e ln col, Some (mkLexErr ln col cls), mkLx l e ln ls).

Definition mk_tok (k : kind) (v : str) (l : str) (start e ln ls : Z) : res :=
  (mkTok k v start e ln (start - ls + 1), None, mkLx l e ln ls).

(* readName / readComment / digits: structural loops returning (consumed, rest) *)
Fixpoint take_name (l : str) : str * str :=
  match l with
  | c :: tl => if is_name_cont c then let '(a, r) := take_name tl in (c :: a, r) else ([], l)
  | [] => ([], [])
  end.

Fixpoint take_digits (l : str) : str * str :=
  match l with
  | c :: tl => if is_digit c then let '(a, r) := take_digits tl in (c :: a, r) else ([], l)
  | [] => ([], [])
  end.

(* comment body: runes > 0x1f or tab; returns (bytes consumed, runes consumed, rest) *)
Fixpoint take_comment (fuel : nat) (l : str) : str * Z * str :=
  match fuel with
  | O => ([], 0, l)
  | S f =>
    match l with
    | [] => ([], 0, [])
    | _ =>
      let '(r, w) := decode_rune l in
      if (31 <? r)%N || (r =? 9)%N then
        let '(a, n, rst) := take_comment f (skipn w l) in (firstn w l ++ a, n + 1, rst)
      else ([], 0, l)
    end
  end.

Definition describe_cls : N := 0%N.

Definition accept1 (c : N) (l : str) : bool * str :=
  match l with
  | x :: tl => if (x =? c)%N then (true, tl) else (false, l)
  | [] => (false, l)
  end.
Definition accept2 (c1 c2 : N) (l : str) : option N * str :=
  match l with
  | x :: tl => if (x =? c1)%N || (x =? c2)%N then (Some x, tl) else (None, l)
  | [] => (None, l)
  end.

Definition opt_cons {A} (o : option A) (l : list A) : list A :=
  match o with Some x => x :: l | None => l end.

(* readNumber: l is the input from the first character of the number *)
Definition readNumber (d : dev) (l : str) (start ln ls : Z) : res :=
  let '(neg, l1) := accept1 45 l in
  let e1 := if neg then start + 1 else start in
  let sgn := if neg then [45%N] else [] in
  let '(z, l2) := accept1 48 l1 in
  let intpart :=
    if z then
      let '(ds, l3) := take_digits l2 in
      match ds with
      | [] => inl (sgn ++ [48%N], l2, e1 + 1)
      | _ => inr (mk_err l2 start (e1 + 1) ln ls 10)
      end
    else
      let '(ds, l3) := take_digits l1 in
      match ds with
      | [] => inr (mk_err l1 start e1 ln ls 11)
      | _ => inl (sgn ++ ds, l3, e1 + zlen ds)
      end in
  match intpart with
  | inr r => r
  | inl (v1, l3, e3) =>
    let '(dot, l4) := accept1 46 l3 in
    let fracpart :=
      if dot then
        let '(ds, l5) := take_digits l4 in
        match ds with
        | [] => inr (mk_err l4 start (e3 + 1) ln ls 11)
        | _ => inl (v1 ++ 46%N :: ds, l5, e3 + 1 + zlen ds, true)
        end
      else inl (v1, l3, e3, false) in
    match fracpart with
    | inr r => r
    | inl (v2, l5, e5, fl) =>
      let '(ex, l6) := accept2 101 69 l5 in
      let exppart :=
        match ex with
        | Some ec =>
          let '(sg, l7) := accept2 45 43 l6 in
          let e7 := match sg with Some _ => e5 + 2 | None => e5 + 1 end in
          let '(ds, l8) := take_digits l7 in
          match ds with
          | [] => inr (mk_err l7 start e7 ln ls 11)
          | _ => inl (v2 ++ ec :: opt_cons sg ds, l8, e7 + zlen ds, true)
          end
        | None => inl (v2, l5, e5, fl)
        end in
      match exppart with
      | inr r => r
      | inl (v3, l8, e8, fl3) =>
        let bad_follow :=
          match l8 with
          | c :: _ => (c =? 46)%N || is_name_start c
          | [] => false
          end in
        if negb (d F_L1) && bad_follow then mk_err l8 start e8 ln ls 12
        else mk_tok (if fl3 then Float else Int) v3 l8 start e8 ln ls
      end
    end
  end.

Definition hexval (c : N) : option N :=
  if is_digit c then Some (c - 48)%N
  else if in_range 97 102 c then Some (c - 87)%N
  else if in_range 65 70 c then Some (c - 55)%N
  else None.

Definition unhex4 (a b c e : N) : option N :=
  match hexval a, hexval b, hexval c, hexval e with
  | Some x, Some y, Some z, Some w => Some (((x * 16 + y) * 16 + z) * 16 + w)%N
  | _, _, _, _ => None
  end.

(* readString loop.  l: unread input; raw: bytes consumed so far (reversed);
   buf: Some (reversed value) once an escape has been seen; e: endRunes.
   start here is the rune offset of the opening quote. *)
Fixpoint readString_loop (d : dev) (fuel : nat) (l : str) (raw : str) (buf : option str)
         (start e ln ls : Z) : option res :=
  match fuel with
  | O => None
  | S f =>
    match l with
    | [] => Some (mk_err l (start + 1) e ln ls 20)
    | r :: tl =>
      if (r =? 10)%N || (r =? 13)%N then Some (mk_err l (start + 1) e ln ls 20)
      else if (r <? 32)%N && negb (r =? 9)%N then Some (mk_err l (start + 1) e ln ls 21)
      else if (r =? 34)%N then
        let v := match buf with Some bf => rev bf | None => rev raw end in
        let col := (if d F_P1 then start + 1 else start) - ls + 1 in
        Some (mkTok String_ v start (e + 1) ln col, None, mkLx tl (e + 1) ln ls)
      else if (r =? 92)%N then
        match tl with
        | [] => Some (mk_err tl (start + 1) (e + 1) ln ls 22)
        | esc :: tl2 =>
          let bf := match buf with Some bf => bf | None => raw end in
          if (esc =? 117)%N then
            match tl2 with
            | h1 :: h2 :: h3 :: h4 :: (_ :: _) as tl6 =>
              match unhex4 h1 h2 h3 h4 with
              | Some rn =>
                readString_loop d f tl6 (h4 :: h3 :: h2 :: h1 :: esc :: r :: raw)
                                (Some (rev_append (encode_rune rn) bf)) start (e + 6) ln ls
              | None => Some (mk_err tl (start + 1) (e + 1) ln ls 23)
              end
            | _ => Some (mk_err tl (start + 1) (e + 1) ln ls 23)
            end
          else
            let out :=
              if (esc =? 34)%N || (esc =? 47)%N || (esc =? 92)%N then Some esc
              else if (esc =? 98)%N then Some 8%N
              else if (esc =? 102)%N then Some 12%N
              else if (esc =? 110)%N then Some 10%N
              else if (esc =? 114)%N then Some 13%N
              else if (esc =? 116)%N then Some 9%N
              else None in
            match out with
            | Some c => readString_loop d f tl2 (esc :: r :: raw) (Some (c :: bf)) start (e + 2) ln ls
            | None => Some (mk_err tl (start + 1) (e + 1) ln ls 23)
            end
        end
      else
        let '(ch, w) := if (r <? 127)%N then (r, 1%nat) else decode_rune l in
        let bytes := firstn w l in
        readString_loop d f (skipn w l) (rev_append bytes raw)
                        (match buf with Some bf => Some (rev_append (encode_rune ch) bf) | None => None end)
                        start (e + 1) ln ls
    end
  end.

Fixpoint count_quotes (l : str) : nat * str :=
  match l with
  | 34%N :: tl => let '(n, r) := count_quotes tl in (S n, r)
  | _ => (O, l)
  end.

(* readBlockString loop.  l: unread input after the opening quotes; buf reversed;
   start: rune offset of the first opening quote; sl/sls: line and lineStart at the
   token start (used by the specification-conforming position). *)
Fixpoint readBlock_loop (d : dev) (fuel : nat) (l : str) (buf : str)
         (start e ln ls sl sls : Z) : option res :=
  match fuel with
  | O => None
  | S f =>
    match l with
    | [] => Some (mk_err l (start + 3) e ln ls 20)
    | r :: tl =>
      let '(qc, after) := count_quotes l in
      if (3 <=? qc)%nat then
        (* closing quotes: Go uses the last three of the run (F_L3), the grammar the first three *)
        let extra := if d F_L3 then (qc - 3)%nat else O in
        let v := blockStringValue d (rev (repeat 34%N extra ++ buf)) in
        let l' := if d F_L3 then after else skipn 3 l in
        let e' := if d F_L3 then e + Z.of_nat qc else e + 3 in
        (* Go: Line = current line, Column = (start+3) - lineStart + 1 at the END of the token (F_P2) *)
        let tline_ := if d F_P2 then ln else sl in
        let tcol_ := if d F_P2 then start + 3 - ls + 1 else start - sls + 1 in
        Some (mkTok BlockString v start (e + 3) tline_ tcol_, None, mkLx l' e' ln ls)
      else if (r <? 32)%N && negb (r =? 9)%N && negb (r =? 10)%N && negb (r =? 13)%N
      then Some (mk_err l (start + 3) e ln ls 21)
      else
        match l with
        | 92%N :: 34%N :: 34%N :: 34%N :: tl4 =>
          readBlock_loop d f tl4 (34%N :: 34%N :: 34%N :: buf) start (e + 4) ln ls sl sls
        | 13%N :: 10%N :: tl2 =>
          readBlock_loop d f tl2 (10%N :: buf) start (e + 2) (ln + 1) (e + 2) sl sls
        | 13%N :: tl1 =>
          readBlock_loop d f tl1 (10%N :: buf) start (e + 1) (ln + 1) (e + 1) sl sls
        | _ =>
          let '(ch, w) := if (r <? 127)%N then (r, 1%nat) else decode_rune l in
          let nl := (r =? 10)%N in
          readBlock_loop d f (skipn w l) (rev_append (encode_rune ch) buf) start (e + 1)
                         (if nl then ln + 1 else ln) (if nl then e + 1 else ls) sl sls
        end
    end
  end.

Definition punct (c : N) : option kind :=
  if (c =? 33)%N then Some Bang else if (c =? 36)%N then Some Dollar
  else if (c =? 38)%N then Some Amp else if (c =? 40)%N then Some ParenL
  else if (c =? 41)%N then Some ParenR else if (c =? 58)%N then Some Colon
  else if (c =? 61)%N then Some Equals else if (c =? 64)%N then Some At
  else if (c =? 91)%N then Some BracketL else if (c =? 93)%N then Some BracketR
  else if (c =? 123)%N then Some BraceL else if (c =? 125)%N then Some BraceR
  else if (c =? 124)%N then Some Pipe else None.

(* outcome of one ReadToken call; [None] = internal fuel exhausted (proved impossible) *)
Definition readToken (d : dev) (s : lx) : option res :=
  let '(l, e, ln, ls) := ws d (rest s) (endR s) (line s) (lsr s) in
  match l with
  | [] => Some (mk_tok EOF [] l e e ln ls)
  | c :: tl =>
    match punct c with
    | Some k => Some (mk_tok k [] tl e (e + 1) ln ls)
    | None =>
      if (c =? 46)%N then
        match tl with
        | 46%N :: 46%N :: tl3 => Some (mk_tok Spread [] tl3 e (e + 3) ln ls)
        | _ => Some (mk_err l e e ln ls 1)
        end
      else if (c =? 35)%N then
        let '(body, n, rst) := take_comment (length tl) tl in
        Some (mk_tok Comment (c :: body) rst e (e + 1 + n) ln ls)
      else if is_name_start c then
        let '(body, rst) := take_name tl in
        Some (mk_tok Name (c :: body) rst e (e + 1 + zlen body) ln ls)
      else if (c =? 45)%N || is_digit c then Some (readNumber d l e ln ls)
      else if (c =? 34)%N then
        match tl with
        | 34%N :: 34%N :: tl3 => readBlock_loop d (S (length tl3)) tl3 [] e (e + 3) ln ls ln ls
        | _ => readString_loop d (S (length tl)) tl [] None e (e + 1) ln ls
        end
      else if (c <? 32)%N && negb (c =? 9)%N && negb (c =? 10)%N && negb (c =? 13)%N
      then Some (mk_err l e e ln ls 2)
      else if (c =? 39)%N then Some (mk_err l e e ln ls 3)
      else Some (mk_err l e e ln ls 1)
    end
  end.

(* lex to the end: tokens up to and excluding EOF, then the error if any *)
Fixpoint lex_all (d : dev) (fuel : nat) (s : lx) : option (list token * option lexerr) :=
  match fuel with
  | O => None
  | S f =>
    match readToken d s with
    | None => None
    | Some (t, Some err, _) => Some ([], Some err)
    | Some (t, None, s') =>
      match tkind t with
      | EOF => Some ([], None)
      | _ => match lex_all d f s' with
             | None => None
             | Some (ts, er) => Some (t :: ts, er)
             end
      end
    end
  end.

Definition lex (d : dev) (input : str) : option (list token * option lexerr) :=
  lex_all d (S (length input)) (lx_init input).

(* ---------------- dump for the correspondence check ---------------- *)
Definition sp : N := 32%N.
Definition dump_token (t : token) : str :=
  N_dec (kind_id t.(tkind)) ++ sp :: hex t.(tval) ++ sp :: Z_dec t.(tstart) ++ sp :: Z_dec t.(tend)
        ++ sp :: Z_dec t.(tline) ++ sp :: Z_dec t.(tcol) ++ [59%N].
Definition dump_lex (d : dev) (input : str) : str :=
  match lex d input with
  | None => b "STALL"
  | Some (ts, er) =>
    concat (map dump_token ts) ++
    match er with
    | None => b "ok"
    | Some e => b "err " ++ Z_dec e.(eline) ++ sp :: Z_dec e.(ecol)
    end
  end.
