(* Prog.v — the parser's control flow as a small deep-embedded language (a free monad
   over the primitives of parser/parser.go) and its interpreter.  Every parse function
   of parser/query.go and parser/schema.go is a [prog]; facts that only depend on the
   primitives (sticky error, token counting, the token limit) are proved once for all
   programs by induction on [prog] (proofs/ProgFacts.v). *)
From GQL.model Require Import Base Utf8 Lexer Ast Parser.
Open Scope Z_scope.

Inductive prog : Type -> Type :=
| Ret {A : Type} (a : A) : prog A
| Bind {A B : Type} (p : prog B) (k : B -> prog A) : prog A
| Peek : prog token                  (* p.peek() *)
| Next : prog token                  (* p.next() *)
| ErrorAt (t : token) : prog unit    (* p.error(tok, ...) *)
| HasErr : prog bool                 (* p.err != nil *)
| Prev : prog token                  (* p.prev *)
| SrcIx : prog N                     (* index of the source being parsed *)
| Stall : prog unit                  (* recursion fuel exhausted (never reached: C01) *)
| Loop {A : Type} (body : prog (option A)) : prog (list A).
    (* run [body] until it returns None; the Some results in order *)

Notation "x <- p ;; k" := (Bind p (fun x => k)) (at level 61, p at next level, right associativity).
Notation "' pat <- p ;; k" := (Bind p (fun x => match x with pat => k end))
  (at level 61, pat pattern, p at next level, right associativity).
Notation "p ;;; k" := (Bind p (fun _ : unit => k)) (at level 61, right associativity).

Section Run.
  Variable d : dev.

  Fixpoint iter {A} (fuel : nat) (body : pst -> option A * pst) (s : pst) (acc : list A) : list A * pst :=
    match fuel with
    | O => (rev acc, set_err s PStall)
    | S f => let '(o, s1) := body s in
             match o with
             | Some x => iter f body s1 (x :: acc)
             | None => (rev acc, s1)
             end
    end.

  Fixpoint run {A} (p : prog A) (fuel : nat) (s : pst) {struct p} : A * pst :=
    match p in prog T return T * pst with
    | Ret a => (a, s)
    | Bind p k => let '(x, s1) := run p fuel s in run (k x) fuel s1
    | Peek => peek d s
    | Next => next d s
    | ErrorAt t => (tt, error_at s t)
    | HasErr => (has_err s, s)
    | Prev => (prev s, s)
    | SrcIx => (src s, s)
    | Stall => (tt, set_err s PStall)
    | Loop body => iter fuel (run body fuel) s []
    end.
End Run.

(* ---------- derived operations of parser.go ---------- *)

Definition expect (k : kind) : prog token :=
  tok <- Peek ;;
  if kind_eqb tok.(tkind) k then Next else (ErrorAt tok ;;; Ret tok).

Definition is_kw (tok : token) (v : str) : bool := kind_eqb tok.(tkind) Name && str_eqb tok.(tval) v.

Definition expectKeyword (v : str) : prog token :=
  tok <- Peek ;;
  if is_kw tok v then Next else (ErrorAt tok ;;; Ret tok).

Definition skip (k : kind) : prog bool :=
  e <- HasErr ;;
  if e then Ret false else
  tok <- Peek ;;
  if kind_eqb tok.(tkind) k then (_ <- Next ;; Ret true) else Ret false.

Definition unexpectedError : prog unit := tok <- Peek ;; ErrorAt tok.

Definition peekPos : prog pos :=
  e <- HasErr ;;
  if e then Ret pos0 else
  tok <- Peek ;; ix <- SrcIx ;; Ret (pos_of_tok ix tok).

(* `for p.peek().Kind != end && p.err == nil { cb() }` *)
Definition until_loop {A} (endk : kind) (cb : prog A) : prog (list A) :=
  Loop (tok <- Peek ;; e <- HasErr ;;
        if negb (kind_eqb tok.(tkind) endk) && negb e then (x <- cb ;; Ret (Some x)) else Ret None).

Definition many {A} (startk endk : kind) (cb : prog A) : prog (list A) :=
  has <- skip startk ;;
  if negb has then Ret [] else
  xs <- until_loop endk cb ;;
  _ <- Next ;; Ret xs.

Definition some {A} (startk endk : kind) (cb : prog A) : prog (list A) :=
  has <- skip startk ;;
  if negb has then Ret [] else
  xs <- until_loop endk cb ;;
  match xs with
  | [] => tok <- Peek ;; ErrorAt tok ;;; Ret []
  | _ => _ <- Next ;; Ret xs
  end.

Definition parseName : prog str := tok <- expect Name ;; Ret tok.(tval).

(* recursion fuel exhausted *)
Definition stalled {A} (x : A) : prog A := Stall ;;; Ret x.
