(* Validate.v — model of validator.Validate: the walk's events are delivered to every rule in
   registration order; each rule keeps its own state; errors come out in delivery order. *)
From GQL.model Require Import Base Utf8 Lexer Ast Schema Walk Rules Rules2.
Open Scope N_scope.

Record verr := mkVErr { ve_rule : str; ve_locs : list (Z * Z); ve_sugg : str }.

Definition rinst_name (r : rinst) : str := let '(RI n _ _ _) := r in n.

(* deliver one event to one rule *)
Definition rinst_step (r : rinst) (e : cev) : rinst * list verr :=
  match r with
  | RI n St st step =>
    let '(st', errs) := step st e in
    (RI n St st' step, map (fun x => mkVErr n x.(re_locs) x.(re_sugg)) errs)
  end.

(* deliver one event to all rules, in order *)
Fixpoint deliver (rs : list rinst) (e : cev) : list rinst * list verr :=
  match rs with
  | [] => ([], [])
  | r :: tl =>
    let '(r', e1) := rinst_step r e in
    let '(tl', e2) := deliver tl e in
    (r' :: tl', e1 ++ e2)
  end.

Fixpoint run_events (rs : list rinst) (evs : list cev) : list verr :=
  match evs with
  | [] => []
  | e :: tl => let '(rs', errs) := deliver rs e in errs ++ run_events rs' tl
  end.

Definition validate_with (s : schema) (doc : qdoc) (rules : list rinst) : list verr :=
  run_events rules (walk s doc).

(* the rules in the order validator/rules registers them (init order = file name order) *)
(* pre: the document object was validated before (see Rules2.annotated) *)
Definition default_rules (pre : bool) (s : schema) (doc : qdoc) : list rinst :=
  [ r_FieldsOnCorrectType s false; r_FragmentsOnCompositeTypes s; r_KnownArgumentNames s false;
    r_KnownDirectives s; r_KnownFragmentNames doc; r_KnownRootType s; r_KnownTypeNames s false;
    r_LoneAnonymousOperation doc; r_MaxIntrospectionDepth doc; r_NoFragmentCycles doc;
    r_NoUndefinedVariables; r_NoUnusedFragments; r_NoUnusedVariables;
    r_OverlappingFieldsCanBeMerged s doc pre; r_PossibleFragmentSpreads s doc; r_ProvidedRequiredArguments s;
    r_ScalarLeafs s; r_SingleFieldSubscriptions s doc; r_UniqueArgumentNames; r_UniqueDirectivesPerLocation s;
    r_UniqueFragmentNames; r_UniqueInputFieldNames; r_UniqueOperationNames; r_UniqueVariableNames;
    r_ValuesOfCorrectType false; r_VariablesAreInputTypes s; r_VariablesInAllowedPosition ].

Definition all_rules (pre : bool) (s : schema) (doc : qdoc) : list rinst :=
  default_rules pre s doc ++
  [ r_FieldsOnCorrectType s true; r_KnownArgumentNames s true; r_KnownTypeNames s true; r_ValuesOfCorrectType true ].

Definition rule_by_name (pre : bool) (s : schema) (doc : qdoc) (n : str) : option rinst :=
  find (fun r => str_eqb (rinst_name r) n) (all_rules pre s doc).

Definition validate (s : schema) (doc : qdoc) : list verr := validate_with s doc (default_rules false s doc).
(* validating the same document object again: the walker's annotations are already there *)
Definition validate_again (s : schema) (doc : qdoc) : list verr := validate_with s doc (default_rules true s doc).

(* ---------------- dump ---------------- *)
Definition dump_verr (e : verr) : str :=
  e.(ve_rule) ++ 40 :: sepcat (map (fun lc => Z_dec (fst lc) ++ 58 :: Z_dec (snd lc)) e.(ve_locs)) ++ 41 ::
  91 :: hex e.(ve_sugg) ++ [93].
Definition dump_verrs (l : list verr) : str := concat (map (fun e => dump_verr e ++ [59]) l).
