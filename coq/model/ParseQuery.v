(* ParseQuery.v — model of parser/query.go, one function per Go function. *)
From GQL.model Require Import Base Utf8 Lexer Ast Parser.
Open Scope Z_scope.

Definition stall {A} (x : A) (s : pst) : A * pst := (x, set_err s PStall).

Definition parseVariable (d : dev) (s : pst) : str * pst :=
  let '(_, s1) := expect d Dollar s in parseName d s1.

Fixpoint parseValueLiteral (d : dev) (fuel : nat) (isConst : bool) (s : pst) : value * pst :=
  match fuel with
  | O => stall value0 s
  | S f =>
    let '(token, s1) := peek d s in
    let tp := pos_of_tok (src s) token in
    match token.(tkind) with
    | BracketL =>
      let '(p, s2) := peekPos d s1 in
      let '(vals, s3) := many d (fun st => let '(v, st') := parseValueLiteral d f isConst st in
                                           (([], None, v), st')) f BracketL BracketR s2 in
      (mkValue VList [] vals p, s3)
    | BraceL =>
      let '(p, s2) := peekPos d s1 in
      let '(flds, s3) := many d (fun st =>
                                   let '(fp, st1) := peekPos d st in
                                   let '(n, st2) := parseName d st1 in
                                   let '(_, st3) := expect d Colon st2 in
                                   let '(v, st4) := parseValueLiteral d f isConst st3 in
                                   ((n, Some fp, v), st4)) f BraceL BraceR s2 in
      (mkValue VObject [] flds p, s3)
    | Dollar =>
      if isConst then (value0, unexpectedError d s1)
      else let '(n, s2) := parseVariable d s1 in (mkValue VVar n [] tp, s2)
    | Int => let '(_, s2) := next d s1 in (mkValue VInt token.(tval) [] tp, s2)
    | Float => let '(_, s2) := next d s1 in (mkValue VFloat token.(tval) [] tp, s2)
    | String_ => let '(_, s2) := next d s1 in (mkValue VString token.(tval) [] tp, s2)
    | BlockString => let '(_, s2) := next d s1 in (mkValue VBlock token.(tval) [] tp, s2)
    | Name =>
      let k := if str_eqb token.(tval) (b "true") || str_eqb token.(tval) (b "false") then VBool
               else if str_eqb token.(tval) (b "null") then VNull else VEnum in
      let '(_, s2) := next d s1 in (mkValue k token.(tval) [] tp, s2)
    | _ => (value0, unexpectedError d s1)
    end
  end.

Fixpoint parseTypeReference (d : dev) (fuel : nat) (s : pst) : type_ * pst :=
  match fuel with
  | O => stall type0 s
  | S f =>
    let '(isList, s1) := skip d BracketL s in
    if isList then
      let '(p, s2) := peekPos d s1 in
      let '(e, s3) := parseTypeReference d f s2 in
      let '(_, s4) := expect d BracketR s3 in
      let '(nn, s5) := skip d Bang s4 in
      (ListT e nn p, s5)
    else
      let '(p, s2) := peekPos d s1 in
      let '(n, s3) := parseName d s2 in
      let '(nn, s4) := skip d Bang s3 in
      (NamedT n nn p, s4)
  end.

Definition parseArgument (d : dev) (fuel : nat) (isConst : bool) (s : pst) : argument * pst :=
  let '(p, s1) := peekPos d s in
  let '(n, s2) := parseName d s1 in
  let '(_, s3) := expect d Colon s2 in
  let '(v, s4) := parseValueLiteral d fuel isConst s3 in
  (mkArg n v p, s4).

Definition parseArguments (d : dev) (fuel : nat) (isConst : bool) (s : pst) : list argument * pst :=
  some d (parseArgument d fuel isConst) fuel ParenL ParenR s.

Definition parseDirective (d : dev) (fuel : nat) (isConst : bool) (s : pst) : directive * pst :=
  let '(_, s1) := expect d At s in
  let '(p, s2) := peekPos d s1 in
  let '(n, s3) := parseName d s2 in
  let '(args, s4) := parseArguments d fuel isConst s3 in
  (mkDir n args p, s4).

(* for p.peek().Kind == lexer.At { if p.err != nil { break }; append(parseDirective) } *)
Fixpoint parseDirectives_loop (d : dev) (loopfuel fuel : nat) (isConst : bool) (s : pst) (acc : list directive)
  : list directive * pst :=
  match loopfuel with
  | O => stall (rev acc) s
  | S lf =>
    let '(tok, s1) := peek d s in
    if kind_eqb tok.(tkind) At && negb (has_err s1) then
      let '(x, s2) := parseDirective d fuel isConst s1 in
      parseDirectives_loop d lf fuel isConst s2 (x :: acc)
    else (rev acc, s1)
  end.
Definition parseDirectives (d : dev) (fuel : nat) (isConst : bool) (s : pst) : list directive * pst :=
  parseDirectives_loop d fuel fuel isConst s [].

Definition parseVariableDefinition (d : dev) (fuel : nat) (s : pst) : vardef * pst :=
  let '(p, s1) := peekPos d s in
  let '(v, s2) := parseVariable d s1 in
  let '(_, s3) := expect d Colon s2 in
  let '(t, s4) := parseTypeReference d fuel s3 in
  let '(hasdef, s5) := skip d Equals s4 in
  let '(dv, s6) := if hasdef then let '(x, st) := parseValueLiteral d fuel true s5 in (Some x, st)
                   else (None, s5) in
  let '(dirs, s7) := parseDirectives d fuel (negb (d F_Q1)) s6 in
  (mkVarDef v t dv dirs p, s7).

Definition parseVariableDefinitions (d : dev) (fuel : nat) (s : pst) : list vardef * pst :=
  some d (parseVariableDefinition d fuel) fuel ParenL ParenR s.

Definition tok_is_on (d : dev) (tok : token) : bool :=
  str_eqb tok.(tval) (b "on") && (d F_Q2 || kind_eqb tok.(tkind) Name).

Definition parseFragmentName (d : dev) (s : pst) : str * pst :=
  let '(tok, s1) := peek d s in
  if str_eqb tok.(tval) (b "on") then ([], unexpectedError d s1) else parseName d s1.

Definition sel0 : selection := SSpread [] [] pos0.

Fixpoint parseSelection (d : dev) (fuel : nat) (s : pst) : selection * pst :=
  match fuel with
  | O => stall sel0 s
  | S f =>
    let required (st : pst) : list selection * pst :=
        let '(tok, st1) := peek d st in
        if negb (kind_eqb tok.(tkind) BraceL) then ([], error_at st1 tok)
        else some d (parseSelection d f) f BraceL BraceR st1 in
    let '(tok, s1) := peek d s in
    if kind_eqb tok.(tkind) Spread then
      (* parseFragment *)
      let '(_, s2) := expect d Spread s1 in
      let '(pk, s3) := peek d s2 in
      if kind_eqb pk.(tkind) Name && negb (str_eqb pk.(tval) (b "on")) then
        let '(p, s4) := peekPos d s3 in
        let '(n, s5) := parseFragmentName d s4 in
        let '(dirs, s6) := parseDirectives d f false s5 in
        (SSpread n dirs p, s6)
      else
        let '(p, s4) := peekPos d s3 in
        let '(pk2, s5) := peek d s4 in
        let '(tc, s6) := if tok_is_on d pk2 then let '(_, st) := next d s5 in parseName d st
                         else ([], s5) in
        let '(dirs, s7) := parseDirectives d f false s6 in
        let '(sels, s8) := required s7 in
        (SInline tc dirs sels p, s8)
    else
      (* parseField *)
      let '(p, s2) := peekPos d s1 in
      let '(al, s3) := parseName d s2 in
      let '(hasColon, s4) := skip d Colon s3 in
      let '(n, s5) := if hasColon then parseName d s4 else (al, s4) in
      let '(args, s6) := parseArguments d f false s5 in
      let '(dirs, s7) := parseDirectives d f false s6 in
      let '(pk, s8) := peek d s7 in
      let '(sels, s9) := if kind_eqb pk.(tkind) BraceL
                         then some d (parseSelection d f) f BraceL BraceR s8
                         else ([], s8) in
      (SField al n args dirs sels p, s9)
  end.

Definition parseRequiredSelectionSet (d : dev) (fuel : nat) (s : pst) : list selection * pst :=
  let '(tok, s1) := peek d s in
  if negb (kind_eqb tok.(tkind) BraceL) then ([], error_at s1 tok)
  else some d (parseSelection d fuel) fuel BraceL BraceR s1.

Definition parseOperationType (d : dev) (s : pst) : optype * pst :=
  let '(tok, s1) := next d s in
  let named := d F_S2 || kind_eqb tok.(tkind) Name in
  if named && str_eqb tok.(tval) (b "query") then (OpQuery, s1)
  else if named && str_eqb tok.(tval) (b "mutation") then (OpMutation, s1)
  else if named && str_eqb tok.(tval) (b "subscription") then (OpSubscription, s1)
  else (OpNone, error_at s1 tok).

Definition parseOperationDefinition (d : dev) (fuel : nat) (s : pst) : opdef * pst :=
  let '(tok, s1) := peek d s in
  if kind_eqb tok.(tkind) BraceL then
    let '(p, s2) := peekPos d s1 in
    let '(sels, s3) := parseRequiredSelectionSet d fuel s2 in
    (mkOp OpQuery [] [] [] sels p, s3)
  else
    let '(p, s2) := peekPos d s1 in
    let '(op, s3) := parseOperationType d s2 in
    let '(pk, s4) := peek d s3 in
    let '(n, s5) := if kind_eqb pk.(tkind) Name then let '(t, st) := next d s4 in (t.(tval), st) else ([], s4) in
    let '(vars, s6) := parseVariableDefinitions d fuel s5 in
    let '(dirs, s7) := parseDirectives d fuel false s6 in
    let '(sels, s8) := parseRequiredSelectionSet d fuel s7 in
    (mkOp op n vars dirs sels p, s8).

Definition parseFragmentDefinition (d : dev) (fuel : nat) (s : pst) : fragdef * pst :=
  let '(p, s1) := peekPos d s in
  let '(_, s2) := expectKeyword d (b "fragment") s1 in
  let '(n, s3) := parseFragmentName d s2 in
  let '(vars, s4) := if d F_Q4 then parseVariableDefinitions d fuel s3 else ([], s3) in
  let '(_, s5) := expectKeyword d (b "on") s4 in
  let '(tc, s6) := parseName d s5 in
  let '(dirs, s7) := parseDirectives d fuel false s6 in
  let '(sels, s8) := parseRequiredSelectionSet d fuel s7 in
  (mkFrag n vars tc dirs sels p, s8).

Fixpoint parseQueryDocument_loop (d : dev) (loopfuel fuel : nat) (s : pst)
         (ops : list opdef) (frags : list fragdef) (dp : option pos) : qdoc * pst :=
  match loopfuel with
  | O => stall (mkQDoc (rev ops) (rev frags) dp) s
  | S lf =>
    let '(tok, s1) := peek d s in
    if kind_eqb tok.(tkind) EOF then (mkQDoc (rev ops) (rev frags) dp, s1)
    else if has_err s1 then (mkQDoc (rev ops) (rev frags) dp, s1)
    else
      let '(p, s2) := peekPos d s1 in
      let dp' := Some p in
      let '(tk, s3) := peek d s2 in
      match tk.(tkind) with
      | Name =>
        if str_eqb tk.(tval) (b "query") || str_eqb tk.(tval) (b "mutation") || str_eqb tk.(tval) (b "subscription")
        then let '(o, s4) := parseOperationDefinition d fuel s3 in
             parseQueryDocument_loop d lf fuel s4 (o :: ops) frags dp'
        else if str_eqb tk.(tval) (b "fragment")
        then let '(f, s4) := parseFragmentDefinition d fuel s3 in
             parseQueryDocument_loop d lf fuel s4 ops (f :: frags) dp'
        else parseQueryDocument_loop d lf fuel (unexpectedError d s3) ops frags dp'
      | BraceL =>
        let '(o, s4) := parseOperationDefinition d fuel s3 in
        parseQueryDocument_loop d lf fuel s4 (o :: ops) frags dp'
      | _ => parseQueryDocument_loop d lf fuel (unexpectedError d s3) ops frags dp'
      end
  end.

Definition parseQueryDocument (d : dev) (fuel : nat) (s : pst) : qdoc * pst :=
  let '(doc, s1) := parseQueryDocument_loop d fuel fuel s [] [] None in
  match doc.(q_ops), doc.(q_frags) with
  | [], [] => if d F_Q3 || has_err s1 then (doc, s1) else (doc, unexpectedError d s1)
  | _, _ => (doc, s1)
  end.

Definition query_fuel (input : str) : nat := length input + 4.

Definition parseQueryWith (d : dev) (fuel : nat) (limit : N) (input : str) : pres qdoc * pst :=
  let '(doc, s) := parseQueryDocument d fuel (pst_init input limit 0) in
  match perr_ s with
  | None => (POk doc, s)
  | Some e => (PErr e, s)
  end.

Definition parseQuery (d : dev) (limit : N) (input : str) : pres qdoc :=
  fst (parseQueryWith d (query_fuel input) limit input).

Definition dump_parse_query (d : dev) (wp : bool) (limit : N) (input : str) : str :=
  match parseQuery d limit input with
  | POk doc => b "ok " ++ dump_qdoc wp doc
  | PErr e => dump_perr e
  end.
