(* ParseQuery.v — model of parser/query.go, one program per Go function. *)
From GQL.model Require Import Base Utf8 Lexer Ast Parser Prog.
Open Scope Z_scope.

Definition parseVariable : prog str := _ <- expect Dollar ;; parseName.

Fixpoint parseValueLiteral (fuel : nat) (isConst : bool) : prog value :=
  match fuel with
  | O => stalled value0
  | S f =>
    token <- Peek ;;
    ix <- SrcIx ;;
    let tp := pos_of_tok ix token in
    let lit (k : vkind) : prog value := _ <- Next ;; Ret (mkValue k token.(tval) [] tp) in
    match token.(tkind) with
    | BracketL =>
      p <- peekPos ;;
      vals <- many BracketL BracketR (v <- parseValueLiteral f isConst ;; Ret ([], None, v)) ;;
      Ret (mkValue VList [] vals p)
    | BraceL =>
      p <- peekPos ;;
      flds <- many BraceL BraceR
                (fp <- peekPos ;; n <- parseName ;; _ <- expect Colon ;;
                 v <- parseValueLiteral f isConst ;; Ret (n, Some fp, v)) ;;
      Ret (mkValue VObject [] flds p)
    | Dollar =>
      if isConst then unexpectedError ;;; Ret value0
      else n <- parseVariable ;; Ret (mkValue VVar n [] tp)
    | Int => lit VInt
    | Float => lit VFloat
    | String_ => lit VString
    | BlockString => lit VBlock
    | Name =>
      lit (if str_eqb token.(tval) (b "true") || str_eqb token.(tval) (b "false") then VBool
           else if str_eqb token.(tval) (b "null") then VNull else VEnum)
    | _ => unexpectedError ;;; Ret value0
    end
  end.

Fixpoint parseTypeReference (fuel : nat) : prog type_ :=
  match fuel with
  | O => stalled type0
  | S f =>
    isList <- skip BracketL ;;
    if isList then
      p <- peekPos ;; e <- parseTypeReference f ;; _ <- expect BracketR ;;
      nn <- skip Bang ;; Ret (ListT e nn p)
    else
      p <- peekPos ;; n <- parseName ;; nn <- skip Bang ;; Ret (NamedT n nn p)
  end.

Definition parseArgument (fuel : nat) (isConst : bool) : prog argument :=
  p <- peekPos ;; n <- parseName ;; _ <- expect Colon ;;
  v <- parseValueLiteral fuel isConst ;; Ret (mkArg n v p).

Definition parseArguments (fuel : nat) (isConst : bool) : prog (list argument) :=
  some ParenL ParenR (parseArgument fuel isConst).

Definition parseDirective (fuel : nat) (isConst : bool) : prog directive :=
  _ <- expect At ;; p <- peekPos ;; n <- parseName ;;
  args <- parseArguments fuel isConst ;; Ret (mkDir n args p).

(* for p.peek().Kind == lexer.At { if p.err != nil { break }; append(parseDirective) } *)
Definition parseDirectives (fuel : nat) (isConst : bool) : prog (list directive) :=
  Loop (tok <- Peek ;; e <- HasErr ;;
        if kind_eqb tok.(tkind) At && negb e then (x <- parseDirective fuel isConst ;; Ret (Some x))
        else Ret None).

Definition parseVariableDefinition (d : dev) (fuel : nat) : prog vardef :=
  p <- peekPos ;; v <- parseVariable ;; _ <- expect Colon ;;
  t <- parseTypeReference fuel ;;
  hasdef <- skip Equals ;;
  dv <- (if hasdef then x <- parseValueLiteral fuel true ;; Ret (Some x) else Ret None) ;;
  dirs <- parseDirectives fuel (negb (d F_Q1)) ;;
  Ret (mkVarDef v t dv dirs p).

Definition parseVariableDefinitions (d : dev) (fuel : nat) : prog (list vardef) :=
  some ParenL ParenR (parseVariableDefinition d fuel).

Definition tok_is_on (d : dev) (tok : token) : bool :=
  str_eqb tok.(tval) (b "on") && (d F_Q2 || kind_eqb tok.(tkind) Name).

Definition parseFragmentName : prog str :=
  tok <- Peek ;;
  if str_eqb tok.(tval) (b "on") then unexpectedError ;;; Ret [] else parseName.

Definition sel0 : selection := SSpread [] [] pos0.

Definition requiredSelectionSet (sel : prog selection) : prog (list selection) :=
  tok <- Peek ;;
  if negb (kind_eqb tok.(tkind) BraceL) then ErrorAt tok ;;; Ret []
  else some BraceL BraceR sel.

Fixpoint parseSelection (d : dev) (fuel : nat) : prog selection :=
  match fuel with
  | O => stalled sel0
  | S f =>
    tok <- Peek ;;
    if kind_eqb tok.(tkind) Spread then
      (* parseFragment *)
      _ <- expect Spread ;;
      pk <- Peek ;;
      if kind_eqb pk.(tkind) Name && negb (str_eqb pk.(tval) (b "on")) then
        p <- peekPos ;; n <- parseFragmentName ;; dirs <- parseDirectives f false ;;
        Ret (SSpread n dirs p)
      else
        p <- peekPos ;;
        pk2 <- Peek ;;
        tc <- (if tok_is_on d pk2 then _ <- Next ;; parseName else Ret []) ;;
        dirs <- parseDirectives f false ;;
        sels <- requiredSelectionSet (parseSelection d f) ;;
        Ret (SInline tc dirs sels p)
    else
      (* parseField *)
      p <- peekPos ;; al <- parseName ;;
      hasColon <- skip Colon ;;
      n <- (if hasColon then parseName else Ret al) ;;
      args <- parseArguments f false ;;
      dirs <- parseDirectives f false ;;
      pk <- Peek ;;
      sels <- (if kind_eqb pk.(tkind) BraceL then some BraceL BraceR (parseSelection d f) else Ret []) ;;
      Ret (SField al n args dirs sels p)
  end.

Definition parseRequiredSelectionSet (d : dev) (fuel : nat) : prog (list selection) :=
  requiredSelectionSet (parseSelection d fuel).

Definition parseOperationType (d : dev) : prog optype :=
  tok <- Next ;;
  let named := d F_S2 || kind_eqb tok.(tkind) Name in
  if named && str_eqb tok.(tval) (b "query") then Ret OpQuery
  else if named && str_eqb tok.(tval) (b "mutation") then Ret OpMutation
  else if named && str_eqb tok.(tval) (b "subscription") then Ret OpSubscription
  else ErrorAt tok ;;; Ret OpNone.

Definition parseOperationDefinition (d : dev) (fuel : nat) : prog opdef :=
  tok <- Peek ;;
  if kind_eqb tok.(tkind) BraceL then
    p <- peekPos ;; sels <- parseRequiredSelectionSet d fuel ;;
    Ret (mkOp OpQuery [] [] [] sels p)
  else
    p <- peekPos ;;
    op <- parseOperationType d ;;
    pk <- Peek ;;
    n <- (if kind_eqb pk.(tkind) Name then t <- Next ;; Ret t.(tval) else Ret []) ;;
    vars <- parseVariableDefinitions d fuel ;;
    dirs <- parseDirectives fuel false ;;
    sels <- parseRequiredSelectionSet d fuel ;;
    Ret (mkOp op n vars dirs sels p).

Definition parseFragmentDefinition (d : dev) (fuel : nat) : prog fragdef :=
  p <- peekPos ;;
  _ <- expectKeyword (b "fragment") ;;
  n <- parseFragmentName ;;
  vars <- (if d F_Q4 then parseVariableDefinitions d fuel else Ret []) ;;
  _ <- expectKeyword (b "on") ;;
  tc <- parseName ;;
  dirs <- parseDirectives fuel false ;;
  sels <- parseRequiredSelectionSet d fuel ;;
  Ret (mkFrag n vars tc dirs sels p).

Inductive qdef := QOp (o : opdef) | QFrag (f : fragdef) | QNone.

(* one iteration of the document loop: (position of the definition, definition) or stop *)
Definition parseQueryDocument_body (d : dev) (fuel : nat) : prog (option (pos * qdef)) :=
  tok <- Peek ;;
  if kind_eqb tok.(tkind) EOF then Ret None else
  e <- HasErr ;;
  if e then Ret None else
  p <- peekPos ;;
  tk <- Peek ;;
  match tk.(tkind) with
  | Name =>
    if str_eqb tk.(tval) (b "query") || str_eqb tk.(tval) (b "mutation") || str_eqb tk.(tval) (b "subscription")
    then o <- parseOperationDefinition d fuel ;; Ret (Some (p, QOp o))
    else if str_eqb tk.(tval) (b "fragment")
    then f <- parseFragmentDefinition d fuel ;; Ret (Some (p, QFrag f))
    else unexpectedError ;;; Ret (Some (p, QNone))
  | BraceL => o <- parseOperationDefinition d fuel ;; Ret (Some (p, QOp o))
  | _ => unexpectedError ;;; Ret (Some (p, QNone))
  end.

Fixpoint qdoc_ops (l : list (pos * qdef)) : list opdef :=
  match l with [] => [] | (_, QOp o) :: tl => o :: qdoc_ops tl | _ :: tl => qdoc_ops tl end.
Fixpoint qdoc_frags (l : list (pos * qdef)) : list fragdef :=
  match l with [] => [] | (_, QFrag f) :: tl => f :: qdoc_frags tl | _ :: tl => qdoc_frags tl end.

Definition parseQueryDocument (d : dev) (fuel : nat) : prog qdoc :=
  defs <- Loop (parseQueryDocument_body d fuel) ;;
  let doc := mkQDoc (qdoc_ops defs) (qdoc_frags defs)
                    (match rev defs with (p, _) :: _ => Some p | [] => None end) in
  match doc.(q_ops), doc.(q_frags) with
  | [], [] => e <- HasErr ;; if d F_Q3 || e then Ret doc else unexpectedError ;;; Ret doc
  | _, _ => Ret doc
  end.

Definition query_fuel (input : str) : nat := 2 * length input + 8.

Definition parseQueryWith (d : dev) (fuel : nat) (limit : N) (input : str) : pres qdoc * pst :=
  let '(doc, s) := run d (parseQueryDocument d fuel) fuel (pst_init input limit 0) in
  match perr_ s with
  | None => (POk doc, s)
  | Some e => (PErr e, s)
  end.

Definition parseQuery (d : dev) (limit : N) (input : str) : pres qdoc :=
  fst (parseQueryWith d (query_fuel input) limit input).

Definition dump_parse_query (d : dev) (wp : bool) (limit : N) (input : str) : str :=
  match parseQuery d limit input with
  | POk doc => b "ok " ++ dump_qdoc wp doc
  | PErr e => dump_perr e
  end.
