(* Json.v — model of the JSON encoding of executable documents (encoding/json applied to
   the ast structs) and of ast/decode.go.  JSON is modelled at the level of values; the
   text layer of encoding/json is outside the model (trusted base). *)
From GQL.model Require Import Base Lexer Ast.
Open Scope Z_scope.

Inductive jvalue :=
| JNull | JBool (x : bool) | JNum (z : Z) | JStr (s : str)
| JArr (l : list jvalue) | JObj (l : list (str * jvalue)).

Fixpoint jget (k : str) (l : list (str * jvalue)) : option jvalue :=
  match l with
  | [] => None
  | (k', v) :: tl => if str_eqb k k' then Some v else jget k tl
  end.

(* a nil slice encodes as null *)
Definition jlist {A} (f : A -> jvalue) (l : list A) : jvalue :=
  match l with [] => JNull | _ => JArr (map f l) end.

(* ---------------- encoding (struct field order of the Go types) ---------------- *)

Fixpoint enc_value (v : value) : jvalue :=
  match v with
  | mkValue k raw ch _ =>
    JObj [(b "Raw", JStr raw);
          (b "Children", match ch with
                         | [] => JNull
                         | _ => JArr (map (fun c => let '(n, _, cv) := c in
                                            JObj [(b "Name", JStr n); (b "Value", enc_value cv); (b "Comment", JNull)]) ch)
                         end);
          (b "Kind", JNum (Z.of_N (vkind_id k)));
          (b "Comment", JNull); (b "Definition", JNull); (b "VariableDefinition", JNull); (b "ExpectedType", JNull)]
  end.

Fixpoint enc_type (t : type_) : jvalue :=
  match t with
  | NamedT n nn _ => JObj [(b "NamedType", JStr n); (b "Elem", JNull); (b "NonNull", JBool nn)]
  | ListT e nn _ => JObj [(b "NamedType", JStr []); (b "Elem", enc_type e); (b "NonNull", JBool nn)]
  end.

Definition enc_arg (a : argument) : jvalue :=
  JObj [(b "Name", JStr a.(a_name)); (b "Value", enc_value a.(a_value)); (b "Comment", JNull)].
Definition enc_dir (x : directive) : jvalue :=
  JObj [(b "Name", JStr x.(d_name)); (b "Arguments", jlist enc_arg x.(d_args));
        (b "ParentDefinition", JNull); (b "Definition", JNull); (b "Location", JStr [])].
Definition enc_ovalue (o : option value) : jvalue := match o with Some v => enc_value v | None => JNull end.
Definition enc_vardef (v : vardef) : jvalue :=
  JObj [(b "Variable", JStr v.(vd_var)); (b "Type", enc_type v.(vd_type)); (b "DefaultValue", enc_ovalue v.(vd_default));
        (b "Directives", jlist enc_dir v.(vd_dirs)); (b "Comment", JNull); (b "Definition", JNull); (b "Used", JBool false)].

Fixpoint enc_sel (s : selection) : jvalue :=
  match s with
  | SField al n args dirs sels _ =>
    JObj [(b "Alias", JStr al); (b "Name", JStr n); (b "Arguments", jlist enc_arg args);
          (b "Directives", jlist enc_dir dirs);
          (b "SelectionSet", match sels with [] => JNull | _ => JArr (map enc_sel sels) end);
          (b "Comment", JNull); (b "Definition", JNull); (b "ObjectDefinition", JNull)]
  | SSpread n dirs _ =>
    JObj [(b "Name", JStr n); (b "Directives", jlist enc_dir dirs); (b "ObjectDefinition", JNull);
          (b "Definition", JNull); (b "Comment", JNull)]
  | SInline tc dirs sels _ =>
    JObj [(b "TypeCondition", JStr tc); (b "Directives", jlist enc_dir dirs);
          (b "SelectionSet", match sels with [] => JNull | _ => JArr (map enc_sel sels) end);
          (b "ObjectDefinition", JNull); (b "Comment", JNull)]
  end.
Definition enc_sels (l : list selection) : jvalue := match l with [] => JNull | _ => JArr (map enc_sel l) end.

Definition optype_str (o : optype) : str :=
  match o with OpQuery => b "query" | OpMutation => b "mutation" | OpSubscription => b "subscription" | OpNone => [] end.
Definition enc_op (o : opdef) : jvalue :=
  JObj [(b "Operation", JStr (optype_str o.(o_op))); (b "Name", JStr o.(o_name));
        (b "VariableDefinitions", jlist enc_vardef o.(o_vars)); (b "Directives", jlist enc_dir o.(o_dirs));
        (b "SelectionSet", enc_sels o.(o_sels)); (b "Comment", JNull)].
Definition enc_frag (f : fragdef) : jvalue :=
  JObj [(b "Name", JStr f.(f_name)); (b "VariableDefinition", jlist enc_vardef f.(f_vars));
        (b "TypeCondition", JStr f.(f_typecond)); (b "Directives", jlist enc_dir f.(f_dirs));
        (b "SelectionSet", enc_sels f.(f_sels)); (b "Definition", JNull); (b "Comment", JNull)].
Definition enc_qdoc (q : qdoc) : jvalue :=
  JObj [(b "Operations", jlist enc_op q.(q_ops)); (b "Fragments", jlist enc_frag q.(q_frags)); (b "Comment", JNull)].

(* ---------------- decoding ---------------- *)
(* None = the decoder returns an error.  Positions are not encoded: decoded nodes carry pos0. *)

Definition dstr (o : option jvalue) : option str :=
  match o with None | Some JNull => Some [] | Some (JStr s) => Some s | _ => None end.
Definition dbool (o : option jvalue) : option bool :=
  match o with None | Some JNull => Some false | Some (JBool x) => Some x | _ => None end.

Fixpoint mapM {A B} (f : A -> option B) (l : list A) : option (list B) :=
  match l with
  | [] => Some []
  | x :: tl => match f x, mapM f tl with Some y, Some ys => Some (y :: ys) | _, _ => None end
  end.
Definition dlist {B} (f : jvalue -> option B) (o : option jvalue) : option (list B) :=
  match o with None | Some JNull => Some [] | Some (JArr l) => mapM f l | _ => None end.

Definition vkind_of (z : Z) : option vkind :=
  match z with
  | 0 => Some VVar | 1 => Some VInt | 2 => Some VFloat | 3 => Some VString | 4 => Some VBlock
  | 5 => Some VBool | 6 => Some VNull | 7 => Some VEnum | 8 => Some VList | 9 => Some VObject | _ => None
  end.

Fixpoint jdepth (j : jvalue) : nat :=
  match j with
  | JArr l => S (fold_right (fun x acc => Nat.max (jdepth x) acc) O l)
  | JObj l => S (fold_right (fun x acc => Nat.max (jdepth (snd x)) acc) O l)
  | _ => 1%nat
  end.

Fixpoint dec_value_f (fuel : nat) (j : jvalue) : option value :=
  match fuel with O => None | S f =>
  match j with
  | JObj o =>
    match dstr (jget (b "Raw") o),
          (match jget (b "Kind") o with Some (JNum z) => vkind_of z | None => Some VVar | _ => None end),
          (match jget (b "Children") o with
           | None | Some JNull => Some []
           | Some (JArr l) =>
             mapM (fun c => match c with
                            | JObj co =>
                              match dstr (jget (b "Name") co),
                                    (match jget (b "Value") co with Some cv => dec_value_f f cv | None => None end) with
                              | Some n, Some v => Some (n, None, v)
                              | _, _ => None
                              end
                            | _ => None
                            end) l
           | _ => None
           end) with
    | Some raw, Some k, Some ch => Some (mkValue k raw ch pos0)
    | _, _, _ => None
    end
  | _ => None
  end end.
Definition dec_value (j : jvalue) : option value := dec_value_f (jdepth j) j.

Fixpoint dec_type_f (fuel : nat) (j : jvalue) : option type_ :=
  match fuel with O => None | S f =>
  match j with
  | JObj o =>
    match dstr (jget (b "NamedType") o), dbool (jget (b "NonNull") o) with
    | Some n, Some nn =>
      match jget (b "Elem") o with
      | None | Some JNull => Some (NamedT n nn pos0)
      | Some e => match dec_type_f f e with Some t => Some (ListT t nn pos0) | None => None end
      end
    | _, _ => None
    end
  | _ => None
  end end.
Definition dec_type (j : jvalue) : option type_ := dec_type_f (jdepth j) j.

Definition dec_arg (j : jvalue) : option argument :=
  match j with
  | JObj o =>
    match dstr (jget (b "Name") o), (match jget (b "Value") o with Some v => dec_value v | None => None end) with
    | Some n, Some v => Some (mkArg n v pos0)
    | _, _ => None
    end
  | _ => None
  end.
Definition dec_dir (j : jvalue) : option directive :=
  match j with
  | JObj o =>
    match dstr (jget (b "Name") o), dlist dec_arg (jget (b "Arguments") o) with
    | Some n, Some args => Some (mkDir n args pos0)
    | _, _ => None
    end
  | _ => None
  end.
Definition dec_vardef (j : jvalue) : option vardef :=
  match j with
  | JObj o =>
    match dstr (jget (b "Variable") o),
          (match jget (b "Type") o with Some t => dec_type t | None => None end),
          (match jget (b "DefaultValue") o with
           | None | Some JNull => Some None
           | Some v => match dec_value v with Some x => Some (Some x) | None => None end
           end),
          dlist dec_dir (jget (b "Directives") o) with
    | Some v, Some t, Some dv, Some dirs => Some (mkVarDef v t dv dirs pos0)
    | _, _, _, _ => None
    end
  | _ => None
  end.

Definition has_key (k : str) (o : list (str * jvalue)) : bool :=
  match jget k o with Some _ => true | None => false end.

(* UnmarshalSelectionSet: an item is decoded by the shape of its keys: a field carries
   "Alias", an inline fragment "TypeCondition", anything else is a fragment spread.
   Items that fail to decode are dropped, as in the code. *)
Fixpoint dec_sel (fuel : nat) (j : jvalue) : option selection :=
  match fuel with
  | O => None
  | S f =>
    let dsels (o : option jvalue) : option (list selection) :=
        match o with
        | None | Some JNull => Some []
        | Some (JArr l) => Some (flat_map (fun x => match dec_sel f x with Some s => [s] | None => [] end) l)
        | _ => None
        end in
    match j with
    | JNull => Some (SSpread [] [] pos0)  (* `null` decodes into an empty fragment spread *)
    | JObj o =>
      if has_key (b "Alias") o then
        match dstr (jget (b "Alias") o), dstr (jget (b "Name") o), dlist dec_arg (jget (b "Arguments") o),
              dlist dec_dir (jget (b "Directives") o), dsels (jget (b "SelectionSet") o) with
        | Some al, Some n, Some args, Some dirs, Some sels => Some (SField al n args dirs sels pos0)
        | _, _, _, _, _ => None
        end
      else if has_key (b "TypeCondition") o then
        match dstr (jget (b "TypeCondition") o), dlist dec_dir (jget (b "Directives") o),
              dsels (jget (b "SelectionSet") o) with
        | Some tc, Some dirs, Some sels => Some (SInline tc dirs sels pos0)
        | _, _, _ => None
        end
      else
        match dstr (jget (b "Name") o), dlist dec_dir (jget (b "Directives") o) with
        | Some n, Some dirs => Some (SSpread n dirs pos0)
        | _, _ => None
        end
    | _ => None
    end
  end.

Definition dec_sels (o : option jvalue) : option (list selection) :=
  match o with
  | None | Some JNull => Some []
  | Some (JArr l) => Some (flat_map (fun x => match dec_sel (jdepth x) x with Some s => [s] | None => [] end) l)
  | _ => None
  end.

Definition optype_of (s : str) : optype :=
  if str_eqb s (b "query") then OpQuery else if str_eqb s (b "mutation") then OpMutation
  else if str_eqb s (b "subscription") then OpSubscription else OpNone.

Definition dec_op (j : jvalue) : option opdef :=
  match j with
  | JObj o =>
    match dstr (jget (b "Operation") o), dstr (jget (b "Name") o), dlist dec_vardef (jget (b "VariableDefinitions") o),
          dlist dec_dir (jget (b "Directives") o), dec_sels (jget (b "SelectionSet") o) with
    | Some op, Some n, Some vars, Some dirs, Some sels => Some (mkOp (optype_of op) n vars dirs sels pos0)
    | _, _, _, _, _ => None
    end
  | _ => None
  end.
Definition dec_frag (j : jvalue) : option fragdef :=
  match j with
  | JObj o =>
    match dstr (jget (b "Name") o), dlist dec_vardef (jget (b "VariableDefinition") o), dstr (jget (b "TypeCondition") o),
          dlist dec_dir (jget (b "Directives") o), dec_sels (jget (b "SelectionSet") o) with
    | Some n, Some vars, Some tc, Some dirs, Some sels => Some (mkFrag n vars tc dirs sels pos0)
    | _, _, _, _, _ => None
    end
  | _ => None
  end.
Definition dec_qdoc (j : jvalue) : option qdoc :=
  match j with
  | JObj o =>
    match dlist dec_op (jget (b "Operations") o), dlist dec_frag (jget (b "Fragments") o) with
    | Some ops, Some frags => Some (mkQDoc ops frags None)
    | _, _ => None
    end
  | _ => None
  end.

(* ---------------- canonical dump of a JSON value (keys sorted) ---------------- *)
Fixpoint insert_kv (kv : str * str) (l : list (str * str)) : list (str * str) :=
  match l with
  | [] => [kv]
  | x :: tl => if str_ltb (fst kv) (fst x) then kv :: l else x :: insert_kv kv tl
  end.
Fixpoint dump_j (j : jvalue) : str :=
  match j with
  | JNull => b "n"
  | JBool true => b "t"
  | JBool false => b "f"
  | JNum z => Z_dec z
  | JStr s => 34%N :: hex s ++ [34%N]
  | JArr l => 91%N :: sepcat (map dump_j l) ++ [93%N]
  | JObj l =>
    let kvs := fold_right insert_kv []
                (filter (fun kv => negb (str_eqb (fst kv) (b "Comment")))
                        (map (fun kv => (fst kv, dump_j (snd kv))) l)) in
    123%N :: sepcat (map (fun kv => hex (fst kv) ++ 58%N :: snd kv) kvs) ++ [125%N]
  end.
