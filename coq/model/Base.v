(* Base.v — shared conventions of the executable model (no proofs here). *)
From Coq Require Export List NArith ZArith Bool Lia Ascii String.
Export ListNotations.
Open Scope N_scope.

Definition byte := N.
Definition str := list N.

(* string literal -> bytes *)
Definition b (s : String.string) : str := map N_of_ascii (String.list_ascii_of_string s).
(* String is exported for literals only; keep the list functions under their usual names *)
Notation length := List.length.
Notation concat := List.concat.

Fixpoint str_eqb (x y : str) : bool :=
  match x, y with
  | [], [] => true
  | a :: x', c :: y' => (a =? c) && str_eqb x' y'
  | _, _ => false
  end.

Fixpoint str_ltb (x y : str) : bool :=   (* Go string < : bytewise *)
  match x, y with
  | [], [] => false
  | [], _ :: _ => true
  | _ :: _, [] => false
  | a :: x', c :: y' => if a <? c then true else if c <? a then false else str_ltb x' y'
  end.

Definition in_range (lo hi c : N) : bool := (lo <=? c) && (c <=? hi).
Definition is_digit (c : N) : bool := in_range 48 57 c.
Definition is_lower (c : N) : bool := in_range 97 122 c.
Definition is_upper (c : N) : bool := in_range 65 90 c.
Definition is_letter (c : N) : bool := is_lower c || is_upper c.
Definition is_name_start (c : N) : bool := is_letter c || (c =? 95).
Definition is_name_cont (c : N) : bool := is_name_start c || is_digit c.

(* ---- deviation flags: places where the unchanged code departs from the
        specification; theorems are about [dev_none] (see DESIGN §4) ---- *)
Inductive flag :=
| F_L1 (* numbers: no look-ahead restriction *)
| F_L2 (* block string: first line takes part in common indent *)
| F_L3 (* block string: a run of >=4 quotes closes with its last three *)
| F_P1 (* String token column is one too large *)
| F_P2 (* BlockString token reports line/column of its end *)
| F_P3 (* ws: after CRLF the line start is taken before the LF *)
| F_Q1 | F_Q2 | F_Q3 | F_Q4
| F_S1 | F_S2 | F_S3 | F_S4 | F_S5 | F_S6 | F_S7
| F_F7 (* formatter: described arguments lose their comma even when descriptions are off *)
| F_C2 (* vars: a single value wrapped for a list type makes a typed slice, which cannot hold a further wrapped item *)
| F_A1 (* argmap: an oversize numeric literal for a custom scalar panics *)
| F_A2 (* argmap: the default of a top-level variable is not used when the variable is absent from the map *)
| F_F5 (* formatter: FormatSchema drops the schema description *)
| F_X6 | F_X7 | F_X8 | F_X9.

Definition flag_id (f : flag) : N :=
  match f with
  | F_L1 => 1 | F_L2 => 2 | F_L3 => 3 | F_P1 => 4 | F_P2 => 5 | F_P3 => 6
  | F_Q1 => 7 | F_Q2 => 8 | F_Q3 => 9 | F_Q4 => 10
  | F_S1 => 11 | F_S2 => 12 | F_S3 => 13 | F_S4 => 14 | F_S5 => 15 | F_S6 => 16 | F_S7 => 17
  | F_F7 => 18 | F_C2 => 19 | F_A1 => 20 | F_A2 => 21 | F_F5 => 22 | F_X6 => 23
  | F_X7 => 24 | F_X8 => 25 | F_X9 => 26
  end.

Definition dev := flag -> bool.
Definition dev_none : dev := fun _ => false.
Definition dev_of_ids (ids : list N) : dev :=
  fun f => existsb (N.eqb (flag_id f)) ids.

(* decimal rendering, used only by the dump functions of the correspondence check *)
Fixpoint pos_digits (fuel : nat) (n : N) (acc : str) : str :=
  match fuel with
  | O => acc
  | S f => let d := 48 + n mod 10 in
           if n <? 10 then d :: acc else pos_digits f (n / 10) (d :: acc)
  end.
Definition N_dec (n : N) : str := pos_digits (S (N.to_nat (N.size n))) n [].
Definition Z_dec (z : Z) : str :=
  match z with
  | Z0 => [48]
  | Zpos p => N_dec (Npos p)
  | Zneg p => 45 :: N_dec (Npos p)
  end.

Definition hexd (n : N) : N := if n <? 10 then 48 + n else 87 + n.
Fixpoint hex (s : str) : str :=
  match s with
  | [] => []
  | c :: tl => hexd (c / 16) :: hexd (c mod 16) :: hex tl
  end.

Definition nil_ {A} (l : list A) : bool := match l with [] => true | _ => false end.
Definition nil_str (s : str) : bool := nil_ s.
Definition remove_str (x : str) (l : list str) : list str := filter (fun y => negb (str_eqb x y)) l.
