(* Rules.v — models of validator/rules/*.go (all but OverlappingFieldsCanBeMerged, which is in
   Overlap.v): each rule is a state machine over the walker's events.  An error is modelled by
   its locations and the text of its "Did you mean" suffix; other message text is not modelled. *)
From GQL.model Require Import Base Utf8 Lexer Ast Schema Walk.
Open Scope N_scope.

Record rerr := mkRErr { re_locs : list (Z * Z); re_sugg : str }.
Definition at_ (p : pos) (sugg : str) : rerr := mkRErr [(p.(p_line), p.(p_col))] sugg.
Definition err_at (p : pos) : rerr := at_ p [].

Definition sel_pos (x : selection) : pos :=
  match x with SField _ _ _ _ _ p => p | SSpread _ _ p => p | SInline _ _ _ p => p end.

(* a rule instance: its name, its private state, its handler *)
Inductive rinst : Type :=
| RI (name : str) (St : Type) (st : St) (step : St -> cev -> St * list rerr).

Definition stateless (name : str) (h : cev -> list rerr) : rinst :=
  RI name unit tt (fun _ e => (tt, h e)).

Section Rules.
  Variable s : schema.
  Variable doc : qdoc.

  (* ---------- FieldsOnCorrectType ---------- *)
  Definition count_occ_str (x : str) (l : list str) : nat := length (filter (str_eqb x) l).

  (* insertion sort, stable: by usage count descending, then by name *)
  Fixpoint insert_by (le : str -> str -> bool) (x : str) (l : list str) : list str :=
    match l with
    | [] => [x]
    | y :: tl => if le y x then y :: insert_by le x tl else x :: l
    end.
  Definition sort_by (le : str -> str -> bool) (l : list str) : list str :=
    fold_left (fun acc x => insert_by le x acc) l [].

  Definition getSuggestedTypeNames (parent : definition) (name : str) : list str :=
    if negb (is_abstract parent) then [] else
    let pts := filter (fun pt => is_some (find_field name pt.(df_fields))) (possible_types s parent) in
    let objs := map df_name pts in
    (* interfaces of those types that also have the field, one entry per usage *)
    let uses := flat_map (fun pt => filter (fun i => match stype s i with
                                                      | Some idef => is_some (find_field name idef.(df_fields))
                                                      | None => false end) pt.(df_ifaces)) pts in
    let ifaces := fold_left (fun acc i => if mem_str i acc then acc else acc ++ [i]) uses [] in
    let cnt (t : str) : nat := count_occ_str t uses in
    (* sort.SliceStable: less(a,b) = count(b) - count(a) < 0, else a < b *)
    let le (a c : str) : bool :=   (* a may stay before c *)
        negb ((cnt a <? cnt c)%nat || ((cnt a =? cnt c)%nat && str_ltb c a)) in
    sort_by le (ifaces ++ objs).

  Definition getSuggestedFieldNames (parent : definition) (name : str) : list str :=
    match parent.(df_kind) with
    | KObject | KInterface => suggestionList name (map fd_name parent.(df_fields))
    | _ => []
    end.

  Definition r_FieldsOnCorrectType (nosugg : bool) : rinst :=
    stateless (if nosugg then b "FieldsOnCorrectTypeWithoutSuggestions" else b "FieldsOnCorrectType")
      (fun e => match snd e with
                | EvField (SField _ n _ _ _ p) (Some od) None =>
                  let sugg :=
                      if nosugg then [] else
                      match getSuggestedTypeNames od n with
                      | (_ :: _) as l => b " Did you mean to use an inline fragment on " ++ quotedOrList l ++ [63]
                      | [] => match getSuggestedFieldNames od n with
                              | (_ :: _) as l => b " Did you mean " ++ quotedOrList l ++ [63]
                              | [] => []
                              end
                      end in
                  [at_ p sugg]
                | _ => []
                end).

  (* ---------- FragmentsOnCompositeTypes ---------- *)
  Definition r_FragmentsOnCompositeTypes : rinst :=
    stateless (b "FragmentsOnCompositeTypes")
      (fun e => match snd e with
                | EvInline (SInline tc _ _ p) _ =>
                  match stype s tc with
                  | Some d => if is_composite d then [] else [err_at p]
                  | None => []
                  end
                | EvFragment f =>
                  match stype s f.(f_typecond) with
                  | Some d => if nil_str f.(f_typecond) || is_composite d then [] else [err_at f.(f_pos)]
                  | None => []
                  end
                | _ => []
                end).

  (* ---------- KnownArgumentNames ---------- *)
  Definition r_KnownArgumentNames (nosugg : bool) : rinst :=
    stateless (if nosugg then b "KnownArgumentNamesWithoutSuggestions" else b "KnownArgumentNames")
      (fun e => match snd e with
                | EvField (SField _ _ args _ _ p) (Some _) (Some fd) =>
                  flat_map (fun a => if is_some (find_argdef a.(a_name) fd.(fd_args)) then []
                                     else [at_ p (if nosugg then [] else
                                                    suggest_quoted (b "Did you mean") a.(a_name) (map ad_name fd.(fd_args)))]) args
                | EvDirective x _ =>
                  match sdir s x.(d_name) with
                  | Some dd =>
                    flat_map (fun a => if is_some (find_argdef a.(a_name) dd.(dd_args)) then []
                                       else [at_ x.(d_pos) (if nosugg then [] else
                                                      suggest_quoted (b "Did you mean") a.(a_name) (map ad_name dd.(dd_args)))]) x.(d_args)
                  | None => []
                  end
                | _ => []
                end).

  (* ---------- KnownDirectives ---------- *)
  Definition r_KnownDirectives : rinst :=
    RI (b "KnownDirectives") (list (str * Z * Z)) []
       (fun seen e =>
          match snd e with
          | EvDirective x loc =>
            match sdir s x.(d_name) with
            | None => (seen, [err_at x.(d_pos)])
            | Some dd =>
              if mem_str loc dd.(dd_locs) then (seen, []) else
              let key := (x.(d_name), x.(d_pos).(p_line), x.(d_pos).(p_col)) in
              if existsb (fun k => let '(n, l, c) := k in
                                   str_eqb n x.(d_name) && Z.eqb l x.(d_pos).(p_line) && Z.eqb c x.(d_pos).(p_col)) seen
              then (seen, []) else (key :: seen, [err_at x.(d_pos)])
            end
          | _ => (seen, [])
          end).

  (* ---------- KnownFragmentNames ---------- *)
  Definition r_KnownFragmentNames : rinst :=
    stateless (b "KnownFragmentNames")
      (fun e => match snd e with
                | EvSpread (SSpread n _ p) _ => if is_some (find_frag n doc.(q_frags)) then [] else [err_at p]
                | _ => []
                end).

  (* ---------- KnownRootType ---------- *)
  Definition r_KnownRootType : rinst :=
    stateless (b "KnownRootType")
      (fun e => match snd e with
                | EvOperation o _ => if is_some (root_def s o.(o_op)) then [] else [err_at o.(o_pos)]
                | _ => []
                end).

  (* ---------- KnownTypeNames ---------- *)
  Definition r_KnownTypeNames (nosugg : bool) : rinst :=
    stateless (if nosugg then b "KnownTypeNamesWithoutSuggestions" else b "KnownTypeNames")
      (fun e => match snd e with
                | EvVariable v => if is_some (stype s (type_name v.(vd_type))) then [] else [err_at v.(vd_pos)]
                | EvInline (SInline tc _ _ p) _ =>
                  if nil_str tc || is_some (stype s tc) then [] else [err_at p]
                | EvFragment f =>
                  if is_some (stype s f.(f_typecond)) then [] else
                  [at_ f.(f_pos) (if nosugg then [] else
                                    suggest_quoted (b "Did you mean") f.(f_typecond) (map fst s.(sc_types)))]
                | _ => []
                end).

  (* ---------- LoneAnonymousOperation ---------- *)
  Definition r_LoneAnonymousOperation : rinst :=
    stateless (b "LoneAnonymousOperation")
      (fun e => match snd e with
                | EvOperation o _ =>
                  if nil_str o.(o_name) && (1 <? length doc.(q_ops))%nat then [err_at o.(o_pos)] else []
                | _ => []
                end).

  (* ---------- MaxIntrospectionDepth ---------- *)
  Definition depth_field_name (n : str) : bool :=
    str_eqb n (b "fields") || str_eqb n (b "interfaces") || str_eqb n (b "possibleTypes") || str_eqb n (b "inputFields").

  (* cleared: fragment name -> greatest depth found within the limit; visited: fragments being expanded *)
  Definition mstate := (list str * list (str * nat))%type.

  Fixpoint checkDepth_sel (fuel : nat) (sel : selection) (depth : nat) (st : mstate) {struct fuel} : bool * mstate :=
    match fuel with
    | O => (false, st)
    | S f =>
      (fix go (sel : selection) (depth : nat) (st : mstate) {struct sel} : bool * mstate :=
         let set (l : list selection) (depth : nat) (st : mstate) : bool * mstate :=
             fold_left (fun (acc : bool * mstate) x => if fst acc then acc else go x depth (snd acc)) l (false, st) in
         match sel with
         | SField _ n _ _ sels _ =>
           let depth' := if depth_field_name n then S depth else depth in
           if depth_field_name n && (3 <=? depth')%nat then (true, st) else set sels depth' st
         | SInline _ _ sels _ => set sels depth st
         | SSpread n _ _ =>
           let '(visited, cleared) := st in
           if mem_str n visited then (false, st) else
           match find_frag n doc.(q_frags) with
           | None => (false, st)
           | Some fd =>
             match lookup n cleared with
             | Some dmax => if (depth <=? dmax)%nat then (false, st) else
                 let '(r, (v2, c2)) :=
                     fold_left (fun (acc : bool * mstate) x => if fst acc then acc else checkDepth_sel f x depth (snd acc))
                               fd.(f_sels) (false, (n :: visited, cleared)) in
                 let v3 := remove_str n v2 in
                 if r then (true, (v3, c2)) else (false, (v3, update n depth c2))
             | None =>
                 let '(r, (v2, c2)) :=
                     fold_left (fun (acc : bool * mstate) x => if fst acc then acc else checkDepth_sel f x depth (snd acc))
                               fd.(f_sels) (false, (n :: visited, cleared)) in
                 let v3 := remove_str n v2 in
                 if r then (true, (v3, c2)) else (false, (v3, update n depth c2))
             end
           end
         end) sel depth st
    end.

  Definition r_MaxIntrospectionDepth : rinst :=
    stateless (b "MaxIntrospectionDepth")
      (fun e => match snd e with
                | EvField (SField _ n _ _ sels p as fsel) _ _ =>
                  if str_eqb n (b "__schema") || str_eqb n (b "__type") then
                    if fst (checkDepth_sel (S (S (3 * length doc.(q_frags)))) fsel 0 ([], [])) then [err_at p] else []
                  else []
                | _ => []
                end).

  (* ---------- NoFragmentCycles ---------- *)
  (* getFragmentSpreads: explicit stack, last pushed set first *)
  Fixpoint spreads_fuel (fuel : nat) (stack : list (list selection)) (acc : list selection) : list selection :=
    match fuel with
    | O => acc
    | S f =>
      match rev stack with
      | [] => acc
      | top :: rest_rev =>
        let stack' := rev rest_rev in
        let '(acc', pushed) :=
            fold_left (fun a x => let '(ac, pu) := a in
                                  match x with
                                  | SSpread _ _ _ => (ac ++ [x], pu)
                                  | SField _ _ _ _ sels _ => (ac, pu ++ [sels])
                                  | SInline _ _ sels _ => (ac, pu ++ [sels])
                                  end) top (acc, []) in
        spreads_fuel f (stack' ++ pushed) acc'
      end
    end.
  Fixpoint sel_size (x : selection) : nat :=
    match x with
    | SField _ _ _ _ sels _ => S (fold_right (fun y a => sel_size y + a)%nat O sels)
    | SInline _ _ sels _ => S (fold_right (fun y a => sel_size y + a)%nat O sels)
    | SSpread _ _ _ => 1%nat
    end.
  Definition sels_size (l : list selection) : nat := fold_right (fun y a => sel_size y + a)%nat O l.
  Definition getFragmentSpreads (l : list selection) : list selection := spreads_fuel (S (S (sels_size l))) [l] [].

  (* state: visitedFrags.  recursion state: spreadPath (spread nodes), spreadPathIndexByName *)
  Fixpoint cycles_rec (fuel : nat) (f : fragdef) (visited : list str) (path : list selection)
           (index : list (str * nat)) : list str * list rerr :=
    match fuel with
    | O => (visited, [])
    | S fu =>
      if mem_str f.(f_name) visited then (visited, []) else
      let visited1 := f.(f_name) :: visited in
      let spreadNodes := getFragmentSpreads f.(f_sels) in
      match spreadNodes with
      | [] => (visited1, [])
      | _ =>
        let index1 := update f.(f_name) (length path) index in
        fold_left (fun acc node =>
                     let '(vis, errs) := acc in
                     match node with
                     | SSpread sn _ sp =>
                       match lookup sn index1 with
                       | None =>
                         match find_frag sn doc.(q_frags) with
                         | Some sf => let '(vis', e') := cycles_rec fu sf vis (path ++ [node]) index1 in (vis', errs ++ e')
                         | None => (vis, errs)
                         end
                       | Some _ => (vis, errs ++ [err_at sp])
                       end
                     | _ => acc
                     end) spreadNodes (visited1, [])
      end
    end.

  Definition r_NoFragmentCycles : rinst :=
    RI (b "NoFragmentCycles") (list str) []
       (fun visited e =>
          match snd e with
          | EvFragment f => cycles_rec (S (length doc.(q_frags))) f visited [] []
          | _ => (visited, [])
          end).

  (* ---------- NoUndefinedVariables ---------- *)
  Definition r_NoUndefinedVariables : rinst :=
    stateless (b "NoUndefinedVariables")
      (fun e => match e with
                | (Some o, _, EvValue (mkValue VVar raw _ p) _ _) =>
                  if is_some (find_vardef raw o.(o_vars)) then [] else [err_at p]
                | _ => []
                end).

  (* ---------- NoUnusedFragments ---------- *)
  Definition r_NoUnusedFragments : rinst :=
    RI (b "NoUnusedFragments") (bool * list str) (false, [])
       (fun st e =>
          let '(inFrag, used) := st in
          match snd e with
          | EvSpread (SSpread n _ _) _ => if inFrag then (st, []) else ((inFrag, n :: used), [])
          | EvFragment f => ((true, used), if mem_str f.(f_name) used then [] else [err_at f.(f_pos)])
          | _ => (st, [])
          end).

  (* ---------- NoUnusedVariables ---------- *)
  Definition r_NoUnusedVariables : rinst :=
    stateless (b "NoUnusedVariables")
      (fun e => match snd e with
                | EvOperation o used =>
                  flat_map (fun vu : vardef * bool => if snd vu then [] else [err_at (fst vu).(vd_pos)]) (combine o.(o_vars) used)
                | _ => []
                end).

  (* ---------- PossibleFragmentSpreads ---------- *)
  Definition spread_possible (parent : option definition) (fragType : str) : bool :=
    match parent with
    | None => true
    | Some pd =>
      let parents := match pd.(df_kind) with
                     | KObject => Some [pd]
                     | KInterface | KUnion => Some (possible_types s pd)
                     | _ => None
                     end in
      match parents with
      | None => true
      | Some pds =>
        match stype s fragType with
        | None => true
        | Some fd =>
          if negb (is_composite fd) then true else
          existsb (fun x => existsb (fun y => str_eqb x.(df_name) y.(df_name)) pds) (possible_types s fd)
        end
      end
    end.

  Definition r_PossibleFragmentSpreads : rinst :=
    stateless (b "PossibleFragmentSpreads")
      (fun e => match snd e with
                | EvInline (SInline tc _ _ p) od => if spread_possible od tc then [] else [err_at p]
                | EvSpread (SSpread n _ p) od =>
                  match find_frag n doc.(q_frags) with
                  | Some fd => if spread_possible od fd.(f_typecond) then [] else [err_at p]
                  | None => []
                  end
                | _ => []
                end).

  (* ---------- ProvidedRequiredArguments ---------- *)
  Definition missing_required (defs : list argdef) (args : list argument) (p : pos) : list rerr :=
    flat_map (fun ad => if type_nonnull ad.(ad_type) && negb (is_some ad.(ad_default))
                           && negb (is_some (find_arg ad.(ad_name) args)) then [err_at p] else []) defs.

  Definition r_ProvidedRequiredArguments : rinst :=
    stateless (b "ProvidedRequiredArguments")
      (fun e => match snd e with
                | EvField (SField _ _ args _ _ p) _ (Some fd) => missing_required fd.(fd_args) args p
                | EvDirective x _ =>
                  match sdir s x.(d_name) with
                  | Some dd => missing_required dd.(dd_args) x.(d_args) x.(d_pos)
                  | None => []
                  end
                | _ => []
                end).

  (* ---------- ScalarLeafs ---------- *)
  Definition r_ScalarLeafs : rinst :=
    stateless (b "ScalarLeafs")
      (fun e => match snd e with
                | EvField (SField _ n _ _ sels p) _ (Some fd) =>
                  match stype s (type_name fd.(fd_type)) with
                  | None => []
                  | Some ft =>
                    (if is_leaf ft && negb (nil_ sels) then [err_at p] else [])
                    ++ (if negb (is_leaf ft) && nil_ sels
                        then [at_ p (b " Did you mean " ++ 34 :: n ++ b " { ... }" ++ [34; 63])] else [])
                  end
                | _ => []
                end).

  (* ---------- SingleFieldSubscriptions ---------- *)
  (* retrieveTopFieldNames: (name, response key, position); `return` on an unknown fragment ends the
     current walk() invocation only *)
  Fixpoint top_fields (fuel : nat) (l : list selection) (inFrag : list str) (acc : list (str * str * pos))
    {struct fuel} : list (str * str * pos) * list str * bool :=
    match fuel with
    | O => (acc, inFrag, false)
    | S f =>
      fold_left (fun (st : list (str * str * pos) * list str * bool) sel =>
                   let '(ac, infr, stop) := st in
                   if stop then st else
                   (fix go (sel : selection) (ac : list (str * str * pos)) (infr : list str) {struct sel}
                      : list (str * str * pos) * list str * bool :=
                      match sel with
                      | SField al n _ _ _ p => (ac ++ [(n, (if nil_str al then n else al), p)], infr, false)
                      | SInline _ _ sels _ =>
                        (* a nested walk(): its early return does not stop the enclosing loop *)
                        let '(ac', infr', _) :=
                            fold_left (fun (st2 : list (str * str * pos) * list str * bool) x => let '(a2, i2, stop2) := st2 in
                                                    if stop2 then st2 else go x a2 i2) sels (ac, infr, false) in
                        (ac', infr', false)
                      | SSpread n _ _ =>
                        match find_frag n doc.(q_frags) with
                        | None => (ac, infr, true)
                        | Some fd =>
                          if mem_str fd.(f_name) infr then (ac, infr, false)
                          else let '(ac', infr', _) := top_fields f fd.(f_sels) (fd.(f_name) :: infr) ac in
                               (ac', infr', false)
                        end
                      end) sel ac infr) l (acc, inFrag, false)
    end.

  Fixpoint uniq_by_key (l : list (str * str * pos)) (seen : list str) : list (str * str * pos) :=
    match l with
    | [] => []
    | (n, k, p) :: tl => if mem_str k seen then uniq_by_key tl seen else (n, k, p) :: uniq_by_key tl (k :: seen)
    end.

  Definition r_SingleFieldSubscriptions : rinst :=
    stateless (b "SingleFieldSubscriptions")
      (fun e => match snd e with
                | EvOperation o _ =>
                  match s.(sc_subscription), o.(o_op) with
                  | Some _, OpSubscription =>
                    if is_some (root_def s OpSubscription) then
                      let '(fs, _, _) := top_fields (S (length doc.(q_frags))) o.(o_sels) [] [] in
                      let fields := uniq_by_key fs [] in
                      (match fields with _ :: (_, _, p2) :: _ => [err_at p2] | _ => [] end)
                      ++ flat_map (fun f => let '(n, _, p) := f in if starts_dunder n then [err_at p] else []) fields
                    else []
                  | _, _ => []
                  end
                | _ => []
                end).

  (* ---------- UniqueArgumentNames ---------- *)
  Fixpoint dup_second_args (l : list argument) (seen : list str) : list rerr :=
    match l with
    | [] => []
    | a :: tl => (if (count_occ_str a.(a_name) seen =? 1)%nat then [err_at a.(a_pos)] else [])
                 ++ dup_second_args tl (a.(a_name) :: seen)
    end.
  Definition r_UniqueArgumentNames : rinst :=
    stateless (b "UniqueArgumentNames")
      (fun e => match snd e with
                | EvField (SField _ _ args _ _ _) _ _ => dup_second_args args []
                | EvDirective x _ => dup_second_args x.(d_args) []
                | _ => []
                end).

  (* ---------- UniqueDirectivesPerLocation ---------- *)
  Fixpoint dup_dirs (l : list directive) (seen : list str) : list rerr :=
    match l with
    | [] => []
    | x :: tl =>
      let repeatable := match sdir s x.(d_name) with Some dd => dd.(dd_repeatable) | None => false end in
      (if negb repeatable && mem_str x.(d_name) seen then [err_at x.(d_pos)] else [])
      ++ dup_dirs tl (x.(d_name) :: seen)
    end.
  Definition r_UniqueDirectivesPerLocation : rinst :=
    stateless (b "UniqueDirectivesPerLocation")
      (fun e => match snd e with EvDirectiveList ds => dup_dirs ds [] | _ => [] end).

  (* ---------- UniqueFragmentNames / UniqueOperationNames ---------- *)
  Definition r_UniqueFragmentNames : rinst :=
    RI (b "UniqueFragmentNames") (list str) []
       (fun seen e => match snd e with
                      | EvFragment f => (f.(f_name) :: seen, if mem_str f.(f_name) seen then [err_at f.(f_pos)] else [])
                      | _ => (seen, [])
                      end).
  Definition r_UniqueOperationNames : rinst :=
    RI (b "UniqueOperationNames") (list str) []
       (fun seen e => match snd e with
                      | EvOperation o _ => (o.(o_name) :: seen, if mem_str o.(o_name) seen then [err_at o.(o_pos)] else [])
                      | _ => (seen, [])
                      end).

  (* ---------- UniqueInputFieldNames ---------- *)
  Fixpoint dup_children (l : list (str * option pos * value)) (seen : list str) : list rerr :=
    match l with
    | [] => []
    | (n, op, _) :: tl =>
      (if mem_str n seen then [err_at (match op with Some p => p | None => pos0 end)] else [])
      ++ dup_children tl (n :: seen)
    end.
  Definition r_UniqueInputFieldNames : rinst :=
    stateless (b "UniqueInputFieldNames")
      (fun e => match snd e with
                | EvValue (mkValue VObject _ ch _) _ _ => dup_children ch []
                | _ => []
                end).

  (* ---------- UniqueVariableNames ---------- *)
  Fixpoint dup_second_vars (l : list vardef) (seen : list str) : list rerr :=
    match l with
    | [] => []
    | v :: tl => (if (count_occ_str v.(vd_var) seen =? 1)%nat then [err_at v.(vd_pos)] else [])
                 ++ dup_second_vars tl (v.(vd_var) :: seen)
    end.
  Definition r_UniqueVariableNames : rinst :=
    stateless (b "UniqueVariableNames")
      (fun e => match snd e with EvOperation o _ => dup_second_vars o.(o_vars) [] | _ => [] end).

  (* ---------- VariablesAreInputTypes ---------- *)
  Definition r_VariablesAreInputTypes : rinst :=
    stateless (b "VariablesAreInputTypes")
      (fun e => match snd e with
                | EvOperation o _ =>
                  flat_map (fun v => match stype s (type_name v.(vd_type)) with
                                     | Some d => if kind_is_input d.(df_kind) then [] else [err_at v.(vd_pos)]
                                     | None => []
                                     end) o.(o_vars)
                | _ => []
                end).

  (* ---------- VariablesInAllowedPosition ---------- *)
  Definition set_nonnull (t : type_) (nn : bool) : type_ :=
    match t with NamedT n _ p => NamedT n nn p | ListT e _ p => ListT e nn p end.

  (* Type.IsCompatible *)
  Fixpoint isCompatible (t other : type_) : bool :=
    match t, other with
    | NamedT n nn _, NamedT n2 nn2 _ => str_eqb n n2 && (if nn2 then nn else true)
    | NamedT n nn _, ListT _ _ _ => false   (* NamedType differs: "" vs n (n is never empty) *)
    | ListT _ _ _, NamedT n2 _ _ => false
    | ListT e nn _, ListT e2 nn2 _ => isCompatible e e2 && (if nn2 then nn else true)
    end.

  Definition r_VariablesInAllowedPosition : rinst :=
    stateless (b "VariablesInAllowedPosition")
      (fun e => match e with
                | (Some o, _, EvValue (mkValue VVar raw _ p) (Some exp) _) =>
                  match find_vardef raw o.(o_vars) with
                  | None => []
                  | Some vd =>
                    let has_default := match vd.(vd_default) with
                                       | Some dv => negb (N.eqb (vkind_id (v_kind dv)) (vkind_id VNull))
                                       | None => false end in
                    let tmp := if has_default && type_nonnull exp then set_nonnull exp false else exp in
                    if isCompatible vd.(vd_type) tmp then [] else [err_at p]
                  end
                | _ => []
                end).
End Rules.
