(* Ops.v — composite operations exposed to the correspondence check (end to end from bytes). *)
From GQL.model Require Import Base Utf8 Lexer Ast Parser Prog ParseQuery ParseSchema Json Format.

Definition dump_json_roundtrip (d : dev) (input : str) : str :=
  match parseQuery d 0 input with
  | POk doc =>
    let j := enc_qdoc doc in
    dump_j j ++ 124%N ::
    match dec_qdoc j with
    | Some d2 => b "ok " ++ dump_qdoc false d2
    | None => b "decode-error"
    end
  | PErr e => dump_perr e
  end.

(* format . parse round trip of an executable document:
   formatted text | re-parsed tree | is formatting the re-parsed tree the same text *)
Definition dump_format_query (d : dev) (o : fopts) (input : str) : str :=
  match parseQuery d 0 input with
  | PErr e => dump_perr e
  | POk doc =>
    let t := FormatQueryDocument o doc in
    hex t ++ 124%N ::
    match parseQuery d 0 t with
    | PErr e => dump_perr e
    | POk d2 => b "ok " ++ dump_qdoc false d2 ++ 124%N ::
                (if str_eqb (FormatQueryDocument o d2) t then b "1" else b "0")
    end
  end.

Definition dump_format_schema (d : dev) (o : fopts) (builtin : bool) (input : str) : str :=
  match parseSchema d 0 0 builtin input with
  | PErr e => dump_perr e
  | POk doc =>
    let t := FormatSchemaDocument d o doc (fun _ => builtin) in
    hex t ++ 124%N ::
    match parseSchema d 0 0 builtin t with
    | PErr e => dump_perr e
    | POk d2 => b "ok " ++ dump_sdoc false d2 ++ 124%N ::
                (if str_eqb (FormatSchemaDocument d o d2 (fun _ => builtin)) t then b "1" else b "0")
    end
  end.

Definition mk_fopts (flags : str) (indent : str) : fopts :=
  mkFOpts indent (existsb (N.eqb 98) flags) (existsb (N.eqb 100) flags) (existsb (N.eqb 99) flags).
