(* Ops.v — composite operations exposed to the correspondence check (end to end from bytes). *)
From GQL.model Require Import Base Utf8 Lexer Ast Parser Prog ParseQuery ParseSchema Json Format Schema Walk Rules Rules2 Validate Link.
From GQL.gen Require Import Prelude.

Definition dump_json_roundtrip (d : dev) (input : str) : str :=
  match parseQuery d 0 input with
  | POk doc =>
    let j := enc_qdoc doc in
    dump_j j ++ 124%N ::
    match dec_qdoc j with
    | Some d2 => b "ok " ++ dump_qdoc false d2
    | None => b "decode-error"
    end
  | PErr e => dump_perr e
  end.

(* format . parse round trip of an executable document:
   formatted text | re-parsed tree | is formatting the re-parsed tree the same text *)
Definition dump_format_query (d : dev) (o : fopts) (input : str) : str :=
  match parseQuery d 0 input with
  | PErr e => dump_perr e
  | POk doc =>
    let t := FormatQueryDocument o doc in
    hex t ++ 124%N ::
    match parseQuery d 0 t with
    | PErr e => dump_perr e
    | POk d2 => b "ok " ++ dump_qdoc false d2 ++ 124%N ::
                (if str_eqb (FormatQueryDocument o d2) t then b "1" else b "0")
    end
  end.

Definition dump_format_schema (d : dev) (o : fopts) (builtin : bool) (input : str) : str :=
  match parseSchema d 0 0 builtin input with
  | PErr e => dump_perr e
  | POk doc =>
    let t := FormatSchemaDocument d o doc (fun _ => builtin) in
    hex t ++ 124%N ::
    match parseSchema d 0 0 builtin t with
    | PErr e => dump_perr e
    | POk d2 => b "ok " ++ dump_sdoc false d2 ++ 124%N ::
                (if str_eqb (FormatSchemaDocument d o d2 (fun _ => builtin)) t then b "1" else b "0")
    end
  end.

Definition mk_fopts (flags : str) (indent : str) : fopts :=
  mkFOpts indent (existsb (N.eqb 98) flags) (existsb (N.eqb 100) flags) (existsb (N.eqb 99) flags).

(* ---------------- schema loading (gqlparser.LoadSchema: the prelude comes first) ---------------- *)
Definition parse_prelude (d : dev) : pres sdoc := parseSchema d 0 0 true prelude_bytes.

(* srcs: user sources in order; pre: the parsed prelude *)
Definition load_schema_with (d : dev) (pre : pres sdoc) (srcs : list str) : option schema :=
  match pre with
  | PErr _ => None
  | POk pdoc =>
    match parseSchemas_from d 0 1 (map (fun s => (false, s)) srcs) (merge_sdoc sdoc0 pdoc) with
    | PErr _ => None
    | POk sd => validateSchemaDocument sd
    end
  end.
Definition load_schema (d : dev) (srcs : list str) : option schema := load_schema_with d (parse_prelude d) srcs.

Definition dump_load_with (d : dev) (pre : pres sdoc) (srcs : list str) : str :=
  match load_schema_with d pre srcs with
  | Some s => b "ok " ++ dump_schema s
  | None => b "err"
  end.

(* ---------------- validation ---------------- *)
Fixpoint split_on (sep : N) (l cur : str) : list str :=
  match l with
  | [] => [rev cur]
  | c :: tl => if (c =? sep)%N then rev cur :: split_on sep tl [] else split_on sep tl (c :: cur)
  end.

(* rules: "*" for the default set, else comma-separated rule names *)
Definition select_rules (s : schema) (doc : qdoc) (rules : str) : list rinst :=
  if str_eqb rules (b "*") then default_rules s doc
  else flat_map (fun n => match rule_by_name s doc n with Some r => [r] | None => [] end) (split_on 44 rules []).

Definition dump_validate_with (d : dev) (pre : pres sdoc) (rules query : str) (srcs : list str) : str :=
  match load_schema_with d pre srcs with
  | None => b "schema-err"
  | Some s =>
    match parseQuery d 0 query with
    | PErr e => b "query-" ++ dump_perr e
    | POk doc => b "ok " ++ dump_verrs (validate_with s doc (select_rules s doc rules))
    end
  end.

(* the annotated document after a validation with the default rules (C09) *)
Definition dump_link_with (d : dev) (pre : pres sdoc) (query : str) (srcs : list str) : str :=
  match load_schema_with d pre srcs with
  | None => b "schema-err"
  | Some s =>
    match parseQuery d 0 query with
    | PErr e => b "query-" ++ dump_perr e
    | POk doc => (if nil_ (validate s doc) then b "valid " else b "invalid ") ++ link_doc s doc
    end
  end.
