(* Ops.v — composite operations exposed to the correspondence check (end to end from bytes). *)
From GQL.model Require Import Base Utf8 Lexer Ast Parser Prog ParseQuery ParseSchema Json.

Definition dump_json_roundtrip (d : dev) (input : str) : str :=
  match parseQuery d 0 input with
  | POk doc =>
    let j := enc_qdoc doc in
    dump_j j ++ 124%N ::
    match dec_qdoc j with
    | Some d2 => b "ok " ++ dump_qdoc false d2
    | None => b "decode-error"
    end
  | PErr e => dump_perr e
  end.
