(* Ops.v — composite operations exposed to the correspondence check (end to end from bytes). *)
From GQL.model Require Import Base Utf8 Lexer Ast Parser Prog ParseQuery ParseSchema Json Format Schema Walk Rules Rules2 Validate Link Vars Path.
From GQL.gen Require Import Prelude.

Definition dump_json_roundtrip (d : dev) (input : str) : str :=
  match parseQuery d 0 input with
  | POk doc =>
    let j := enc_qdoc doc in
    dump_j j ++ 124%N ::
    match dec_qdoc j with
    | Some d2 => b "ok " ++ dump_qdoc false d2
    | None => b "decode-error"
    end
  | PErr e => dump_perr e
  end.

(* format . parse round trip of an executable document:
   formatted text | re-parsed tree | is formatting the re-parsed tree the same text *)
Definition dump_format_query (d : dev) (o : fopts) (input : str) : str :=
  match parseQuery d 0 input with
  | PErr e => dump_perr e
  | POk doc =>
    let t := FormatQueryDocument o doc in
    hex t ++ 124%N ::
    match parseQuery d 0 t with
    | PErr e => dump_perr e
    | POk d2 => b "ok " ++ dump_qdoc false d2 ++ 124%N ::
                (if str_eqb (FormatQueryDocument o d2) t then b "1" else b "0")
    end
  end.

Definition dump_format_schema (d : dev) (o : fopts) (builtin : bool) (input : str) : str :=
  match parseSchema d 0 0 builtin input with
  | PErr e => dump_perr e
  | POk doc =>
    let t := FormatSchemaDocument d o doc (fun _ => builtin) in
    hex t ++ 124%N ::
    match parseSchema d 0 0 builtin t with
    | PErr e => dump_perr e
    | POk d2 => b "ok " ++ dump_sdoc false d2 ++ 124%N ::
                (if str_eqb (FormatSchemaDocument d o d2 (fun _ => builtin)) t then b "1" else b "0")
    end
  end.

Definition mk_fopts (flags : str) (indent : str) : fopts :=
  mkFOpts indent (existsb (N.eqb 98) flags) (existsb (N.eqb 100) flags) (existsb (N.eqb 99) flags).

(* ---------------- schema loading (gqlparser.LoadSchema: the prelude comes first) ---------------- *)
Definition parse_prelude (d : dev) : pres sdoc := parseSchema d 0 0 true prelude_bytes.

(* srcs: user sources in order; pre: the parsed prelude *)
Definition load_schema_with (d : dev) (pre : pres sdoc) (srcs : list str) : option schema :=
  match pre with
  | PErr _ => None
  | POk pdoc =>
    match parseSchemas_from d 0 1 (map (fun s => (false, s)) srcs) (merge_sdoc sdoc0 pdoc) with
    | PErr _ => None
    | POk sd => validateSchemaDocument sd
    end
  end.
Definition load_schema (d : dev) (srcs : list str) : option schema := load_schema_with d (parse_prelude d) srcs.

Definition dump_load_with (d : dev) (pre : pres sdoc) (srcs : list str) : str :=
  match load_schema_with d pre srcs with
  | Some s => b "ok " ++ dump_schema s
  | None => b "err"
  end.

(* format . load round trip of a loaded schema (C13, second half):
   formatted text | the schema loaded from that text | is formatting the reloaded schema the same text.
   With built-in definitions printed the text is a complete type system and is loaded on its own
   as a built-in source; otherwise it is loaded after the prelude like any user source. *)
Definition reload_schema (d : dev) (o : fopts) (pre : pres sdoc) (t : str) : option schema :=
  if fo_builtin o then
    match parseSchema d 0 0 true t with
    | PErr _ => None
    | POk sd => validateSchemaDocument sd
    end
  else load_schema_with d pre [t].

Definition dump_format_loaded (d : dev) (o : fopts) (pre : pres sdoc) (srcs : list str) : str :=
  match load_schema_with d pre srcs with
  | None => b "schema-err"
  | Some s =>
    let t := FormatSchema d o s in
    hex t ++ 124%N ::
    match reload_schema d o pre t with
    | None => b "err"
    | Some s2 => b "ok " ++ dump_schema s2 ++ 124%N ::
                 (if str_eqb (FormatSchema d o s2) t then b "1" else b "0")
    end
  end.

(* ---------------- validation ---------------- *)
Fixpoint split_on (sep : N) (l cur : str) : list str :=
  match l with
  | [] => [rev cur]
  | c :: tl => if (c =? sep)%N then rev cur :: split_on sep tl [] else split_on sep tl (c :: cur)
  end.

(* rules: "*" for the default set, else comma-separated rule names *)
(* a leading "~": the document object has been validated before (its annotations are in place) *)
Definition select_rules (s : schema) (doc : qdoc) (rules0 : str) : list rinst :=
  let '(pre, rules) := match rules0 with 126%N :: r => (true, r) | _ => (false, rules0) end in
  if str_eqb rules (b "*") then default_rules pre s doc
  else flat_map (fun n => match rule_by_name pre s doc n with Some r => [r] | None => [] end) (split_on 44 rules []).

Definition dump_validate_with (d : dev) (pre : pres sdoc) (rules query : str) (srcs : list str) : str :=
  match load_schema_with d pre srcs with
  | None => b "schema-err"
  | Some s =>
    match parseQuery d 0 query with
    | PErr e => b "query-" ++ dump_perr e
    | POk doc => b "ok " ++ dump_verrs (validate_with s doc (select_rules s doc rules))
    end
  end.

(* the annotated document after a validation with the default rules (C09) *)
Definition dump_link_with (d : dev) (pre : pres sdoc) (query : str) (srcs : list str) : str :=
  match load_schema_with d pre srcs with
  | None => b "schema-err"
  | Some s =>
    match parseQuery d 0 query with
    | PErr e => b "query-" ++ dump_perr e
    | POk doc => (if nil_ (validate s doc) then b "valid " else b "invalid ") ++ link_doc s doc
    end
  end.

(* ---------------- variable coercion (C14) ---------------- *)
(* the float64 text of the json.Number literals the generator uses *)
Definition jsonnum_table (x : str) : option str :=
  if str_eqb x (b "1") then Some (b "1") else if str_eqb x (b "-7") then Some (b "-7")
  else if str_eqb x (b "2.5") then Some (b "2.5") else if str_eqb x (b "1e3") then Some (b "1000")
  else if str_eqb x (b "0") then Some (b "0") else if str_eqb x (b "9007199254740993") then Some (b "9007199254740992")
  else if str_eqb x (b "1e2") then Some (b "100") else if str_eqb x (b "99999999999999999999") then Some (b "100000000000000000000")
  else None.

Definition dump_vres (r : vres (list (str * gval))) : str :=
  match r with
  | VOk m => b "ok " ++ dump_gval (GMap m)
  | VErr => b "err"
  | VPanic => b "panic"
  end.

Definition dump_vars_with (d : dev) (pre : pres sdoc) (query vars : str) (srcs : list str) : str :=
  match load_schema_with d pre srcs with
  | None => b "schema-err"
  | Some s =>
    match parseQuery d 0 query with
    | PErr e => b "query-" ++ dump_perr e
    | POk doc =>
      if negb (nil_ (validate s doc)) then b "invalid-doc" else
      match doc.(q_ops), parse_gval (S (length vars)) vars with
      | o :: _, Some (GMap m, _) => dump_vres (variableValues d s jsonnum_table o.(o_vars) m [])
      | _, _ => b "bad-request"
      end
    end
  end.

(* ---------------- argument maps of every field and directive (C15) ---------------- *)
Section AM.
  Variable d : dev.
  Variable s : schema.
  Variable doc : qdoc.
  Variable vds : list vardef.
  Variable vars : list (str * gval).

  Definition am_res (r : vres (list (str * gval))) : str :=
    match r with VOk m => dump_gval (GMap m) | VErr => b "err" | VPanic => b "panic" end.

  Definition am_dirs (ds : list directive) : str :=
    concat (map (fun x => match sdir s x.(d_name) with
                          | Some dd => b "D" ++ hex x.(d_name) ++ 61%N :: am_res (arg2map d vds vars dd.(dd_args) x.(d_args)) ++ [59%N]
                          | None => []
                          end) ds).

  Fixpoint am_sel (parent : option definition) (sel : selection) : str :=
    match sel with
    | SField al n args dirs sels p =>
      let fd := field_def_of parent n in
      let next := match fd with Some x => stype s (type_name x.(fd_type)) | None => None end in
      (match fd with
       | Some x => b "F" ++ hex n ++ 61%N :: am_res (arg2map d vds vars x.(fd_args) args) ++ [59%N]
       | None => []
       end) ++ am_dirs dirs ++ concat (map (am_sel next) sels)
    | SInline tc dirs sels p =>
      let next := match tc with [] => parent | _ => stype s tc end in
      am_dirs dirs ++ concat (map (am_sel next) sels)
    | SSpread n dirs p => am_dirs dirs
    end.

  Definition am_doc : str :=
    concat (map (fun o => am_dirs o.(o_dirs) ++ concat (map (fun v => am_dirs v.(vd_dirs)) o.(o_vars))
                          ++ concat (map (am_sel (root_def s o.(o_op))) o.(o_sels))) doc.(q_ops))
    ++ concat (map (fun f => am_dirs f.(f_dirs) ++ concat (map (am_sel (stype s f.(f_typecond))) f.(f_sels))) doc.(q_frags)).
End AM.

(* mode "raw": the map as supplied; "coerced": the map VariableValues returned *)
Definition dump_argmap_with (d : dev) (pre : pres sdoc) (mode query vars : str) (srcs : list str) : str :=
  match load_schema_with d pre srcs with
  | None => b "schema-err"
  | Some s =>
    match parseQuery d 0 query with
    | PErr e => b "query-" ++ dump_perr e
    | POk doc =>
      if negb (nil_ (validate s doc)) then b "invalid-doc" else
      match doc.(q_ops), parse_gval (S (length vars)) vars with
      | o :: _, Some (GMap m, _) =>
        match variableValues d s jsonnum_table o.(o_vars) m [] with
        | VOk cm => b "ok " ++ am_doc d s doc o.(o_vars) (if str_eqb mode (b "raw") then m else cm)
        | VErr => b "coercion-err"
        | VPanic => b "coercion-panic"
        end
      | _, _ => b "bad-request"
      end
    end
  end.

(* ---------------- error paths (C20): text form n<hex>,i<dec>,... ---------------- *)
Definition parse_path (l : str) : list pelem :=
  flat_map (fun t => match t with
                     | 110%N :: r => [PName (unhex r)]
                     | 105%N :: r => [PIndex (match r with 45%N :: t2 => (- digits_val t2 0)%Z | _ => digits_val r 0 end)]
                     | _ => []
                     end) (match l with [] => [] | _ => split_on 44 l [] end).

Definition dump_path_roundtrip (l : str) : str :=
  let p := parse_path l in
  let j := marshal_path p in
  dump_j j ++ 124%N :: match unmarshal_path j with Some q => b "ok " ++ dump_path q | None => b "err" end.
