(* Rules2.v — ValuesOfCorrectType (validator/rules/values_of_correct_type.go) with the part of
   ast.Value.Value it depends on, and OverlappingFieldsCanBeMerged. *)
From GQL.model Require Import Base Utf8 Lexer Ast Schema Walk Rules.
Open Scope N_scope.

(* ---------------- literal conversion errors of Value.Value(nil) ---------------- *)

Fixpoint digits_val (l : str) (acc : Z) : Z :=
  match l with
  | c :: tl => if is_digit c then digits_val tl (acc * 10 + Z.of_N (c - 48))%Z else acc
  | [] => acc
  end.
Fixpoint count_digits (l : str) : nat :=
  match l with c :: tl => if is_digit c then S (count_digits tl) else O | [] => O end.
Fixpoint drop_digits (l : str) : str :=
  match l with c :: tl => if is_digit c then drop_digits tl else l | [] => [] end.

(* strconv.ParseInt(raw, 10, bits) fails (range) *)
Definition int_out_of_range (raw : str) (bits : Z) : bool :=
  let '(neg, ds) := match raw with 45 :: tl => (true, tl) | _ => (false, raw) end in
  let v := digits_val ds 0 in
  if neg then (Z.pow 2 (bits - 1) <? v)%Z else (Z.pow 2 (bits - 1) - 1 <? v)%Z.

(* strconv.ParseFloat(raw, 64) fails: the literal rounds to infinity, i.e. is >= 2^1024 - 2^970 *)
Definition float_overflow (raw : str) : bool :=
  let ds0 := match raw with 45 :: tl => tl | _ => raw end in
  let ip := digits_val ds0 0 in
  let r1 := drop_digits ds0 in
  let '(mant, fracn, r2) :=
      match r1 with
      | 46 :: tl => (digits_val tl ip, count_digits tl, drop_digits tl)
      | _ => (ip, O, r1)
      end in
  let e10 : Z :=
      match r2 with
      | c :: tl =>
        if (c =? 101) || (c =? 69) then
          match tl with
          | 45 :: t2 => (- digits_val t2 0)%Z
          | 43 :: t2 => digits_val t2 0
          | _ => digits_val tl 0
          end
        else 0%Z
      | [] => 0%Z
      end in
  let e := (e10 - Z.of_nat fracn)%Z in
  let limit := (Z.pow 2 1024 - Z.pow 2 970)%Z in
  if (mant =? 0)%Z then false
  else if (400 <? e)%Z then true
  else if (e <? -400)%Z then false   (* mant has far fewer than 400 + 309 digits in any generated input *)
  else if (0 <=? e)%Z then (limit <=? mant * Z.pow 10 e)%Z
  else (limit * Z.pow 10 (- e) <=? mant)%Z.

(* does Value.Value(nil) return an error for this literal (first failing leaf, depth first) *)
Fixpoint value_conv_error (v : value) : bool :=
  match v with
  | mkValue k raw ch _ =>
    match k with
    | VInt => int_out_of_range raw 64
    | VFloat => float_overflow raw
    | VList | VObject => existsb (fun c => let '(_, _, cv) := c in value_conv_error cv) ch
    | _ => false
    end
  end.

(* Value.Value(nil) of a value as the walker has annotated it: a variable use stands for the default
   value of its definition (in the operation [ann] whose definitions annotate variable uses at this
   point), so an unrepresentable default is an error at every use, also inside lists and objects *)
Fixpoint use_conv_error (ann : option opdef) (v : value) : bool :=
  match v with
  | mkValue k raw ch _ =>
    match k with
    | VInt => int_out_of_range raw 64
    | VFloat => float_overflow raw
    | VVar =>
      match ann with
      | Some o => match find_vardef raw o.(o_vars) with
                  | Some vd => match vd.(vd_default) with Some dv => value_conv_error dv | None => false end
                  | None => false
                  end
      | None => false
      end
    | VList | VObject => existsb (fun c => let '(_, _, cv) := c in use_conv_error ann cv) ch
    | _ => false
    end
  end.

Section Rules2.
  Variable s : schema.
  Variable doc : qdoc.

  Definition builtin_scalar_name (n : str) : bool :=
    mem_str n [b "Int"; b "Float"; b "String"; b "Boolean"; b "ID"].
  Definition one_of (d : definition) (l : list str) : bool := mem_str d.(df_name) l.

  (* ann: the operation whose variable definitions annotate variable uses at this point *)
  Definition values_of_correct_type (nosugg : bool) (ann : option opdef) (v : value) (exp : type_) (def : definition)
    : list rerr :=
    let '(mkValue k raw ch p) := v in
    let e := err_at p in
    let errs1 := if (vkind_id k =? vkind_id VNull) && type_nonnull exp then [e] else [] in
    if dkind_eqb def.(df_kind) KScalar && negb (builtin_scalar_name def.(df_name)) then errs1 else
    let enums := if dkind_eqb def.(df_kind) KEnum then map ev_name def.(df_enums) else [] in
    let conv_err := use_conv_error ann v in
    let errs2 := if conv_err then [e] else [] in
    errs1 ++ errs2 ++
    match k with
    | VNull => []
    | VVar => []
    | VList => match exp with ListT _ _ _ => [] | NamedT _ _ _ => [e] end
    | VInt =>
      if negb (one_of def [b "Int"; b "Float"; b "ID"]) then [e]
      else if one_of def [b "Int"] && negb conv_err && int_out_of_range raw 32 then [e] else []
    | VFloat => if one_of def [b "Float"] then [] else [e]
    | VString | VBlock =>
      if dkind_eqb def.(df_kind) KEnum then
        [at_ p (if nosugg then [] else suggest_quoted (b "Did you mean the enum value") raw enums)]
      else if one_of def [b "String"; b "ID"] then [] else [e]
    | VEnum =>
      if negb (dkind_eqb def.(df_kind) KEnum) then
        [at_ p (if nosugg then [] else suggest_unquoted (b "Did you mean the enum value") raw enums)]
      else if existsb (fun x => str_eqb x raw) enums then []
      else [at_ p (if nosugg then [] else suggest_quoted (b "Did you mean the enum value") raw enums)]
    | VBool => if one_of def [b "Boolean"] then [] else [e]
    | VObject =>
      if negb (dkind_eqb def.(df_kind) KInputObject) then [e] else
      let child (n : str) := find (fun c => let '(cn, _, _) := c in str_eqb cn n) ch in
      flat_map (fun f => if type_nonnull f.(fd_type) && negb (is_some (child f.(fd_name)))
                            && negb (is_some f.(fd_default)) then [e] else []) def.(df_fields)
      ++ flat_map (fun dir =>
           if str_eqb dir.(d_name) (b "oneOf") then
             match ch with
             | [(_, _, cv)] =>
               let '(mkValue ck craw _ cp) := cv in
               if vkind_id ck =? vkind_id VNull then [err_at cp]
               else if vkind_id ck =? vkind_id VVar then
                 match ann with
                 | Some o => match find_vardef craw o.(o_vars) with
                             | Some vd => if type_nonnull vd.(vd_type) then [] else [err_at cp]
                             | None => []
                             end
                 | None => []
                 end
               else []
             | _ => [e]
             end
           else []) def.(df_dirs)
      ++ flat_map (fun c => let '(cn, cpos, _) := c in
                     if is_some (find_field cn def.(df_fields)) then []
                     else [at_ (match cpos with Some q => q | None => pos0 end)
                               (if nosugg then [] else suggest_quoted (b "Did you mean") cn (map fd_name def.(df_fields)))]) ch
    end.

  (* ---------------- OverlappingFieldsCanBeMerged ---------------- *)

  (* a field together with the annotations the walker put on it *)
  Record afield := mkAField { af_sel : selection; af_obj : option definition; af_def : option fielddef }.
  Definition af_name (f : afield) : str := match f.(af_sel) with SField _ n _ _ _ _ => n | _ => [] end.
  Definition af_alias (f : afield) : str := match f.(af_sel) with SField al _ _ _ _ _ => al | _ => [] end.
  Definition af_args (f : afield) : list argument := match f.(af_sel) with SField _ _ a _ _ _ => a | _ => [] end.
  Definition af_sels (f : afield) : list selection := match f.(af_sel) with SField _ _ _ _ sl _ => sl | _ => [] end.
  Definition af_pos (f : afield) : pos := sel_pos f.(af_sel).
  Definition af_next (f : afield) : option definition :=
    match f.(af_def) with Some fd => stype s (type_name fd.(fd_type)) | None => None end.
  Definition response_name (f : afield) : str := if nil_str (af_alias f) then af_name f else af_alias f.

  (* a spread together with the parent type its fragment body is walked under *)
  Definition aspread := (str * pos)%type.

  (* sequentialFieldsMap: response names in first-seen order, each with its fields *)
  Definition fmap := list (str * list afield).
  Definition fmap_push (m : fmap) (k : str) (f : afield) : fmap :=
    match lookup k m with
    | Some l => update k (l ++ [f]) m
    | None => m ++ [(k, [f])]
    end.

  (* getFieldsAndFragmentNames under parent type [parent] *)
  Fixpoint collect (parent : option definition) (sel : selection) (acc : fmap * list aspread) : fmap * list aspread :=
    match sel with
    | SField al n _ _ _ p =>
      let f := mkAField sel parent (field_def_of parent n) in
      (fmap_push (fst acc) (response_name f) f, snd acc)
    | SInline tc _ sels _ =>
      let next := match tc with [] => parent | _ => stype s tc end in
      fold_left (fun a x => collect next x a) sels acc
    | SSpread n _ p => (fst acc, snd acc ++ [(n, p)])
    end.
  Definition collect_set (parent : option definition) (l : list selection) : fmap * list aspread :=
    fold_left (fun a x => collect parent x a) l ([], []).

  Definition frag_body (n : str) : option (option definition * list selection) :=
    match find_frag n doc.(q_frags) with
    | Some fd => Some (stype s fd.(f_typecond), fd.(f_sels))
    | None => None
    end.

  (* reflect.DeepEqual of two field maps: same response names, same field nodes *)
  Definition fmap_same (a c : fmap) : bool :=
    str_eqb (concat (map (fun kv => fst kv ++ 0 :: concat (map (fun f => dump_pos true (af_pos f)) (snd kv))) a))
            (concat (map (fun kv => fst kv ++ 0 :: concat (map (fun f => dump_pos true (af_pos f)) (snd kv))) c)).

  (* sameValue / sameArguments *)
  Fixpoint sameValue (v1 v2 : value) : bool :=
    match v1, v2 with
    | mkValue k1 r1 c1 _, mkValue k2 r2 c2 _ =>
      (vkind_id k1 =? vkind_id k2) &&
      match k1 with
      | VList =>
        (length c1 =? length c2)%nat &&
        (fix go (l1 l2 : list (str * option pos * value)) : bool :=
           match l1, l2 with
           | (_, _, x) :: t1, (_, _, y) :: t2 => sameValue x y && go t1 t2
           | _, _ => true
           end) c1 c2
      | VObject =>
        (length c1 =? length c2)%nat &&
        forallb (fun c => let '(n, _, x) := c in
                   match find (fun d => let '(n2, _, _) := d in str_eqb n2 n) c2 with
                   | Some (_, _, y) => sameValue x y
                   | None => false
                   end) c1
      | _ => str_eqb r1 r2
      end
    end.
  Definition sameArguments (a1 a2 : list argument) : bool :=
    (length a1 =? length a2)%nat &&
    forallb (fun x => existsb (fun y => str_eqb x.(a_name) y.(a_name) && sameValue x.(a_value) y.(a_value)) a2) a1.

  Fixpoint doTypesConflict (t1 t2 : type_) : bool :=
    if negb (Bool.eqb (type_nonnull t1) (type_nonnull t2)) then true else
    match t1, t2 with
    | ListT e1 _ _, ListT e2 _ _ => doTypesConflict e1 e2
    | ListT _ _ _, NamedT _ _ _ => true
    | NamedT _ _ _, ListT _ _ _ => true
    | NamedT n1 _ _, NamedT n2 _ _ =>
      match stype s n1, stype s n2 with
      | Some d1, Some d2 => if is_leaf d1 || is_leaf d2 then negb (str_eqb d1.(df_name) d2.(df_name)) else false
      | _, _ => false
      end
    end.

  (* a conflict: only its position enters the modelled error *)
  Definition conflict := pos.

  (* manager state: comparedFragmentPairs (persists over the whole validation); os_compared is the
     comparedFragments set of the current traversal (a local of findConflictsWithinSelectionSet /
     findConflictsBetweenSubSelectionSets, saved and restored around nested sub-selection comparisons) *)
  Record ostate := mkOState_ { os_pairs : list (str * str * bool); os_compared : list str; os_stall : bool;
                              os_inprog : list (Z * Z * bool) (* pairs of fields being compared, by start offset *);
                              os_annot : list Z (* fields and spreads the walker has reached so far, by start offset *) }.
  Definition mkOState (p : list (str * str * bool)) (c : list str) : ostate := mkOState_ p c false [] [].
  Definition set_pairs (st : ostate) (x : list (str * str * bool)) := mkOState_ x st.(os_compared) st.(os_stall) st.(os_inprog) st.(os_annot).
  Definition set_compared (st : ostate) (x : list str) := mkOState_ st.(os_pairs) x st.(os_stall) st.(os_inprog) st.(os_annot).
  Definition set_stall (st : ostate) (x : bool) := mkOState_ st.(os_pairs) st.(os_compared) x st.(os_inprog) st.(os_annot).
  Definition set_inprog (st : ostate) (x : list (Z * Z * bool)) := mkOState_ st.(os_pairs) st.(os_compared) st.(os_stall) x st.(os_annot).
  Definition set_annot (st : ostate) (x : list Z) := mkOState_ st.(os_pairs) st.(os_compared) st.(os_stall) st.(os_inprog) x.
  Definition stalled_st (st : ostate) : ostate := set_stall st true.

  (* pre: the document was validated before, every field and spread already carries the walker's
     annotations (ObjectDefinition, Definition); otherwise they appear as the walk reaches them *)
  Variable pre : bool.
  Definition annotated (st : ostate) (p : pos) : bool := pre || existsb (Z.eqb p.(p_start)) st.(os_annot).
  Definition obj_of (st : ostate) (f : afield) : option definition := if annotated st (af_pos f) then f.(af_obj) else None.
  Definition body_of (st : ostate) (sp : aspread) : option (option definition * list selection) :=
    if annotated st (snd sp) then frag_body (fst sp) else None.

  Definition pairs_has (ps : list (str * str * bool)) (a c : str) (excl : bool) : bool :=
    match find (fun x => let '(x1, x2, _) := x in str_eqb x1 a && str_eqb x2 c) ps with
    | Some (_, _, r) => if excl then true else negb r
    | None => false
    end.
  Definition pairs_set (ps : list (str * str * bool)) (a c : str) (excl : bool) : list (str * str * bool) :=
    (a, c, excl) :: filter (fun x => let '(x1, x2, _) := x in negb (str_eqb x1 a && str_eqb x2 c)) ps.
  Definition pairs_add (ps : list (str * str * bool)) (a c : str) (excl : bool) : list (str * str * bool) :=
    pairs_set (pairs_set ps a c excl) c a excl.

  (* the mutually recursive comparison functions, on one fuel *)
  Fixpoint findConflict (fuel : nat) (excl0 : bool) (fa fb : afield) (st : ostate) {struct fuel}
    : option conflict * ostate :=
    match fuel with
    | O => (None, stalled_st st)
    | S f =>
      match obj_of st fa, obj_of st fb with
      | Some oa, Some ob =>
        let excl := if excl0 then true else
                      negb (str_eqb oa.(df_name) ob.(df_name)) && dkind_eqb oa.(df_kind) KObject
                      && dkind_eqb ob.(df_kind) KObject && is_some fa.(af_def) && is_some fb.(af_def) in
        if negb excl && negb (str_eqb (af_name fa) (af_name fb)) then (Some (af_pos fb), st)
        else if negb excl && negb (sameArguments (af_args fa) (af_args fb)) then (Some (af_pos fb), st)
        else if match fa.(af_def), fb.(af_def) with
                | Some da, Some db => doTypesConflict da.(fd_type) db.(fd_type)
                | _, _ => false end then (Some (af_pos fb), st)
        else
          (* through a cycle of fragments the sub-fields can lead back to this very pair: the
             comparison in progress covers it *)
          let key := ((af_pos fa).(p_start), (af_pos fb).(p_start), excl) in
          let same (k : Z * Z * bool) := let '(x, y, e) := k in Z.eqb x (af_pos fa).(p_start) && Z.eqb y (af_pos fb).(p_start) && Bool.eqb e excl in
          if existsb same st.(os_inprog) then (None, st) else
          let st0 := set_inprog st (key :: st.(os_inprog)) in
          let '(cs, st1) := betweenSubSelectionSets f excl (af_next fa) (af_sels fa) (af_next fb) (af_sels fb) st0 in
          let st' := set_inprog st1 (filter (fun k => negb (same k)) st1.(os_inprog)) in
          match cs with [] => (None, st') | _ => (Some (af_pos fb), st') end
      | _, _ => (None, st)
      end
    end
  with collectBetween (fuel : nat) (excl : bool) (ma mb : fmap) (st : ostate) {struct fuel} : list conflict * ostate :=
    match fuel with
    | O => ([], stalled_st st)
    | S f =>
      fold_left (fun acc kv =>
                   match lookup (fst kv) mb with
                   | None => acc
                   | Some fbs =>
                     fold_left (fun acc2 fa =>
                                  fold_left (fun acc3 fb =>
                                               let '(c, st3) := findConflict f excl fa fb (snd acc3) in
                                               (fst acc3 ++ (match c with Some x => [x] | None => [] end), st3))
                                            fbs acc2) (snd kv) acc
                   end) ma ([], st)
    end
  with betweenFieldsAndFragment (fuel : nat) (excl : bool) (m : fmap) (sp : aspread) (st : ostate) {struct fuel}
    : list conflict * ostate :=
    match fuel with
    | O => ([], stalled_st st)
    | S f =>
      if mem_str (fst sp) st.(os_compared) then ([], st) else
      let st1 := set_compared st (fst sp :: st.(os_compared)) in
      match body_of st sp with
      | None => ([], st1)
      | Some (ptype, body) =>
        let '(mb, spreads) := collect_set ptype body in
        if fmap_same m mb then ([], st1) else
        let '(c1, st2) := collectBetween f excl m mb st1 in
        fold_left (fun acc sp2 =>
                     if str_eqb (fst sp2) (fst sp) then acc else
                     let '(c, st3) := betweenFieldsAndFragment f excl m sp2 (snd acc) in (fst acc ++ c, st3))
                  spreads (c1, st2)
      end
    end
  with betweenFragments (fuel : nat) (excl : bool) (sa sb : aspread) (st : ostate) {struct fuel}
    : list conflict * ostate :=
    match fuel with
    | O => ([], stalled_st st)
    | S f =>
      if str_eqb (fst sa) (fst sb) then ([], st) else
      if pairs_has st.(os_pairs) (fst sa) (fst sb) excl then ([], st) else
      let st1 := set_pairs st (pairs_add st.(os_pairs) (fst sa) (fst sb) excl) in
      match body_of st sa, body_of st sb with
      | Some (pa, ba), Some (pb, bb) =>
        let '(ma, spa) := collect_set pa ba in
        let '(mb, spb) := collect_set pb bb in
        let '(c1, st2) := collectBetween f excl ma mb st1 in
        let '(c2, st3) := fold_left (fun acc x => let '(c, st') := betweenFragments f excl sa x (snd acc) in (fst acc ++ c, st'))
                                    spb (c1, st2) in
        fold_left (fun acc x => let '(c, st') := betweenFragments f excl x sb (snd acc) in (fst acc ++ c, st'))
                  spa (c2, st3)
      | _, _ => ([], st1)
      end
    end
  with betweenSubSelectionSets (fuel : nat) (excl : bool) (pa : option definition) (sa : list selection)
                               (pb : option definition) (sb : list selection) (st : ostate) {struct fuel}
    : list conflict * ostate :=
    match fuel with
    | O => ([], stalled_st st)
    | S f =>
      let '(ma, spa) := collect_set pa sa in
      let '(mb, spb) := collect_set pb sb in
      let '(c1, st1) := collectBetween f excl ma mb st in
      let '(c2, st2) := fold_left (fun acc x =>
                                     let '(c, st') := betweenFieldsAndFragment f excl ma x (set_compared (snd acc) []) in
                                     (fst acc ++ c, st')) spb (c1, st1) in
      let '(c3, st3) := fold_left (fun acc x =>
                                     let '(c, st') := betweenFieldsAndFragment f excl mb x (set_compared (snd acc) []) in
                                     (fst acc ++ c, st')) spa (c2, st2) in
      let '(c4, st4) :=
          fold_left (fun acc x =>
                       fold_left (fun acc2 y => let '(c, st') := betweenFragments f excl x y (snd acc2) in (fst acc2 ++ c, st'))
                                 spb acc) spa (c3, st3) in
      (* the compared-fragments sets used above are local to this call: the caller's is untouched *)
      (c4, set_compared st4 st.(os_compared))
    end.

  Definition overlap_fuel : nat :=
    let n := length doc.(q_frags) in
    (16 + 4 * (fold_right (fun o a => sels_size o.(o_sels) + a) 0 doc.(q_ops)
               + fold_right (fun f a => sels_size f.(f_sels) + a) 0 doc.(q_frags)) + 4 * n * n)%nat.

  (* collectConflictsWithin *)
  Definition collectWithin (m : fmap) (st : ostate) : list conflict * ostate :=
    fold_left (fun acc kv =>
                 (fix pairs (l : list afield) (acc : list conflict * ostate) : list conflict * ostate :=
                    match l with
                    | [] => acc
                    | fa :: tl =>
                      pairs tl (fold_left (fun a fb => let '(c, st') := findConflict overlap_fuel false fa fb (snd a) in
                                                       (fst a ++ (match c with Some x => [x] | None => [] end), st'))
                                          tl acc)
                    end) (snd kv) acc) m ([], st).

  (* findConflictsWithinSelectionSet *)
  Definition withinSelectionSet (parent : option definition) (l : list selection) (st : ostate) : list conflict * ostate :=
    match l with
    | [] => ([], st)
    | _ =>
      let '(m, spreads) := collect_set parent l in
      let '(c1, st1) := collectWithin m st in
      let st2 := set_compared st1 [] in
      (fix go (sps : list aspread) (acc : list conflict * ostate) : list conflict * ostate :=
         match sps with
         | [] => acc
         | sa :: tl =>
           let '(c, st') := betweenFieldsAndFragment overlap_fuel false m sa (snd acc) in
           let acc1 := (fst acc ++ c, st') in
           go tl (fold_left (fun a sb => let '(c2, st2') := betweenFragments overlap_fuel false sa sb (snd a) in
                                         (fst a ++ c2, st2')) tl acc1)
         end) spreads (c1, st2)
    end.

  Definition r_OverlappingFieldsCanBeMerged : rinst :=
    RI (b "OverlappingFieldsCanBeMerged") ostate (mkOState [] [])
       (fun st e =>
          let run (parent : option definition) (l : list selection) :=
              let '(cs, st') := withinSelectionSet parent l st in
              (set_stall st' false,
               map err_at cs ++ (if st'.(os_stall) then [mkRErr [] (b "MODEL-OUT-OF-FUEL")] else [])) in
          match e with
          | (_, _, EvOperation o _) => run (root_def s o.(o_op)) o.(o_sels)
          | (Some _, _, EvField (SField _ _ _ _ sels _) _ fd) =>
            run (match fd with Some x => stype s (type_name x.(fd_type)) | None => None end) sels
          | (_, _, EvInline (SInline tc _ sels _) od) => run (match tc with [] => od | _ => stype s tc end) sels
          | (_, _, EvFragment f) => run (stype s f.(f_typecond)) f.(f_sels)
          | (_, _, EvAnnotate z) => (set_annot st (z :: st.(os_annot)), [])
          | _ => (st, [])
          end).
  Definition r_ValuesOfCorrectType (nosugg : bool) : rinst :=
    stateless (if nosugg then b "ValuesOfCorrectTypeWithoutSuggestions" else b "ValuesOfCorrectType")
      (fun e => match e with
                | (_, ann, EvValue v (Some exp) (Some def)) => values_of_correct_type nosugg ann v exp def
                | _ => []
                end).
End Rules2.
