(* Path.v — model of ast/path.go: JSON encoding of an error path and Path.UnmarshalJSON. *)
From GQL.model Require Import Base Lexer Ast Json.
Open Scope Z_scope.

Inductive pelem := PName (s : str) | PIndex (z : Z).

Definition marshal_path (p : list pelem) : jvalue :=
  JArr (map (fun e => match e with PName s => JStr s | PIndex z => JNum z end) p).

(* numbers are decoded with UseNumber: integers in the int64 range come back exactly *)
Definition int64_ok (z : Z) : bool := (- Z.pow 2 63 <=? z) && (z <? Z.pow 2 63).

Fixpoint unmarshal_elems (l : list jvalue) : option (list pelem) :=
  match l with
  | [] => Some []
  | JStr s :: tl => match unmarshal_elems tl with Some r => Some (PName s :: r) | None => None end
  | JNum z :: tl =>
    if int64_ok z then match unmarshal_elems tl with Some r => Some (PIndex z :: r) | None => None end
    else None   (* outside int64: the float conversion is not modelled *)
  | _ :: _ => None
  end.
Definition unmarshal_path (j : jvalue) : option (list pelem) :=
  match j with
  | JArr l => unmarshal_elems l
  | JNull => Some []
  | _ => None
  end.

Definition dump_pelem (e : pelem) : str :=
  match e with PName s => 110%N :: hex s | PIndex z => 105%N :: Z_dec z end.
Definition dump_path (p : list pelem) : str := sepcat (map dump_pelem p).
