(* Link.v — the annotations validator/walk.go leaves on a document ("Requires validation" slots),
   as a canonical dump in document order (C09).  Definitions are identified by name. *)
From GQL.model Require Import Base Utf8 Lexer Ast Schema Walk Format.
Open Scope N_scope.

Section Link.
  Variable s : schema.
  Variable doc : qdoc.

  Definition oname (o : option definition) : str := match o with Some d => hex d.(df_name) | None => [45] end.
  Definition otype (o : option type_) : str := match o with Some t => hex (Schema.type_string t) | None => [45] end.
  Definition semi : N := 59.

  (* ann: operation whose variable definitions are written on variable uses *)
  Fixpoint link_value (ann : option opdef) (v : value) (exp : option type_) (def : option definition) : str :=
    match v with
    | mkValue k raw ch p =>
      b "V(" ++ otype exp ++ semi :: oname def ++ semi ::
        (match k with
         | VVar => match ann with
                   | Some o => match find_vardef raw o.(o_vars) with
                               | Some vd => Z_dec vd.(vd_pos).(p_line) ++ 58 :: Z_dec vd.(vd_pos).(p_col)
                               | None => [45]
                               end
                   | None => [45]
                   end
         | _ => [45]
         end) ++ [41] ++
      91 :: concat (map (fun c => let '(n, _, cv) := c in
                match k with
                | VObject =>
                  match def with
                  | Some d => match find_field n d.(df_fields) with
                              | Some fd => link_value ann cv (Some fd.(fd_type)) (stype s (type_name fd.(fd_type)))
                              | None => link_value ann cv None None
                              end
                  | None => link_value ann cv None None
                  end
                | VList =>
                  match exp with
                  | Some (ListT e _ _) => link_value ann cv (Some e) def
                  | _ => link_value ann cv None None
                  end
                | _ => []
                end) ch) ++ [93]
    end.

  Definition link_arg (ann : option opdef) (ad : option argdef) (a : argument) : str :=
    match ad with
    | Some x => link_value ann a.(a_value) (Some x.(ad_type)) (stype s (type_name x.(ad_type)))
    | None => link_value ann a.(a_value) None None
    end.

  Definition link_dirs (ann : option opdef) (parent : option definition) (ds : list directive) (loc : str) : str :=
    91 :: concat (map (fun x =>
      let dd := sdir s x.(d_name) in
      b "D(" ++ hex x.(d_name) ++ semi :: (if is_some dd then [49] else [48]) ++ semi :: loc ++ semi :: oname parent ++ [41] ++
      91 :: concat (map (fun a => link_arg ann (match dd with Some y => find_argdef a.(a_name) y.(dd_args) | None => None end) a) x.(d_args))
      ++ [93]) ds) ++ [93].

  Fixpoint link_sel (ann : option opdef) (parent : option definition) (sel : selection) : str :=
    match sel with
    | SField al n args dirs sels p =>
      let fd := field_def_of parent n in
      let next := match fd with Some x => stype s (type_name x.(fd_type)) | None => None end in
      b "F(" ++ hex n ++ semi :: oname parent ++ semi ::
        (match fd with Some x => hex x.(fd_name) ++ 58 :: hex (Schema.type_string x.(fd_type)) | None => [45] end) ++ [41] ++
      91 :: concat (map (fun a => link_arg ann (match fd with Some x => find_argdef a.(a_name) x.(fd_args) | None => None end) a) args) ++ [93] ++
      link_dirs ann next dirs (b "FIELD") ++
      91 :: concat (map (link_sel ann next) sels) ++ [93]
    | SInline tc dirs sels p =>
      let next := match tc with [] => parent | _ => stype s tc end in
      b "I(" ++ hex tc ++ semi :: oname parent ++ [41] ++ link_dirs ann next dirs (b "INLINE_FRAGMENT") ++
      91 :: concat (map (link_sel ann next) sels) ++ [93]
    | SSpread n dirs p =>
      let fdef := find_frag n doc.(q_frags) in
      let next := match fdef with Some x => stype s x.(f_typecond) | None => None end in
      b "S(" ++ hex n ++ semi :: oname parent ++ semi :: (if is_some fdef then [49] else [48]) ++ [41]
        ++ link_dirs ann next dirs (b "FRAGMENT_SPREAD")
    end.

  Definition link_op (o : opdef) : str :=
    let def := root_def s o.(o_op) in
    let '(_, st) := walk_sels s doc (walk_fuel doc) def o.(o_sels)
                      (mkWst [] (flat_map (fun v => (match v.(vd_default) with Some dv => value_vars dv | None => [] end)
                                                    ++ dirs_vars v.(vd_dirs)) o.(o_vars) ++ dirs_vars o.(o_dirs))) in
    let used := used_flags o.(o_vars) st.(w_used) [] in
    b "O(" ++ hex o.(o_name) ++ [41] ++
    91 :: concat (map (fun vu : vardef * bool =>
            let v := fst vu in
            let vdef := stype s (type_name v.(vd_type)) in
            b "X(" ++ hex v.(vd_var) ++ semi :: oname vdef ++ semi :: (if snd vu then [49] else [48]) ++ [41] ++
            (match v.(vd_default) with Some dv => link_value (Some o) dv (Some v.(vd_type)) vdef | None => [45] end) ++
            link_dirs (Some o) vdef v.(vd_dirs) (b "VARIABLE_DEFINITION")) (combine o.(o_vars) used)) ++ [93] ++
    link_dirs (Some o) def o.(o_dirs) (op_location o.(o_op)) ++
    91 :: concat (map (link_sel (Some o) def) o.(o_sels)) ++ [93].

  Definition link_frag (f : fragdef) : str :=
    let def := stype s f.(f_typecond) in
    let ann := stale_op doc f in
    b "G(" ++ hex f.(f_name) ++ semi :: oname def ++ [41] ++
    91 :: concat (map (fun v => b "X(" ++ hex v.(vd_var) ++ semi :: oname (stype s (type_name v.(vd_type))) ++ [41]) f.(f_vars)) ++ [93] ++
    link_dirs None def f.(f_dirs) (b "FRAGMENT_DEFINITION") ++
    91 :: concat (map (link_sel ann def) f.(f_sels)) ++ [93].

  Definition link_doc : str := concat (map link_op doc.(q_ops)) ++ concat (map link_frag doc.(q_frags)).
End Link.
