(* Format.v — model of formatter/formatter.go (comments off) and of Value.String / Type.String. *)
From GQL.model Require Import Base Lexer Ast Schema.
Open Scope N_scope.

Record fopts := mkFOpts { fo_indent : str; fo_builtin : bool; fo_nodesc : bool; fo_compact : bool }.
(* out is kept reversed *)
Record fmt := mkFmt { out : str; isz : nat; padNext : bool; lineHead : bool }.
Definition fmt0 : fmt := mkFmt [] 0 false false.

Section Fmt.
  Variable d : dev.
  Variable o : fopts.

  Definition emit (f : fmt) (s : str) : fmt := mkFmt (rev_append s (out f)) (isz f) (padNext f) (lineHead f).

  Definition writeIndent (f : fmt) : fmt :=
    let f1 := if lineHead f then emit f (concat (repeat (fo_indent o) (isz f))) else f in
    mkFmt (out f1) (isz f1) false false.

  Definition WriteNewline (f : fmt) : fmt := mkFmt (10 :: out f) (isz f) false true.

  Definition is_space (c : N) : bool := (c =? 32) || in_range 9 13 c.
  Fixpoint trim_left (s : str) : str :=
    match s with c :: tl => if is_space c then trim_left tl else s | [] => [] end.
  Definition trim_space (s : str) : str := rev (trim_left (rev (trim_left s))).

  Definition pre (f : fmt) : fmt :=
    let f1 := if lineHead f then writeIndent f else f in
    if padNext f1 then emit f1 [32] else f1.

  Definition WriteWord (w : str) (f : fmt) : fmt :=
    let f2 := emit (pre f) (trim_space w) in mkFmt (out f2) (isz f2) true (lineHead f2).
  Definition WriteString (s : str) (f : fmt) : fmt :=
    let f2 := emit (pre f) s in mkFmt (out f2) (isz f2) false (lineHead f2).
  Definition NoPadding (f : fmt) : fmt := mkFmt (out f) (isz f) false (lineHead f).
  Definition NeedPadding (f : fmt) : fmt := mkFmt (out f) (isz f) true (lineHead f).
  Definition IncrementIndent (f : fmt) : fmt := mkFmt (out f) (S (isz f)) (padNext f) (lineHead f).
  Definition DecrementIndent (f : fmt) : fmt := mkFmt (out f) (pred (isz f)) (padNext f) (lineHead f).

  Definition quotes3 : str := [34; 34; 34].

  (* ---- ast/value.go String, ast/type.go String ---- *)
  Definition hexdig (n : N) : N := if n <? 10 then 48 + n else 87 + n.
  Fixpoint quote_body (s : str) : str :=
    match s with
    | [] => []
    | c :: tl =>
      (if c =? 34 then [92; 34]
       else if c =? 92 then [92; 92]
       else if c =? 10 then [92; 110]
       else if c =? 13 then [92; 114]
       else if c =? 9 then [92; 116]
       else if c =? 8 then [92; 98]
       else if c =? 12 then [92; 102]
       else if c <? 32 then [92; 117; 48; 48; hexdig (c / 16); hexdig (c mod 16)]
       else [c]) ++ quote_body tl
    end.
  Definition quoteString (s : str) : str := 34 :: quote_body s ++ [34].

  (* blockStringSafe *)
  Fixpoint has_3quotes (s : str) : bool :=
    match s with
    | 34 :: ((34 :: 34 :: _) as tl) => true
    | _ :: tl => has_3quotes tl
    | [] => false
    end.
  Definition is_wsp (c : N) : bool := (c =? 32) || (c =? 9).
  Definition blank (l : str) : bool := forallb is_wsp l.
  Definition blockStringSafe (s : str) : bool :=
    let lines := split_nl s in
    negb (has_3quotes s)
    && forallb (fun c => negb (c <? 32) || (c =? 9) || (c =? 10)) s
    && negb (blank (hd [] lines)) && negb (blank (last lines []))
    && existsb (fun l => match l with c :: _ => negb (blank l) && negb (is_wsp c) | [] => false end) lines.

  Definition WriteDescription (s : str) (f : fmt) : fmt :=
    match s with
    | [] => f
    | _ =>
      if fo_nodesc o then f else
      if negb (blockStringSafe s) then WriteNewline (WriteString (quoteString s) f) else
      let f1 := WriteNewline (WriteString quotes3 f) in
      let f2 := fold_left (fun acc ln => WriteNewline (WriteString ln acc)) (split_nl s) f1 in
      WriteNewline (WriteString quotes3 f2)
    end.

  Fixpoint join (sep : str) (l : list str) : str :=
    match l with [] => [] | [x] => x | x :: tl => x ++ sep ++ join sep tl end.

  Fixpoint value_string (v : value) : str :=
    match v with
    | mkValue k raw ch _ =>
      match k with
      | VVar => 36 :: raw
      | VInt | VFloat | VEnum | VBool | VNull => raw
      | VString | VBlock => quoteString raw
      | VList => 91 :: join [44] (map (fun c => let '(_, _, cv) := c in value_string cv) ch) ++ [93]
      | VObject => 123 :: join [44] (map (fun c => let '(n, _, cv) := c in n ++ 58 :: value_string cv) ch) ++ [125]
      end
    end.

  Fixpoint type_string (t : type_) : str :=
    match t with
    | NamedT n nn _ => n ++ (if nn then [33] else [])
    | ListT e nn _ => 91 :: type_string e ++ 93 :: (if nn then [33] else [])
    end.

  Definition FormatType (t : type_) (f : fmt) : fmt := WriteWord (type_string t) f.
  Definition FormatValue (v : value) (f : fmt) : fmt := WriteString (value_string v) f.

  Definition is_last {A} (l : list A) : bool := match l with [] => true | _ => false end.

  Fixpoint FormatArgumentList_items (l : list argument) (f : fmt) : fmt :=
    match l with
    | [] => f
    | a :: tl =>
      let f1 := WriteString (value_string a.(a_value))
                  (NeedPadding (WriteString [58] (NoPadding (WriteWord a.(a_name) f)))) in
      let f2 := if is_last tl then f1 else WriteWord [44] (NoPadding f1) in
      FormatArgumentList_items tl f2
    end.
  Definition FormatArgumentList (l : list argument) (f : fmt) : fmt :=
    match l with
    | [] => f
    | _ => NeedPadding (WriteString [41] (FormatArgumentList_items l (WriteString [40] (NoPadding f))))
    end.

  Definition FormatDirective (x : directive) (f : fmt) : fmt :=
    FormatArgumentList x.(d_args) (WriteWord x.(d_name) (WriteString [64] f)).
  Definition FormatDirectiveList (l : list directive) (f : fmt) : fmt :=
    fold_left (fun acc x => FormatDirective x acc) l f.

  Definition FormatVariableDefinition (v : vardef) (f : fmt) : fmt :=
    let f1 := NeedPadding (WriteString [58] (NoPadding (WriteWord v.(vd_var) (WriteString [36] f)))) in
    let f2 := FormatType v.(vd_type) f1 in
    let f3 := match v.(vd_default) with Some dv => FormatValue dv (WriteWord [61] f2) | None => f2 end in
    FormatDirectiveList v.(vd_dirs) (NeedPadding f3).

  Fixpoint FormatVariableDefinitionList_items (l : list vardef) (f : fmt) : fmt :=
    match l with
    | [] => f
    | v :: tl =>
      let f1 := FormatVariableDefinition v f in
      let f2 := if is_last tl then f1 else WriteWord [44] (NoPadding f1) in
      FormatVariableDefinitionList_items tl f2
    end.
  Definition FormatVariableDefinitionList (l : list vardef) (f : fmt) : fmt :=
    match l with
    | [] => f
    | _ => NeedPadding (WriteString [41] (NoPadding (FormatVariableDefinitionList_items l (WriteString [40] f))))
    end.

  Fixpoint FormatSelection (s : selection) (f : fmt) : fmt :=
    let set (l : list selection) (f : fmt) : fmt :=
        match l with
        | [] => f
        | _ =>
          let f1 := IncrementIndent (WriteNewline (WriteString [123] f)) in
          let f2 := fold_left (fun acc x => WriteNewline (FormatSelection x acc)) l f1 in
          WriteString [125] (DecrementIndent f2)
        end in
    match s with
    | SField al n args dirs sels _ =>
      let f1 := if negb (match al with [] => true | _ => false end) && negb (str_eqb al n)
                then NeedPadding (WriteString [58] (NoPadding (WriteWord al f))) else f in
      let f2 := WriteWord n f1 in
      let f3 := match args with [] => f2 | _ => NeedPadding (FormatArgumentList args (NoPadding f2)) end in
      set sels (FormatDirectiveList dirs f3)
    | SSpread n dirs _ =>
      let f1 := WriteWord [46; 46; 46] f in
      let f2 := if fo_compact o then NoPadding f1 else f1 in
      FormatDirectiveList dirs (WriteWord n f2)
    | SInline tc dirs sels _ =>
      let f1 := WriteWord [46; 46; 46] f in
      let f2 := match tc with [] => f1 | _ => WriteWord tc (WriteWord (b "on") f1) end in
      set sels (FormatDirectiveList dirs f2)
    end.

  Definition FormatSelectionSet (l : list selection) (f : fmt) : fmt :=
    match l with
    | [] => f
    | _ =>
      let f1 := IncrementIndent (WriteNewline (WriteString [123] f)) in
      let f2 := fold_left (fun acc x => WriteNewline (FormatSelection x acc)) l f1 in
      WriteString [125] (DecrementIndent f2)
    end.

  Definition optype_word (op : optype) : str :=
    match op with OpQuery => b "query" | OpMutation => b "mutation" | OpSubscription => b "subscription" | OpNone => [] end.

  Definition FormatOperationDefinition (d : opdef) (f : fmt) : fmt :=
    let f1 := WriteWord (optype_word d.(o_op)) f in
    let f2 := match d.(o_name) with
              | [] => f1
              | n => let g := WriteWord n f1 in if fo_compact o then NoPadding g else g
              end in
    let f3 := FormatDirectiveList d.(o_dirs) (FormatVariableDefinitionList d.(o_vars) f2) in
    match d.(o_sels) with [] => f3 | l => WriteNewline (FormatSelectionSet l f3) end.

  Definition FormatFragmentDefinition (d : fragdef) (f : fmt) : fmt :=
    let f1 := WriteWord d.(f_name) (WriteWord (b "fragment") f) in
    let f2 := FormatVariableDefinitionList d.(f_vars) f1 in
    let f3 := WriteWord d.(f_typecond) (WriteWord (b "on") f2) in
    let f4 := FormatDirectiveList d.(f_dirs) f3 in
    match d.(f_sels) with [] => f4 | l => WriteNewline (FormatSelectionSet l f4) end.

  Definition FormatQueryDocument (q : qdoc) : str :=
    let f1 := fold_left (fun acc x => FormatOperationDefinition x acc) q.(q_ops) fmt0 in
    let f2 := fold_left (fun acc x => FormatFragmentDefinition x acc) q.(q_frags) f1 in
    rev (out f2).

  (* ---------------- type-system documents ---------------- *)

  Definition FormatArgumentDefinition (a : argdef) (f : fmt) : fmt :=
    let described := negb (match a.(ad_desc) with [] => true | _ => false end) && negb (fo_nodesc o) in
    let f1 := if described then WriteDescription a.(ad_desc) (IncrementIndent (WriteNewline f)) else f in
    let f2 := NeedPadding (WriteString [58] (NoPadding (WriteWord a.(ad_name) f1))) in
    let f3 := FormatType a.(ad_type) f2 in
    let f4 := match a.(ad_default) with Some dv => FormatValue dv (WriteWord [61] f3) | None => f3 end in
    let f5 := FormatDirectiveList a.(ad_dirs) (NeedPadding f4) in
    if described then WriteNewline (DecrementIndent f5) else f5.

  Fixpoint FormatArgumentDefinitionList_items (l : list argdef) (f : fmt) : fmt :=
    match l with
    | [] => f
    | a :: tl =>
      let f1 := FormatArgumentDefinition a f in
      let f2 := if negb (is_last tl) && ((match a.(ad_desc) with [] => true | _ => false end) || (negb (d F_F7) && fo_nodesc o))
                then WriteWord [44] (NoPadding f1) else f1 in
      FormatArgumentDefinitionList_items tl f2
    end.
  Definition FormatArgumentDefinitionList (l : list argdef) (f : fmt) : fmt :=
    match l with
    | [] => f
    | _ => NeedPadding (WriteString [41] (NoPadding (FormatArgumentDefinitionList_items l (WriteString [40] f))))
    end.

  Definition starts_dunder (n : str) : bool := match n with 95 :: 95 :: _ => true | _ => false end.

  Definition FormatFieldDefinition (x : fielddef) (f : fmt) : fmt :=
    (* the loader's implicit __schema/__type have no position in any source *)
    if starts_dunder x.(fd_name) && (negb (fo_builtin o) || (x.(fd_pos).(p_line) =? 0)%Z) then f else
    let f1 := NoPadding (WriteWord x.(fd_name) (WriteDescription x.(fd_desc) f)) in
    let f2 := NeedPadding (WriteString [58] (NoPadding (FormatArgumentDefinitionList x.(fd_args) f1))) in
    let f3 := FormatType x.(fd_type) f2 in
    let f4 := match x.(fd_default) with Some dv => FormatValue dv (WriteWord [61] f3) | None => f3 end in
    WriteNewline (FormatDirectiveList x.(fd_dirs) f4).

  Definition FormatFieldList (l : list fielddef) (f : fmt) : fmt :=
    match l with
    | [] => f
    | _ =>
      let f1 := IncrementIndent (WriteNewline (WriteString [123] f)) in
      let f2 := fold_left (fun acc x => FormatFieldDefinition x acc) l f1 in
      WriteString [125] (DecrementIndent f2)
    end.

  Definition FormatEnumValueDefinition (e : enumval) (f : fmt) : fmt :=
    WriteNewline (FormatDirectiveList e.(ev_dirs) (WriteWord e.(ev_name) (WriteDescription e.(ev_desc) f))).
  Definition FormatEnumValueList (l : list enumval) (f : fmt) : fmt :=
    match l with
    | [] => f
    | _ =>
      let f1 := IncrementIndent (WriteNewline (WriteString [123] f)) in
      let f2 := fold_left (fun acc x => FormatEnumValueDefinition x acc) l f1 in
      WriteString [125] (DecrementIndent f2)
    end.

  Definition kind_word (k : dkind) : str :=
    match k with KScalar => b "scalar" | KObject => b "type" | KInterface => b "interface"
               | KUnion => b "union" | KEnum => b "enum" | KInputObject => b "input" end.

  Definition FormatDefinition (x : definition) (extend : bool) (f : fmt) : fmt :=
    if negb (fo_builtin o) && x.(df_builtin) then f else
    let f1 := WriteDescription x.(df_desc) f in
    let f2 := if extend then WriteWord (b "extend") f1 else f1 in
    let f3 := WriteWord x.(df_name) (WriteWord (kind_word x.(df_kind)) f2) in
    let f4 := match x.(df_ifaces) with
              | [] => f3
              | l => WriteWord (join (b " & ") l) (WriteWord (b "implements") f3)
              end in
    let f5 := FormatDirectiveList x.(df_dirs) f4 in
    let f6 := match x.(df_types) with [] => f5 | l => WriteWord (join (b " | ") l) (WriteWord [61] f5) end in
    WriteNewline (FormatEnumValueList x.(df_enums) (FormatFieldList x.(df_fields) f6)).

  Fixpoint FormatLocations (l : list str) (f : fmt) : fmt :=
    match l with
    | [] => f
    | x :: tl => let f1 := WriteWord x f in
                 FormatLocations tl (if is_last tl then f1 else WriteWord [124] f1)
    end.

  (* builtin: the directive comes from a built-in source *)
  Definition FormatDirectiveDefinition (x : dirdef) (builtin : bool) (f : fmt) : fmt :=
    if negb (fo_builtin o) && builtin then f else
    let f1 := WriteWord x.(dd_name) (WriteString [64] (WriteWord (b "directive") (WriteDescription x.(dd_desc) f))) in
    let f2 := match x.(dd_args) with [] => f1 | l => FormatArgumentDefinitionList l (NoPadding f1) end in
    let f3 := if x.(dd_repeatable) then WriteWord (b "repeatable") f2 else f2 in
    let f4 := match x.(dd_locs) with [] => f3 | l => FormatLocations l (WriteWord (b "on") f3) end in
    WriteNewline f4.

  Definition FormatOperationTypeDefinition (x : optypedef) (f : fmt) : fmt :=
    WriteNewline (WriteWord x.(ot_type) (NeedPadding (WriteString [58] (NoPadding (WriteWord (optype_word x.(ot_op)) f))))).

  Definition FormatSchemaDefinitionList (l : list schemadef) (extension : bool) (f : fmt) : fmt :=
    match l with
    | [] => f
    | _ =>
      let desc := concat (map sd_desc l) in
      let f1 := WriteDescription desc f in
      let f2 := WriteWord (b "schema") (if extension then WriteWord (b "extend") f1 else f1) in
      let f3 := DecrementIndent (fold_left (fun acc x => FormatDirectiveList x.(sd_dirs) acc) l (IncrementIndent f2)) in
      let empty := forallb (fun x => match x.(sd_ops) with [] => true | _ => false end) l in
      let f4 := if negb extension || negb empty then
                  let g1 := IncrementIndent (WriteNewline (WriteString [123] f3)) in
                  let g2 := fold_left (fun acc x => fold_left (fun a y => FormatOperationTypeDefinition y a) x.(sd_ops) acc) l g1 in
                  WriteString [125] (DecrementIndent g2)
                else f3 in
      WriteNewline f4
    end.

  (* the built-in mark of a directive definition is that of its source *)
  (* ---------------- a loaded schema (formatter.FormatSchema) ---------------- *)
  Definition schema_roots (s : schema) : list (str * str * option str) :=
    [(b "query", b "Query", s.(sc_query)); (b "mutation", b "Mutation", s.(sc_mutation));
     (b "subscription", b "Subscription", s.(sc_subscription))].
  (* the schema definition may be left out only if default-name inference reproduces the roots *)
  Definition need_schema_block (s : schema) : bool :=
    (existsb (fun r => let '(_, dn, cur) := r in
               match cur with
               | Some n => negb (str_eqb n dn)
               | None => match lookup dn s.(sc_types) with Some _ => true | None => false end
               end) (schema_roots s)
     || (negb (d F_F5) && negb (nil_ s.(sc_desc))))
    && existsb (fun r => match snd r with Some _ => true | None => false end) (schema_roots s).

  Definition FormatSchemaHead (s : schema) : fmt :=
    if need_schema_block s then
      let g1 := IncrementIndent (WriteNewline (WriteString [123]
                  (FormatDirectiveList s.(sc_schema_dirs)
                    (WriteWord (b "schema") (if d F_F5 then fmt0 else WriteDescription s.(sc_desc) fmt0))))) in
      let g2 := fold_left (fun acc r => let '(op, _, cur) := r in
                  match cur with
                  | Some n => WriteNewline (WriteWord n (NeedPadding (WriteString [58] (NoPadding (WriteWord op acc)))))
                  | None => acc
                  end) (schema_roots s) g1 in
      WriteNewline (WriteString [125] (DecrementIndent g2))
    else
      match s.(sc_schema_dirs) with
      | [] => fmt0
      | ds => WriteNewline (FormatDirectiveList ds (WriteWord (b "schema") (WriteWord (b "extend") fmt0)))
      end.

  (* directive definitions and types by sorted name; a directive is built in when its source is (source 0) *)
  Definition FormatSchema (s : schema) : str :=
    let f1 := FormatSchemaHead s in
    let f2 := fold_left (fun acc n => match lookup n s.(sc_dirs) with
                                      | Some x => FormatDirectiveDefinition x (x.(dd_pos).(p_src) =? 0) acc
                                      | None => acc end) (sort_strs (map fst s.(sc_dirs))) f1 in
    let f3 := fold_left (fun acc n => match lookup n s.(sc_types) with
                                      | Some x => FormatDefinition x false acc
                                      | None => acc end) (sort_strs (map fst s.(sc_types))) f2 in
    rev (out f3).

  Definition FormatSchemaDocument (s : sdoc) (dir_builtin : dirdef -> bool) : str :=
    let f1 := FormatSchemaDefinitionList s.(s_schema) false fmt0 in
    let f2 := FormatSchemaDefinitionList s.(s_schemaext) true f1 in
    let f3 := fold_left (fun acc x => FormatDirectiveDefinition x (dir_builtin x) acc) s.(s_dirs) f2 in
    let f4 := fold_left (fun acc x => FormatDefinition x false acc) s.(s_defs) f3 in
    let f5 := fold_left (fun acc x => FormatDefinition x true acc) s.(s_exts) f4 in
    rev (out f5).
End Fmt.
