(* Schema.v — the loaded schema (ast.Schema) and the model of validator/schema.go. *)
From GQL.model Require Import Base Lexer Ast.
Open Scope N_scope.

(* Go maps are association lists with unique keys; *Definition pointers are names into Types *)
Record schema := mkSchema
  { sc_query : option str; sc_mutation : option str; sc_subscription : option str;
    sc_schema_dirs : list directive;
    sc_types : list (str * definition);
    sc_dirs : list (str * dirdef);
    sc_possible : list (str * list str);
    sc_implements : list (str * list str);
    sc_desc : str }.

Fixpoint lookup {A} (k : str) (l : list (str * A)) : option A :=
  match l with
  | [] => None
  | (k', v) :: tl => if str_eqb k k' then Some v else lookup k tl
  end.
Fixpoint update {A} (k : str) (v : A) (l : list (str * A)) : list (str * A) :=
  match l with
  | [] => [(k, v)]
  | (k', v') :: tl => if str_eqb k k' then (k, v) :: tl else (k', v') :: update k v tl
  end.
Definition append_at (k : str) (x : str) (l : list (str * list str)) : list (str * list str) :=
  match lookup k l with
  | Some xs => update k (xs ++ [x]) l
  | None => l ++ [(k, [x])]
  end.

Fixpoint type_name (t : type_) : str :=
  match t with NamedT n _ _ => n | ListT e _ _ => type_name e end.
Definition type_nonnull (t : type_) : bool :=
  match t with NamedT _ nn _ => nn | ListT _ nn _ => nn end.

Definition kind_is_input (k : dkind) : bool :=
  match k with KScalar | KEnum | KInputObject => true | _ => false end.
Definition kind_is_output (k : dkind) : bool :=
  match k with KScalar | KObject | KInterface | KUnion | KEnum => true | _ => false end.
Definition dkind_eqb (a c : dkind) : bool := dkind_id a =? dkind_id c.

Definition starts_dunder (n : str) : bool := match n with 95 :: 95 :: _ => true | _ => false end.
Definition validName (n : str) : bool := negb (starts_dunder n).

Definition kind_location (k : dkind) : str :=
  match k with
  | KScalar => b "SCALAR" | KObject => b "OBJECT" | KInterface => b "INTERFACE"
  | KUnion => b "UNION" | KEnum => b "ENUM" | KInputObject => b "INPUT_OBJECT"
  end.

Fixpoint find_arg (n : str) (l : list argument) : option argument :=
  match l with [] => None | a :: tl => if str_eqb a.(a_name) n then Some a else find_arg n tl end.
Fixpoint find_argdef (n : str) (l : list argdef) : option argdef :=
  match l with [] => None | a :: tl => if str_eqb a.(ad_name) n then Some a else find_argdef n tl end.
Fixpoint find_field (n : str) (l : list fielddef) : option fielddef :=
  match l with [] => None | a :: tl => if str_eqb a.(fd_name) n then Some a else find_field n tl end.
Definition mem_str (x : str) (l : list str) : bool := existsb (str_eqb x) l.

Definition is_some {A} (o : option A) : bool := match o with Some _ => true | None => false end.

Section Validate.
  Variable types : list (str * definition).
  Variable dirs : list (str * dirdef).
  Variable possible : list (str * list str).

  (* validateDirectives *)
  Definition validateDirectives (ds : list directive) (loc : str) (current : option str) : bool :=
    forallb (fun x =>
      validName x.(d_name)
      && negb (match current with Some c => str_eqb x.(d_name) c | None => false end)
      && match lookup x.(d_name) dirs with
         | None => false
         | Some dd =>
           mem_str loc dd.(dd_locs)
           && forallb (fun a => is_some (find_argdef a.(a_name) dd.(dd_args))) x.(d_args)
           && forallb (fun sa =>
                negb (type_nonnull sa.(ad_type) && negb (is_some sa.(ad_default)))
                || match find_arg sa.(ad_name) x.(d_args) with
                   | None => false
                   | Some a => negb (N.eqb (vkind_id (v_kind a.(a_value))) (vkind_id VNull))
                   end) dd.(dd_args)
         end) ds.

  Definition validateTypeRef (t : type_) : bool := is_some (lookup (type_name t) types).

  Definition validateArgs (args : list argdef) (current : option str) : bool :=
    forallb (fun a =>
      validName a.(ad_name) && validateTypeRef a.(ad_type)
      && match lookup (type_name a.(ad_type)) types with
         | Some td => kind_is_input td.(df_kind)
         | None => false
         end
      && validateDirectives a.(ad_dirs) (b "ARGUMENT_DEFINITION") current) args.

  Fixpoint type_string (t : type_) : str :=
    match t with
    | NamedT n nn _ => n ++ (if nn then [33] else [])
    | ListT e nn _ => 91 :: type_string e ++ 93 :: (if nn then [33] else [])
    end.

  Fixpoint isCovariant (required actual : type_) : bool :=
    if type_nonnull required && negb (type_nonnull actual) then false else
    match required with
    | NamedT rn _ _ =>
      match actual with
      | NamedT an _ _ =>
        str_eqb rn an || match lookup rn possible with Some pts => mem_str an pts | None => false end
      | ListT _ _ _ =>
        (* actual.NamedType = "" *)
        str_eqb rn [] || match lookup rn possible with Some pts => mem_str [] pts | None => false end
      end
    | ListT re _ _ =>
      match actual with
      | ListT ae _ _ => isCovariant re ae
      | NamedT _ _ _ => false
      end
    end.

  Definition validateImplements (def : definition) (intfName : str) : bool :=
    match lookup intfName types with
    | None => false
    | Some intf =>
      dkind_eqb intf.(df_kind) KInterface
      && forallb (fun rf =>
           match find_field rf.(fd_name) def.(df_fields) with
           | None => false
           | Some ff =>
             isCovariant rf.(fd_type) ff.(fd_type)
             && forallb (fun ra =>
                  match find_argdef ra.(ad_name) ff.(fd_args) with
                  | None => false
                  | Some fa => str_eqb (type_string ra.(ad_type)) (type_string fa.(ad_type))
                  end) rf.(fd_args)
             && forallb (fun fa =>
                  negb (negb (is_some (find_argdef fa.(ad_name) rf.(fd_args)))
                        && type_nonnull fa.(ad_type) && negb (is_some fa.(ad_default)))) ff.(fd_args)
           end) intf.(df_fields)
      (* validateTypeImplementsAncestors *)
      && forallb (fun tr => mem_str tr def.(df_ifaces)) intf.(df_ifaces)
    end.

  Fixpoint unique_names (l : list str) : bool :=
    match l with [] => true | x :: tl => negb (mem_str x tl) && unique_names tl end.

  Definition validateDefinition (def : definition) : bool :=
    let input := dkind_eqb def.(df_kind) KInputObject in
    forallb (fun f =>
      validName f.(fd_name) && validateTypeRef f.(fd_type) && validateArgs f.(fd_args) None
      && validateDirectives f.(fd_dirs) (if input then b "INPUT_FIELD_DEFINITION" else b "FIELD_DEFINITION") None)
      def.(df_fields)
    && forallb (fun t => match lookup t types with
                         | Some td => dkind_eqb td.(df_kind) KObject
                         | None => false end) def.(df_types)
    && forallb (validateImplements def) def.(df_ifaces)
    && match def.(df_kind) with
       | KObject | KInterface =>
         negb (match def.(df_fields) with [] => true | _ => false end)
         && forallb (fun f => match lookup (type_name f.(fd_type)) types with
                              | Some td => kind_is_output td.(df_kind)
                              | None => true end) def.(df_fields)
       | KEnum =>
         negb (match def.(df_enums) with [] => true | _ => false end)
         && forallb (fun v => validName v.(ev_name)
                              && negb (str_eqb v.(ev_name) (b "true") || str_eqb v.(ev_name) (b "false")
                                       || str_eqb v.(ev_name) (b "null"))
                              && validateDirectives v.(ev_dirs) (b "ENUM_VALUE") None) def.(df_enums)
       | KInputObject =>
         negb (match def.(df_fields) with [] => true | _ => false end)
         && forallb (fun f => match lookup (type_name f.(fd_type)) types with
                              | Some td => kind_is_input td.(df_kind)
                              | None => true end) def.(df_fields)
       | _ => true
       end
    && unique_names (map fd_name def.(df_fields))
    && (def.(df_builtin) || validName def.(df_name))
    && validateDirectives def.(df_dirs) (kind_location def.(df_kind)) None.

  Definition validateDirective (dd : dirdef) : bool :=
    validName dd.(dd_name) && validateArgs dd.(dd_args) (Some dd.(dd_name)).
End Validate.

(* ---------- ValidateSchemaDocument ---------- *)

(* step 1: definitions by name, duplicates rejected *)
Fixpoint add_defs (ds : list definition) (acc : list (str * definition)) : option (list (str * definition)) :=
  match ds with
  | [] => Some acc
  | d :: tl => match lookup d.(df_name) acc with
               | Some _ => None
               | None => add_defs tl (acc ++ [(d.(df_name), d)])
               end
  end.

(* step 2: extensions merged into (or creating) their base definition; `order` = the list `defs` *)
Fixpoint merge_exts (es : list definition) (types : list (str * definition)) (order : list str)
  : option (list (str * definition) * list str) :=
  match es with
  | [] => Some (types, order)
  | e :: tl =>
    let '(base, types1, order1) :=
        match lookup e.(df_name) types with
        | Some d => (d, types, order)
        | None => let d := mkDef e.(df_kind) [] e.(df_name) [] [] [] [] [] e.(df_pos) false in
                  (d, types ++ [(e.(df_name), d)], order ++ [e.(df_name)])
        end in
    if negb (dkind_eqb base.(df_kind) e.(df_kind)) then None else
    let merged := mkDef base.(df_kind) base.(df_desc) base.(df_name) (base.(df_dirs) ++ e.(df_dirs))
                        (base.(df_ifaces) ++ e.(df_ifaces)) (base.(df_fields) ++ e.(df_fields))
                        (base.(df_types) ++ e.(df_types)) (base.(df_enums) ++ e.(df_enums))
                        base.(df_pos) base.(df_builtin) in
    merge_exts tl (update e.(df_name) merged types1) order1
  end.

(* step 3: possible types / implements, over `defs` in order *)
Definition relations (types : list (str * definition)) (order : list str)
  : list (str * list str) * list (str * list str) :=
  fold_left (fun acc n =>
    match lookup n types with
    | None => acc
    | Some def =>
      let '(pos, imp) := acc in
      match def.(df_kind) with
      | KUnion =>
        fold_left (fun a t => let '(p, i) := a in
                     ((if is_some (lookup t types) then append_at def.(df_name) t p else p),
                      append_at t def.(df_name) i)) def.(df_types) (pos, imp)
      | KObject =>
        let '(p1, i1) := fold_left (fun a intf => let '(p, i) := a in
                            (append_at intf def.(df_name) p, append_at def.(df_name) intf i))
                          def.(df_ifaces) (pos, imp) in
        (append_at def.(df_name) def.(df_name) p1, i1)
      | KInterface =>
        fold_left (fun a intf => let '(p, i) := a in
                     (append_at intf def.(df_name) p, append_at def.(df_name) intf i))
                  def.(df_ifaces) (pos, imp)
      | _ => (pos, imp)
      end
    end) order ([], []).

Definition builtin_directive_name (n : str) : bool :=
  mem_str n [b "include"; b "skip"; b "deprecated"; b "specifiedBy"; b "defer"; b "oneOf"].

(* step 4: directive definitions; a re-declared built-in keeps its first definition *)
Fixpoint add_dirs (ds : list dirdef) (acc : list (str * dirdef)) : option (list (str * dirdef)) :=
  match ds with
  | [] => Some acc
  | d :: tl =>
    match lookup d.(dd_name) acc with
    | Some _ => if builtin_directive_name d.(dd_name) then add_dirs tl acc else None
    | None => add_dirs tl (acc ++ [(d.(dd_name), d)])
    end
  end.

(* root operation types named by a schema definition / extension *)
Definition roots := (option str * option str * option str)%type.
Fixpoint set_roots (types : list (str * definition)) (ops : list optypedef) (r : roots) : option roots :=
  match ops with
  | [] => Some r
  | o :: tl =>
    match lookup o.(ot_type) types with
    | None => None
    | Some _ =>
      let '(q, m, s) := r in
      set_roots types tl
        match o.(ot_op) with
        | OpQuery => (Some o.(ot_type), m, s)
        | OpMutation => (q, Some o.(ot_type), s)
        | OpSubscription => (q, m, Some o.(ot_type))
        | OpNone => r
        end
    end
  end.

Fixpoint insert_sorted (x : str) (l : list str) : list str :=
  match l with
  | [] => [x]
  | y :: tl => if str_ltb x y then x :: l else y :: insert_sorted x tl
  end.
Definition sort_strs (l : list str) : list str := fold_right insert_sorted [] l.

Definition introspection_fields : list fielddef :=
  [mkFieldDef [] (b "__schema") [] None (NamedT (b "__Schema") true pos0) [] pos0;
   mkFieldDef [] (b "__type") [mkArgDef [] (b "name") None (NamedT (b "String") true pos0) [] pos0]
              None (NamedT (b "__Type") false pos0) [] pos0].

Definition validateSchemaDocument (sd : sdoc) : option schema :=
  match add_defs sd.(s_defs) [] with
  | None => None
  | Some types0 =>
    match merge_exts sd.(s_exts) types0 (map df_name sd.(s_defs)) with
    | None => None
    | Some (types, order) =>
      let '(possible, implements) := relations types order in
      match add_dirs sd.(s_dirs) [] with
      | None => None
      | Some dirs =>
        match sd.(s_schema) with
        | _ :: _ :: _ => None
        | schemas =>
          let r0 : option (roots * list directive * str) :=
              match schemas with
              | [s0] =>
                match set_roots types s0.(sd_ops) (None, None, None) with
                | None => None
                | Some r => if validateDirectives dirs s0.(sd_dirs) (b "SCHEMA") None
                            then Some (r, s0.(sd_dirs), s0.(sd_desc)) else None
                end
              | _ => Some ((None, None, None), [], [])
              end in
          let r1 := fold_left (fun acc ext =>
                       match acc with
                       | None => None
                       | Some (r, sdirs, desc) =>
                         match set_roots types ext.(sd_ops) r with
                         | None => None
                         | Some r' => if validateDirectives dirs ext.(sd_dirs) (b "SCHEMA") None
                                      then Some (r', sdirs ++ ext.(sd_dirs), desc) else None
                         end
                       end) sd.(s_schemaext) r0 in
          match r1 with
          | None => None
          | Some ((q, m, s), sdirs, desc) =>
            if forallb (fun kv => validateDefinition types dirs possible (snd kv)) types
               && forallb (fun kv => validateDirective types dirs (snd kv)) dirs
            then
              let infer (cur : option str) (n : str) : option str :=
                  match cur with
                  | Some _ => cur
                  | None => match schemas with
                            | [] => if is_some (lookup n types) then Some n else None
                            | _ => None
                            end
                  end in
              let q' := infer q (b "Query") in
              let m' := infer m (b "Mutation") in
              let s' := infer s (b "Subscription") in
              (* a root operation type must be an object type *)
              let root_is_object (r : option str) : bool :=
                  match r with
                  | Some n => match lookup n types with Some rd => dkind_eqb rd.(df_kind) KObject | None => true end
                  | None => true
                  end in
              if negb (root_is_object q' && root_is_object m' && root_is_object s') then None else
              let types' :=
                  match q' with
                  | Some qn =>
                    match lookup qn types with
                    | Some qd => update qn (mkDef qd.(df_kind) qd.(df_desc) qd.(df_name) qd.(df_dirs) qd.(df_ifaces)
                                                  (qd.(df_fields) ++ introspection_fields) qd.(df_types) qd.(df_enums)
                                                  qd.(df_pos) qd.(df_builtin)) types
                    | None => types
                    end
                  | None => types
                  end in
              Some (mkSchema q' m' s' sdirs types' dirs possible implements desc)
            else None
          end
        end
      end
    end
  end.

(* ---------- canonical dump of a loaded schema: maps by sorted key ---------- *)
Definition dump_ostr (o : option str) : str := match o with Some s => hex s | None => [45] end.
Definition dump_schema (s : schema) : str :=
  let tnames := sort_strs (map fst s.(sc_types)) in
  let dnames := sort_strs (map fst s.(sc_dirs)) in
  let pnames := sort_strs (map fst s.(sc_possible)) in
  let inames := sort_strs (map fst s.(sc_implements)) in
  b "SCHEMA(" ++ dump_ostr s.(sc_query) ++ cm :: dump_ostr s.(sc_mutation) ++ cm :: dump_ostr s.(sc_subscription)
    ++ cm :: dump_list (dump_dir false) s.(sc_schema_dirs) ++ cm :: hex s.(sc_desc) ++ cm ::
    dump_list (fun n => match lookup n s.(sc_types) with Some d => dump_def false d | None => [63] end) tnames ++ cm ::
    dump_list (fun n => match lookup n s.(sc_dirs) with Some d => dump_dirdef false d | None => [63] end) dnames ++ cm ::
    dump_list (fun n => hex n ++ 61 :: dump_list hex (match lookup n s.(sc_possible) with Some l => l | None => [] end)) pnames ++ cm ::
    dump_list (fun n => hex n ++ 61 :: dump_list hex (match lookup n s.(sc_implements) with Some l => l | None => [] end)) inames
    ++ [41].
