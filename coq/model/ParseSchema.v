(* ParseSchema.v — model of parser/schema.go, one program per Go function. *)
From GQL.model Require Import Base Utf8 Lexer Ast Parser Prog ParseQuery.
Open Scope Z_scope.

(* description text and whether a description token was present *)
Definition parseDescription : prog (str * bool) :=
  tok <- Peek ;;
  if kind_eqb tok.(tkind) BlockString || kind_eqb tok.(tkind) String_
  then t <- Next ;; Ret (t.(tval), true)
  else Ret ([], false).

Definition parseOperationTypeDefinition (d : dev) : prog optypedef :=
  p <- peekPos ;; op <- parseOperationType d ;; _ <- expect Colon ;; n <- parseName ;;
  Ret (mkOpTypeDef op n p).

Definition parseSchemaDefinition (d : dev) (fuel : nat) (desc : str) : prog schemadef :=
  _ <- expectKeyword (b "schema") ;;
  p <- peekPos ;;
  dirs <- parseDirectives fuel true ;;
  tok <- Peek ;;
  if negb (d F_S1) && negb (kind_eqb tok.(tkind) BraceL) then
    ErrorAt tok ;;; Ret (mkSchemaDef desc dirs [] p)
  else
    ops <- some BraceL BraceR (parseOperationTypeDefinition d) ;;
    Ret (mkSchemaDef desc dirs ops p).

Definition tok_is_implements (d : dev) (tok : token) : bool :=
  str_eqb tok.(tval) (b "implements") && (d F_S3 || kind_eqb tok.(tkind) Name).

(* for p.skip(sep) && p.err == nil { append(item()) } *)
Definition sep_loop {A} (sep : kind) (item : prog A) : prog (list A) :=
  Loop (has <- skip sep ;; e <- HasErr ;;
        if has && negb e then (x <- item ;; Ret (Some x)) else Ret None).

Definition parseImplementsInterfaces (d : dev) : prog (list str) :=
  tok <- Peek ;;
  if tok_is_implements d tok then
    _ <- Next ;; _ <- skip Amp ;; n <- parseName ;; rest <- sep_loop Amp parseName ;; Ret (n :: rest)
  else Ret [].

Definition parseUnionMemberTypes : prog (list str) :=
  has <- skip Equals ;;
  if has then _ <- skip Pipe ;; n <- parseName ;; rest <- sep_loop Pipe parseName ;; Ret (n :: rest)
  else Ret [].

Definition parseArgumentDef (fuel : nat) : prog argdef :=
  p <- peekPos ;;
  '(desc, _) <- parseDescription ;;
  _ <- Peek ;;
  n <- parseName ;; _ <- expect Colon ;;
  t <- parseTypeReference fuel ;;
  hasdef <- skip Equals ;;
  dv <- (if hasdef then x <- parseValueLiteral fuel true ;; Ret (Some x) else Ret None) ;;
  dirs <- parseDirectives fuel true ;;
  Ret (mkArgDef desc n dv t dirs p).

Definition parseArgumentDefs (fuel : nat) : prog (list argdef) :=
  some ParenL ParenR (parseArgumentDef fuel).

Definition parseFieldDefinition (fuel : nat) : prog fielddef :=
  p <- peekPos ;;
  '(desc, _) <- parseDescription ;;
  _ <- Peek ;;
  n <- parseName ;;
  args <- parseArgumentDefs fuel ;;
  _ <- expect Colon ;;
  t <- parseTypeReference fuel ;;
  dirs <- parseDirectives fuel true ;;
  Ret (mkFieldDef desc n args None t dirs p).

Definition parseInputValueDef (fuel : nat) : prog fielddef :=
  p <- peekPos ;;
  '(desc, _) <- parseDescription ;;
  _ <- Peek ;;
  n <- parseName ;; _ <- expect Colon ;;
  t <- parseTypeReference fuel ;;
  hasdef <- skip Equals ;;
  dv <- (if hasdef then x <- parseValueLiteral fuel true ;; Ret (Some x) else Ret None) ;;
  dirs <- parseDirectives fuel true ;;
  Ret (mkFieldDef desc n [] dv t dirs p).

Definition parseEnumValueDefinition (fuel : nat) : prog enumval :=
  p <- peekPos ;;
  '(desc, _) <- parseDescription ;;
  _ <- Peek ;;
  n <- parseName ;;
  dirs <- parseDirectives fuel true ;;
  Ret (mkEnumVal desc n dirs p).

Definition parseFieldsDefinition (fuel : nat) : prog (list fielddef) :=
  some BraceL BraceR (parseFieldDefinition fuel).
Definition parseInputFieldsDefinition (fuel : nat) : prog (list fielddef) :=
  some BraceL BraceR (parseInputValueDef fuel).
Definition parseEnumValuesDefinition (fuel : nat) : prog (list enumval) :=
  some BraceL BraceR (parseEnumValueDefinition fuel).

Definition def0 : definition := mkDef KScalar [] [] [] [] [] [] [] pos0 false.

(* the six type definitions and their extensions share this shape;
   ext = true for `extend ...` (no description, emptiness check) *)
Definition parseTypeDef (d : dev) (fuel : nat) (k : dkind) (kw : str) (ext : bool) (desc : str)
  : prog definition :=
  _ <- expectKeyword kw ;;
  p <- peekPos ;;
  n <- parseName ;;
  let finish (empty : bool) (x : definition) : prog definition :=
      if ext && empty then unexpectedError ;;; Ret x else Ret x in
  match k with
  | KScalar =>
    dirs <- parseDirectives fuel true ;;
    finish (nil_ dirs) (mkDef k desc n dirs [] [] [] [] p false)
  | KObject =>
    ifs <- parseImplementsInterfaces d ;;
    dirs <- parseDirectives fuel true ;;
    flds <- parseFieldsDefinition fuel ;;
    finish (nil_ ifs && nil_ dirs && nil_ flds) (mkDef k desc n dirs ifs flds [] [] p false)
  | KInterface =>
    ifs <- (if ext && d F_S4 then Ret [] else parseImplementsInterfaces d) ;;
    dirs <- parseDirectives fuel true ;;
    flds <- parseFieldsDefinition fuel ;;
    finish (nil_ ifs && nil_ dirs && nil_ flds) (mkDef k desc n dirs ifs flds [] [] p false)
  | KUnion =>
    dirs <- parseDirectives fuel true ;;
    tys <- parseUnionMemberTypes ;;
    finish (nil_ dirs && nil_ tys) (mkDef k desc n dirs [] [] tys [] p false)
  | KEnum =>
    dirs <- parseDirectives fuel true ;;
    vals <- parseEnumValuesDefinition fuel ;;
    finish (nil_ dirs && nil_ vals) (mkDef k desc n dirs [] [] [] vals p false)
  | KInputObject =>
    dirs <- parseDirectives fuel (negb (ext && d F_S5)) ;;
    flds <- parseInputFieldsDefinition fuel ;;
    finish (nil_ dirs && nil_ flds) (mkDef k desc n dirs [] flds [] [] p false)
  end.

Definition type_keyword (v : str) : option dkind :=
  if str_eqb v (b "scalar") then Some KScalar
  else if str_eqb v (b "type") then Some KObject
  else if str_eqb v (b "interface") then Some KInterface
  else if str_eqb v (b "union") then Some KUnion
  else if str_eqb v (b "enum") then Some KEnum
  else if str_eqb v (b "input") then Some KInputObject
  else None.

Definition parseSchemaExtension (d : dev) (fuel : nat) : prog schemadef :=
  _ <- expectKeyword (b "schema") ;;
  p <- peekPos ;;
  dirs <- parseDirectives fuel true ;;
  ops <- some BraceL BraceR (parseOperationTypeDefinition d) ;;
  let x := mkSchemaDef [] dirs ops p in
  if nil_ dirs && nil_ ops then unexpectedError ;;; Ret x else Ret x.

Definition directive_locations : list str :=
  [b "QUERY"; b "MUTATION"; b "SUBSCRIPTION"; b "FIELD"; b "FRAGMENT_DEFINITION"; b "FRAGMENT_SPREAD";
   b "INLINE_FRAGMENT"; b "VARIABLE_DEFINITION"; b "SCHEMA"; b "SCALAR"; b "OBJECT"; b "FIELD_DEFINITION";
   b "ARGUMENT_DEFINITION"; b "INTERFACE"; b "UNION"; b "ENUM"; b "ENUM_VALUE"; b "INPUT_OBJECT";
   b "INPUT_FIELD_DEFINITION"].

Definition parseDirectiveLocation : prog str :=
  tok <- expect Name ;;
  if existsb (str_eqb tok.(tval)) directive_locations then Ret tok.(tval)
  else ErrorAt tok ;;; Ret [].

Definition parseDirectiveDefinition (fuel : nat) (desc : str) : prog dirdef :=
  _ <- expectKeyword (b "directive") ;;
  _ <- expect At ;;
  p <- peekPos ;;
  n <- parseName ;;
  args <- parseArgumentDefs fuel ;;
  pk <- Peek ;;
  rep <- (if is_kw pk (b "repeatable") then _ <- skip Name ;; Ret true else Ret false) ;;
  _ <- expectKeyword (b "on") ;;
  _ <- skip Pipe ;;
  l0 <- parseDirectiveLocation ;;
  locs <- sep_loop Pipe parseDirectiveLocation ;;
  Ret (mkDirDef desc n args (l0 :: locs) rep p).

(* what one iteration of the document loop contributes *)
Inductive sitem :=
| IDef (x : definition) | IExt (x : definition) | ISchema (x : schemadef) | ISchemaExt (x : schemadef)
| IDir (x : dirdef) | INone.

(* Some item = continue the loop; None = leave it *)
Definition parseSchemaDocument_body (d : dev) (fuel : nat) : prog (option sitem) :=
  tok <- Peek ;;
  if kind_eqb tok.(tkind) EOF then Ret None else
  e <- HasErr ;;
  if e then Ret None else
  pk <- Peek ;;
  '(desc, hasdesc) <- (if kind_eqb pk.(tkind) BlockString || kind_eqb pk.(tkind) String_
                       then parseDescription else Ret ([], false)) ;;
  tk <- Peek ;;
  if negb (kind_eqb tk.(tkind) Name) then unexpectedError ;;; Ret None
  else
    match type_keyword tk.(tval) with
    | Some k => x <- parseTypeDef d fuel k tk.(tval) false desc ;; Ret (Some (IDef x))
    | None =>
      if str_eqb tk.(tval) (b "schema") then x <- parseSchemaDefinition d fuel desc ;; Ret (Some (ISchema x))
      else if str_eqb tk.(tval) (b "directive") then x <- parseDirectiveDefinition fuel desc ;; Ret (Some (IDir x))
      else if str_eqb tk.(tval) (b "extend") then
        let bad := if d F_S6 then negb (nil_ desc) else hasdesc in
        _ <- (if bad then pv <- Prev ;; ErrorAt pv else Ret tt) ;;
        (* parseTypeSystemExtension *)
        _ <- expectKeyword (b "extend") ;;
        ek <- Peek ;;
        if str_eqb ek.(tval) (b "schema") then x <- parseSchemaExtension d fuel ;; Ret (Some (ISchemaExt x))
        else
          match type_keyword ek.(tval) with
          | Some k => x <- parseTypeDef d fuel k ek.(tval) true [] ;; Ret (Some (IExt x))
          | None => unexpectedError ;;; Ret (Some INone)
          end
      else unexpectedError ;;; Ret None
    end.

Definition set_builtin (bi : bool) (x : definition) : definition :=
  mkDef x.(df_kind) x.(df_desc) x.(df_name) x.(df_dirs) x.(df_ifaces) x.(df_fields) x.(df_types)
        x.(df_enums) x.(df_pos) bi.

Fixpoint collect (items : list sitem) (doc : sdoc) : sdoc :=
  match items with
  | [] => doc
  | it :: tl =>
    let doc' :=
        match it with
        | IDef x => mkSDoc doc.(s_schema) doc.(s_schemaext) doc.(s_dirs) (doc.(s_defs) ++ [x]) doc.(s_exts) doc.(s_pos)
        | IExt x => mkSDoc doc.(s_schema) doc.(s_schemaext) doc.(s_dirs) doc.(s_defs) (doc.(s_exts) ++ [x]) doc.(s_pos)
        | ISchema x => mkSDoc (doc.(s_schema) ++ [x]) doc.(s_schemaext) doc.(s_dirs) doc.(s_defs) doc.(s_exts) doc.(s_pos)
        | ISchemaExt x => mkSDoc doc.(s_schema) (doc.(s_schemaext) ++ [x]) doc.(s_dirs) doc.(s_defs) doc.(s_exts) doc.(s_pos)
        | IDir x => mkSDoc doc.(s_schema) doc.(s_schemaext) (doc.(s_dirs) ++ [x]) doc.(s_defs) doc.(s_exts) doc.(s_pos)
        | INone => doc
        end in
    collect tl doc'
  end.

Definition sdoc_empty (doc : sdoc) : bool :=
  nil_ doc.(s_schema) && nil_ doc.(s_schemaext) && nil_ doc.(s_dirs) && nil_ doc.(s_defs) && nil_ doc.(s_exts).

Definition parseSchemaDocument (d : dev) (fuel : nat) : prog sdoc :=
  p <- peekPos ;;
  items <- Loop (parseSchemaDocument_body d fuel) ;;
  let doc := collect items (mkSDoc [] [] [] [] [] (Some p)) in
  e <- HasErr ;;
  if sdoc_empty doc && negb (d F_S7) && negb e then unexpectedError ;;; Ret doc else Ret doc.

Definition parseSchemaWith (d : dev) (fuel : nat) (limit : N) (srcix : N) (builtin : bool) (input : str)
  : pres sdoc * pst :=
  let '(doc, s) := run d (parseSchemaDocument d fuel) fuel (pst_init input limit srcix) in
  match perr_ s with
  | Some e => (PErr e, s)
  | None =>
    (POk (mkSDoc doc.(s_schema) doc.(s_schemaext) doc.(s_dirs) (map (set_builtin builtin) doc.(s_defs))
                 (map (set_builtin builtin) doc.(s_exts)) doc.(s_pos)), s)
  end.

Definition parseSchema (d : dev) (limit : N) (srcix : N) (builtin : bool) (input : str) : pres sdoc :=
  fst (parseSchemaWith d (query_fuel input) limit srcix builtin input).

Definition merge_sdoc (a c : sdoc) : sdoc :=
  mkSDoc (a.(s_schema) ++ c.(s_schema)) (a.(s_schemaext) ++ c.(s_schemaext)) (a.(s_dirs) ++ c.(s_dirs))
         (a.(s_defs) ++ c.(s_defs)) (a.(s_exts) ++ c.(s_exts)) a.(s_pos).

(* ParseSchemas: sources = (builtin, input); first error wins *)
Fixpoint parseSchemas_from (d : dev) (limit : N) (ix : N) (srcs : list (bool * str)) (acc : sdoc) : pres sdoc :=
  match srcs with
  | [] => POk acc
  | (bi, inp) :: tl =>
    match parseSchema d limit ix bi inp with
    | PErr e => PErr e
    | POk doc => parseSchemas_from d limit (ix + 1)%N tl (merge_sdoc acc doc)
    end
  end.
Definition parseSchemas (d : dev) (limit : N) (srcs : list (bool * str)) : pres sdoc :=
  parseSchemas_from d limit 0 srcs sdoc0.

Definition dump_parse_schema (d : dev) (wp : bool) (limit : N) (builtin : bool) (input : str) : str :=
  match parseSchema d limit 0 builtin input with
  | POk doc => b "ok " ++ dump_sdoc wp doc
  | PErr e => dump_perr e
  end.

(* ParseSchemas / ParseSchemasWithLimit: each source is given as one flag byte ('1' = built-in) followed by its text *)
Definition dump_parse_schemas (d : dev) (wp : bool) (limit : N) (srcs : list str) : str :=
  let split (s : str) : bool * str := match s with c :: tl => ((c =? 49)%N, tl) | [] => (false, []) end in
  match parseSchemas d limit (map split srcs) with
  | POk doc => b "ok " ++ dump_sdoc wp doc
  | PErr e => dump_perr e
  end.
