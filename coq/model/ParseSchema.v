(* ParseSchema.v — model of parser/schema.go. *)
From GQL.model Require Import Base Utf8 Lexer Ast Parser ParseQuery.
Open Scope Z_scope.

(* description text and whether a description token was present *)
Definition parseDescription (d : dev) (s : pst) : (str * bool) * pst :=
  let '(tok, s1) := peek d s in
  if kind_eqb tok.(tkind) BlockString || kind_eqb tok.(tkind) String_ then
    let '(t, s2) := next d s1 in ((t.(tval), true), s2)
  else (([], false), s1).

Definition parseOperationTypeDefinition (d : dev) (s : pst) : optypedef * pst :=
  let '(p, s1) := peekPos d s in
  let '(op, s2) := parseOperationType d s1 in
  let '(_, s3) := expect d Colon s2 in
  let '(n, s4) := parseName d s3 in
  (mkOpTypeDef op n p, s4).

Definition parseSchemaDefinition (d : dev) (fuel : nat) (desc : str) (s : pst) : schemadef * pst :=
  let '(_, s1) := expectKeyword d (b "schema") s in
  let '(p, s2) := peekPos d s1 in
  let '(dirs, s3) := parseDirectives d fuel true s2 in
  let '(tok, s4) := peek d s3 in
  if negb (d F_S1) && negb (kind_eqb tok.(tkind) BraceL) then
    (mkSchemaDef desc dirs [] p, error_at s4 tok)
  else
    let '(ops, s5) := some d (parseOperationTypeDefinition d) fuel BraceL BraceR s4 in
    (mkSchemaDef desc dirs ops p, s5).

Definition tok_is_implements (d : dev) (tok : token) : bool :=
  str_eqb tok.(tval) (b "implements") && (d F_S3 || kind_eqb tok.(tkind) Name).

(* for p.skip(sep) && p.err == nil { append(parseName()) } *)
Fixpoint sep_names_loop (d : dev) (fuel : nat) (sep : kind) (s : pst) (acc : list str) : list str * pst :=
  match fuel with
  | O => stall (rev acc) s
  | S f =>
    let '(has, s1) := skip d sep s in
    if has && negb (has_err s1) then
      let '(n, s2) := parseName d s1 in sep_names_loop d f sep s2 (n :: acc)
    else (rev acc, s1)
  end.

Definition parseImplementsInterfaces (d : dev) (fuel : nat) (s : pst) : list str * pst :=
  let '(tok, s1) := peek d s in
  if tok_is_implements d tok then
    let '(_, s2) := next d s1 in
    let '(_, s3) := skip d Amp s2 in
    let '(n, s4) := parseName d s3 in
    sep_names_loop d fuel Amp s4 [n]
  else ([], s1).

Definition parseUnionMemberTypes (d : dev) (fuel : nat) (s : pst) : list str * pst :=
  let '(has, s1) := skip d Equals s in
  if has then
    let '(_, s2) := skip d Pipe s1 in
    let '(n, s3) := parseName d s2 in
    sep_names_loop d fuel Pipe s3 [n]
  else ([], s1).

Definition parseArgumentDef (d : dev) (fuel : nat) (s : pst) : argdef * pst :=
  let '(p, s1) := peekPos d s in
  let '((desc, _), s2) := parseDescription d s1 in
  let '(_, s3) := peek d s2 in
  let '(n, s4) := parseName d s3 in
  let '(_, s5) := expect d Colon s4 in
  let '(t, s6) := parseTypeReference d fuel s5 in
  let '(hasdef, s7) := skip d Equals s6 in
  let '(dv, s8) := if hasdef then let '(x, st) := parseValueLiteral d fuel true s7 in (Some x, st)
                   else (None, s7) in
  let '(dirs, s9) := parseDirectives d fuel true s8 in
  (mkArgDef desc n dv t dirs p, s9).

Definition parseArgumentDefs (d : dev) (fuel : nat) (s : pst) : list argdef * pst :=
  some d (parseArgumentDef d fuel) fuel ParenL ParenR s.

Definition parseFieldDefinition (d : dev) (fuel : nat) (s : pst) : fielddef * pst :=
  let '(p, s1) := peekPos d s in
  let '((desc, _), s2) := parseDescription d s1 in
  let '(_, s3) := peek d s2 in
  let '(n, s4) := parseName d s3 in
  let '(args, s5) := parseArgumentDefs d fuel s4 in
  let '(_, s6) := expect d Colon s5 in
  let '(t, s7) := parseTypeReference d fuel s6 in
  let '(dirs, s8) := parseDirectives d fuel true s7 in
  (mkFieldDef desc n args None t dirs p, s8).

Definition parseInputValueDef (d : dev) (fuel : nat) (s : pst) : fielddef * pst :=
  let '(p, s1) := peekPos d s in
  let '((desc, _), s2) := parseDescription d s1 in
  let '(_, s3) := peek d s2 in
  let '(n, s4) := parseName d s3 in
  let '(_, s5) := expect d Colon s4 in
  let '(t, s6) := parseTypeReference d fuel s5 in
  let '(hasdef, s7) := skip d Equals s6 in
  let '(dv, s8) := if hasdef then let '(x, st) := parseValueLiteral d fuel true s7 in (Some x, st)
                   else (None, s7) in
  let '(dirs, s9) := parseDirectives d fuel true s8 in
  (mkFieldDef desc n [] dv t dirs p, s9).

Definition parseEnumValueDefinition (d : dev) (fuel : nat) (s : pst) : enumval * pst :=
  let '(p, s1) := peekPos d s in
  let '((desc, _), s2) := parseDescription d s1 in
  let '(_, s3) := peek d s2 in
  let '(n, s4) := parseName d s3 in
  let '(dirs, s5) := parseDirectives d fuel true s4 in
  (mkEnumVal desc n dirs p, s5).

Definition parseFieldsDefinition (d : dev) (fuel : nat) (s : pst) : list fielddef * pst :=
  some d (parseFieldDefinition d fuel) fuel BraceL BraceR s.
Definition parseInputFieldsDefinition (d : dev) (fuel : nat) (s : pst) : list fielddef * pst :=
  some d (parseInputValueDef d fuel) fuel BraceL BraceR s.
Definition parseEnumValuesDefinition (d : dev) (fuel : nat) (s : pst) : list enumval * pst :=
  some d (parseEnumValueDefinition d fuel) fuel BraceL BraceR s.

Definition def0 : definition := mkDef KScalar [] [] [] [] [] [] [] pos0 false.

(* the six type definitions and their extensions share this shape;
   ext = true for `extend ...` (no description, emptiness check) *)
Definition parseTypeDef (d : dev) (fuel : nat) (k : dkind) (kw : str) (ext : bool) (desc : str) (s : pst)
  : definition * pst :=
  let '(_, s1) := expectKeyword d kw s in
  let '(p, s2) := peekPos d s1 in
  let '(n, s3) := parseName d s2 in
  match k with
  | KScalar =>
    let '(dirs, s4) := parseDirectives d fuel true s3 in
    let s5 := if ext && match dirs with [] => true | _ => false end then unexpectedError d s4 else s4 in
    (mkDef k desc n dirs [] [] [] [] p false, s5)
  | KObject =>
    let '(ifs, s4) := parseImplementsInterfaces d fuel s3 in
    let '(dirs, s5) := parseDirectives d fuel true s4 in
    let '(flds, s6) := parseFieldsDefinition d fuel s5 in
    let empty := match ifs, dirs, flds with [], [], [] => true | _, _, _ => false end in
    let s7 := if ext && empty then unexpectedError d s6 else s6 in
    (mkDef k desc n dirs ifs flds [] [] p false, s7)
  | KInterface =>
    let '(ifs, s4) := if ext && d F_S4 then ([], s3) else parseImplementsInterfaces d fuel s3 in
    let '(dirs, s5) := parseDirectives d fuel true s4 in
    let '(flds, s6) := parseFieldsDefinition d fuel s5 in
    let empty := match ifs, dirs, flds with [], [], [] => true | _, _, _ => false end in
    let s7 := if ext && empty then unexpectedError d s6 else s6 in
    (mkDef k desc n dirs ifs flds [] [] p false, s7)
  | KUnion =>
    let '(dirs, s4) := parseDirectives d fuel true s3 in
    let '(tys, s5) := parseUnionMemberTypes d fuel s4 in
    let empty := match dirs, tys with [], [] => true | _, _ => false end in
    let s6 := if ext && empty then unexpectedError d s5 else s5 in
    (mkDef k desc n dirs [] [] tys [] p false, s6)
  | KEnum =>
    let '(dirs, s4) := parseDirectives d fuel true s3 in
    let '(vals, s5) := parseEnumValuesDefinition d fuel s4 in
    let empty := match dirs, vals with [], [] => true | _, _ => false end in
    let s6 := if ext && empty then unexpectedError d s5 else s5 in
    (mkDef k desc n dirs [] [] [] vals p false, s6)
  | KInputObject =>
    let '(dirs, s4) := parseDirectives d fuel (negb (ext && d F_S5)) s3 in
    let '(flds, s5) := parseInputFieldsDefinition d fuel s4 in
    let empty := match dirs, flds with [], [] => true | _, _ => false end in
    let s6 := if ext && empty then unexpectedError d s5 else s5 in
    (mkDef k desc n dirs [] flds [] [] p false, s6)
  end.

Definition type_keyword (v : str) : option dkind :=
  if str_eqb v (b "scalar") then Some KScalar
  else if str_eqb v (b "type") then Some KObject
  else if str_eqb v (b "interface") then Some KInterface
  else if str_eqb v (b "union") then Some KUnion
  else if str_eqb v (b "enum") then Some KEnum
  else if str_eqb v (b "input") then Some KInputObject
  else None.

Definition parseSchemaExtension (d : dev) (fuel : nat) (s : pst) : schemadef * pst :=
  let '(_, s1) := expectKeyword d (b "schema") s in
  let '(p, s2) := peekPos d s1 in
  let '(dirs, s3) := parseDirectives d fuel true s2 in
  let '(ops, s4) := some d (parseOperationTypeDefinition d) fuel BraceL BraceR s3 in
  let empty := match dirs, ops with [], [] => true | _, _ => false end in
  let s5 := if empty then unexpectedError d s4 else s4 in
  (mkSchemaDef [] dirs ops p, s5).

Definition directive_locations : list str :=
  [b "QUERY"; b "MUTATION"; b "SUBSCRIPTION"; b "FIELD"; b "FRAGMENT_DEFINITION"; b "FRAGMENT_SPREAD";
   b "INLINE_FRAGMENT"; b "VARIABLE_DEFINITION"; b "SCHEMA"; b "SCALAR"; b "OBJECT"; b "FIELD_DEFINITION";
   b "ARGUMENT_DEFINITION"; b "INTERFACE"; b "UNION"; b "ENUM"; b "ENUM_VALUE"; b "INPUT_OBJECT";
   b "INPUT_FIELD_DEFINITION"].

Definition parseDirectiveLocation (d : dev) (s : pst) : str * pst :=
  let '(tok, s1) := expect d Name s in
  if existsb (str_eqb tok.(tval)) directive_locations then (tok.(tval), s1)
  else ([], error_at s1 tok).

Fixpoint dirlocs_loop (d : dev) (fuel : nat) (s : pst) (acc : list str) : list str * pst :=
  match fuel with
  | O => stall (rev acc) s
  | S f =>
    let '(has, s1) := skip d Pipe s in
    if has && negb (has_err s1) then
      let '(n, s2) := parseDirectiveLocation d s1 in dirlocs_loop d f s2 (n :: acc)
    else (rev acc, s1)
  end.

Definition parseDirectiveDefinition (d : dev) (fuel : nat) (desc : str) (s : pst) : dirdef * pst :=
  let '(_, s1) := expectKeyword d (b "directive") s in
  let '(_, s2) := expect d At s1 in
  let '(p, s3) := peekPos d s2 in
  let '(n, s4) := parseName d s3 in
  let '(args, s5) := parseArgumentDefs d fuel s4 in
  let '(pk, s6) := peek d s5 in
  let '(rep, s7) := if is_kw pk (b "repeatable") then (true, snd (skip d Name s6)) else (false, s6) in
  let '(_, s8) := expectKeyword d (b "on") s7 in
  let '(_, s9) := skip d Pipe s8 in
  let '(l0, s10) := parseDirectiveLocation d s9 in
  let '(locs, s11) := dirlocs_loop d fuel s10 [l0] in
  (mkDirDef desc n args locs rep p, s11).

Definition add_ext (doc : sdoc) (x : definition) : sdoc :=
  mkSDoc doc.(s_schema) doc.(s_schemaext) doc.(s_dirs) doc.(s_defs) (x :: doc.(s_exts)) doc.(s_pos).

(* accumulators are kept reversed and put in order at the end *)
Fixpoint parseSchemaDocument_loop (d : dev) (loopfuel fuel : nat) (s : pst) (doc : sdoc) : option sdoc * pst :=
  match loopfuel with
  | O => stall None s
  | S lf =>
    let '(tok, s1) := peek d s in
    if kind_eqb tok.(tkind) EOF then (Some doc, s1)
    else if has_err s1 then (None, s1)
    else
      let '(pk, s2) := peek d s1 in
      let '((desc, hasdesc), s3) :=
          if kind_eqb pk.(tkind) BlockString || kind_eqb pk.(tkind) String_ then parseDescription d s2
          else (([], false), s2) in
      let '(tk, s4) := peek d s3 in
      if negb (kind_eqb tk.(tkind) Name) then (Some doc, unexpectedError d s4)
      else
        match type_keyword tk.(tval) with
        | Some k =>
          let '(x, s5) := parseTypeDef d fuel k tk.(tval) false desc s4 in
          parseSchemaDocument_loop d lf fuel s5
            (mkSDoc doc.(s_schema) doc.(s_schemaext) doc.(s_dirs) (x :: doc.(s_defs)) doc.(s_exts) doc.(s_pos))
        | None =>
          if str_eqb tk.(tval) (b "schema") then
            let '(x, s5) := parseSchemaDefinition d fuel desc s4 in
            parseSchemaDocument_loop d lf fuel s5
              (mkSDoc (x :: doc.(s_schema)) doc.(s_schemaext) doc.(s_dirs) doc.(s_defs) doc.(s_exts) doc.(s_pos))
          else if str_eqb tk.(tval) (b "directive") then
            let '(x, s5) := parseDirectiveDefinition d fuel desc s4 in
            parseSchemaDocument_loop d lf fuel s5
              (mkSDoc doc.(s_schema) doc.(s_schemaext) (x :: doc.(s_dirs)) doc.(s_defs) doc.(s_exts) doc.(s_pos))
          else if str_eqb tk.(tval) (b "extend") then
            let bad := if d F_S6 then negb (match desc with [] => true | _ => false end) else hasdesc in
            let s5 := if bad then error_at s4 (prev s4) else s4 in
            (* parseTypeSystemExtension *)
            let '(_, s6) := expectKeyword d (b "extend") s5 in
            let '(ek, s7) := peek d s6 in
            if str_eqb ek.(tval) (b "schema") then
              let '(x, s8) := parseSchemaExtension d fuel s7 in
              parseSchemaDocument_loop d lf fuel s8
                (mkSDoc doc.(s_schema) (x :: doc.(s_schemaext)) doc.(s_dirs) doc.(s_defs) doc.(s_exts) doc.(s_pos))
            else
              match type_keyword ek.(tval) with
              | Some k =>
                let '(x, s8) := parseTypeDef d fuel k ek.(tval) true [] s7 in
                parseSchemaDocument_loop d lf fuel s8 (add_ext doc x)
              | None => parseSchemaDocument_loop d lf fuel (unexpectedError d s7) doc
              end
          else (None, unexpectedError d s4)
        end
  end.

Definition set_builtin (bi : bool) (x : definition) : definition :=
  mkDef x.(df_kind) x.(df_desc) x.(df_name) x.(df_dirs) x.(df_ifaces) x.(df_fields) x.(df_types)
        x.(df_enums) x.(df_pos) bi.

Definition parseSchemaDocument (d : dev) (fuel : nat) (s : pst) : option sdoc * pst :=
  let '(p, s1) := peekPos d s in
  let '(od, s2) := parseSchemaDocument_loop d fuel fuel s1 (mkSDoc [] [] [] [] [] (Some p)) in
  match od with
  | None => (None, s2)
  | Some doc =>
    let doc' := mkSDoc (rev doc.(s_schema)) (rev doc.(s_schemaext)) (rev doc.(s_dirs))
                       (rev doc.(s_defs)) (rev doc.(s_exts)) doc.(s_pos) in
    let isempty := match doc'.(s_schema), doc'.(s_schemaext), doc'.(s_dirs), doc'.(s_defs), doc'.(s_exts) with
                   | [], [], [], [], [] => true | _, _, _, _, _ => false end in
    if isempty && negb (d F_S7) && negb (has_err s2) then (Some doc', unexpectedError d s2)
    else (Some doc', s2)
  end.

Definition parseSchemaWith (d : dev) (fuel : nat) (limit : N) (srcix : N) (builtin : bool) (input : str)
  : pres sdoc * pst :=
  let '(od, s) := parseSchemaDocument d fuel (pst_init input limit srcix) in
  match perr_ s with
  | Some e => (PErr e, s)
  | None =>
    match od with
    | None => (PErr PStall, s)  (* nil document without an error: proved unreachable *)
    | Some doc =>
      (POk (mkSDoc doc.(s_schema) doc.(s_schemaext) doc.(s_dirs) (map (set_builtin builtin) doc.(s_defs))
                   (map (set_builtin builtin) doc.(s_exts)) doc.(s_pos)), s)
    end
  end.

Definition parseSchema (d : dev) (limit : N) (srcix : N) (builtin : bool) (input : str) : pres sdoc :=
  fst (parseSchemaWith d (query_fuel input) limit srcix builtin input).

Definition merge_sdoc (a c : sdoc) : sdoc :=
  mkSDoc (a.(s_schema) ++ c.(s_schema)) (a.(s_schemaext) ++ c.(s_schemaext)) (a.(s_dirs) ++ c.(s_dirs))
         (a.(s_defs) ++ c.(s_defs)) (a.(s_exts) ++ c.(s_exts)) a.(s_pos).

(* ParseSchemas: sources = (builtin, input); first error wins *)
Fixpoint parseSchemas_from (d : dev) (limit : N) (ix : N) (srcs : list (bool * str)) (acc : sdoc) : pres sdoc :=
  match srcs with
  | [] => POk acc
  | (bi, inp) :: tl =>
    match parseSchema d limit ix bi inp with
    | PErr e => PErr e
    | POk doc => parseSchemas_from d limit (ix + 1)%N tl (merge_sdoc acc doc)
    end
  end.
Definition parseSchemas (d : dev) (limit : N) (srcs : list (bool * str)) : pres sdoc :=
  parseSchemas_from d limit 0 srcs sdoc0.

Definition dump_parse_schema (d : dev) (wp : bool) (limit : N) (builtin : bool) (input : str) : str :=
  match parseSchema d limit 0 builtin input with
  | POk doc => b "ok " ++ dump_sdoc wp doc
  | PErr e => dump_perr e
  end.
