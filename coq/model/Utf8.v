(* Utf8.v — model of Go's utf8.DecodeRuneInString and utf8.AppendRune
   (bytes.Buffer.WriteRune).  Div/mod arithmetic only. *)
From GQL.model Require Import Base.
Open Scope N_scope.

Definition RuneError : N := 65533.

Definition is_cont (c : N) : bool := in_range 128 191 c.

(* (rune, width in bytes); width 0 only for the empty input *)
Definition decode_rune (l : str) : N * nat :=
  match l with
  | [] => (RuneError, 0%nat)
  | b0 :: tl =>
    if b0 <? 128 then (b0, 1%nat)
    else if b0 <? 194 then (RuneError, 1%nat)
    else if b0 <? 224 then
      match tl with
      | b1 :: _ => if is_cont b1 then ((b0 - 192) * 64 + (b1 - 128), 2%nat) else (RuneError, 1%nat)
      | _ => (RuneError, 1%nat)
      end
    else if b0 <? 240 then
      match tl with
      | b1 :: b2 :: _ =>
        let lo := if b0 =? 224 then 160 else 128 in
        let hi := if b0 =? 237 then 159 else 191 in
        if in_range lo hi b1 && is_cont b2
        then ((b0 - 224) * 4096 + (b1 - 128) * 64 + (b2 - 128), 3%nat)
        else (RuneError, 1%nat)
      | _ => (RuneError, 1%nat)
      end
    else if b0 <? 245 then
      match tl with
      | b1 :: b2 :: b3 :: _ =>
        let lo := if b0 =? 240 then 144 else 128 in
        let hi := if b0 =? 244 then 143 else 191 in
        if in_range lo hi b1 && is_cont b2 && is_cont b3
        then ((b0 - 240) * 262144 + (b1 - 128) * 4096 + (b2 - 128) * 64 + (b3 - 128), 4%nat)
        else (RuneError, 1%nat)
      | _ => (RuneError, 1%nat)
      end
    else (RuneError, 1%nat)
  end.

Definition encode_rune (r : N) : str :=
  if r <? 128 then [r]
  else if r <? 2048 then [192 + r / 64; 128 + r mod 64]
  else if (in_range 55296 57343 r) || (1114111 <? r) then [239; 191; 189]
  else if r <? 65536 then [224 + r / 4096; 128 + (r / 64) mod 64; 128 + r mod 64]
  else [240 + r / 262144; 128 + (r / 4096) mod 64; 128 + (r / 64) mod 64; 128 + r mod 64].

(* number of runes Go's `for range` / utf8.RuneCountInString sees *)
Fixpoint rune_count_fuel (fuel : nat) (l : str) : N :=
  match fuel with
  | O => 0
  | S f => match l with
           | [] => 0
           | _ => 1 + rune_count_fuel f (skipn (snd (decode_rune l)) l)
           end
  end.
Definition rune_count (l : str) : N := rune_count_fuel (length l) l.
