(* Vars.v — model of validator/vars.go (VariableValues) over JSON-like Go values, and of
   ast/argmap.go (arg2map) with ast.Value.Value. *)
From GQL.model Require Import Base Utf8 Lexer Ast Schema Walk Rules2.
Open Scope N_scope.

(* Go values: kinds 0 int, 1 int32, 2 int64 for integers; 0 float32, 1 float64 for floats.
   A float carries the decimal text Go prints for it; a slice knows whether its element type is
   interface{} (JSON-like input) or a concrete type (made by single-value coercion). *)
Inductive gval :=
| GNil | GBool (x : bool) | GInt (kind : N) (z : Z) | GFloat (kind : N) (text : str)
| GJsonNumber (s : str) | GString (s : str)
| GSlice (typed : bool) (items : list gval) | GMap (m : list (str * gval)).

Definition verror := unit.
Inductive vres (A : Type) := VOk (a : A) | VErr | VPanic.
Arguments VOk {A} a. Arguments VErr {A}. Arguments VPanic {A}.

(* ---- decimal strings ---- *)
Definition all_digits (l : str) : bool := negb (nil_ l) && forallb is_digit l.
(* strconv.ParseInt(s, 10, 64) succeeds: optional sign, digits, in range *)
Definition valid_int_string (s : str) : bool :=
  let body := match s with 45 :: tl => tl | 43 :: tl => tl | _ => s end in
  all_digits body &&
  negb (int_out_of_range (match s with 43 :: tl => tl | _ => s end) 64).

(* strconv.ParseFloat(s, 64) succeeds, for the decimal forms the generator produces
   (Go also accepts hex floats, inf, nan, underscores: not generated, not modelled) *)
Definition valid_float_string (s : str) : bool :=
  let body := match s with 45 :: tl => tl | 43 :: tl => tl | _ => s end in
  let ip := count_digits body in
  let r1 := drop_digits body in
  let '(fp, r2) := match r1 with 46 :: tl => (count_digits tl, drop_digits tl) | _ => (O, r1) end in
  let mant_ok := negb ((ip + fp =? 0)%nat) in
  let exp_ok := match r2 with
                | [] => true
                | c :: tl => ((c =? 101) || (c =? 69)) &&
                             all_digits (match tl with 45 :: t => t | 43 :: t => t | _ => tl end)
                end in
  mant_ok && exp_ok && negb (float_overflow (match s with 43 :: tl => tl | _ => s end)).

(* the text Go prints (%v, shortest form) for a float literal of at most 15 significant digits
   and decimal exponent between -4 and 20: plain decimal notation without trailing zeros *)
Fixpoint strip_leading_zeros (l : str) : str :=
  match l with 48 :: tl => strip_leading_zeros tl | _ => l end.
Definition strip_trailing_zeros (l : str) : str := rev (strip_leading_zeros (rev l)).
Fixpoint take_digits_ (l : str) : str :=
  match l with c :: tl => if is_digit c then c :: take_digits_ tl else [] | [] => [] end.
Definition float_text (raw : str) : str :=
  let '(neg, body) := match raw with 45 :: tl => (true, tl) | _ => (false, raw) end in
  let ip := take_digits_ body in
  let r1 := drop_digits body in
  let '(fp, r2) := match r1 with 46 :: tl => (take_digits_ tl, drop_digits tl) | _ => ([], r1) end in
  let e10 : Z := match r2 with
                 | c :: tl => if (c =? 101) || (c =? 69) then
                                match tl with 45 :: t2 => (- digits_val t2 0)%Z | 43 :: t2 => digits_val t2 0 | _ => digits_val tl 0 end
                              else 0%Z
                 | [] => 0%Z end in
  let all := ip ++ fp in
  let lead := (length all - length (strip_leading_zeros all))%nat in
  let ds := strip_trailing_zeros (strip_leading_zeros all) in
  (* decimal point position relative to ds *)
  let p : Z := (Z.of_nat (length ip) + e10 - Z.of_nat lead)%Z in
  let body' :=
      match ds with
      | [] => [48]
      | _ =>
        if (p <=? 0)%Z then 48 :: 46 :: repeat 48 (Z.to_nat (- p)) ++ ds
        else if (Z.of_nat (length ds) <=? p)%Z then ds ++ repeat 48 (Z.to_nat (p - Z.of_nat (length ds)))
        else firstn (Z.to_nat p) ds ++ 46 :: skipn (Z.to_nat p) ds
      end in
  (if neg && negb (nil_ ds) then [45] else (if neg then [45] else [])) ++ body'.

Section Vars.
  Variable d : dev.
  Variable s : schema.
  (* json.Number -> float64 text: supplied for the literals the generator uses *)
  Variable jsonnum_float : str -> option str.

  Definition is_intkind (v : gval) : bool := match v with GInt _ _ => true | _ => false end.
  Definition is_floatkind (v : gval) : bool := match v with GFloat _ _ => true | _ => false end.
  Definition is_string (v : gval) : bool := match v with GString _ | GJsonNumber _ => true | _ => false end.
  Definition string_of (v : gval) : str := match v with GString x | GJsonNumber x => x | _ => [] end.

  (* validateVarType; the value is never GNil here except where the code receives the zero Value *)
  Fixpoint validateVarType (fuel : nat) (t : type_) (v : gval) {struct fuel} : vres gval :=
    match fuel with
    | O => VPanic
    | S f =>
      match t with
      | ListT e _ _ =>
        match v with
        | GNil => VOk GNil
        | _ =>
          let '(typed, items) := match v with
                                 | GSlice ty its => (ty, its)
                                 | _ => (d F_C2, [v])
                                 end in
          let fix go (its : list gval) : vres (list gval) :=
              match its with
              | [] => VOk []
              | it :: tl =>
                (* an interface element that is nil *)
                if (match it with GNil => true | _ => false end) && negb typed && type_nonnull e then VErr else
                match validateVarType f e it with
                | VOk cv =>
                  (* stored back only when assignable to the element type *)
                  let keep := match cv with
                              | GNil => it
                              | GSlice _ _ => if typed then it else cv
                              | _ => cv
                              end in
                  match go tl with VOk r => VOk (keep :: r) | VErr => VErr | VPanic => VPanic end
                | VErr => VErr
                | VPanic => VPanic
                end
              end in
          match go items with
          | VOk r => VOk (GSlice typed r)
          | VErr => VErr
          | VPanic => VPanic
          end
        end
      | NamedT n nn _ =>
        match stype s n with
        | None => VPanic
        | Some def =>
          match v with
          | GNil => if nn then VPanic (* val.Type() on the zero Value *) else VOk GNil
          | _ =>
            match def.(df_kind) with
            | KEnum =>
              if is_intkind v then VErr   (* val.String() of an int is never a value name *)
              else if is_string v then
                if existsb (fun ev => str_eqb ev.(ev_name) (string_of v)) def.(df_enums) then VOk v else VErr
              else VErr
            | KScalar =>
              if str_eqb n (b "Int") then
                if is_intkind v || is_floatkind v || (is_string v && valid_int_string (string_of v)) then VOk v else VErr
              else if str_eqb n (b "Float") then
                if is_intkind v || is_floatkind v || (is_string v && valid_float_string (string_of v)) then VOk v else VErr
              else if str_eqb n (b "String") then if is_string v then VOk v else VErr
              else if str_eqb n (b "Boolean") then (match v with GBool _ => VOk v | _ => VErr end)
              else if str_eqb n (b "ID") then if is_intkind v || is_string v then VOk v else VErr
              else VOk v
            | KInputObject =>
              match v with
              | GMap m =>
                if negb (forallb (fun kv => str_eqb (fst kv) (b "__typename") || is_some (find_field (fst kv) def.(df_fields))) m)
                then VErr else
                let fix fields (fds : list fielddef) (m : list (str * gval)) : vres (list (str * gval)) :=
                    match fds with
                    | [] => VOk m
                    | fd :: tl =>
                      match lookup fd.(fd_name) m with
                      | None =>
                        if type_nonnull fd.(fd_type) then
                          match fd.(fd_default) with
                          | Some dv => if value_conv_error dv then VErr else fields tl m
                          | None => VErr
                          end
                        else fields tl m
                      | Some GNil => if type_nonnull fd.(fd_type) then VErr else fields tl m
                      | Some fv =>
                        match validateVarType f fd.(fd_type) fv with
                        | VOk cv => fields tl (update fd.(fd_name) cv m)
                        | VErr => VErr
                        | VPanic => VPanic
                        end
                      end
                    end in
                match fields def.(df_fields) m with
                | VOk m' => VOk (GMap m')
                | VErr => VErr
                | VPanic => VPanic
                end
              | _ => VErr
              end
            | _ => VPanic
            end
          end
        end
      end
    end.

  (* ast.Value.Value(vars) for constant values (defaults): literal -> Go value *)
  Fixpoint const_value (v : value) : vres gval :=
    match v with
    | mkValue k raw ch _ =>
      match k with
      | VVar => VOk GNil
      | VInt => if int_out_of_range raw 64 then VErr else
                  VOk (GInt 2 (match raw with 45 :: tl => (- digits_val tl 0)%Z | _ => digits_val raw 0 end))
      | VFloat => if float_overflow raw then VErr else VOk (GFloat 1 (float_text raw))
      | VString | VBlock | VEnum => VOk (GString raw)
      | VBool => VOk (GBool (str_eqb raw (b "true")))
      | VNull => VOk GNil
      | VList =>
        (fix go (l : list (str * option pos * value)) : vres gval :=
           match l with
           | [] => VOk (GSlice false [])
           | (_, _, cv) :: tl =>
             match const_value cv with
             | VOk x => match go tl with VOk (GSlice _ r) => VOk (GSlice false (x :: r)) | other => other end
             | VErr => VErr | VPanic => VPanic
             end
           end) ch
      | VObject =>
        (fix go (l : list (str * option pos * value)) : vres gval :=
           match l with
           | [] => VOk (GMap [])
           | (n, _, cv) :: tl =>
             match const_value cv with
             | VOk x => match go tl with VOk (GMap r) => VOk (GMap (update n x (filter (fun kv => negb (str_eqb (fst kv) n)) r))) | other => other end
             | VErr => VErr | VPanic => VPanic
             end
           end) ch
      end
    end.

  Definition type_depth_fuel (v : gval) : nat := 64.

  (* VariableValues *)
  Fixpoint variableValues (vds : list vardef) (vars : list (str * gval)) (acc : list (str * gval))
    : vres (list (str * gval)) :=
    match vds with
    | [] => VOk acc
    | vd :: tl =>
      match stype s (type_name vd.(vd_type)) with
      | None => VPanic
      | Some def =>
        if negb (kind_is_input def.(df_kind)) then VErr else
        let supplied := lookup vd.(vd_var) vars in
        let after (val : option gval) : vres (list (str * gval)) :=
            match val with
            | None => variableValues tl vars acc
            | Some GNil => if type_nonnull vd.(vd_type) then VErr else variableValues tl vars (update vd.(vd_var) GNil acc)
            | Some v0 =>
              let conv : vres gval :=
                  match v0, vd.(vd_type) with
                  | GJsonNumber js, NamedT n _ _ =>
                    if str_eqb n (b "Int") then
                      if valid_int_string js
                      then VOk (GInt 2 (match js with 45 :: t => (- digits_val t 0)%Z | 43 :: t => digits_val t 0 | _ => digits_val js 0 end)) else VErr
                    else if str_eqb n (b "Float") then
                      match jsonnum_float js with Some txt => VOk (GFloat 1 txt) | None => VErr end
                    else VOk v0
                  | _, _ => VOk v0
                  end in
              match conv with
              | VOk v1 =>
                match validateVarType 64 vd.(vd_type) v1 with
                | VOk r => variableValues tl vars (update vd.(vd_var) r acc)
                | VErr => VErr
                | VPanic => VPanic
                end
              | VErr => VErr
              | VPanic => VPanic
              end
            end in
        match supplied with
        | Some v => after (Some v)
        | None =>
          match vd.(vd_default) with
          | Some dv => match const_value dv with VOk x => after (Some x) | VErr => VErr | VPanic => VPanic end
          | None => if type_nonnull vd.(vd_type) then VErr else after None
          end
        end
      end
    end.
End Vars.

(* ---------------- text form of Go values (correspondence check) ---------------- *)
Fixpoint insert_kvg (kv : str * str) (l : list (str * str)) : list (str * str) :=
  match l with
  | [] => [kv]
  | x :: tl => if str_ltb (fst kv) (fst x) then kv :: l else x :: insert_kvg kv tl
  end.
Fixpoint dump_gval (v : gval) : str :=
  match v with
  | GNil => b "n"
  | GBool true => b "t"
  | GBool false => b "f"
  | GInt k z => b "i" ++ Z_dec z
  | GFloat k txt => b "d" ++ txt
  | GJsonNumber x => b "j" ++ hex x
  | GString x => b "s" ++ hex x
  | GSlice _ items => 91 :: sepcat (map dump_gval items) ++ [93]
  | GMap m => let kvs := fold_right insert_kvg [] (map (fun kv => (fst kv, dump_gval (snd kv))) m) in
              123 :: sepcat (map (fun kv => hex (fst kv) ++ 61 :: snd kv) kvs) ++ [125]
  end.

(* parser of the same text form (requests from the harness); fuel = length of the text *)
Definition unhex (l : str) : str :=
  (fix go (l : str) : str :=
     match l with
     | a :: c :: tl => match hexval a, hexval c with
                       | Some x, Some y => (x * 16 + y) :: go tl
                       | _, _ => []
                       end
     | _ => []
     end) l.
Fixpoint take_until (stop : N -> bool) (l : str) : str * str :=
  match l with
  | c :: tl => if stop c then ([], l) else let '(a, r) := take_until stop tl in (c :: a, r)
  | [] => ([], [])
  end.
Definition is_delim (c : N) : bool := (c =? 44) || (c =? 93) || (c =? 125) || (c =? 61).

Fixpoint parse_gval (fuel : nat) (l : str) : option (gval * str) :=
  match fuel with
  | O => None
  | S f =>
    match l with
    | 110 :: tl => Some (GNil, tl)
    | 116 :: tl => Some (GBool true, tl)
    | 102 :: tl => Some (GBool false, tl)
    | 105 :: k :: tl => (* i<kind digit><decimal> *)
      let '(ds, r) := take_until is_delim tl in
      Some (GInt (k - 48) (match ds with 45 :: t => (- digits_val t 0)%Z | _ => digits_val ds 0 end), r)
    | 100 :: k :: tl => let '(ds, r) := take_until is_delim tl in Some (GFloat (k - 48) ds, r)
    | 106 :: tl => let '(ds, r) := take_until is_delim tl in Some (GJsonNumber (unhex ds), r)
    | 115 :: tl => let '(ds, r) := take_until is_delim tl in Some (GString (unhex ds), r)
    | 91 :: tl =>
      (fix items (n : nat) (l : str) (acc : list gval) : option (gval * str) :=
         match n with
         | O => None
         | S n' =>
           match l with
           | 93 :: r => Some (GSlice false (rev acc), r)
           | 44 :: r => items n' r acc
           | _ => match parse_gval f l with
                  | Some (v, r) => items n' r (v :: acc)
                  | None => None
                  end
           end
         end) fuel tl []
    | 123 :: tl =>
      (fix entries (n : nat) (l : str) (acc : list (str * gval)) : option (gval * str) :=
         match n with
         | O => None
         | S n' =>
           match l with
           | 125 :: r => Some (GMap (rev acc), r)
           | 44 :: r => entries n' r acc
           | _ => let '(k, r1) := take_until is_delim l in
                  match r1 with
                  | 61 :: r2 => match parse_gval f r2 with
                                | Some (v, r3) => entries n' r3 ((unhex k, v) :: acc)
                                | None => None
                                end
                  | _ => None
                  end
           end
         end) fuel tl []
    | _ => None
    end
  end.

(* ---------------- ast/argmap.go: arg2map, with ast.Value.Value(vars) ---------------- *)
Section ArgMap.
  Variable d : dev.
  Variable vardefs : list vardef.          (* of the operation the document is executed as *)
  Variable vars : list (str * gval).

  (* Value.Value(vars) *)
  Fixpoint value_value (fuel : nat) (v : value) : vres gval :=
    match fuel with
    | O => VPanic
    | S f =>
      match v with
      | mkValue k raw ch _ =>
        match k with
        | VVar =>
          match lookup raw vars with
          | Some x => VOk x
          | None => match find_vardef raw vardefs with
                    | Some vd => match vd.(vd_default) with
                                 | Some dv => value_value f dv
                                 | None => VOk GNil
                                 end
                    | None => VOk GNil
                    end
          end
        | VInt => if int_out_of_range raw 64 then VErr else
                    VOk (GInt 2 (match raw with 45 :: tl => (- digits_val tl 0)%Z | _ => digits_val raw 0 end))
        | VFloat => if float_overflow raw then VErr else VOk (GFloat 1 (float_text raw))
        | VString | VBlock | VEnum => VOk (GString raw)
        | VBool => VOk (GBool (str_eqb raw (b "true")))
        | VNull => VOk GNil
        | VList =>
          (fix go (l : list (str * option pos * value)) : vres gval :=
             match l with
             | [] => VOk (GSlice false [])
             | (_, _, cv) :: tl =>
               match value_value f cv with
               | VOk x => match go tl with VOk (GSlice _ r) => VOk (GSlice false (x :: r)) | other => other end
               | VErr => VErr | VPanic => VPanic
               end
             end) ch
        | VObject =>
          (* later duplicates overwrite earlier ones *)
          (fix go (l : list (str * option pos * value)) (acc : list (str * gval)) : vres gval :=
             match l with
             | [] => VOk (GMap acc)
             | (n, _, cv) :: tl =>
               match value_value f cv with
               | VOk x => go tl (update n x acc)
               | VErr => VErr | VPanic => VPanic
               end
             end) ch []
        end
      end
    end.

  Definition arg2map (defs : list argdef) (args : list argument) : vres (list (str * gval)) :=
    (fix go (defs : list argdef) (acc : list (str * gval)) : vres (list (str * gval)) :=
       match defs with
       | [] => VOk acc
       | ad :: tl =>
         let from_arg : vres (option gval) :=
             match find_arg ad.(ad_name) args with
             | Some a =>
               match a.(a_value) with
               | mkValue VVar raw _ _ =>
                 match lookup raw vars with
                 | Some x => VOk (Some x)
                 | None =>
                   if d F_A2 then VOk None else
                   match find_vardef raw vardefs with
                   | Some vd => match vd.(vd_default) with
                                | Some dv => match value_value 64 dv with VOk x => VOk (Some x) | VErr => VPanic | VPanic => VPanic end
                                | None => VOk None
                                end
                   | None => VOk None
                   end
                 end
               | other =>
                 match value_value 64 other with
                 | VOk x => VOk (Some x)
                 | VErr => if d F_A1 then VPanic else VOk (Some (GString (v_raw other)))
                 | VPanic => VPanic
                 end
               end
             | None => VOk None
             end in
         match from_arg with
         | VPanic => VPanic
         | VErr => VPanic
         | VOk (Some x) => go tl (update ad.(ad_name) x acc)
         | VOk None =>
           match ad.(ad_default) with
           | Some dv => match value_value 64 dv with
                        | VOk x => go tl (update ad.(ad_name) x acc)
                        | _ => VPanic
                        end
           | None => go tl acc
           end
         end
       end) defs [].
End ArgMap.
