(* Walk.v — model of validator/walk.go: the document walk as the ordered list of events the
   observers receive, each with the annotations the walker has written on the node, and the
   suggestion helpers of validator/suggestionList.go and messaging.go. *)
From GQL.model Require Import Base Utf8 Lexer Ast Schema.
Open Scope N_scope.

(* ---------------- schema helpers ---------------- *)
Definition stype (s : schema) (n : str) : option definition := lookup n s.(sc_types).
Definition sdir (s : schema) (n : str) : option dirdef := lookup n s.(sc_dirs).
Definition root_def (s : schema) (o : optype) : option definition :=
  match o with
  | OpQuery | OpNone => match s.(sc_query) with Some n => stype s n | None => None end
  | OpMutation => match s.(sc_mutation) with Some n => stype s n | None => None end
  | OpSubscription => match s.(sc_subscription) with Some n => stype s n | None => None end
  end.
Definition is_leaf (d : definition) : bool := match d.(df_kind) with KEnum | KScalar => true | _ => false end.
Definition is_composite (d : definition) : bool :=
  match d.(df_kind) with KObject | KInterface | KUnion => true | _ => false end.
Definition is_abstract (d : definition) : bool := match d.(df_kind) with KInterface | KUnion => true | _ => false end.
Definition possible_types (s : schema) (d : definition) : list definition :=
  match lookup d.(df_name) s.(sc_possible) with
  | Some l => flat_map (fun n => match stype s n with Some x => [x] | None => [] end) l
  | None => []
  end.

Fixpoint find_frag (n : str) (l : list fragdef) : option fragdef :=
  match l with [] => None | f :: tl => if str_eqb f.(f_name) n then Some f else find_frag n tl end.
Fixpoint find_vardef (n : str) (l : list vardef) : option vardef :=
  match l with [] => None | v :: tl => if str_eqb v.(vd_var) n then Some v else find_vardef n tl end.

Definition typename_field : fielddef :=
  mkFieldDef [] (b "__typename") [] None (NamedT (b "String") false pos0) [] pos0.

(* the field definition the walker attaches to a field selected on [parent] *)
Definition field_def_of (parent : option definition) (name : str) : option fielddef :=
  if str_eqb name (b "__typename") then Some typename_field
  else match parent with Some p => find_field name p.(df_fields) | None => None end.

(* ---------------- events ---------------- *)
Inductive event :=
| EvVariable (vd : vardef)
| EvValue (v : value) (exp : option type_) (def : option definition)
| EvDirective (d : directive) (loc : str)
| EvDirectiveList (ds : list directive)
| EvField (f : selection) (objdef : option definition) (fdef : option fielddef)
| EvInline (f : selection) (objdef : option definition)
| EvSpread (f : selection) (objdef : option definition)
| EvOperation (o : opdef) (used : list bool)
| EvFragment (f : fragdef)
(* not an observer call: the walker has just written its annotations (ObjectDefinition, Definition)
   on the field or spread starting at this offset *)
| EvAnnotate (start : Z).

(* an event with walker.CurrentOperation and the operation whose variable definitions are
   currently written on variable uses (during a stand-alone fragment walk: the last operation
   that walked the fragment, if any) *)
Definition cev := (option opdef * option opdef * event)%type.

Section Walk.
  Variable s : schema.
  Variable doc : qdoc.

  (* walkValue: children first, then the value itself; exp/def = ExpectedType/Definition of v *)
  Fixpoint walk_value (v : value) (exp : option type_) (def : option definition) : list event :=
    match v with
    | mkValue k raw ch p =>
      (match k with
       | VObject =>
         flat_map (fun c => let '(n, _, cv) := c in
                     match def with
                     | Some d => match find_field n d.(df_fields) with
                                 | Some fd => walk_value cv (Some fd.(fd_type)) (stype s (type_name fd.(fd_type)))
                                 | None => walk_value cv None None
                                 end
                     | None => walk_value cv None None
                     end) ch
       | VList =>
         flat_map (fun c => let '(_, _, cv) := c in
                     match exp with
                     | Some (ListT e _ _) => walk_value cv (Some e) def
                     | _ => walk_value cv None None
                     end) ch
       | _ => []
       end) ++ [EvValue v exp def]
    end.

  (* variables used below a value (walkValue marks VariableDefinition.Used) *)
  Fixpoint value_vars (v : value) : list str :=
    match v with
    | mkValue k raw ch _ =>
      match k with
      | VVar => [raw]
      | _ => flat_map (fun c => let '(_, _, cv) := c in value_vars cv) ch
      end
    end.

  Definition walk_argument (ad : option argdef) (a : argument) : list event :=
    match ad with
    | Some x => walk_value a.(a_value) (Some x.(ad_type)) (stype s (type_name x.(ad_type)))
    | None => walk_value a.(a_value) None None
    end.

  Definition walk_directives (ds : list directive) (loc : str) : list event :=
    flat_map (fun x =>
      let dd := sdir s x.(d_name) in
      flat_map (fun a => walk_argument (match dd with Some y => find_argdef a.(a_name) y.(dd_args) | None => None end) a)
               x.(d_args)
      ++ [EvDirective x loc]) ds
    ++ [EvDirectiveList ds].

  Definition dirs_vars (ds : list directive) : list str :=
    flat_map (fun x => flat_map (fun a => value_vars a.(a_value)) x.(d_args)) ds.

  (* state threaded through a walk: fragments entered (validatedFragmentSpreads), variables used *)
  Record wst := mkWst { w_visited : list str; w_used : list str }.

  (* walkSelection; [fuel] bounds the nesting of fragment expansions *)
  Fixpoint walk_sel (fuel : nat) (parent : option definition) (sel : selection) (st : wst) {struct fuel}
    : list event * wst :=
    match fuel with
    | O => ([], st)
    | S f =>
      (fix ws (parent : option definition) (sel : selection) (st : wst) {struct sel} : list event * wst :=
         let wsels (parent : option definition) (l : list selection) (st : wst) : list event * wst :=
             fold_left (fun acc x => let '(ev, st1) := ws parent x (snd acc) in (fst acc ++ ev, st1)) l ([], st) in
         match sel with
         | SField al n args dirs sels p =>
           let fd := field_def_of parent n in
           let next := match fd with Some x => stype s (type_name x.(fd_type)) | None => None end in
           let ev_args := flat_map (fun a => walk_argument
                              (match fd with Some x => find_argdef a.(a_name) x.(fd_args) | None => None end) a) args in
           let st1 := mkWst st.(w_visited) (st.(w_used) ++ flat_map (fun a => value_vars a.(a_value)) args ++ dirs_vars dirs) in
           let '(ev_sels, st2) := wsels next sels st1 in
           (EvAnnotate p.(p_start) :: ev_args ++ walk_directives dirs (b "FIELD") ++ ev_sels ++ [EvField sel parent fd], st2)
         | SInline tc dirs sels p =>
           let next := match tc with [] => parent | _ => stype s tc end in
           let st1 := mkWst st.(w_visited) (st.(w_used) ++ dirs_vars dirs) in
           let '(ev_sels, st2) := wsels next sels st1 in
           (walk_directives dirs (b "INLINE_FRAGMENT") ++ ev_sels ++ [EvInline sel parent], st2)
         | SSpread n dirs p =>
           let fdef := find_frag n doc.(q_frags) in
           let next := match fdef with Some x => stype s x.(f_typecond) | None => None end in
           let st1 := mkWst st.(w_visited) (st.(w_used) ++ dirs_vars dirs) in
           let '(ev_body, st2) :=
               match fdef with
               | Some x =>
                 if mem_str x.(f_name) st1.(w_visited) then ([], st1)
                 else fold_left (fun acc y => let '(ev, st') := walk_sel f next y (snd acc) in (fst acc ++ ev, st'))
                                x.(f_sels) ([], mkWst (x.(f_name) :: st1.(w_visited)) st1.(w_used))
               | None => ([], st1)
               end in
           (EvAnnotate p.(p_start) :: walk_directives dirs (b "FRAGMENT_SPREAD") ++ ev_body ++ [EvSpread sel parent], st2)
         end) parent sel st
    end.

  Definition walk_sels (fuel : nat) (parent : option definition) (l : list selection) (st : wst) : list event * wst :=
    fold_left (fun acc x => let '(ev, st1) := walk_sel fuel parent x (snd acc) in (fst acc ++ ev, st1)) l ([], st).

  Definition walk_fuel : nat := S (S (length doc.(q_frags))).

  Definition op_location (o : optype) : str :=
    match o with OpQuery | OpNone => b "QUERY" | OpMutation => b "MUTATION" | OpSubscription => b "SUBSCRIPTION" end.

  (* Used flag of each variable definition: the first definition of a name is the one marked *)
  Fixpoint used_flags (vds : list vardef) (used : list str) (seen : list str) : list bool :=
    match vds with
    | [] => []
    | v :: tl => (mem_str v.(vd_var) used && negb (mem_str v.(vd_var) seen)) :: used_flags tl used (v.(vd_var) :: seen)
    end.

  Definition walk_operation (o : opdef) : list cev :=
    let def := root_def s o.(o_op) in
    let ev1 := map EvVariable o.(o_vars) in
    let ev2 := flat_map (fun v =>
                  (match v.(vd_default) with
                   | Some dv => walk_value dv (Some v.(vd_type)) (stype s (type_name v.(vd_type)))
                   | None => []
                   end) ++ walk_directives v.(vd_dirs) (b "VARIABLE_DEFINITION")) o.(o_vars) in
    let used0 := flat_map (fun v => (match v.(vd_default) with Some dv => value_vars dv | None => [] end)
                                    ++ dirs_vars v.(vd_dirs)) o.(o_vars) ++ dirs_vars o.(o_dirs) in
    let '(ev3, st) := walk_sels walk_fuel def o.(o_sels) (mkWst [] used0) in
    map (fun e => (Some o, Some o, e))
        (ev1 ++ ev2 ++ walk_directives o.(o_dirs) (op_location o.(o_op)) ++ ev3
             ++ [EvOperation o (used_flags o.(o_vars) st.(w_used) [])]).

  (* fragments reachable from a selection set through spreads (first definition of a name) *)
  Fixpoint reach_sel (fuel : nat) (sel : selection) (acc : list str) {struct fuel} : list str :=
    match fuel with
    | O => acc
    | S f =>
      (fix go (sel : selection) (acc : list str) {struct sel} : list str :=
         match sel with
         | SField _ _ _ _ sels _ => fold_left (fun a x => go x a) sels acc
         | SInline _ _ sels _ => fold_left (fun a x => go x a) sels acc
         | SSpread n _ _ =>
           if mem_str n acc then acc else
           match find_frag n doc.(q_frags) with
           | Some fd => fold_left (fun a x => reach_sel f x a) fd.(f_sels) (n :: acc)
           | None => acc
           end
         end) sel acc
    end.
  Definition reach_op (o : opdef) : list str :=
    fold_left (fun a x => reach_sel (S (length doc.(q_frags))) x a) o.(o_sels) [].

  Definition pos_eqb (p q : pos) : bool :=
    (p.(p_start) =? q.(p_start))%Z && (p.(p_line) =? q.(p_line))%Z && (p.(p_col) =? q.(p_col))%Z.

  (* the operation that last walked fragment f's body (only the first fragment of a name is reached by spreads) *)
  Definition stale_op (f : fragdef) : option opdef :=
    match find_frag f.(f_name) doc.(q_frags) with
    | Some g =>
      if pos_eqb g.(f_pos) f.(f_pos) then
        fold_left (fun acc o => if mem_str f.(f_name) (reach_op o) then Some o else acc) doc.(q_ops) None
      else None
    | None => None
    end.

  Definition walk_fragment (f : fragdef) : list cev :=
    let def := stype s f.(f_typecond) in
    let '(ev, _) := walk_sels walk_fuel def f.(f_sels) (mkWst [] []) in
    (* the directives of the definition itself are only ever walked here, with no current operation:
       variables in their arguments are never linked to a variable definition *)
    map (fun e => (None, None, e)) (walk_directives f.(f_dirs) (b "FRAGMENT_DEFINITION"))
    ++ map (fun e => (None, stale_op f, e)) (ev ++ [EvFragment f]).

  Definition walk : list cev :=
    flat_map walk_operation doc.(q_ops) ++ flat_map walk_fragment doc.(q_frags).
End Walk.

(* ---------------- suggestions ---------------- *)

Definition to_lower (s : str) : str := map (fun c => if is_upper c then c + 32 else c) s.

(* runes of a string (invalid bytes count as one rune each) *)
Fixpoint runes_f (fuel : nat) (l : str) : list N :=
  match fuel with
  | O => []
  | S f => match l with
           | [] => []
           | _ => let '(r, w) := decode_rune l in r :: runes_f f (skipn (Nat.max w 1) l)
           end
  end.
Definition runes (l : str) : list N := runes_f (length l) l.

(* one row of the Levenshtein table *)
Fixpoint lev_row (x : N) (bs : list N) (prev : list nat) (diag left : nat) : list nat :=
  match bs, prev with
  | c :: bs', up :: prev' =>
    let cost := if x =? c then diag else S diag in
    let v := Nat.min (Nat.min (S up) (S left)) cost in
    v :: lev_row x bs' prev' up v
  | _, _ => []
  end.
Fixpoint lev_rows (a : list N) (bs : list N) (prev : list nat) (i : nat) : list nat :=
  match a with
  | [] => prev
  | x :: a' =>
    match prev with
    | d0 :: prev' => lev_rows a' bs (S i :: lev_row x bs prev' d0 (S i)) (S i)
    | [] => prev
    end
  end.
Definition levenshtein (a c : str) : nat :=
  let ra := runes a in let rb := runes c in
  last (lev_rows ra rb (seq 0 (S (length rb))) 0) 0%nat.

Definition lexicalDistance (a c : str) : nat :=
  if str_eqb a c then 0%nat
  else let la := to_lower a in let lb := to_lower c in
       if str_eqb la lb then 1%nat else levenshtein la lb.

Definition calcThreshold (a : str) : nat := S (2 * length a / 5).

(* insertion by (distance, name) *)
Fixpoint insert_sugg (x : nat * str) (l : list (nat * str)) : list (nat * str) :=
  match l with
  | [] => [x]
  | y :: tl =>
    if (fst x <? fst y)%nat || ((fst x =? fst y)%nat && str_ltb (snd x) (snd y)) then x :: l
    else y :: insert_sugg x tl
  end.
Definition suggestionList (input : str) (options : list str) : list str :=
  let th := calcThreshold input in
  let cands := flat_map (fun o => let dd := lexicalDistance input o in
                                  if (dd <=? th)%nat then [(dd, o)] else []) options in
  (* a repeated option keeps the distance stored last in the map: the same number *)
  map snd (fold_left (fun acc x => insert_sugg x acc) cands []).

Fixpoint orList_items (items : list str) (i n : nat) : str :=
  match items with
  | [] => []
  | x :: tl =>
    (match i with
     | O => []
     | _ => if (S i =? n)%nat then b ", or " else b ", "
     end) ++ x ++ orList_items tl (S i) n
  end.
Definition orList (items : list str) : str :=
  let items := firstn 5 items in
  match items with
  | [x; y] => x ++ b " or " ++ y
  | _ => orList_items items 0 (length items)
  end.
Definition quotedOrList (items : list str) : str := orList (map (fun x => 34 :: x ++ [34]) items).

(* the text appended by SuggestListQuoted / SuggestListUnquoted *)
Definition suggest_quoted (prefix typed : str) (options : list str) : str :=
  match suggestionList typed options with
  | [] => []
  | l => 32 :: prefix ++ 32 :: quotedOrList l ++ [63]
  end.
Definition suggest_unquoted (prefix typed : str) (options : list str) : str :=
  match suggestionList typed options with
  | [] => []
  | l => 32 :: prefix ++ 32 :: orList l ++ [63]
  end.
