(* Ast.v — syntax trees of the model (package ast), comment groups omitted. *)
From GQL.model Require Import Base Lexer.
Open Scope Z_scope.

Record pos := mkPos { p_src : N; p_start : Z; p_end : Z; p_line : Z; p_col : Z }.
Definition pos0 : pos := mkPos 0 0 0 0 0.
Definition pos_of_tok (src : N) (t : token) : pos := mkPos src t.(tstart) t.(tend) t.(tline) t.(tcol).

Inductive vkind :=
| VVar | VInt | VFloat | VString | VBlock | VBool | VNull
| VEnum | VList | VObject.
Definition vkind_id (k : vkind) : N :=
  match k with
  | VVar => 0 | VInt => 1 | VFloat => 2 | VString => 3 | VBlock => 4
  | VBool => 5 | VNull => 6 | VEnum => 7 | VList => 8 | VObject => 9
  end%N.

(* children: (name, position of the object field (None for list items), value) *)
Inductive value :=
| mkValue (k : vkind) (raw : str) (children : list (str * option pos * value)) (p : pos).

Definition v_kind (v : value) := let 'mkValue k _ _ _ := v in k.
Definition v_raw (v : value) := let 'mkValue _ r _ _ := v in r.
Definition v_children (v : value) := let 'mkValue _ _ c _ := v in c.
Definition v_pos (v : value) := let 'mkValue _ _ _ p := v in p.
Definition value0 : value := mkValue VNull [] [] pos0.

Inductive type_ :=
| NamedT (name : str) (nonnull : bool) (p : pos)
| ListT (elem : type_) (nonnull : bool) (p : pos).
Definition type0 : type_ := NamedT [] false pos0.

Record argument := mkArg { a_name : str; a_value : value; a_pos : pos }.
Record directive := mkDir { d_name : str; d_args : list argument; d_pos : pos }.
Record vardef := mkVarDef
  { vd_var : str; vd_type : type_; vd_default : option value; vd_dirs : list directive; vd_pos : pos }.

Inductive selection :=
| SField (alias name : str) (args : list argument) (dirs : list directive) (sels : list selection) (p : pos)
| SSpread (name : str) (dirs : list directive) (p : pos)
| SInline (typecond : str) (dirs : list directive) (sels : list selection) (p : pos).

Inductive optype := OpQuery | OpMutation | OpSubscription | OpNone.

Record opdef := mkOp
  { o_op : optype; o_name : str; o_vars : list vardef; o_dirs : list directive;
    o_sels : list selection; o_pos : pos }.
Record fragdef := mkFrag
  { f_name : str; f_vars : list vardef; f_typecond : str; f_dirs : list directive;
    f_sels : list selection; f_pos : pos }.
Record qdoc := mkQDoc { q_ops : list opdef; q_frags : list fragdef; q_pos : option pos }.

(* ---- type system ---- *)
Inductive dkind := KScalar | KObject | KInterface | KUnion | KEnum | KInputObject.
Definition dkind_id (k : dkind) : N :=
  match k with KScalar => 0 | KObject => 1 | KInterface => 2 | KUnion => 3 | KEnum => 4 | KInputObject => 5 end%N.

Record argdef := mkArgDef
  { ad_desc : str; ad_name : str; ad_default : option value; ad_type : type_;
    ad_dirs : list directive; ad_pos : pos }.
Record fielddef := mkFieldDef
  { fd_desc : str; fd_name : str; fd_args : list argdef; fd_default : option value;
    fd_type : type_; fd_dirs : list directive; fd_pos : pos }.
Record enumval := mkEnumVal { ev_desc : str; ev_name : str; ev_dirs : list directive; ev_pos : pos }.
Record definition := mkDef
  { df_kind : dkind; df_desc : str; df_name : str; df_dirs : list directive;
    df_ifaces : list str; df_fields : list fielddef; df_types : list str;
    df_enums : list enumval; df_pos : pos; df_builtin : bool }.
Record dirdef := mkDirDef
  { dd_desc : str; dd_name : str; dd_args : list argdef; dd_locs : list str;
    dd_repeatable : bool; dd_pos : pos }.
Record optypedef := mkOpTypeDef { ot_op : optype; ot_type : str; ot_pos : pos }.
Record schemadef := mkSchemaDef
  { sd_desc : str; sd_dirs : list directive; sd_ops : list optypedef; sd_pos : pos }.
Record sdoc := mkSDoc
  { s_schema : list schemadef; s_schemaext : list schemadef; s_dirs : list dirdef;
    s_defs : list definition; s_exts : list definition; s_pos : option pos }.
Definition sdoc0 : sdoc := mkSDoc [] [] [] [] [] None.

(* ---- canonical dump (same text is produced by the Go harness) ---- *)
Definition cm : N := 44%N. (* , *)
Definition dump_str (s : str) : str := hex s.
Definition dump_pos (wp : bool) (p : pos) : str :=
  if wp then 64%N :: N_dec p.(p_src) ++ 58%N :: Z_dec p.(p_start) ++ 58%N :: Z_dec p.(p_end)
             ++ 58%N :: Z_dec p.(p_line) ++ 58%N :: Z_dec p.(p_col)
  else [].
Definition dump_opos (wp : bool) (p : option pos) : str :=
  match p with Some q => dump_pos wp q | None => if wp then [64%N; 45%N] else [] end.
Definition paren (s : str) : str := 40%N :: s ++ [41%N].
Fixpoint sepcat (l : list str) : str :=
  match l with [] => [] | [x] => x | x :: tl => x ++ cm :: sepcat tl end.
Definition dump_list {A} (f : A -> str) (l : list A) : str := 91%N :: sepcat (map f l) ++ [93%N].
Definition dump_bool (x : bool) : str := if x then [49%N] else [48%N].

Fixpoint dump_value (wp : bool) (v : value) : str :=
  match v with
  | mkValue k raw ch p =>
    b "V" ++ N_dec (vkind_id k) ++ paren (dump_str raw ++ cm ::
      (91%N :: sepcat (map (fun c => let '(n, op, cv) := c in
                              paren (dump_str n ++ cm :: dump_value wp cv) ++ dump_opos wp op) ch) ++ [93%N]))
      ++ dump_pos wp p
  end.
Fixpoint dump_type (wp : bool) (t : type_) : str :=
  match t with
  | NamedT n nn p => b "N" ++ paren (dump_str n ++ cm :: dump_bool nn) ++ dump_pos wp p
  | ListT e nn p => b "L" ++ paren (dump_type wp e ++ cm :: dump_bool nn) ++ dump_pos wp p
  end.
Definition dump_arg wp (a : argument) : str :=
  b "A" ++ paren (dump_str a.(a_name) ++ cm :: dump_value wp a.(a_value)) ++ dump_pos wp a.(a_pos).
Definition dump_dir wp (d : directive) : str :=
  b "D" ++ paren (dump_str d.(d_name) ++ cm :: dump_list (dump_arg wp) d.(d_args)) ++ dump_pos wp d.(d_pos).
Definition dump_ovalue wp (o : option value) : str :=
  match o with Some v => dump_value wp v | None => [45%N] end.
Definition dump_vardef wp (v : vardef) : str :=
  b "X" ++ paren (dump_str v.(vd_var) ++ cm :: dump_type wp v.(vd_type) ++ cm :: dump_ovalue wp v.(vd_default)
                  ++ cm :: dump_list (dump_dir wp) v.(vd_dirs)) ++ dump_pos wp v.(vd_pos).
Fixpoint dump_sel (wp : bool) (s : selection) : str :=
  match s with
  | SField al n args dirs sels p =>
    b "F" ++ paren (dump_str al ++ cm :: dump_str n ++ cm :: dump_list (dump_arg wp) args ++ cm ::
                    dump_list (dump_dir wp) dirs ++ cm :: (91%N :: sepcat (map (dump_sel wp) sels) ++ [93%N]))
          ++ dump_pos wp p
  | SSpread n dirs p => b "S" ++ paren (dump_str n ++ cm :: dump_list (dump_dir wp) dirs) ++ dump_pos wp p
  | SInline tc dirs sels p =>
    b "I" ++ paren (dump_str tc ++ cm :: dump_list (dump_dir wp) dirs ++ cm ::
                    (91%N :: sepcat (map (dump_sel wp) sels) ++ [93%N])) ++ dump_pos wp p
  end.
Definition dump_optype (o : optype) : str :=
  match o with OpQuery => b "q" | OpMutation => b "m" | OpSubscription => b "s" | OpNone => b "-" end.
Definition dump_op wp (o : opdef) : str :=
  b "O" ++ paren (dump_optype o.(o_op) ++ cm :: dump_str o.(o_name) ++ cm :: dump_list (dump_vardef wp) o.(o_vars)
                  ++ cm :: dump_list (dump_dir wp) o.(o_dirs) ++ cm :: dump_list (dump_sel wp) o.(o_sels))
        ++ dump_pos wp o.(o_pos).
Definition dump_frag wp (f : fragdef) : str :=
  b "G" ++ paren (dump_str f.(f_name) ++ cm :: dump_list (dump_vardef wp) f.(f_vars) ++ cm :: dump_str f.(f_typecond)
                  ++ cm :: dump_list (dump_dir wp) f.(f_dirs) ++ cm :: dump_list (dump_sel wp) f.(f_sels))
        ++ dump_pos wp f.(f_pos).
Definition dump_qdoc wp (q : qdoc) : str :=
  b "Q" ++ paren (dump_list (dump_op wp) q.(q_ops) ++ cm :: dump_list (dump_frag wp) q.(q_frags))
        ++ dump_opos wp q.(q_pos).

Definition dump_argdef wp (a : argdef) : str :=
  b "a" ++ paren (dump_str a.(ad_desc) ++ cm :: dump_str a.(ad_name) ++ cm :: dump_ovalue wp a.(ad_default) ++ cm ::
                  dump_type wp a.(ad_type) ++ cm :: dump_list (dump_dir wp) a.(ad_dirs)) ++ dump_pos wp a.(ad_pos).
Definition dump_fielddef wp (f : fielddef) : str :=
  b "f" ++ paren (dump_str f.(fd_desc) ++ cm :: dump_str f.(fd_name) ++ cm :: dump_list (dump_argdef wp) f.(fd_args)
                  ++ cm :: dump_ovalue wp f.(fd_default) ++ cm :: dump_type wp f.(fd_type) ++ cm ::
                  dump_list (dump_dir wp) f.(fd_dirs)) ++ dump_pos wp f.(fd_pos).
Definition dump_enumval wp (e : enumval) : str :=
  b "e" ++ paren (dump_str e.(ev_desc) ++ cm :: dump_str e.(ev_name) ++ cm :: dump_list (dump_dir wp) e.(ev_dirs))
        ++ dump_pos wp e.(ev_pos).
Definition dump_def wp (d : definition) : str :=
  b "T" ++ N_dec (dkind_id d.(df_kind)) ++
    paren (dump_str d.(df_desc) ++ cm :: dump_str d.(df_name) ++ cm :: dump_list (dump_dir wp) d.(df_dirs) ++ cm ::
           dump_list dump_str d.(df_ifaces) ++ cm :: dump_list (dump_fielddef wp) d.(df_fields) ++ cm ::
           dump_list dump_str d.(df_types) ++ cm :: dump_list (dump_enumval wp) d.(df_enums) ++ cm ::
           dump_bool d.(df_builtin)) ++ dump_pos wp d.(df_pos).
Definition dump_dirdef wp (d : dirdef) : str :=
  b "R" ++ paren (dump_str d.(dd_desc) ++ cm :: dump_str d.(dd_name) ++ cm :: dump_list (dump_argdef wp) d.(dd_args)
                  ++ cm :: dump_list dump_str d.(dd_locs) ++ cm :: dump_bool d.(dd_repeatable)) ++ dump_pos wp d.(dd_pos).
Definition dump_optypedef wp (o : optypedef) : str :=
  b "o" ++ paren (dump_optype o.(ot_op) ++ cm :: dump_str o.(ot_type)) ++ dump_pos wp o.(ot_pos).
Definition dump_schemadef wp (s : schemadef) : str :=
  b "C" ++ paren (dump_str s.(sd_desc) ++ cm :: dump_list (dump_dir wp) s.(sd_dirs) ++ cm ::
                  dump_list (dump_optypedef wp) s.(sd_ops)) ++ dump_pos wp s.(sd_pos).
Definition dump_sdoc wp (s : sdoc) : str :=
  b "Z" ++ paren (dump_list (dump_schemadef wp) s.(s_schema) ++ cm :: dump_list (dump_schemadef wp) s.(s_schemaext)
                  ++ cm :: dump_list (dump_dirdef wp) s.(s_dirs) ++ cm :: dump_list (dump_def wp) s.(s_defs) ++ cm ::
                  dump_list (dump_def wp) s.(s_exts)) ++ dump_opos wp s.(s_pos).
