(* Parser.v — model of parser/parser.go: sticky-error state and primitives. *)
From GQL.model Require Import Base Utf8 Lexer Ast.
Open Scope Z_scope.

Inductive perr :=
| PSyntax (line col : Z)   (* parser error, located at a token *)
| PLex (line col : Z)      (* lexer error surfaced by next() *)
| PLimit                   (* token limit exceeded *)
| PStall.                  (* internal fuel exhausted: proved unreachable *)

Record pst := mkPst
  { plx : lx; perr_ : option perr; peeked : option (token * option lexerr);
    prev : token; cnt : N; lim : N; src : N;
    reads : N (* ghost: number of ReadToken calls *) }.

Definition tok0 : token := mkTok Invalid [] 0 0 0 0.
Definition pst_init (input : str) (limit : N) (srcix : N) : pst :=
  mkPst (lx_init input) None None tok0 0 limit srcix 0.

Definition set_err (s : pst) (e : perr) : pst :=
  match perr_ s with
  | Some _ => s
  | None => mkPst (plx s) (Some e) (peeked s) (prev s) (cnt s) (lim s) (src s) (reads s)
  end.
Definition has_err (s : pst) : bool := match perr_ s with Some _ => true | None => false end.

Definition lexerr_to_perr (e : option lexerr) : option perr :=
  match e with Some le => Some (PLex le.(eline) le.(ecol)) | None => None end.

(* read one token from the lexer into `peeked` *)
Definition read_peek (d : dev) (s : pst) : pst :=
  match readToken d (plx s) with
  | None => set_err s PStall
  | Some (t, e, lx') => mkPst lx' (perr_ s) (Some (t, e)) (prev s) (cnt s) (lim s) (src s) (reads s + 1)
  end.

(* next() when a token is peeked *)
Definition next_peeked (s : pst) (t : token) (e : option lexerr) : pst :=
  let c := (cnt s + 1)%N in
  if negb (lim s =? 0)%N && (lim s <? c)%N
  then mkPst (plx s) (Some PLimit) (peeked s) (prev s) c (lim s) (src s) (reads s)
  else mkPst (plx s) (lexerr_to_perr e) None t c (lim s) (src s) (reads s).

(* consumeCommentGroup: loop of consumeComment *)
Fixpoint consume_group (d : dev) (fuel : nat) (s : pst) : pst :=
  match fuel with
  | O => set_err s PStall
  | S f =>
    if has_err s then s else
    let s1 := match peeked s with Some _ => s | None => read_peek d s end in
    if has_err s1 then s1 else
    match peeked s1 with
    | Some (t, e) => if kind_eqb t.(tkind) Comment then consume_group d f (next_peeked s1 t e) else s1
    | None => s1
    end
  end.

Definition group_fuel (s : pst) : nat := S (S (length (rest (plx s)))).

Definition peek (d : dev) (s : pst) : token * pst :=
  if has_err s then (prev s, s) else
  match peeked s with
  | Some (t, _) => (t, s)
  | None =>
    let s1 := read_peek d s in
    let s2 := match peeked s1 with
              | Some (t, _) => if kind_eqb t.(tkind) Comment then consume_group d (group_fuel s1) s1 else s1
              | None => s1
              end in
    match peeked s2 with
    | Some (t, _) => (t, s2)
    | None => (prev s2, s2)
    end
  end.

Definition next (d : dev) (s : pst) : token * pst :=
  if has_err s then (prev s, s) else
  match peeked s with
  | Some (t, e) =>
    let s1 := next_peeked s t e in (prev s1, s1)
  | None =>
    let c := (cnt s + 1)%N in
    if negb (lim s =? 0)%N && (lim s <? c)%N
    then let s1 := mkPst (plx s) (Some PLimit) None (prev s) c (lim s) (src s) (reads s) in (prev s1, s1)
    else
      match readToken d (plx s) with
      | None => let s1 := set_err s PStall in (prev s1, s1)
      | Some (t, e, lx') =>
        let s1 := mkPst lx' (lexerr_to_perr e) None t c (lim s) (src s) (reads s + 1) in
        let s2 := if kind_eqb t.(tkind) Comment then consume_group d (group_fuel s1) s1 else s1 in
        (prev s2, s2)
      end
  end.

Definition error_at (s : pst) (t : token) : pst := set_err s (PSyntax t.(tline) t.(tcol)).

(* result of a whole parse *)
Inductive pres (A : Type) := POk (a : A) | PErr (e : perr).
Arguments POk {A} a. Arguments PErr {A} e.

Definition dump_perr (e : perr) : str :=
  match e with
  | PSyntax l c => b "err S " ++ Z_dec l ++ sp :: Z_dec c
  | PLex l c => b "err S " ++ Z_dec l ++ sp :: Z_dec c
  | PLimit => b "err L"
  | PStall => b "err STALL"
  end.
