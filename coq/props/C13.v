(* C13 — formatting a schema and loading it back: descriptions.  Statements only. *)
From Coq Require Import List ZArith.
From GQL.model Require Import Base Utf8 Lexer Format.
From GQL.proofs Require Import QuoteRoundtrip DescRoundtrip.
Import ListNotations.

(* Descriptions survive byte for byte.  Whatever state the formatter is in (indent depth, padding,
   line head), whatever white-space indent string is configured and whatever the deviation
   setting: for a non-empty description s of valid UTF-8, WriteDescription appends one token text
   and a newline to the output (after the pending indentation/padding `pre`), and the lexer reads
   that text — followed by the newline and anything else — back as one String or BlockString
   token whose value is exactly s.  This covers both forms the formatter chooses between: the
   block form  """ / indented lines / """  (blockStringSafe s: no triple quote, no control
   characters, first and last line not blank, some line starting in column 0), whose common
   indentation and blank first/last lines blockStringValue removes again, and the quoted form with
   escapes (C12_string_values_survive) for everything else — quotes, triple quotes, backslashes,
   leading/trailing blank space and newlines included.
   The bound says the indented text is shorter than 2^31 bytes (the lexer's indent arithmetic). *)
Theorem C13_description_survives : forall o d s f,
  s <> [] -> fo_nodesc o = false -> wf_utf8 s -> blank (fo_indent o) = true ->
  (zlen (indent_of o f) + zlen s < MaxInt32)%Z ->
  exists text, out (WriteDescription o s f) = rev (text ++ [10%N]) ++ out (pre o f)
    /\ forall rst e ln ls, exists t lx',
         readToken d (mkLx (text ++ 10%N :: rst) e ln ls) = Some (t, None, lx')
         /\ tval t = s /\ (tkind t = String_ \/ tkind t = BlockString) /\ rest lx' = 10%N :: rst.
Proof. exact description_survives. Qed.
Print Assumptions C13_description_survives.

(* The block form alone: the value of the printed body is the description. *)
Theorem C13_block_value : forall d ind s,
  blank ind = true -> blockStringSafe s = true -> (zlen ind + zlen s < MaxInt32)%Z ->
  blockStringValue d (body_of ind s) = s.
Proof. exact block_value_of_body. Qed.
Print Assumptions C13_block_value.

(* non-vacuity: a three-line description with inner indentation, quotes and a non-ASCII character
   is printed in block form at indent depth 2 and read back; one with leading blank space goes the
   quoted way *)
Example C13_nonvacuous :
  let o := mkFOpts (b "  ") false false false in
  let f := mkFmt [] 2 false true in
  let s := (b "a ""q"" " ++ [195; 169] ++ [10] ++ b "   indented" ++ [10] ++ b "z\")%N%list in
  blockStringSafe s = true
  /\ match lex dev_none (rev (out (WriteDescription o s f)) ++ b "type") with
     | Some ([t; _], None) => tkind t = BlockString /\ tval t = s
     | _ => False
     end
  /\ blockStringSafe (b " lead") = false
  /\ match lex dev_none (rev (out (WriteDescription o (b " lead") f))) with
     | Some ([t], None) => tkind t = String_ /\ tval t = b " lead"
     | _ => False
     end.
Proof. vm_compute. repeat split; reflexivity. Qed.
