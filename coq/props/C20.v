(* C20 — errors are well-formed.  Statements only (the path round trip; the shape of errors
   is checked on the implementation by the harness). *)
From GQL.model Require Import Base Lexer Ast Json Path.
From GQL.proofs Require Import PathRoundtrip.

(* any path of names (arbitrary strings) and int64 indices, of any length, encodes to a JSON
   array and decodes back to exactly the same path *)
Theorem C20_path_roundtrip : forall p, forallb elem_ok p = true -> unmarshal_path (marshal_path p) = Some p.
Proof. exact path_roundtrip. Qed.
Print Assumptions C20_path_roundtrip.

Theorem C20_path_decode_shape : forall l p, unmarshal_elems l = Some p ->
  Forall (fun j => match j with JStr _ | JNum _ => True | _ => False end) l.
Proof. exact path_decode_shape. Qed.
Print Assumptions C20_path_decode_shape.

Example C20_nonvacuous :
  let p := [PName (b "a"); PIndex 2; PName []; PIndex (-1); PIndex 9007199254740993] in
  forallb elem_ok p = true /\ unmarshal_path (marshal_path p) = Some p.
Proof. split; vm_compute; reflexivity. Qed.
