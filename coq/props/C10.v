(* C10 — validation is deterministic and repeatable.  Statements only.
   The model is a function of the schema text and the document text, so it cannot express a
   run-to-run difference by itself; what it can express is the one source of such differences in
   the code: Go map iteration order reaching the output.  The only rule that ranges over a map
   and lets the order reach its result is KnownTypeNames (candidate type names for 'Did you
   mean'), through SuggestionList, which sorts by the total order (distance, name). *)
From Coq Require Import List Permutation Sorting.Sorted.
From GQL.model Require Import Base Utf8 Lexer Ast Schema Walk Rules Rules2 Validate.
From GQL.proofs Require Import SuggestOrder.
Import ListNotations.

(* Whatever order the candidate names arrive in, the suggestion list is the same list. *)
Theorem C10_suggestions_order_independent : forall input options options',
  Permutation options options' -> suggestionList input options = suggestionList input options'.
Proof. exact suggestionList_order_independent. Qed.
Print Assumptions C10_suggestions_order_independent.

(* It is the candidates within the threshold, sorted by (distance, name). *)
Theorem C10_suggestions_sorted : forall input options,
  exists keyed, suggestionList input options = map snd keyed /\ StronglySorted lek keyed
    /\ Permutation keyed (flat_map (fun o => let dd := lexicalDistance input o in
                                       if (dd <=? calcThreshold input)%nat then [(dd, o)] else []) options).
Proof. exact suggestionList_sorted. Qed.
Print Assumptions C10_suggestions_sorted.

(* Two type tables with the same entries in different (map iteration) orders give the same
   KnownTypeNames errors, suggestions included, on every event stream. *)
Theorem C10_type_table_order : forall s s' nosugg evs,
  (forall n, stype s n = stype s' n) ->
  Permutation (map fst s.(sc_types)) (map fst s'.(sc_types)) ->
  run_events [r_KnownTypeNames s nosugg] evs = run_events [r_KnownTypeNames s' nosugg] evs.
Proof. exact KnownTypeNames_table_order. Qed.
Print Assumptions C10_type_table_order.

(* non-vacuity: equidistant candidates in two orders; both answers are the name order *)
Example C10_nonvacuous :
  suggestionList (b "Aaa") [b "Aad"; b "Aab"; b "Zzz"; b "Aac"] = [b "Aab"; b "Aac"; b "Aad"]
  /\ suggestionList (b "Aaa") [b "Aac"; b "Zzz"; b "Aad"; b "Aab"] = [b "Aab"; b "Aac"; b "Aad"].
Proof. split; vm_compute; reflexivity. Qed.
