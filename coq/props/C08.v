(* C08 — validation accepts exactly what the rules allow.  Statements only.
   For three rules of section 5 the rule model is proved equivalent to the specification's
   condition on the document (RuleSpecs.v); the walk's top-level events are one EvOperation per
   operation and one EvFragment per fragment definition, in document order, whatever the
   selection sets contain.  The remaining rules are compared with the implementation and with
   hand-derived expectations (single faults), see DESIGN.md. *)
From Coq Require Import List.
From GQL.model Require Import Base Utf8 Lexer Ast Schema Walk Rules Rules2 Validate.
From GQL.proofs Require Import RuleSpecs RuleSpecs2.
Import ListNotations.

(* 5.2.1.1 Operation Name Uniqueness *)
Theorem C08_UniqueOperationNames : forall s doc,
  run_events [r_UniqueOperationNames] (walk s doc) = [] <-> NoDup (map o_name doc.(q_ops)).
Proof. exact UniqueOperationNames_spec. Qed.
Print Assumptions C08_UniqueOperationNames.

(* 5.2.2.1 Lone Anonymous Operation *)
Theorem C08_LoneAnonymousOperation : forall s doc,
  run_events [r_LoneAnonymousOperation doc] (walk s doc) = []
  <-> (forall o, In o doc.(q_ops) -> o.(o_name) = [] -> length doc.(q_ops) <= 1)%nat.
Proof. exact LoneAnonymousOperation_spec. Qed.
Print Assumptions C08_LoneAnonymousOperation.

(* 5.5.1.1 Fragment Name Uniqueness *)
Theorem C08_UniqueFragmentNames : forall s doc,
  run_events [r_UniqueFragmentNames] (walk s doc) = [] <-> NoDup (map f_name doc.(q_frags)).
Proof. exact UniqueFragmentNames_spec. Qed.
Print Assumptions C08_UniqueFragmentNames.

(* A document that validates satisfies all three (with C18: each default rule's errors are its own). *)
Theorem C08_valid_document_names : forall s doc, validate s doc = [] ->
  NoDup (map o_name doc.(q_ops)) /\ NoDup (map f_name doc.(q_frags))
  /\ (forall o, In o doc.(q_ops) -> o.(o_name) = [] -> length doc.(q_ops) <= 1)%nat.
Proof. exact valid_document_names. Qed.
Print Assumptions C08_valid_document_names.

(* 5.8.1 Variable Uniqueness: within every operation no two variable definitions share a name *)
Theorem C08_UniqueVariableNames : forall s doc,
  run_events [r_UniqueVariableNames] (walk s doc) = [] <-> forall o, In o doc.(q_ops) -> NoDup (map vd_var o.(o_vars)).
Proof. exact UniqueVariableNames_spec. Qed.
Print Assumptions C08_UniqueVariableNames.

(* 5.8.2 Variables Are Input Types: a variable whose type exists has a scalar, enum or input object type *)
Theorem C08_VariablesAreInputTypes : forall s doc,
  run_events [r_VariablesAreInputTypes s] (walk s doc) = []
  <-> forall o v d, In o doc.(q_ops) -> In v o.(o_vars) -> stype s (type_name v.(vd_type)) = Some d -> kind_is_input d.(df_kind) = true.
Proof. exact VariablesAreInputTypes_spec. Qed.
Print Assumptions C08_VariablesAreInputTypes.

(* 5.2.x root operation type: every operation's root type (query / mutation / subscription) exists *)
Theorem C08_KnownRootType : forall s doc,
  run_events [r_KnownRootType s] (walk s doc) = [] <-> forall o, In o doc.(q_ops) -> root_def s o.(o_op) <> None.
Proof. exact KnownRootType_spec. Qed.
Print Assumptions C08_KnownRootType.

Theorem C08_valid_document_operations : forall s doc, validate s doc = [] ->
  (forall o, In o doc.(q_ops) -> root_def s o.(o_op) <> None)
  /\ (forall o, In o doc.(q_ops) -> NoDup (map vd_var o.(o_vars)))
  /\ (forall o v d, In o doc.(q_ops) -> In v o.(o_vars) -> stype s (type_name v.(vd_type)) = Some d -> kind_is_input d.(df_kind) = true).
Proof. exact valid_document_operations. Qed.
Print Assumptions C08_valid_document_operations.

(* What a silent KnownTypeNames / FragmentsOnCompositeTypes / VariablesAreInputTypes guarantees about
   definitions: after a validation without errors every variable of every operation has a type that
   exists in the schema and is an input type (what VariableValues relies on, C14), and every
   fragment definition is on an existing object, interface or union type. *)
From GQL.proofs Require Import RuleSpecs3.
Theorem C08_valid_document_types : forall s doc, validate s doc = [] ->
  (forall o v, In o doc.(q_ops) -> In v o.(o_vars) ->
     exists d, stype s (type_name v.(vd_type)) = Some d /\ kind_is_input d.(df_kind) = true)
  /\ (forall f, In f doc.(q_frags) -> f.(f_typecond) <> [] ->
     exists d, stype s f.(f_typecond) = Some d /\ is_composite d = true).
Proof. exact valid_document_types. Qed.
Print Assumptions C08_valid_document_types.
