(* C06 — the schema parser: what is proved about acceptance.  Statements only. *)
From Coq Require Import List.
From GQL.model Require Import Base Utf8 Lexer Ast Parser Prog ParseQuery ParseSchema.
From GQL.proofs Require Import ParserTotal ParseSchemaTotal.
Import ListNotations.

(* A schema document is returned only after the parser has been handed the end-of-input token, with
   no unread byte left in the lexer (every input, token limit, source index and deviation setting). *)
Theorem C06_accepts_whole_input : forall d limit srcix builtin input doc s,
  parseSchemaWith d (query_fuel input) limit srcix builtin input = (POk doc, s) -> at_eof s /\ rest (plx s) = [].
Proof. exact parseSchema_reads_everything. Qed.
Print Assumptions C06_accepts_whole_input.

(* Definitions and extensions that come from a built-in source are marked built-in, those of any
   other source are not. *)
Theorem C06_builtin_mark : forall d limit srcix builtin input doc,
  parseSchema d limit srcix builtin input = POk doc ->
  Forall (fun x => df_builtin x = builtin) (s_defs doc) /\ Forall (fun x => df_builtin x = builtin) (s_exts doc).
Proof. exact parseSchema_builtin_mark. Qed.
Print Assumptions C06_builtin_mark.

Theorem C06_outcomes : forall d limit srcix builtin input, parseSchema d limit srcix builtin input <> PErr PStall.
Proof. exact parseSchema_never_stalls. Qed.
Print Assumptions C06_outcomes.

Example C06_nonvacuous :
  match parseSchema dev_none 0 0 true (b "scalar A extend type B @d") with
  | POk doc => map df_builtin (s_defs doc) = [true] /\ map df_builtin (s_exts doc) = [true]
  | _ => False
  end
  /\ parseSchema dev_none 0 0 false (b "scalar A }") = PErr (PSyntax 1 10).
Proof. vm_compute. repeat split; reflexivity. Qed.
