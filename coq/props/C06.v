(* C06 — the schema parser: what is proved about acceptance.  Statements only. *)
From Coq Require Import List.
From GQL.model Require Import Base Utf8 Lexer Ast Parser Prog ParseQuery ParseSchema.
From GQL.proofs Require Import ParserTotal ParseSchemaTotal NumberGrammar TypeRoundtrip TokenStream JsonRoundtrip ParseComplete ParseSchemaComplete Sizes SchemaSizes Layout.
Import ListNotations.

(* A schema document is returned only after the parser has been handed the end-of-input token, with
   no unread byte left in the lexer (every input, token limit, source index and deviation setting). *)
Theorem C06_accepts_whole_input : forall d limit srcix builtin input doc s,
  parseSchemaWith d (query_fuel input) limit srcix builtin input = (POk doc, s) -> at_eof s /\ rest (plx s) = [].
Proof. exact parseSchema_reads_everything. Qed.
Print Assumptions C06_accepts_whole_input.

(* Definitions and extensions that come from a built-in source are marked built-in, those of any
   other source are not. *)
Theorem C06_builtin_mark : forall d limit srcix builtin input doc,
  parseSchema d limit srcix builtin input = POk doc ->
  Forall (fun x => df_builtin x = builtin) (s_defs doc) /\ Forall (fun x => df_builtin x = builtin) (s_exts doc).
Proof. exact parseSchema_builtin_mark. Qed.
Print Assumptions C06_builtin_mark.

Theorem C06_outcomes : forall d limit srcix builtin input, parseSchema d limit srcix builtin input <> PErr PStall.
Proof. exact parseSchema_never_stalls. Qed.
Print Assumptions C06_outcomes.

Example C06_nonvacuous :
  match parseSchema dev_none 0 0 true (b "scalar A extend type B @d") with
  | POk doc => map df_builtin (s_defs doc) = [true] /\ map df_builtin (s_exts doc) = [true]
  | _ => False
  end
  /\ parseSchema dev_none 0 0 false (b "scalar A }") = PErr (PSyntax 1 10).
Proof. vm_compute. repeat split; reflexivity. Qed.

(* Completeness and determinism against the grammar, layout-free (the type-system counterpart of C05's
   theorem).  A type-system document is a list of items in source order: type definitions and
   extensions of the six kinds (descriptions, implemented interfaces, directives, field definitions
   with argument definitions, union members, enum values, input fields with defaults), schema
   definitions and extensions, directive definitions (arguments, `repeatable`, locations).  flat_item
   is the token sequence the grammar assigns to an item; toks d input ts says the lexer reads input as
   exactly ts and then the end.  Then the parser returns a document, and that document is the items
   sorted into the five lists of a SchemaDocument (sdoc_of), each definition carrying the built-in mark
   of the source, positions erased: every derivable document is accepted, and a text with these tokens
   is read as nothing else.  item_ok: what a tree must satisfy to be in the grammar (constant default
   values and directive arguments, an extension adds something, a definition kind has only its own
   parts, no description is the word `implements` (deviation F_S3 would take it for the keyword),
   extensions of interfaces implement nothing where deviation F_S4 forbids it, a schema definition
   has operation types unless F_S1 admits none) and the size bounds against the fuel.  dk says, for each
   description, whether it is written as a quoted string or as a block string: either is read back. *)
Theorem C06_grammatical_documents_are_parsed : forall (dk : str -> kind), (forall s, dk s = String_ \/ dk s = BlockString) ->
  forall d items input fuel ix bi,
  Forall (item_ok d fuel fuel) items -> (length items < fuel)%nat -> (items <> [] \/ d F_S7 = true) ->
  toks d input (flat_map (flat_item dk) items) ->
  exists doc' s, parseSchemaWith d fuel 0 ix bi input = (POk doc', s)
                 /\ erase_sdoc doc' = erase_sdoc (with_builtin bi (sdoc_of items)).
Proof. exact parseSchema_complete. Qed.
Print Assumptions C06_grammatical_documents_are_parsed.

(* The same for the entry point as it is: the fuel parseSchema gives itself (2*|input|+8) always suffices,
   so the size conditions disappear and only the intrinsic ones remain (item_wok). *)
Theorem C06_grammatical_documents_are_parsed_by_parseSchema : forall d (dk : str -> kind) items input ix bi,
  (forall s, dk s = String_ \/ dk s = BlockString) ->
  Forall (item_wok d) items -> (items <> [] \/ d F_S7 = true) -> toks d input (flat_map (flat_item dk) items) ->
  exists doc', parseSchema d 0 ix bi input = POk doc' /\ erase_sdoc doc' = erase_sdoc (with_builtin bi (sdoc_of items)).
Proof. exact parseSchema_complete_entry. Qed.
Print Assumptions C06_grammatical_documents_are_parsed_by_parseSchema.

(* one production on its own: a type definition or extension of any kind, in front of any continuation
   that starts like a definition *)
Theorem C06_type_definitions_are_parsed : forall (dk : str -> kind), (forall s, dk s = String_ \/ dk s = BlockString) ->
  forall d F fuel ext desc x s rest, def_ok d F fuel ext x -> dfol rest ->
  stream d s ((Name, kw_of x.(df_kind)) :: (Name, x.(df_name)) :: flat_defbody dk x ++ rest) ->
  exists x' s1, run d (parseTypeDef d fuel x.(df_kind) (kw_of x.(df_kind)) ext desc) F s = (x', s1)
                /\ erase_def x' = erase_def (mkDef x.(df_kind) desc x.(df_name) x.(df_dirs) x.(df_ifaces) x.(df_fields) x.(df_types) x.(df_enums) x.(df_pos) false)
                /\ stream d s1 rest.
Proof. exact parse_typedef. Qed.
Print Assumptions C06_type_definitions_are_parsed.

(* the hypotheses are satisfiable: `scalar A "d" type B implements I @x { f(a: Int = 1): [B!] }` *)
Example C06_grammar_nonvacuous :
  let fld := mkFieldDef [] (b "f") [mkArgDef [] (b "a") (Some (mkValue VInt (b "1") [] pos0)) (NamedT (b "Int") false pos0) [] pos0]
                        None (ListT (NamedT (b "B") true pos0) false pos0) [] pos0 in
  let items := [IDef (mkDef KScalar [] (b "A") [] [] [] [] [] pos0 false);
                IDef (mkDef KObject (b "d") (b "B") [mkDir (b "x") [] pos0] [b "I"] [fld] [] [] pos0 false)] in
  Forall (item_ok dev_none 9 9) items
  /\ match parseSchemaWith dev_none 9 0 0 false (b "scalar A ""d"" type B implements I @x { f(a: Int = 1): [B!] }") with
     | (POk doc, _) => erase_sdoc doc = erase_sdoc (with_builtin false (sdoc_of items))
     | _ => False
     end.
Proof.
  split; [|vm_compute; reflexivity].
  repeat constructor; cbn; try lia; try discriminate; try reflexivity; auto.
Qed.

(* Layout independence, independence of the source index and of how descriptions are quoted: the same
   items give the same document. *)
Theorem C06_layout_independent : forall d (dk1 dk2 : str -> kind) items in1 in2 ix1 ix2 bi,
  (forall s, dk1 s = String_ \/ dk1 s = BlockString) -> (forall s, dk2 s = String_ \/ dk2 s = BlockString) ->
  Forall (item_wok d) items -> (items <> [] \/ d F_S7 = true) ->
  toks d in1 (flat_map (flat_item dk1) items) -> toks d in2 (flat_map (flat_item dk2) items) ->
  exists x1 x2, parseSchema d 0 ix1 bi in1 = POk x1 /\ parseSchema d 0 ix2 bi in2 = POk x2 /\ erase_sdoc x1 = erase_sdoc x2.
Proof. exact schema_layout_independent. Qed.
Print Assumptions C06_layout_independent.

(* ... and unambiguous: one text is not the token sequence of two different item lists (whichever way
   their descriptions are taken to be written). *)
Theorem C06_grammar_unambiguous : forall d (dk1 dk2 : str -> kind) items1 items2 input bi,
  (forall s, dk1 s = String_ \/ dk1 s = BlockString) -> (forall s, dk2 s = String_ \/ dk2 s = BlockString) ->
  Forall (item_wok d) items1 -> Forall (item_wok d) items2 -> (items1 <> [] \/ d F_S7 = true) -> (items2 <> [] \/ d F_S7 = true) ->
  toks d input (flat_map (flat_item dk1) items1) -> toks d input (flat_map (flat_item dk2) items2) ->
  erase_sdoc (with_builtin bi (sdoc_of items1)) = erase_sdoc (with_builtin bi (sdoc_of items2)).
Proof. exact schema_unambiguous. Qed.
Print Assumptions C06_grammar_unambiguous.
