(* C05 — the query parser: what is proved about acceptance.  Statements only. *)
From Coq Require Import List.
From GQL.model Require Import Base Utf8 Lexer Ast Parser Prog ParseQuery.
From GQL.proofs Require Import ParserTotal.
Import ListNotations.

(* Acceptance is a statement about the whole string: a document is returned only after the parser
   has been handed the end-of-input token, and at that moment the lexer has no unread byte left —
   nothing after the last definition is skipped (for every input, token limit and deviation
   setting).  at_eof s: the token the parser is looking at is <EOF>. *)
Theorem C05_accepts_whole_input : forall d limit input doc s,
  parseQueryWith d (query_fuel input) limit input = (POk doc, s) -> at_eof s /\ rest (plx s) = [].
Proof. exact parseQuery_reads_everything. Qed.
Print Assumptions C05_accepts_whole_input.

(* The outcome is one of: a document, a syntax error located at a token, a lexical error, the
   token-limit error. *)
Theorem C05_outcomes : forall d limit input, parseQuery d limit input <> PErr PStall.
Proof. exact parseQuery_never_stalls. Qed.
Print Assumptions C05_outcomes.

Example C05_nonvacuous :
  match parseQueryWith dev_none (query_fuel (b "{ a } # c")) 0 (b "{ a } # c") with
  | (POk doc, s) => length (q_ops doc) = 1%nat /\ rest (plx s) = []
  | _ => False
  end
  /\ parseQuery dev_none 0 (b "{ a } }") = PErr (PSyntax 1 7).
Proof. vm_compute. repeat split; reflexivity. Qed.
