(* C05 — the query parser: what is proved about acceptance.  Statements only. *)
From Coq Require Import List.
From GQL.model Require Import Base Utf8 Lexer Ast Parser Prog ParseQuery.
From GQL.proofs Require Import ParserTotal NumberGrammar TypeRoundtrip TokenStream JsonRoundtrip ParseComplete Sizes ParseSchemaComplete SchemaSizes Layout.
Import ListNotations.

(* Acceptance is a statement about the whole string: a document is returned only after the parser
   has been handed the end-of-input token, and at that moment the lexer has no unread byte left —
   nothing after the last definition is skipped (for every input, token limit and deviation
   setting).  at_eof s: the token the parser is looking at is <EOF>. *)
Theorem C05_accepts_whole_input : forall d limit input doc s,
  parseQueryWith d (query_fuel input) limit input = (POk doc, s) -> at_eof s /\ rest (plx s) = [].
Proof. exact parseQuery_reads_everything. Qed.
Print Assumptions C05_accepts_whole_input.

(* The outcome is one of: a document, a syntax error located at a token, a lexical error, the
   token-limit error. *)
Theorem C05_outcomes : forall d limit input, parseQuery d limit input <> PErr PStall.
Proof. exact parseQuery_never_stalls. Qed.
Print Assumptions C05_outcomes.

Example C05_nonvacuous :
  match parseQueryWith dev_none (query_fuel (b "{ a } # c")) 0 (b "{ a } # c") with
  | (POk doc, s) => length (q_ops doc) = 1%nat /\ rest (plx s) = []
  | _ => False
  end
  /\ parseQuery dev_none 0 (b "{ a } }") = PErr (PSyntax 1 7).
Proof. vm_compute. repeat split; reflexivity. Qed.

(* Completeness and determinism against the grammar, layout-free.  flat_doc q is the token sequence
   the grammar of executable documents assigns to the tree q (operation keyword, optional name,
   variable definitions with types, default values and directives, directives, selection sets with
   aliases, arguments, fragment spreads and inline fragments; fragment definitions; values to any
   depth).  toks d input ts: the lexer reads the text input as exactly the tokens ts (kinds and
   values) and then the end of the input — however the tokens are separated (blanks, commas, line
   ends, comments, BOM).  Then the parser returns a document, and that document is q (positions
   erased): every derivable document is accepted, and no text whose tokens are those of q is read
   as anything else.
   doc_wok: what a tree must satisfy to be in the grammar at all (an operation has an operation type
   and a non-empty selection set; a fragment spread is not named `on`; enum values are not
   true/false/null and conversely; const positions hold no variable, unless /repo's deviation F_Q1
   admits it; a fragment definition has variable definitions only where /repo's deviation F_Q4
   admits them; the empty document only under F_Q3).  fuel bounds nesting and list lengths
   (query_fuel input = 2*|input|+8 always suffices, since every level and every element costs a
   token). *)
Theorem C05_grammatical_documents_are_parsed : forall d q input fuel,
  doc_wok d q -> toks d input (flat_doc q) -> (doc_depth q <= fuel)%nat -> (doc_width q < fuel)%nat ->
  exists q' s, parseQueryWith d fuel 0 input = (POk q', s) /\ erase_qdoc q' = erase_qdoc q.
Proof. exact parseQuery_complete. Qed.
Print Assumptions C05_grammatical_documents_are_parsed.

(* The same for the entry point as it is: the fuel parseQuery gives itself (2*|input|+8) always suffices,
   because nesting depth and list lengths of q are bounded by the number of its tokens (doc_sizes) and
   the number of tokens of a text by its length (toks_len). *)
Theorem C05_grammatical_documents_are_parsed_by_parseQuery : forall d q input,
  doc_wok d q -> toks d input (flat_doc q) ->
  exists q', parseQuery d 0 input = POk q' /\ erase_qdoc q' = erase_qdoc q.
Proof. exact parseQuery_complete_entry. Qed.
Print Assumptions C05_grammatical_documents_are_parsed_by_parseQuery.

(* the same for every production on its own, in front of any continuation (here: selections) *)
Theorem C05_selections_are_parsed : forall d F c, sel_wok c -> forall fuel s rest,
  (sel_depth c <= fuel)%nat -> (sel_width c < F)%nat -> sfol (fk rest) -> stream d s (flat_sel c ++ rest) ->
  exists c' s1, run d (parseSelection d fuel) F s = (c', s1) /\ erase_sel c' = erase_sel c /\ stream d s1 rest.
Proof. exact parse_selection. Qed.
Print Assumptions C05_selections_are_parsed.

(* the hypotheses are satisfiable: `query{a}`, with a blank, a comma and a line end thrown in *)
Example C05_grammar_nonvacuous :
  let q := mkQDoc [mkOp OpQuery [] [] [] [SField (b "a") (b "a") [] [] [] pos0] pos0] [] None in
  doc_wok dev_none q /\ flat_doc q = [(Name, b "query"); (BraceL, []); (Name, b "a"); (BraceR, [])]
  /\ toks dev_none (b "query {a," ++ [10%N] ++ b "}") (flat_doc q).
Proof.
  split; [|split; [reflexivity|]].
  - split; [|left; discriminate]. constructor; [|constructor]. unfold qdef_wok, op_wok. cbn [o_op o_vars o_dirs o_sels].
    split; [discriminate|]. split; [constructor|]. split; [constructor|]. split; [discriminate|].
    constructor; [|constructor]. cbn [sel_wok]. split; [constructor|]. split; [constructor|exact I].
  - assert (Hn : forall c tl, is_name_start c = true -> forallb is_name_cont tl = true -> name_text (c :: tl))
      by (intros c tl H1 H2; exists c, tl; auto).
    apply (toks_name dev_none (b "query")); [apply Hn; reflexivity|reflexivity|].
    apply (toks_ign dev_none [32%N]); [constructor; [right; left; reflexivity|constructor]|].
    apply (toks_punct dev_none 123%N BraceL); [reflexivity|discriminate|discriminate|discriminate|].
    apply (toks_name dev_none (b "a")); [apply Hn; reflexivity|reflexivity|].
    apply (toks_ign dev_none [44%N; 10%N]); [constructor; [right; right; left; reflexivity|constructor; [right; right; right; reflexivity|constructor]]|].
    apply (toks_punct dev_none 125%N BraceR); [reflexivity|discriminate|discriminate|discriminate|].
    apply toks_eof.
Qed.

(* Layout independence: two texts that the lexer reads as the same tokens of a grammatical document are
   parsed as the same document, positions aside — blanks, commas, line ends, comments and the BOM never
   reach the tree. *)
Theorem C05_layout_independent : forall d q in1 in2,
  doc_wok d q -> toks d in1 (flat_doc q) -> toks d in2 (flat_doc q) ->
  exists q1 q2, parseQuery d 0 in1 = POk q1 /\ parseQuery d 0 in2 = POk q2 /\ erase_qdoc q1 = erase_qdoc q2.
Proof. exact query_layout_independent. Qed.
Print Assumptions C05_layout_independent.

(* ... and unambiguous: one text is not the token sequence of two different documents. *)
Theorem C05_grammar_unambiguous : forall d q1 q2 input,
  doc_wok d q1 -> doc_wok d q2 -> toks d input (flat_doc q1) -> toks d input (flat_doc q2) -> erase_qdoc q1 = erase_qdoc q2.
Proof. exact query_unambiguous. Qed.
Print Assumptions C05_grammar_unambiguous.
