(* C01 — lexing and parsing are total.  Statements only; proofs live in proofs/. *)
From GQL.model Require Import Base Utf8 Lexer.
From GQL.proofs Require Import LexerTotal.

(* One ReadToken call returns for every lexer state (arbitrary bytes, any deviation flags). *)
Theorem C01_readToken_total : forall d s, readToken d s <> None.
Proof. exact readToken_total. Qed.
Print Assumptions C01_readToken_total.

(* A call that returns a proper token strictly shortens the unread input: no stall. *)
Theorem C01_readToken_progress : forall d s t s',
  readToken d s = Some (t, None, s') -> tkind t <> EOF ->
  (length (rest s') < length (rest s))%nat.
Proof. exact readToken_progress. Qed.
Print Assumptions C01_readToken_progress.

(* Lexing to the end terminates within |input|+1 ReadToken calls on every byte string. *)
Theorem C01_lex_total : forall d input, lex d input <> None.
Proof. exact lex_total. Qed.
Print Assumptions C01_lex_total.

Example C01_lex_nonvacuous :
  exists ts, lex dev_none (b "{ a(x: ""q"") }") = Some (ts, None) /\ length ts = 8%nat.
Proof. eexists. split; [vm_compute; reflexivity|reflexivity]. Qed.

(* ---- the two parsers ---- *)
From GQL.model Require Import Ast Parser Prog ParseQuery ParseSchema.
From GQL.proofs Require Import ParserTotal ParseSchemaTotal.

(* The model's parsers recurse on fuel 2|input|+8 and return the distinguished outcome PStall when it
   runs out.  It never does: for every byte string, every token limit and every setting of the
   deviation flags, parsing an executable document ends with a document, a located syntax error or
   the token-limit error.  (Every loop round and every recursive descent consumes at least one
   token; a peeked non-EOF token counts one, so the measure is bytes left + 1.) *)
Theorem C01_parseQuery_never_stalls : forall d limit input, parseQuery d limit input <> PErr PStall.
Proof. exact parseQuery_never_stalls. Qed.
Print Assumptions C01_parseQuery_never_stalls.

(* The same for a type-system document from any source, and for a list of sources. *)
Theorem C01_parseSchema_never_stalls : forall d limit srcix builtin input,
  parseSchema d limit srcix builtin input <> PErr PStall.
Proof. exact parseSchema_never_stalls. Qed.
Print Assumptions C01_parseSchema_never_stalls.

Theorem C01_parseSchemas_never_stalls : forall d limit srcs, parseSchemas d limit srcs <> PErr PStall.
Proof. exact parseSchemas_never_stalls. Qed.
Print Assumptions C01_parseSchemas_never_stalls.

Example C01_parse_nonvacuous :
  (exists doc, parseQuery dev_none 0 (b "{ a(x: [1, {k: $v}]) @d ... on T { b } }") = POk doc)
  /\ parseQuery dev_none 0 (b "{ a(x: [1, {k: $v}") = PErr (PSyntax 1 19)
  /\ parseQuery dev_none 3 (b "{ a b c }") = PErr PLimit
  /\ (exists doc, parseSchema dev_none 0 0 false (b "type T implements I & J @d { f(a: [Int!] = [1]): T! } extend schema @x") = POk doc).
Proof. vm_compute. repeat split; eexists; reflexivity. Qed.
