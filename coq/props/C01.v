(* C01 — lexing and parsing are total.  Statements only; proofs live in proofs/. *)
From GQL.model Require Import Base Utf8 Lexer.
From GQL.proofs Require Import LexerTotal.

(* One ReadToken call returns for every lexer state (arbitrary bytes, any deviation flags). *)
Theorem C01_readToken_total : forall d s, readToken d s <> None.
Proof. exact readToken_total. Qed.
Print Assumptions C01_readToken_total.

(* A call that returns a proper token strictly shortens the unread input: no stall. *)
Theorem C01_readToken_progress : forall d s t s',
  readToken d s = Some (t, None, s') -> tkind t <> EOF ->
  (length (rest s') < length (rest s))%nat.
Proof. exact readToken_progress. Qed.
Print Assumptions C01_readToken_progress.

(* Lexing to the end terminates within |input|+1 ReadToken calls on every byte string. *)
Theorem C01_lex_total : forall d input, lex d input <> None.
Proof. exact lex_total. Qed.
Print Assumptions C01_lex_total.

Example C01_lex_nonvacuous :
  exists ts, lex dev_none (b "{ a(x: ""q"") }") = Some (ts, None) /\ length ts = 8%nat.
Proof. eexists. split; [vm_compute; reflexivity|reflexivity]. Qed.
