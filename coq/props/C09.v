(* C09 — validated documents are linked to schema definitions.  Statements only.
   Linked.linked s doc parent sel: the field, inline fragment or spread sel, selected on the type
   parent, and everything selected below it without going through a spread, has what the walker
   writes on it: a known parent type and a field definition on it (__typename: the meta field), a
   known type for an inline fragment, a fragment definition for a spread.  The annotations
   themselves are computed by Link.link_doc and compared with the implementation; these theorems
   say that for a valid document none of these slots is empty. *)
From Coq Require Import List.
From GQL.model Require Import Base Utf8 Lexer Ast Parser ParseQuery ParseSchema Schema Walk Rules Rules2 Validate Ops.
From GQL.proofs Require Import LoadedClosed Linked.
From GQL.props Require C07.
Import ListNotations.

Theorem C09_operations_linked : forall s doc, fields_resolve s -> validate s doc = [] ->
  forall o, In o doc.(q_ops) -> forall sel, In sel o.(o_sels) -> linked s doc (root_def s o.(o_op)) sel.
Proof. intros s doc Hres Hv. exact (validated_operations_linked s doc Hv Hres). Qed.
Print Assumptions C09_operations_linked.

Theorem C09_fragments_linked : forall s doc, fields_resolve s -> validate s doc = [] ->
  forall f, In f doc.(q_frags) ->
    is_some (stype s f.(f_typecond)) = true /\ forall sel, In sel f.(f_sels) -> linked s doc (stype s f.(f_typecond)) sel.
Proof. intros s doc Hres Hv. exact (validated_fragments_linked s doc Hv Hres). Qed.
Print Assumptions C09_fragments_linked.

(* The side condition — every field of every type, and __typename, has a type in the schema —
   holds for every schema loaded with a prelude that defines String, __Schema and __Type. *)
Theorem C09_loaded_schemas_qualify : forall d pre srcs s, load_schema_with d pre srcs = Some s ->
  is_some (stype s (b "String")) = true -> is_some (stype s (b "__Schema")) = true -> is_some (stype s (b "__Type")) = true ->
  fields_resolve s.
Proof. intros d pre srcs s H. apply closed_fields_resolve. eapply load_closed. exact H. Qed.
Print Assumptions C09_loaded_schemas_qualify.

(* With the prelude of this source tree the side condition needs nothing further. *)
Theorem C09_real_prelude : forall srcs s, load_schema_with dev_none (parse_prelude dev_none) srcs = Some s -> fields_resolve s.
Proof.
  intros srcs s H. destruct (C07.C07_builtins_present srcs s H) as [Ht _].
  eapply C09_loaded_schemas_qualify; [exact H| | |]; apply Ht; cbn; auto 10.
Qed.
Print Assumptions C09_real_prelude.

(* non-vacuity: a valid document with a field, an inline fragment, a spread and __typename *)
Example C09_nonvacuous :
  match load_schema dev_none [b "type Query { a: A } type A { x: Int a: A }"],
        parseQuery dev_none 0 (b "{ a { x ... on A { __typename ...F } } } fragment F on A { a { x } }") with
  | Some s, POk doc => validate s doc = [] /\ length doc.(q_ops) = 1%nat /\ length doc.(q_frags) = 1%nat
  | _, _ => False
  end.
Proof. vm_compute. repeat split. Qed.
