(* C11 — a loaded schema is read-only.  Statements only.  The table [write_sites] is regenerated
   from /repo's sources on every run, so these theorems are re-checked against the current code. *)
From Coq Require Import List String Bool.
From GQL.gen Require Import Writes.
From GQL.proofs Require Import WritesConfined.
Import ListNotations.

(* Every write through a pointer, into a map or slice element, every delete and every reflect
   Set* in the non-test sources: if the written object's static type is schema-owned (Schema,
   Definition, FieldDefinition, ArgumentDefinition, EnumValueDefinition, DirectiveDefinition, Type,
   ...), the write is in the parsers or the loader; package-level variables are written only by
   init, AddRule, RemoveRule, ReplaceRule.  Hence Validate, VariableValues, ArgumentMap and the
   formatter contain no write to a schema-owned type. *)
Theorem C11_writes_confined : forallb row_ok write_sites = true.
Proof. exact writes_confined. Qed.
Print Assumptions C11_writes_confined.

Theorem C11_writes_confined_spec : forall pkg file line fn kind typ fld,
  In (pkg, file, line, fn, kind, typ, fld) write_sites ->
  (schema_owned typ = true -> builds_schema file fn = true) /\
  (schema_owned typ = false -> kind = "pkgvar"%string -> registry_function fn = true).
Proof. exact writes_confined_spec. Qed.
Print Assumptions C11_writes_confined_spec.

Example C11_nonvacuous : Nat.leb 100 (List.length write_sites) = true.
Proof. exact table_nonempty. Qed.
