(* C15 — argument resolution follows literal > variable > default.  Statements only.
   arg2map d vardefs vars defs args models ast.arg2map for the argument definitions defs of a
   field or directive and the arguments args written on it; vars is the variables map and
   vardefs the operation's variable definitions.  ArgMapSpec.prescribed is the specification's
   order of precedence; slot m args ad says that the map m holds for ad what is prescribed. *)
From Coq Require Import List.
From GQL.model Require Import Base Utf8 Lexer Ast Schema Vars.
From GQL.proofs Require Import ArgMapSpec.
Import ListNotations.

(* For each declared argument: the literal written (converted recursively, variables inside it
   substituted by Value.Value), else the supplied variable's value, else the variable's default,
   else the argument's default, else nothing; and the map holds nothing but declared arguments. *)
Theorem C15_argument_map : forall vardefs vars defs args m,
  NoDup (map ad_name defs) ->
  arg2map dev_none vardefs vars defs args = VOk m ->
  (forall ad, In ad defs -> slot vardefs vars m args ad)
  /\ (forall k, ~ In k (map ad_name defs) -> lookup k m = None).
Proof. exact arg2map_spec. Qed.
Print Assumptions C15_argument_map.

(* non-vacuity: a literal, a supplied variable, an unsupplied variable with a default, an
   argument default and an absent argument *)
Example C15_nonvacuous :
  let vd := [mkVarDef (b "v") (NamedT (b "Int") false pos0) None [] pos0;
             mkVarDef (b "w") (NamedT (b "Int") false pos0) (Some (mkValue VInt (b "7") [] pos0)) [] pos0] in
  let ad (n : str) dflt := mkArgDef [] n dflt (NamedT (b "Int") false pos0) [] pos0 in
  arg2map dev_none vd [(b "v", GInt 0 5)]
          [ad (b "a") None; ad (b "b") None; ad (b "c") None; ad (b "d") (Some (mkValue VInt (b "9") [] pos0)); ad (b "e") None]
          [mkArg (b "a") (mkValue VInt (b "1") [] pos0) pos0;
           mkArg (b "b") (mkValue VVar (b "v") [] pos0) pos0;
           mkArg (b "c") (mkValue VVar (b "w") [] pos0) pos0]
  = VOk [(b "a", GInt 2 1); (b "b", GInt 0 5); (b "c", GInt 2 7); (b "d", GInt 2 9)].
Proof. vm_compute. reflexivity. Qed.
