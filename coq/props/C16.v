(* C16 — the token limit is exact, monotone and bounds the work.  Statements only. *)
From GQL.model Require Import Base Utf8 Lexer Ast Parser Prog ParseQuery ParseSchema.
From GQL.proofs Require Import ProgFacts LimitExact.

(* Exactness.  [query_tokens_consumed] is the number of tokens (comments counted, EOF not)
   that the unlimited parse consumes.  Under a limit L > 0 the parse is the unlimited parse
   when that number is at most L — same tree, same error — and the limit error otherwise. *)
Theorem C16_query_exact : forall d L input, L <> 0%N ->
  parseQuery d L input =
  if (query_tokens_consumed d input <=? L)%N then parseQuery d 0 input else PErr PLimit.
Proof. exact parseQuery_limit_exact. Qed.
Print Assumptions C16_query_exact.

Theorem C16_schema_exact : forall d L ix bi input, L <> 0%N ->
  parseSchema d L ix bi input =
  if (schema_tokens_consumed d ix bi input <=? L)%N then parseSchema d 0 ix bi input else PErr PLimit.
Proof. exact parseSchema_limit_exact. Qed.
Print Assumptions C16_schema_exact.

(* Monotone: success under L gives the same tree under every larger limit and without a limit. *)
Theorem C16_query_monotone : forall d L L' input doc, L <> 0%N -> (L <= L')%N ->
  parseQuery d L input = POk doc -> parseQuery d L' input = POk doc /\ parseQuery d 0 input = POk doc.
Proof. exact parseQuery_limit_monotone. Qed.
Print Assumptions C16_query_monotone.

Theorem C16_schema_monotone : forall d L L' ix bi input doc, L <> 0%N -> (L <= L')%N ->
  parseSchema d L ix bi input = POk doc ->
  parseSchema d L' ix bi input = POk doc /\ parseSchema d 0 ix bi input = POk doc.
Proof. exact parseSchema_limit_monotone. Qed.
Print Assumptions C16_schema_monotone.

(* Work: whatever the input (size, nesting), under limit L the lexer is asked for at most
   L + 2 tokens; the statement holds for every parser program, not only the two grammars. *)
Theorem C16_work_any_program : forall d A (p : prog A) fuel input L ix, L <> 0%N ->
  (reads (snd (run d p fuel (pst_init input L ix))) <= L + 2)%N.
Proof. exact run_reads_bounded. Qed.
Print Assumptions C16_work_any_program.

Theorem C16_query_work : forall d L input, L <> 0%N ->
  (reads (snd (parseQueryWith d (query_fuel input) L input)) <= L + 2)%N.
Proof. exact parseQuery_limit_work. Qed.
Print Assumptions C16_query_work.

Theorem C16_schema_work : forall d L ix bi input, L <> 0%N ->
  (reads (snd (parseSchemaWith d (query_fuel input) L ix bi input)) <= L + 2)%N.
Proof. exact parseSchema_limit_work. Qed.
Print Assumptions C16_schema_work.

(* non-vacuity: a document of 8 tokens parses under limit 8 and fails with the limit error under 7 *)
Example C16_nonvacuous :
  query_tokens_consumed dev_none (b "{ a(x: 1) }") = 8%N /\
  (exists doc, parseQuery dev_none 8 (b "{ a(x: 1) }") = POk doc) /\
  parseQuery dev_none 7 (b "{ a(x: 1) }") = PErr PLimit.
Proof. split; [vm_compute; reflexivity|]. split; [eexists; vm_compute; reflexivity|vm_compute; reflexivity]. Qed.

(* Several sources in one call (ParseSchemasWithLimit): the limit applies to every source by
   itself — the sources before it, built-in or not, change nothing; the first source that is over
   the limit (or fails to parse) decides. *)
Theorem C16_schemas_exact : forall d L srcs, L <> 0%N ->
  parseSchemas d L srcs = schemas_under_limit d L 0 srcs sdoc0.
Proof. exact parseSchemas_limit_exact. Qed.
Print Assumptions C16_schemas_exact.
