(* C03 — ignored characters never change the tokens around them.  Statements only.
   (The other half of C03 — the token sequence equals the one of the October 2021 lexical
   grammar — has no declarative grammar in this development yet; it is covered by the
   correspondence check with hand-derived expectations, see DESIGN.md.)
   LexIgnored.ignored w: w is a run of space, tab, comma, LF, CR and BOM.
   shape of a ReadToken result: token kind, token value, error class, the input left. *)
From Coq Require Import List.
From GQL.model Require Import Base Utf8 Lexer.
From GQL.proofs Require Import LexIgnored.
Import ListNotations.

(* One ReadToken call from two lexer states whose unread inputs differ only by ignored
   characters in front: same kind, same value, same verdict, same input left — whatever the
   position counters are and under every deviation flag. *)
Theorem C03_ignored_before_token : forall d s1 s2 w, ignored w -> rest s1 = w ++ rest s2 ->
  option_map shape (readToken d s1) = option_map shape (readToken d s2).
Proof. exact readToken_ignores. Qed.
Print Assumptions C03_ignored_before_token.

(* Hence the whole remaining token stream is the same (kinds and values, and whether and how it
   fails), wherever in a source the ignored characters are inserted between two tokens. *)
Theorem C03_ignored_stream : forall d fuel s1 s2 w, ignored w -> rest s1 = w ++ rest s2 ->
  option_map stream_shape (lex_all d fuel s1) = option_map stream_shape (lex_all d fuel s2).
Proof. exact lex_all_ignores. Qed.
Print Assumptions C03_ignored_stream.

Theorem C03_leading_ignored : forall d w input r, ignored w -> lex d input = Some r ->
  exists r', lex d (w ++ input) = Some r' /\ stream_shape r' = stream_shape r.
Proof. exact lex_ignores_leading. Qed.
Print Assumptions C03_leading_ignored.

(* non-vacuity: a BOM, a CRLF and commas in front of three tokens *)
Example C03_nonvacuous :
  ignored ([239; 187; 191; 13; 10; 44; 32]%N)
  /\ option_map stream_shape (lex dev_none ([239; 187; 191; 13; 10; 44; 32]%N ++ b "a 1.5 ""x"""))
     = option_map stream_shape (lex dev_none (b "a 1.5 ""x"""))
  /\ option_map stream_shape (lex dev_none (b "a 1.5 ""x""")) = Some ([(Name, b "a"); (Float, b "1.5"); (String_, b "x")], None).
Proof. split; [repeat constructor|split; vm_compute; reflexivity]. Qed.
