(* C03 — tokenisation conforms to the lexical grammar.  Statements only.
   First part: ignored characters never change the tokens around them.  Second part (below):
   numbers and names are read exactly as the lexical grammar of the specification says — the
   grammar is stated declaratively in NumberGrammar.v (int_value, float_value, name_text,
   follow_ok) and the reader is proved sound and complete for it.  Strings: C12's theorem and
   the escape enumerations of the correspondence check; comments and block strings: the
   correspondence check.
   LexIgnored.ignored w: w is a run of space, tab, comma, LF, CR and BOM.
   shape of a ReadToken result: token kind, token value, error class, the input left. *)
From Coq Require Import List.
From GQL.model Require Import Base Utf8 Lexer.
From GQL.proofs Require Import LexIgnored NumberGrammar.
Import ListNotations.

(* One ReadToken call from two lexer states whose unread inputs differ only by ignored
   characters in front: same kind, same value, same verdict, same input left — whatever the
   position counters are and under every deviation flag. *)
Theorem C03_ignored_before_token : forall d s1 s2 w, ignored w -> rest s1 = w ++ rest s2 ->
  option_map shape (readToken d s1) = option_map shape (readToken d s2).
Proof. exact readToken_ignores. Qed.
Print Assumptions C03_ignored_before_token.

(* Hence the whole remaining token stream is the same (kinds and values, and whether and how it
   fails), wherever in a source the ignored characters are inserted between two tokens. *)
Theorem C03_ignored_stream : forall d fuel s1 s2 w, ignored w -> rest s1 = w ++ rest s2 ->
  option_map stream_shape (lex_all d fuel s1) = option_map stream_shape (lex_all d fuel s2).
Proof. exact lex_all_ignores. Qed.
Print Assumptions C03_ignored_stream.

Theorem C03_leading_ignored : forall d w input r, ignored w -> lex d input = Some r ->
  exists r', lex d (w ++ input) = Some r' /\ stream_shape r' = stream_shape r.
Proof. exact lex_ignores_leading. Qed.
Print Assumptions C03_leading_ignored.

(* non-vacuity: a BOM, a CRLF and commas in front of three tokens *)
Example C03_nonvacuous :
  ignored ([239; 187; 191; 13; 10; 44; 32]%N)
  /\ option_map stream_shape (lex dev_none ([239; 187; 191; 13; 10; 44; 32]%N ++ b "a 1.5 ""x"""))
     = option_map stream_shape (lex dev_none (b "a 1.5 ""x"""))
  /\ option_map stream_shape (lex dev_none (b "a 1.5 ""x""")) = Some ([(Name, b "a"); (Float, b "1.5"); (String_, b "x")], None).
Proof. split; [repeat constructor|split; vm_compute; reflexivity]. Qed.

(* ---- numbers and names against the grammar ----
     IntegerPart    ::  -? ( 0 | NonZeroDigit Digit* )
     FractionalPart ::  . Digit+
     ExponentPart   ::  (e|E) (+|-)? Digit+
     IntValue       ::  IntegerPart                            [not followed by Digit . NameStart]
     FloatValue     ::  IntegerPart (Frac | Exp | Frac Exp)    [not followed by Digit . NameStart]
     Name           ::  NameStart NameContinue*                [not followed by NameContinue]   *)

(* completeness: every IntValue / FloatValue followed by something that may follow is read as one
   token of that kind whose value is the text, and reading stops exactly behind it *)
Theorem C03_int_complete : forall d v rest start ln ls, d F_L1 = false -> int_value v -> follow_ok rest ->
  readNumber d (v ++ rest) start ln ls = mk_tok Int v rest start (start + zlen v)%Z ln ls.
Proof. exact int_value_read. Qed.
Print Assumptions C03_int_complete.

Theorem C03_float_complete : forall d v rest start ln ls, d F_L1 = false -> float_value v -> follow_ok rest ->
  readNumber d (v ++ rest) start ln ls = mk_tok Float v rest start (start + zlen v)%Z ln ls.
Proof. exact float_value_read. Qed.
Print Assumptions C03_float_complete.

(* soundness: whenever the number reader returns a token, the token's text is an IntValue or a
   FloatValue of the grammar (and the kind says which), the input is that text followed by what is
   left, and what is left may follow a number *)
Theorem C03_number_sound : forall d l start ln ls t s', d F_L1 = false ->
  readNumber d l start ln ls = (t, None, s') ->
  l = tval t ++ rest s' /\ follow_ok (rest s')
  /\ ((tkind t = Int /\ int_value (tval t)) \/ (tkind t = Float /\ float_value (tval t))).
Proof. exact number_sound. Qed.
Print Assumptions C03_number_sound.

(* ReadToken hands every text starting with '-' or a digit to the number reader *)
Theorem C03_number_dispatch : forall d c l e ln ls, (c = 45%N \/ is_digit c = true) ->
  readToken d (mkLx (c :: l) e ln ls) = Some (readNumber d (c :: l) e ln ls).
Proof. exact number_dispatch. Qed.
Print Assumptions C03_number_dispatch.

(* names: complete and sound, through ReadToken *)
Theorem C03_name_complete : forall d v rst e ln ls, name_text v -> noname_head rst ->
  readToken d (mkLx (v ++ rst) e ln ls) = Some (mk_tok Name v rst e (e + zlen v)%Z ln ls).
Proof. exact name_read. Qed.
Print Assumptions C03_name_complete.

Theorem C03_name_sound : forall d c l e ln ls t s', is_name_start c = true ->
  readToken d (mkLx (c :: l) e ln ls) = Some (t, None, s') ->
  tkind t = Name /\ name_text (tval t) /\ c :: l = tval t ++ rest s' /\ noname_head (rest s').
Proof. exact name_sound. Qed.
Print Assumptions C03_name_sound.

Example C03_grammar_nonvacuous :
  float_value (b "-12.50e+3") /\ int_value (b "-0") /\ follow_ok (b " x") /\ name_text (b "_a9")
  /\ ~ follow_ok (b ".5") /\ ~ follow_ok (b "a").
Proof.
  split; [exists (b "-12"), (b ".50"), (b "e+3"); split; [reflexivity|]; split; [right; exists (b "12"); split; [reflexivity|apply (ui_nz 49 [50]); [reflexivity|discriminate|reflexivity]]|];
          split; [right; exists (b "50"); repeat split; discriminate|]; split; [right; exists 101%N, [43%N], (b "3"); repeat split; auto; discriminate|left; discriminate]|].
  split; [right; exists [48%N]; split; [reflexivity|constructor]|].
  split; [cbn; repeat split; discriminate|].
  split; [exists 95%N, (b "a9"); repeat split|].
  split; [cbn; intros [_ [H _]]; apply H; reflexivity|cbn; intros [_ [_ H]]; discriminate].
Qed.
