(* C12 — formatting an executable document and parsing it back.  Statements only. *)
From GQL.model Require Import Base Utf8 Lexer Format.
From GQL.model Require Import Ast Parser Prog ParseQuery.
From GQL.proofs Require Import JsonRoundtrip QuoteRoundtrip NumberGrammar TypeRoundtrip ValueRoundtrip TokenStream ParseComplete Sizes FormatTokens FormatRoundtrip FormatFixpoint NormWok.

(* String values survive byte for byte: whatever valid UTF-8 text v a String/BlockString value
   holds, the text Value.String prints for it is read back by the lexer as one String token whose
   value is exactly v (quotes, backslashes, control characters, non-BMP and non-printable
   characters included), at any position and whatever follows (unless v is empty and a third
   quote follows, which the printer never produces). *)
Theorem C12_string_values_survive : forall d v rest e ln ls,
  wf_utf8 v -> (v = [] -> match rest with 34%N :: _ => False | _ => True end) ->
  exists e', readToken d (mkLx (quoteString v ++ rest) e ln ls)
             = Some (str_tok d v e e' ln ls, None, mkLx rest e' ln ls).
Proof. exact quote_lexes_back. Qed.
Print Assumptions C12_string_values_survive.

Example C12_nonvacuous :
  let v := [34; 92; 10; 7; 127; 195; 169; 240; 159; 152; 128; 243; 160; 128; 129]%N in
  utf8_okb 20 v = true /\
  lex dev_none (quoteString v ++ b " x") <> None /\
  match lex dev_none (quoteString v ++ b " x") with
  | Some (t :: _, None) => tval t = v
  | _ => False
  end.
Proof. vm_compute. split; [reflexivity|]. split; [discriminate|reflexivity]. Qed.

(* Types survive: the text Type.String prints for a type (names, list brackets, non-null marks) is
   parsed back by parseTypeReference as the same type — positions erased — whatever legal token
   follows it, for every type whose names are names and every deviation setting.
   ready d s (text ++ rest): the parser stands in front of that text (it may already have looked at its
   first token); after_type: rest does not continue a name and starts with a proper token other than
   `!`; the parser ends in front of that token without an error. *)
Theorem C12_types_survive : forall d F t, type_names_ok t -> forall fuel s txt Q txt',
  (type_depth t <= fuel)%nat -> ready d s (type_string t ++ txt) -> after_type d txt Q txt' ->
  erase_type (fst (run d (parseTypeReference fuel) F s)) = erase_type t
  /\ (exists tn, sees d (snd (run d (parseTypeReference fuel) F s)) tn txt' /\ Q tn)
  /\ src (snd (run d (parseTypeReference fuel) F s)) = src s.
Proof. exact type_roundtrip. Qed.
Print Assumptions C12_types_survive.

(* the printed type alone, from a fresh parser: the same type and no error *)
Theorem C12_type_alone : forall d t, type_names_ok t ->
  forall F fuel limit ix, (type_depth t <= fuel)%nat -> limit = 0%N ->
  erase_type (fst (run d (parseTypeReference fuel) F (pst_init (type_string t) limit ix))) = erase_type t
  /\ has_err (snd (run d (parseTypeReference fuel) F (pst_init (type_string t) limit ix))) = false.
Proof. exact type_roundtrip_eof. Qed.
Print Assumptions C12_type_alone.

Example C12_types_nonvacuous :
  let t := ListT (ListT (NamedT (b "Int") true pos0) false pos0) true pos0 in
  type_string t = b "[[Int!]]!" /\ type_names_ok t
  /\ erase_type (fst (run dev_none (parseTypeReference 8) 8 (pst_init (b "[[Int!]]!") 0 0))) = t.
Proof. split; [reflexivity|]. split; [exists 73%N, (b "nt"); repeat split|vm_compute; reflexivity]. Qed.

(* Values survive: the text Value.String prints for a value — a variable, number, word (enum, true,
   false, null), string or block string, or a list or input object of such values nested to any
   depth — is parsed back by parseValueLiteral as the same value: kinds (a block string comes back
   as a string), texts, string bytes, field names and the order of elements and fields; positions
   differ.  value_ok: every scalar has the text of its kind (NumberGrammar's int/float grammar, a
   name, valid UTF-8 for strings), object field names are names.  The value may be followed by the
   end of the text or by `,` `]` `}` `)` blank or line end (sep_ok); the parser stops exactly behind
   it.  fuel bounds the nesting the parser may descend, F the number of elements of one list; the
   parser and the lexer are the functions the correspondence check runs against /repo
   (d F_L1 = false: numbers are lexed with the look-ahead restriction, as /repo does since b8dd3c1). *)
Theorem C12_values_survive : forall d F, d F_L1 = false -> forall v, value_ok v ->
  forall fuel s txt, (value_depth v <= fuel)%nat -> (value_width v < F)%nat ->
  ready d s (value_string v ++ txt) -> sep_ok txt ->
  let r := run d (parseValueLiteral fuel false) F s in
  erase_value (fst r) = erase_value v /\ fresh (snd r) txt /\ src (snd r) = src s.
Proof. exact value_roundtrip. Qed.
Print Assumptions C12_values_survive.

(* the printed value alone, from a fresh parser: the same value, all text read, no error *)
Theorem C12_value_alone : forall d v, d F_L1 = false -> value_ok v ->
  forall F fuel limit ix, (value_depth v <= fuel)%nat -> (value_width v < F)%nat -> limit = 0%N ->
  let r := run d (parseValueLiteral fuel false) F (pst_init (value_string v) limit ix) in
  erase_value (fst r) = erase_value v /\ has_err (snd r) = false /\ peeked (snd r) = None /\ rest (plx (snd r)) = nil.
Proof. exact value_roundtrip_alone. Qed.
Print Assumptions C12_value_alone.

(* [{a:1,b:"x"},$v,null] *)
Example C12_values_nonvacuous :
  let sc k raw := mkValue k raw nil pos0 in
  let v := mkValue VList nil
             (cons (nil, None, mkValue VObject nil (cons (b "a", None, sc VInt (b "1")) (cons (b "b", None, sc VBlock (b "x")) nil)) pos0)
             (cons (nil, None, sc VVar (b "v")) (cons (nil, None, sc VNull (b "null")) nil))) pos0 in
  value_string v = b "[{a:1,b:""x""},$v,null]" /\ value_ok v
  /\ erase_value (fst (run dev_none (parseValueLiteral 8 false) 8 (pst_init (value_string v) 0 0))) = erase_value v.
Proof.
  split; [reflexivity|]. split; [|vm_compute; reflexivity].
  assert (Hn : forall c, is_name_start c = true -> name_text (cons c nil)) by (intros c H; exists c, nil; repeat split; exact H).
  cbn [value_ok]. repeat split; try reflexivity; try (apply Hn; reflexivity).
  - apply so_int. left. apply ui_nz; [reflexivity|discriminate|reflexivity].
  - apply so_block. apply (wf_cons _ 120%N 1%nat); [discriminate|reflexivity|reflexivity|constructor].
  - apply so_var. apply Hn. reflexivity.
  - apply (so_word (b "null")). exists 110%N, (b "ull"). repeat split.
Qed.

(* Whole documents survive.  For every executable document q whose names are names and whose values
   are values (doc_lok) and which is a document of the grammar (doc_wok, props/C05.v; what printing forgets keeps it there:
   norm_doc_wok), every indent
   string made of blanks and tabs, compact or not: the text FormatQueryDocument prints is parsed by
   parseQuery — the entry point as it is, with the fuel it gives itself — and the document it returns
   is q with positions erased, block strings read as strings and an absent alias read as the field name
   (norm_doc).  The proof has two halves that meet in the token sequence flat_doc of the grammar:
   format_tokens (the printed text is read by the lexer as exactly flat_doc (norm_doc q): no two tokens
   are glued, none is split, whatever the padding state machine does) and C05's
   parseQuery_complete (any text with these tokens parses to that document). *)
Theorem C12_documents_survive : forall d o q,
  List.Forall ign_char (fo_indent o) -> d F_L1 = false -> doc_lok q -> doc_wok d q ->
  exists q', parseQuery d 0 (FormatQueryDocument o q) = POk q' /\ erase_qdoc q' = erase_qdoc (norm_doc q).
Proof.
  intros d o q Hi Hd Hl Hw. destruct (format_fixpoint' d o q Hi Hd Hl Hw) as [q' [E1 [E2 _]]]. exists q'. split; assumption.
Qed.
Print Assumptions C12_documents_survive.

(* ... and formatting is a fixpoint: the document parsed back prints as the same text (printing looks
   neither at positions, nor at the String/BlockString distinction, nor at an absent alias). *)
Theorem C12_formatting_is_a_fixpoint : forall d o q,
  List.Forall ign_char (fo_indent o) -> d F_L1 = false -> doc_lok q -> doc_wok d q ->
  exists q', parseQuery d 0 (FormatQueryDocument o q) = POk q' /\ erase_qdoc q' = erase_qdoc (norm_doc q)
             /\ FormatQueryDocument o q' = FormatQueryDocument o q.
Proof. exact format_fixpoint'. Qed.
Print Assumptions C12_formatting_is_a_fixpoint.

(* the lexical half on its own: what is printed is read as the tokens of the grammar *)
Theorem C12_printed_tokens : forall d o, List.Forall ign_char (fo_indent o) -> d F_L1 = false ->
  forall q, doc_lok q -> toks d (FormatQueryDocument o q) (flat_doc (norm_doc q)).
Proof. exact format_tokens. Qed.
Print Assumptions C12_printed_tokens.

(* the hypotheses hold of a document with an alias, arguments of every kind of value, a directive, a
   variable with a default, an inline fragment and a fragment definition; and the conclusion, computed *)
Example C12_documents_nonvacuous :
  let src := b "query Q($v: [Int!] = [1, 2] @d) { a: f(x: $v, y: {k: ""s""}, z: E) @skip(if: true) { ... on T { g } ...F } } fragment F on T { h }" in
  match parseQuery dev_none 0 src with
  | POk q =>
    match parseQuery dev_none 0 (FormatQueryDocument (mkFOpts (b "  ") false false false) q) with
    | POk q' => erase_qdoc q' = erase_qdoc (norm_doc q) /\ List.length (q_ops q) = 1%nat /\ List.length (q_frags q) = 1%nat
    | PErr _ => False
    end
  | PErr _ => False
  end.
Proof. vm_compute. repeat split; reflexivity. Qed.
