(* C12 — formatting an executable document and parsing it back.  Statements only. *)
From GQL.model Require Import Base Utf8 Lexer Format.
From GQL.proofs Require Import QuoteRoundtrip.

(* String values survive byte for byte: whatever valid UTF-8 text v a String/BlockString value
   holds, the text Value.String prints for it is read back by the lexer as one String token whose
   value is exactly v (quotes, backslashes, control characters, non-BMP and non-printable
   characters included), at any position and whatever follows (unless v is empty and a third
   quote follows, which the printer never produces). *)
Theorem C12_string_values_survive : forall d v rest e ln ls,
  wf_utf8 v -> (v = [] -> match rest with 34%N :: _ => False | _ => True end) ->
  exists e', readToken d (mkLx (quoteString v ++ rest) e ln ls)
             = Some (str_tok d v e e' ln ls, None, mkLx rest e' ln ls).
Proof. exact quote_lexes_back. Qed.
Print Assumptions C12_string_values_survive.

Example C12_nonvacuous :
  let v := [34; 92; 10; 7; 127; 195; 169; 240; 159; 152; 128; 243; 160; 128; 129]%N in
  utf8_okb 20 v = true /\
  lex dev_none (quoteString v ++ b " x") <> None /\
  match lex dev_none (quoteString v ++ b " x") with
  | Some (t :: _, None) => tval t = v
  | _ => False
  end.
Proof. vm_compute. split; [reflexivity|]. split; [discriminate|reflexivity]. Qed.
