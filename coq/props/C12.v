(* C12 — formatting an executable document and parsing it back.  Statements only. *)
From GQL.model Require Import Base Utf8 Lexer Format.
From GQL.model Require Import Ast Parser Prog ParseQuery.
From GQL.proofs Require Import QuoteRoundtrip NumberGrammar TypeRoundtrip.

(* String values survive byte for byte: whatever valid UTF-8 text v a String/BlockString value
   holds, the text Value.String prints for it is read back by the lexer as one String token whose
   value is exactly v (quotes, backslashes, control characters, non-BMP and non-printable
   characters included), at any position and whatever follows (unless v is empty and a third
   quote follows, which the printer never produces). *)
Theorem C12_string_values_survive : forall d v rest e ln ls,
  wf_utf8 v -> (v = [] -> match rest with 34%N :: _ => False | _ => True end) ->
  exists e', readToken d (mkLx (quoteString v ++ rest) e ln ls)
             = Some (str_tok d v e e' ln ls, None, mkLx rest e' ln ls).
Proof. exact quote_lexes_back. Qed.
Print Assumptions C12_string_values_survive.

Example C12_nonvacuous :
  let v := [34; 92; 10; 7; 127; 195; 169; 240; 159; 152; 128; 243; 160; 128; 129]%N in
  utf8_okb 20 v = true /\
  lex dev_none (quoteString v ++ b " x") <> None /\
  match lex dev_none (quoteString v ++ b " x") with
  | Some (t :: _, None) => tval t = v
  | _ => False
  end.
Proof. vm_compute. split; [reflexivity|]. split; [discriminate|reflexivity]. Qed.

(* Types survive: the text Type.String prints for a type (names, list brackets, non-null marks) is
   parsed back by parseTypeReference as the same type — positions erased — whatever legal token
   follows it, for every type whose names are names and every deviation setting.
   ready d s (text ++ rest): the parser stands in front of that text (it may already have looked at its
   first token); after_type: rest does not continue a name and starts with a proper token other than
   `!`; the parser ends in front of that token without an error. *)
Theorem C12_types_survive : forall d F t, type_names_ok t -> forall fuel s txt Q txt',
  (type_depth t <= fuel)%nat -> ready d s (type_string t ++ txt) -> after_type d txt Q txt' ->
  erase_type (fst (run d (parseTypeReference fuel) F s)) = erase_type t
  /\ (exists tn, sees d (snd (run d (parseTypeReference fuel) F s)) tn txt' /\ Q tn)
  /\ src (snd (run d (parseTypeReference fuel) F s)) = src s.
Proof. exact type_roundtrip. Qed.
Print Assumptions C12_types_survive.

(* the printed type alone, from a fresh parser: the same type and no error *)
Theorem C12_type_alone : forall d t, type_names_ok t ->
  forall F fuel limit ix, (type_depth t <= fuel)%nat -> limit = 0%N ->
  erase_type (fst (run d (parseTypeReference fuel) F (pst_init (type_string t) limit ix))) = erase_type t
  /\ has_err (snd (run d (parseTypeReference fuel) F (pst_init (type_string t) limit ix))) = false.
Proof. exact type_roundtrip_eof. Qed.
Print Assumptions C12_type_alone.

Example C12_types_nonvacuous :
  let t := ListT (ListT (NamedT (b "Int") true pos0) false pos0) true pos0 in
  type_string t = b "[[Int!]]!" /\ type_names_ok t
  /\ erase_type (fst (run dev_none (parseTypeReference 8) 8 (pst_init (b "[[Int!]]!") 0 0))) = t.
Proof. split; [reflexivity|]. split; [exists 73%N, (b "nt"); repeat split|vm_compute; reflexivity]. Qed.
