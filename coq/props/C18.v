(* C18 — rule sets compose.  Statements only.
   validate_with s doc rules = run_events rules (walk s doc): the walker's observer events are
   delivered to every rule; a rule's state is private (Rules.rinst). *)
From Coq Require Import List Permutation.
From GQL.model Require Import Base Utf8 Lexer Ast Parser ParseQuery Schema Walk Rules Rules2 Validate Ops.
From GQL.proofs Require Import RuleCompose.
Import ListNotations.

(* The errors of a rule list are the union (as a multiset) of the errors of its members. *)
Theorem C18_union : forall s doc rules,
  Permutation (validate_with s doc rules) (flat_map (fun r => validate_with s doc [r]) rules).
Proof. intros. exact (run_events_union rules (walk s doc)). Qed.
Print Assumptions C18_union.

(* Each error is tagged with the name of one of the rules of the list. *)
Theorem C18_tagged : forall s doc rules x,
  In x (validate_with s doc rules) -> In (ve_rule x) (map rinst_name rules).
Proof. intros s doc rules x. exact (run_events_tags (walk s doc) rules x). Qed.
Print Assumptions C18_tagged.

(* A rule reports the same errors, in the same order, alone or together with any other rules
   (of different names). *)
Theorem C18_alone_or_together : forall s doc rules r,
  NoDup (map rinst_name rules) -> In r rules ->
  errs_of (rinst_name r) (validate_with s doc rules) = validate_with s doc [r].
Proof. intros s doc rules r. exact (rule_alone_or_together rules r (walk s doc)). Qed.
Print Assumptions C18_alone_or_together.

(* The default rule set is the explicit list of the specified rules, whose names are distinct;
   so the previous theorem applies to every default rule. *)
Theorem C18_default_is_explicit : forall pre s doc,
  validate s doc = validate_with s doc (default_rules false s doc)
  /\ validate_again s doc = validate_with s doc (default_rules true s doc)
  /\ NoDup (map rinst_name (default_rules pre s doc))
  /\ NoDup (map rinst_name (all_rules pre s doc)).
Proof.
  intros pre s doc. split; [reflexivity|]. split; [reflexivity|]. split; [apply default_rules_names_nodup|apply all_rules_names_nodup].
Qed.
Print Assumptions C18_default_is_explicit.

Theorem C18_default_rule_alone : forall s doc r, In r (default_rules false s doc) ->
  errs_of (rinst_name r) (validate s doc) = validate_with s doc [r].
Proof.
  intros s doc r Hin. apply C18_alone_or_together; [apply default_rules_names_nodup|exact Hin].
Qed.
Print Assumptions C18_default_rule_alone.

(* Each WithoutSuggestions variant reports the errors of its standard rule, same places, same
   order, with the suggestion suffix removed (and its own name). *)
Theorem C18_FieldsOnCorrectType_nosugg : forall s doc,
  validate_with s doc [r_FieldsOnCorrectType s true]
  = map (strip (b "FieldsOnCorrectTypeWithoutSuggestions")) (validate_with s doc [r_FieldsOnCorrectType s false]).
Proof. intros. apply FieldsOnCorrectType_nosugg. Qed.
Print Assumptions C18_FieldsOnCorrectType_nosugg.

Theorem C18_KnownArgumentNames_nosugg : forall s doc,
  validate_with s doc [r_KnownArgumentNames s true]
  = map (strip (b "KnownArgumentNamesWithoutSuggestions")) (validate_with s doc [r_KnownArgumentNames s false]).
Proof. intros. apply KnownArgumentNames_nosugg. Qed.
Print Assumptions C18_KnownArgumentNames_nosugg.

Theorem C18_KnownTypeNames_nosugg : forall s doc,
  validate_with s doc [r_KnownTypeNames s true]
  = map (strip (b "KnownTypeNamesWithoutSuggestions")) (validate_with s doc [r_KnownTypeNames s false]).
Proof. intros. apply KnownTypeNames_nosugg. Qed.
Print Assumptions C18_KnownTypeNames_nosugg.

Theorem C18_ValuesOfCorrectType_nosugg : forall s doc,
  validate_with s doc [r_ValuesOfCorrectType true]
  = map (strip (b "ValuesOfCorrectTypeWithoutSuggestions")) (validate_with s doc [r_ValuesOfCorrectType false]).
Proof. intros. apply ValuesOfCorrectType_nosugg. Qed.
Print Assumptions C18_ValuesOfCorrectType_nosugg.

(* non-vacuity: a document on which five default rules report, one of them with a suggestion *)
Example C18_nonvacuous :
  match load_schema dev_none [b "type Query { apple: Int }"],
        parseQuery dev_none 0 (b "{ aple ...F } fragment G on Query { apple { x } }") with
  | Some s, POk doc =>
    map (fun e => (ve_rule e, ve_locs e, nil_ (ve_sugg e))) (validate s doc)
    = [(b "FieldsOnCorrectType", [(1, 3)], false); (b "KnownFragmentNames", [(1, 11)], true);
       (b "FieldsOnCorrectType", [(1, 45)], true); (b "ScalarLeafs", [(1, 37)], true);
       (b "NoUnusedFragments", [(1, 15)], true)]%Z
  | _, _ => False
  end.
Proof. vm_compute. reflexivity. Qed.
