(* C19 — executable documents survive a JSON encode/decode round trip.  Statements only. *)
From GQL.model Require Import Base Utf8 Lexer Ast Parser Prog ParseQuery Json.
From GQL.proofs Require Import JsonRoundtrip.

(* Decoding the encoding of any document gives the document back with positions erased
   (JSON carries no positions): same operations, fragments, selections, names, arguments,
   values, directives, types, type conditions — for every tree, of any depth. *)
Theorem C19_roundtrip : forall q, dec_qdoc (enc_qdoc q) = Some (erase_qdoc q).
Proof. exact json_roundtrip. Qed.
Print Assumptions C19_roundtrip.

(* in particular for whatever the parser returns *)
Theorem C19_roundtrip_parsed : forall d limit input doc,
  parseQuery d limit input = POk doc -> dec_qdoc (enc_qdoc doc) = Some (erase_qdoc doc).
Proof. intros. apply json_roundtrip. Qed.
Print Assumptions C19_roundtrip_parsed.

(* erasure keeps every selection's kind: fields stay fields, spreads spreads, inline fragments inline fragments *)
Theorem C19_kinds_kept : forall s, sel_kind (erase_sel s) = sel_kind s.
Proof. exact erase_sel_kind. Qed.
Print Assumptions C19_kinds_kept.

Example C19_nonvacuous :
  exists doc, parseQuery dev_none 0 (b "{ a { ...F ... on T { b } } }") = POk doc /\
              dec_qdoc (enc_qdoc doc) = Some (erase_qdoc doc) /\ erase_qdoc doc <> mkQDoc [] [] None.
Proof. eexists. split; [vm_compute; reflexivity|]. split; [vm_compute; reflexivity|discriminate]. Qed.
