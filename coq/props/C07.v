(* C07 — a loaded schema is closed and contains the built-ins.  Statements only.
   load_schema_with d pre srcs models gqlparser.LoadSchema: the (parsed) prelude first, then the
   user sources in order, merged and validated by Schema.validateSchemaDocument. *)
From Coq Require Import List.
From GQL.model Require Import Base Utf8 Lexer Ast Parser ParseQuery ParseSchema Schema Ops.
From GQL.proofs Require Import LoadedClosed LoadOrder RelationsExact.
Import ListNotations.

(* Closed: every field's type exists and is an output type (on objects and interfaces) or an
   input type (on input objects); every argument's type exists and is an input type; every
   union member exists and is an object; every implemented interface exists and is an
   interface; every root operation type exists and is an object type; the same for directive
   definitions' arguments.
   (The two introspection fields the loader appends to the query root are exempted here; with
   the real prelude their types exist, see C07_builtins_present.) *)
Theorem C07_loaded_closed : forall d pre srcs s, load_schema_with d pre srcs = Some s -> closed s.
Proof. exact load_closed. Qed.
Print Assumptions C07_loaded_closed.

(* The same for validator.ValidateSchemaDocument on any merged document. *)
Theorem C07_validated_closed : forall sd s, validateSchemaDocument sd = Some s -> closed s.
Proof. exact loaded_closed. Qed.
Print Assumptions C07_validated_closed.

(* Everything the prelude defines is in every loaded schema, and the query root exposes
   __schema and __type. *)
Theorem C07_contains_prelude : forall d pdoc srcs s, load_schema_with d (POk pdoc) srcs = Some s ->
  (forall x, In x pdoc.(s_defs) -> is_some (lookup x.(df_name) s.(sc_types)) = true)
  /\ (forall x, In x pdoc.(s_dirs) -> is_some (lookup x.(dd_name) s.(sc_dirs)) = true)
  /\ (forall qn, s.(sc_query) = Some qn ->
        exists qd, lookup qn s.(sc_types) = Some qd /\ forall f, In f introspection_fields -> In f qd.(df_fields)).
Proof. exact load_contains_prelude. Qed.
Print Assumptions C07_contains_prelude.

(* load_schema d srcs is by definition load_schema_with d (parse_prelude d) srcs; the statement
   spells it out so that checking the proof never has to unfold the parser on the prelude. *)
(* With the prelude of this source tree (gen/Prelude.v, regenerated from validator/prelude.graphql
   on every run): the built-in scalars, the introspection types and the built-in directives. *)
Definition required_types : list str :=
  [b "Int"; b "Float"; b "String"; b "Boolean"; b "ID"; b "__Schema"; b "__Type"; b "__TypeKind"; b "__Field";
   b "__InputValue"; b "__EnumValue"; b "__Directive"; b "__DirectiveLocation"].
Definition required_directives : list str := [b "include"; b "skip"; b "deprecated"; b "specifiedBy"].

Definition defines_required (p : sdoc) : bool :=
  forallb (fun n => existsb (fun x => str_eqb x.(df_name) n) p.(s_defs)) required_types
  && forallb (fun n => existsb (fun x => str_eqb x.(dd_name) n) p.(s_dirs)) required_directives.

(* opaque on purpose: the parsed prelude is a large term that nothing below needs to unfold *)
Lemma prelude_parsed : { p : sdoc | parse_prelude dev_none = POk p /\ defines_required p = true }.
Proof.
  refine (exist _ (match parse_prelude dev_none with POk p => p | PErr _ => sdoc0 end) _).
  split; vm_compute; reflexivity.
Qed.

Lemma defines_required_spec : forall p, defines_required p = true ->
  (forall n, In n required_types -> exists x, In x p.(s_defs) /\ x.(df_name) = n)
  /\ (forall n, In n required_directives -> exists x, In x p.(s_dirs) /\ x.(dd_name) = n).
Proof.
  intros p P. unfold defines_required in P.
  apply Bool.andb_true_iff in P as [P1 P2]. rewrite forallb_forall in P1, P2. split.
  - intros n Hn. specialize (P1 n Hn). apply existsb_exists in P1 as [x [Hx E]].
    apply StrFacts.str_eqb_eq in E. exists x. split; assumption.
  - intros n Hn. specialize (P2 n Hn). apply existsb_exists in P2 as [x [Hx E]].
    apply StrFacts.str_eqb_eq in E. exists x. split; assumption.
Qed.

Theorem C07_builtins_present : forall srcs s, load_schema_with dev_none (parse_prelude dev_none) srcs = Some s ->
  (forall n, In n required_types -> is_some (lookup n s.(sc_types)) = true)
  /\ (forall n, In n required_directives -> is_some (lookup n s.(sc_dirs)) = true).
Proof.
  intros srcs s H. destruct prelude_parsed as [p [Hp P]]. rewrite Hp in H.
  destruct (load_contains_prelude _ _ _ _ H) as [Hd [Hdd _]].
  destruct (defines_required_spec p P) as [P1 P2]. split.
  - intros n Hn. destruct (P1 n Hn) as [x [Hx <-]]. apply Hd. exact Hx.
  - intros n Hn. destruct (P2 n Hn) as [x [Hx <-]]. apply Hdd. exact Hx.
Qed.
Print Assumptions C07_builtins_present.

(* The possible-type and implements tables of a loaded schema are exactly the ones implied by its
   definitions: t is listed under k in PossibleTypes iff some definition gives it (a union k with
   member t that is a type of the schema; an object t implementing k, or t = k an object; an
   interface t implementing k), and t is listed under k in Implements iff some definition gives it
   (an object or interface k implementing t; a union t with member k).  gives_possible and
   gives_implements are in RelationsExact.v. *)
Theorem C07_relations_exact : forall sd s, validateSchemaDocument sd = Some s ->
  forall k t,
    (In t (LoadOrder.get k s.(sc_possible)) <->
       exists n def, lookup n s.(sc_types) = Some def /\ gives_possible (fun x => is_some (lookup x s.(sc_types))) def k t)
    /\ (In t (LoadOrder.get k s.(sc_implements)) <->
       exists n def, lookup n s.(sc_types) = Some def /\ gives_implements def k t).
Proof. exact loaded_relations_exact. Qed.
Print Assumptions C07_relations_exact.

(* every definition of a loaded schema is stored under its own name *)
Theorem C07_names : forall sd s, validateSchemaDocument sd = Some s ->
  forall n def, lookup n s.(sc_types) = Some def -> def.(df_name) = n.
Proof. exact loaded_names. Qed.
Print Assumptions C07_names.

(* non-vacuity: a schema with an interface, a union, an input object and a custom root loads *)
Example C07_nonvacuous :
  exists s, load_schema dev_none
    [b "schema { query: Q } interface N { id: ID! } type A implements N { id: ID! f(x: In): U } type B { b: Int } union U = A | B input In { k: [Int!] } type Q { n: N }"]
    = Some s /\ sc_query s = Some (b "Q").
Proof. eexists. split; vm_compute; reflexivity. Qed.
