(* C04 — every reported position is truthful.  Statements only.
   LexPos.reach l e ln ls l' e' ln' ls' reads the source character by character: LF, CR and CRLF
   end a line (CRLF counts two characters, one terminator), every other character — multi-byte or
   not, a BOM included — advances the offset by one.  pos_ok input off ln col says that reading
   input from offset 0, line 1 arrives at offset off on line ln whose first character is at offset
   off - col + 1: the line is one plus the number of terminators before off, the column is the
   distance from the line's start plus one. *)
From Coq Require Import List ZArith.
From GQL.model Require Import Base Utf8 Lexer.
From GQL.proofs Require Import LexPos.
Import ListNotations.

(* Every token the lexer returns, and the lexical error if there is one, carries the true line
   and column of its offset — for every input, valid UTF-8 or not. *)
Theorem C04_token_positions : forall input ts er, lex dev_none input = Some (ts, er) ->
  Forall (fun t => pos_ok input (tstart t) (tline t) (tcol t)) ts
  /\ match er with
     | Some x => exists off, pos_ok input off (eline x) (ecol x)
     | None => True
     end.
Proof. exact lex_positions. Qed.
Print Assumptions C04_token_positions.

(* One ReadToken call from any lexer state: the token starts where reading the unread text gets
   to, and the state it leaves behind is again a position of that text. *)
Theorem C04_read_token : forall s r, readToken dev_none s = Some r -> tok_ok s r.
Proof. exact readToken_ok. Qed.
Print Assumptions C04_read_token.

(* An offset has one line and one column: pos_ok is a function of the offset. *)
Theorem C04_positions_functional : forall input off ln1 col1 ln2 col2,
  pos_ok input off ln1 col1 -> pos_ok input off ln2 col2 -> ln1 = ln2 /\ col1 = col2.
Proof. exact pos_ok_functional. Qed.
Print Assumptions C04_positions_functional.

(* non-vacuity: LF, CRLF and CR terminators, a BOM, a two-byte character in a comment and a
   block string spanning lines; the token after the block string is on line 5, column 6 *)
Example C04_nonvacuous :
  match lex dev_none ([239; 187; 191] ++ b "a" ++ [10] ++ b "#" ++ [195; 169] ++ [13; 10] ++ b " bb" ++ [13]
                      ++ [34; 34; 34] ++ b "x" ++ [13; 10] ++ b "y" ++ [34; 34; 34] ++ b " c")%N%list with
  | Some (ts, None) => map (fun t => (tstart t, tline t, tcol t)) ts
                       = [(1, 1, 2); (3, 2, 1); (8, 3, 2); (11, 4, 1); (22, 5, 6)]%Z
  | _ => False
  end.
Proof. vm_compute. reflexivity. Qed.
