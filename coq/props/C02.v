(* C02 — validation terminates on every document.  Statements only.
   The model is a total Gallina function, so it cannot hang; what could go wrong instead is that a
   recursion written on fuel runs out and silently truncates.  For the walker this is excluded
   here: the nesting of fragment expansions is bounded by the number of fragment definitions
   (a fragment is entered at most once per walk: validatedFragmentSpreads), mutually recursive
   fragments included.  The other fuel of the validator model (OverlappingFieldsCanBeMerged)
   reports exhaustion as a distinguished error, which the correspondence check would show; its
   sufficiency is not proved. *)
From Coq Require Import List.
From GQL.model Require Import Base Utf8 Lexer Ast Schema Walk.
From GQL.proofs Require Import WalkFuel.
Import ListNotations.

Theorem C02_walk_fuel_enough : forall s doc k sel parent st,
  walk_sel s doc (walk_fuel doc + k) parent sel st = walk_sel s doc (walk_fuel doc) parent sel st.
Proof. exact walk_fuel_enough. Qed.
Print Assumptions C02_walk_fuel_enough.

(* the set of fragments entered only grows along a walk *)
Theorem C02_entered_fragments_grow : forall s doc fuel sel parent st,
  extends (w_visited st) (w_visited (snd (walk_sel s doc fuel parent sel st))).
Proof. exact walk_sel_extends. Qed.
Print Assumptions C02_entered_fragments_grow.

(* non-vacuity: two mutually recursive fragments; fuel 4 = |fragments| + 2 and fuel 40 agree *)
Example C02_nonvacuous :
  let fa := mkFrag (b "A") [] (b "T") [] [SField [] (b "f") [] [] [SSpread (b "B") [] pos0] pos0] pos0 in
  let fb := mkFrag (b "B") [] (b "T") [] [SField [] (b "g") [] [] [SSpread (b "A") [] pos0] pos0] pos0 in
  let doc := mkQDoc [] [fa; fb] None in
  let s := mkSchema None None None [] [] [] [] [] [] in
  walk_fuel doc = 4%nat
  /\ walk_sel s doc 40 None (SSpread (b "A") [] pos0) (mkWst [] []) = walk_sel s doc 4 None (SSpread (b "A") [] pos0) (mkWst [] [])
  /\ length (fst (walk_sel s doc 4 None (SSpread (b "A") [] pos0) (mkWst [] []))) = 15%nat.
Proof. cbv zeta. split; [reflexivity|]. split; vm_compute; reflexivity. Qed.
