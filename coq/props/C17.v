(* C17 — schema loading is independent of definition order.  Statements only.
   validateSchemaDocument sd models validator.ValidateSchemaDocument on the merged document of all
   sources (definitions, extensions, directive and schema definitions in source order).
   LoadOrder.ext_perm: reorderings of the extensions that keep the extensions of one type in their
   relative order.  LoadOrder.schema_eq: same roots, schema directives, directive definitions and
   description; the same type table as a finite map (same definitions under the same names, entries
   in any order); the same possible-type and implementer tables as maps to multisets. *)
From Coq Require Import List Permutation.
From GQL.model Require Import Base Lexer Ast Schema.
From GQL.proofs Require Import LoadOrder.
Import ListNotations.

(* Any order of the definitions, any admissible order of the extensions: the same verdict, and on
   success the same schema. *)
Theorem C17_order_independent : forall sd ds' es',
  Permutation sd.(s_defs) ds' -> ext_perm sd.(s_exts) es' ->
  match validateSchemaDocument sd, validateSchemaDocument (with_defs_exts sd ds' es') with
  | Some s, Some s' => schema_eq s s'
  | None, None => True
  | _, _ => False
  end.
Proof. exact load_order_independent. Qed.
Print Assumptions C17_order_independent.

(* The special case of permuting only the definitions. *)
Theorem C17_definition_order : forall sd ds', Permutation sd.(s_defs) ds' ->
  match validateSchemaDocument sd, validateSchemaDocument (with_defs sd ds') with
  | Some s, Some s' => schema_eq s s'
  | None, None => True
  | _, _ => False
  end.
Proof. exact load_definition_order. Qed.
Print Assumptions C17_definition_order.

(* non-vacuity: interface after its implementer, union before its members, an extension-only type *)
Example C17_nonvacuous :
  let defs := [mkDef KObject [] (b "A") [] [b "N"] [mkFieldDef [] (b "id") [] None (NamedT (b "A") false pos0) [] pos0] [] [] pos0 false;
               mkDef KInterface [] (b "N") [] [] [mkFieldDef [] (b "id") [] None (NamedT (b "A") false pos0) [] pos0] [] [] pos0 false;
               mkDef KUnion [] (b "U") [] [] [] [b "A"] [] pos0 false] in
  let exts := [mkDef KObject [] (b "X") [] [] [mkFieldDef [] (b "x") [] None (NamedT (b "U") false pos0) [] pos0] [] [] pos0 false;
               mkDef KObject [] (b "A") [] [] [mkFieldDef [] (b "y") [] None (NamedT (b "X") false pos0) [] pos0] [] [] pos0 false] in
  let sd := mkSDoc [] [] [] defs exts None in
  is_some (validateSchemaDocument sd) = true
  /\ is_some (validateSchemaDocument (with_defs_exts sd (rev defs) (rev exts))) = true
  /\ Permutation defs (rev defs) /\ ext_perm exts (rev exts).
Proof.
  cbv zeta. split; [vm_compute; reflexivity|]. split; [vm_compute; reflexivity|]. split; [apply Permutation_rev|].
  cbn [rev app]. apply EP_swap. vm_compute. discriminate.
Qed.
