(* C14 — the values variable coercion returns conform to the declared types.  Statements only.
   variableValues d s jn vds vars [] models validator.VariableValues for the operation's variable
   definitions vds and the supplied map vars (Go values as Vars.gval); jn is the float64 text of a
   json.Number.  conformsb s fuel t v (VarsConform.v) is conformance of a Go value to a GraphQL
   type: non-null positions hold no nil, lists hold conforming items, input objects only declared
   fields (F-C4: plus "__typename") with every field conforming and every required field without a
   default present, enums a declared value name, built-in scalars a value of a compatible kind. *)
From Coq Require Import List.
From GQL.model Require Import Base Utf8 Lexer Ast Parser ParseQuery ParseSchema Schema Walk Rules2 Vars Ops.
From GQL.proofs Require Import LoadedClosed VarsConform.
Import ListNotations.

(* One value: whatever validateVarType returns for a JSON-like value conforms. *)
Theorem C14_value_conforms : forall s, input_fields_unique s ->
  forall fuel t v r, untyped v = true -> (is_nil v = true -> type_nonnull t = false) ->
    validateVarType dev_none s fuel t v = VOk r -> conformsb s fuel t r = true.
Proof. exact vvt_conforms. Qed.
Print Assumptions C14_value_conforms.

(* The whole map: every declared variable of the result conforms; a variable absent from the
   result is nullable, was not supplied and has no default. *)
Theorem C14_values_conform : forall s jn, input_fields_unique s ->
  forall vds vars m,
    NoDup (map vd_var vds) ->
    (forall k v, lookup k vars = Some v -> untyped v = true) ->
    variableValues dev_none s jn vds vars [] = VOk m ->
    forall vd, In vd vds -> slot_ok s m vars vd.
Proof.
  intros s jn HU vds vars m ND Hv H vd Hin.
  eapply (variableValues_conform s jn HU vds vars [] m ND Hv); [reflexivity|exact H|exact Hin].
Qed.
Print Assumptions C14_values_conform.

(* The side condition holds for every schema the loader returns. *)
Theorem C14_loaded_schemas_qualify : forall d pre srcs s, load_schema_with d pre srcs = Some s -> input_fields_unique s.
Proof.
  intros d pre srcs s H. unfold load_schema_with in H. destruct pre as [pdoc|]; [|discriminate].
  destruct (parseSchemas_from d 0 1 (map (fun x => (false, x)) srcs) (merge_sdoc sdoc0 pdoc)) as [sd|]; [|discriminate].
  eapply loaded_input_fields_unique. exact H.
Qed.
Print Assumptions C14_loaded_schemas_qualify.

(* JSON-like inputs and default values are untyped (no []T slices): defaults by construction. *)
Theorem C14_defaults_are_json_like : forall v x, const_value v = VOk x -> untyped x = true.
Proof. exact const_value_untyped. Qed.
Print Assumptions C14_defaults_are_json_like.

(* non-vacuity: a coercion that succeeds with a list wrapped from a single value, a default and an
   input object, and one that is refused *)
Example C14_nonvacuous :
  match load_schema dev_none [b "type Query { f(a: [Int!], o: In, e: E): Int } input In { k: Int! d: Int = 3 } enum E { A B }"],
        parseQuery dev_none 0 (b "query($a: [Int!], $o: In = {k: 1}, $e: E!) { f(a: $a, o: $o, e: $e) }") with
  | Some s, POk doc =>
    match doc.(q_ops) with
    | o :: _ =>
      (exists m, variableValues dev_none s (fun _ => None) o.(o_vars)
                   [(b "a", GInt 0 5); (b "e", GString (b "B"))] [] = VOk m /\ length m = 3%nat)
      /\ variableValues dev_none s (fun _ => None) o.(o_vars) [(b "a", GSlice false [GNil]); (b "e", GString (b "B"))] [] = VErr
    | [] => False
    end
  | _, _ => False
  end.
Proof. vm_compute. split; [eexists; split; reflexivity|reflexivity]. Qed.
