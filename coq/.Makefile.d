model/Base.vo model/Base.glob model/Base.v.beautified model/Base.required_vo: model/Base.v 
model/Base.vio: model/Base.v 
model/Base.vos model/Base.vok model/Base.required_vos: model/Base.v 
model/Utf8.vo model/Utf8.glob model/Utf8.v.beautified model/Utf8.required_vo: model/Utf8.v model/Base.vo
model/Utf8.vio: model/Utf8.v model/Base.vio
model/Utf8.vos model/Utf8.vok model/Utf8.required_vos: model/Utf8.v model/Base.vos
model/Lexer.vo model/Lexer.glob model/Lexer.v.beautified model/Lexer.required_vo: model/Lexer.v model/Base.vo model/Utf8.vo
model/Lexer.vio: model/Lexer.v model/Base.vio model/Utf8.vio
model/Lexer.vos model/Lexer.vok model/Lexer.required_vos: model/Lexer.v model/Base.vos model/Utf8.vos
model/Ast.vo model/Ast.glob model/Ast.v.beautified model/Ast.required_vo: model/Ast.v model/Base.vo model/Lexer.vo
model/Ast.vio: model/Ast.v model/Base.vio model/Lexer.vio
model/Ast.vos model/Ast.vok model/Ast.required_vos: model/Ast.v model/Base.vos model/Lexer.vos
model/Parser.vo model/Parser.glob model/Parser.v.beautified model/Parser.required_vo: model/Parser.v model/Base.vo model/Utf8.vo model/Lexer.vo model/Ast.vo
model/Parser.vio: model/Parser.v model/Base.vio model/Utf8.vio model/Lexer.vio model/Ast.vio
model/Parser.vos model/Parser.vok model/Parser.required_vos: model/Parser.v model/Base.vos model/Utf8.vos model/Lexer.vos model/Ast.vos
model/ParseQuery.vo model/ParseQuery.glob model/ParseQuery.v.beautified model/ParseQuery.required_vo: model/ParseQuery.v model/Base.vo model/Utf8.vo model/Lexer.vo model/Ast.vo model/Parser.vo
model/ParseQuery.vio: model/ParseQuery.v model/Base.vio model/Utf8.vio model/Lexer.vio model/Ast.vio model/Parser.vio
model/ParseQuery.vos model/ParseQuery.vok model/ParseQuery.required_vos: model/ParseQuery.v model/Base.vos model/Utf8.vos model/Lexer.vos model/Ast.vos model/Parser.vos
model/ParseSchema.vo model/ParseSchema.glob model/ParseSchema.v.beautified model/ParseSchema.required_vo: model/ParseSchema.v model/Base.vo model/Utf8.vo model/Lexer.vo model/Ast.vo model/Parser.vo model/ParseQuery.vo
model/ParseSchema.vio: model/ParseSchema.v model/Base.vio model/Utf8.vio model/Lexer.vio model/Ast.vio model/Parser.vio model/ParseQuery.vio
model/ParseSchema.vos model/ParseSchema.vok model/ParseSchema.required_vos: model/ParseSchema.v model/Base.vos model/Utf8.vos model/Lexer.vos model/Ast.vos model/Parser.vos model/ParseQuery.vos
proofs/LexerTotal.vo proofs/LexerTotal.glob proofs/LexerTotal.v.beautified proofs/LexerTotal.required_vo: proofs/LexerTotal.v model/Base.vo model/Utf8.vo model/Lexer.vo
proofs/LexerTotal.vio: proofs/LexerTotal.v model/Base.vio model/Utf8.vio model/Lexer.vio
proofs/LexerTotal.vos proofs/LexerTotal.vok proofs/LexerTotal.required_vos: proofs/LexerTotal.v model/Base.vos model/Utf8.vos model/Lexer.vos
props/C01.vo props/C01.glob props/C01.v.beautified props/C01.required_vo: props/C01.v model/Base.vo model/Utf8.vo model/Lexer.vo proofs/LexerTotal.vo
props/C01.vio: props/C01.v model/Base.vio model/Utf8.vio model/Lexer.vio proofs/LexerTotal.vio
props/C01.vos props/C01.vok props/C01.required_vos: props/C01.v model/Base.vos model/Utf8.vos model/Lexer.vos proofs/LexerTotal.vos
