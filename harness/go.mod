module verifharness

go 1.22

require github.com/vektah/gqlparser/v2 v2.0.0

replace github.com/vektah/gqlparser/v2 => /repo
