module verifharness

go 1.22

require github.com/vektah/gqlparser/v2 v2.0.0

require github.com/agnivade/levenshtein v1.2.1 // indirect

replace github.com/vektah/gqlparser/v2 => /repo
