// verifrun: correspondence check of one property — runs the implementation (built from
// /repo's working tree) and the extracted Coq model on the same cases.
package main

import (
	"encoding/hex"
	"encoding/json"
	"flag"
	"fmt"
	"os"
	"runtime"
	"strings"
	"time"

	"verifharness/internal/core"
	"verifharness/internal/drv"
	"verifharness/internal/props"
)

func main() {
	prop := flag.String("prop", "", "property id")
	tier := flag.String("tier", "quick", "quick|thorough")
	seed := flag.Uint64("seed", 1, "seed")
	root := flag.String("root", "/verif", "verif root")
	replay := flag.String("replay", "", "replay file")
	emit := flag.Bool("emit", false, "child-process mode of C10: print one digest per case")
	child := flag.Bool("child", false, "child-process mode of C11 (race-enabled binary): run the shared-schema histories")
	crashcase := flag.String("crashcase", "", "run the implementation once on the case recorded in this crash-log file (no model)")
	flag.Parse()
	if *crashcase != "" {
		os.Exit(runCrashCase(*crashcase))
	}
	known, flags := core.LoadKnown(*root)
	nw := runtime.NumCPU()
	if *replay != "" || *emit || *child {
		nw = 1
	}
	drv.Deadline = 45 * time.Second
	if *tier != "quick" {
		drv.Deadline = 10 * time.Minute
	}
	if *replay != "" {
		drv.Deadline = 0
	}
	pool, err := drv.NewPool(*root+"/driver/driver", nw, flags)
	if err != nil {
		fmt.Fprintln(os.Stderr, "driver:", err)
		os.Exit(2)
	}
	defer pool.Close()
	c := core.NewCtx(*prop, *tier, *seed, *root, pool, known)
	if *replay != "" {
		os.Exit(doReplay(c, *replay))
	}
	if *emit {
		props.EmitC10(c)
		return
	}
	if *child {
		props.C11Child(c)
		return
	}
	run := props.Runners[*prop]
	if run == nil {
		fmt.Fprintln(os.Stderr, "no runner for", *prop)
		os.Exit(2)
	}
	run(c)
	c.WriteEvidence()
	if len(c.Violations) > 0 {
		os.Exit(1)
	}
	if c.ModelFailures > 0 {
		fmt.Fprintf(os.Stderr, "machinery failure: the model driver could not answer %d requests (see notes in evidence)\n", c.ModelFailures)
		os.Exit(2)
	}
}

func doReplay(c *core.Ctx, path string) int {
	bs, err := os.ReadFile(path)
	if err != nil {
		fmt.Fprintln(os.Stderr, err)
		return 2
	}
	var m struct {
		Op   string   `json:"op"`
		Args []string `json:"args"`
		Kind string   `json:"kind"`
	}
	json.Unmarshal(bs, &m)
	if m.Op == "" {
		fmt.Println("replay file has no single-op case (kind=" + m.Kind + "); see its fields")
		return 2
	}
	args := make([][]byte, len(m.Args))
	for i, a := range m.Args {
		if a != "-" {
			args[i], _ = hex.DecodeString(a)
		}
	}
	impl := c.Impl(0, m.Op, args...)
	cur := c.Pool.Ask(0, drv.Req("c", m.Op, args...))
	none := c.Pool.Ask(0, drv.Req("n", m.Op, args...))
	fmt.Println("implementation :", impl)
	fmt.Println("model (spec)   :", none)
	fmt.Println("model (flags)  :", cur)
	if impl != cur && impl != none {
		fmt.Printf("VIOLATION property=%s replay=%s\n", c.Prop, path)
		return 1
	}
	fmt.Println("no violation on this case")
	return 0
}

// runCrashCase: the implementation alone on one recorded case; the process dies the way it died
// in the run if this case is the one. Prints the case for the replay file.
func runCrashCase(path string) int {
	bs, err := os.ReadFile(path)
	if err != nil || len(bs) < 11 {
		return 3
	}
	var n int
	fmt.Sscanf(string(bs[:10]), "%d", &n)
	if 11+n > len(bs) {
		return 3
	}
	f := strings.Fields(string(bs[11 : 11+n]))
	if len(f) == 0 || core.Ops[f[0]] == nil {
		return 3
	}
	args := make([][]byte, len(f)-1)
	for i, a := range f[1:] {
		if a != "-" {
			args[i], _ = hex.DecodeString(a)
		}
	}
	fmt.Println("CASE " + strings.Join(f, " "))
	done := make(chan struct{})
	go func() {
		defer func() { _ = recover(); close(done) }()
		core.Ops[f[0]](args)
	}()
	select {
	case <-done:
		return 0
	case <-time.After(30 * time.Second):
		fmt.Println("HANG")
		return 4
	}
}
