// srcfacts regenerates coq/gen/*.v from /repo's current sources (DESIGN 3.4): the data the
// model shares with the code — the embedded prelude schema, rule registration order, tables.
package main

import (
	"flag"
	"fmt"
	"os"
	"path/filepath"
	"strings"
)

func writeIfChanged(path, content string) {
	old, err := os.ReadFile(path)
	if err == nil && string(old) == content {
		return
	}
	if err := os.WriteFile(path, []byte(content), 0o644); err != nil {
		fmt.Fprintln(os.Stderr, err)
		os.Exit(1)
	}
}

func main() {
	repo := flag.String("repo", "/repo", "repository")
	out := flag.String("out", "/verif/coq/gen", "output directory")
	flag.Parse()
	os.MkdirAll(*out, 0o755)
	bs, err := os.ReadFile(filepath.Join(*repo, "validator", "imported", "prelude.graphql"))
	if err != nil {
		fmt.Fprintln(os.Stderr, err)
		os.Exit(1)
	}
	var sb strings.Builder
	sb.WriteString("(* GENERATED from /repo/validator/imported/prelude.graphql by harness/cmd/srcfacts on every run. *)\n")
	sb.WriteString("From Coq Require Import List NArith.\nImport ListNotations.\nOpen Scope N_scope.\n")
	sb.WriteString("Definition prelude_bytes : list N :=\n  [")
	for i, c := range bs {
		if i > 0 {
			sb.WriteString(";")
			if i%24 == 0 {
				sb.WriteString("\n   ")
			}
		}
		fmt.Fprintf(&sb, "%d", c)
	}
	sb.WriteString("].\n")
	writeIfChanged(filepath.Join(*out, "Prelude.v"), sb.String())
}
