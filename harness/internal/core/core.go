// Package core: run context shared by all property runners — implementation-side
// operation registry, model tie, violation/replay files, known findings, evidence.
package core

import (
	"crypto/sha1"
	"encoding/hex"
	"encoding/json"
	"fmt"
	"os"
	"path/filepath"
	"runtime/debug"
	"sort"
	"strings"
	"sync"
	"sync/atomic"
	"time"

	"verifharness/internal/drv"
	"verifharness/internal/gen"
)

// Op is an implementation-side operation: same arguments as the model op of the
// same name, result in the same canonical text.
type Op func(args [][]byte) string

var Ops = map[string]Op{}

// Domain restricts the inputs of an op (e.g. valid UTF-8 where encoding/json is involved);
// the minimiser never leaves it.
var Domain = map[string]func(args [][]byte) bool{}

type Finding struct {
	ID       string   `json:"id"`
	Property string   `json:"property"`
	Also     []string `json:"also,omitempty"`
	Status   string   `json:"status"` // known | fixed
	Flag     int      `json:"flag,omitempty"`
	FlagName string   `json:"flag_name,omitempty"`
	Op       string   `json:"op,omitempty"`
	Args     []string `json:"args,omitempty"` // hex
	Text     string   `json:"text,omitempty"` // readable form of the witness
	What     string   `json:"what"`
	Commit   string   `json:"commit,omitempty"`
}

type Ctx struct {
	Prop    string
	Tier    string
	Seed    uint64
	Root    string // /verif
	Pool    *drv.Pool
	Rng     *gen.Rng
	Known   []Finding
	Quick   bool
	started time.Time

	mu          sync.Mutex
	Evals       int64
	distinct    map[[20]byte]struct{}
	Samples     []interface{}
	Dist        map[string]int64
	Disagree    int64 // disagreements examined (incl. known deviations)
	Better      int64 // impl == spec model where the known-flag model differs
	Violations  []string
	vioSeen     map[string]bool
	KnownLines  []string
	Notes       []string
	Exhaustive  bool
	ExhaustNote string
	Programs    int64
	ModelFailures int64 // driver exceptions: machinery failures, never violations

	busy []atomic.Int64 // per worker: unix nano when the current impl call started (0 = idle)
	cur  []atomic.Value // per worker: description of current case
	// per worker: a small file holding the case being run, so that a fatal error of the
	// implementation (stack overflow, concurrent map write: not recoverable) can be traced to its input
	crash []*os.File
}

func NewCtx(prop, tier string, seed uint64, root string, pool *drv.Pool, known []Finding) *Ctx {
	c := &Ctx{Prop: prop, Tier: tier, Seed: seed, Root: root, Pool: pool, Rng: gen.New(seed),
		Known: known, Quick: tier != "thorough", started: time.Now(),
		distinct: map[[20]byte]struct{}{}, Dist: map[string]int64{}, vioSeen: map[string]bool{}}
	c.busy = make([]atomic.Int64, pool.N()+1)
	c.cur = make([]atomic.Value, pool.N()+1)
	if dir := os.Getenv("VERIF_CRASHDIR"); dir != "" {
		c.crash = make([]*os.File, pool.N()+1)
		for w := range c.crash {
			c.crash[w], _ = os.Create(fmt.Sprintf("%s/w%d", dir, w))
		}
	}
	go c.watchdog()
	return c
}

// A hang is a call that never returns; the deadline only has to be finite. It is far above what
// the slowest case needs on a loaded or memory-starved machine (the 100000-deep sources take up
// to 2.3 s each when sixteen of them grow their stacks at once) and grows with the size of the
// case, so that a slow sandbox is not reported as a hang; running time as such is the
// runtime-budget oracle's business.
func (c *Ctx) deadline(descLen int) time.Duration {
	d := 15*time.Second + time.Duration(descLen/2)*50*time.Microsecond
	if !c.Quick {
		d += 45 * time.Second
	}
	return d
}

// watchdog: a case whose implementation call does not return within the deadline is a hang.
func (c *Ctx) watchdog() {
	for {
		time.Sleep(500 * time.Millisecond)
		now := time.Now().UnixNano()
		for w := range c.busy {
			t := c.busy[w].Load()
			desc, _ := c.cur[w].Load().(string)
			if t != 0 && time.Duration(now-t) > c.deadline(len(desc)) {
				path := c.writeReplay(map[string]interface{}{"property": c.Prop, "kind": "hang",
					"case": desc, "note": "implementation call did not return within the per-case deadline"})
				fmt.Printf("VIOLATION property=%s replay=%s\n", c.Prop, path)
				c.mu.Lock()
				c.Violations = append(c.Violations, path)
				c.mu.Unlock()
				c.WriteEvidence()
				os.Exit(1)
			}
		}
	}
}

// Impl runs an implementation-side op with panic capture and the hang watchdog.
func (c *Ctx) Impl(w int, op string, args ...[]byte) (out string) {
	f := Ops[op]
	if f == nil {
		return "NO-IMPL-OP " + op
	}
	desc := op + " " + hexArgs(args)
	c.cur[w].Store(desc)
	if c.crash != nil && c.crash[w] != nil && len(desc) < 1<<20 {
		c.crash[w].WriteAt([]byte(fmt.Sprintf("%010d %s", len(desc), desc)), 0)
	}
	c.busy[w].Store(time.Now().UnixNano())
	defer func() {
		c.busy[w].Store(0)
		if r := recover(); r != nil {
			out = "panic " + firstRepoFrame(string(debug.Stack()))
		}
	}()
	return f(args)
}

func firstRepoFrame(stack string) string {
	lines := strings.Split(stack, "\n")
	for _, l := range lines {
		l = strings.TrimSpace(l)
		if strings.HasPrefix(l, "/repo/") {
			if i := strings.Index(l, " "); i > 0 {
				l = l[:i]
			}
			return l
		}
	}
	return "?"
}

func hexArgs(args [][]byte) string {
	s := make([]string, len(args))
	for i, a := range args {
		s[i] = drv.Hex(a)
	}
	return strings.Join(s, " ")
}

// Verdict of one tie comparison.
type Verdict int

const (
	Agree Verdict = iota
	KnownDev      // impl == model with known flags, and that differs from the spec model (not checked here)
	BetterThanRecorded
	Violation
)

// Tie compares the implementation's observable with the model (known flags), falling back
// to the specification model. Returns the verdict and both model answers.
func (c *Ctx) Tie(w int, op string, impl string, args ...[]byte) (Verdict, string, string) {
	t0 := time.Now()
	cur := c.Pool.Ask(w, drv.Req("c", op, args...))
	if d := time.Since(t0); d > 2*time.Second {
		// the extracted model is a specification, not an algorithm: say which case it is slow on
		a := ""
		for _, x := range args { // the document is the longest argument
			if len(x) > len(a) {
				a = string(x)
			}
		}
		if len(a) > 100 {
			a = a[:100]
		}
		if os.Getenv("VERIF_SLOW") != "" {
			fmt.Fprintf(os.Stderr, "SLOW-MODEL %s %v %q\n", op, d.Round(time.Millisecond), a)
		}
		c.Count("model_answers_slower_than_2s", 1)
	}
	if cur == "DRIVER-TIMEOUT" {
		c.Count("model_answers_abandoned_after_deadline", 1)
		return Agree, cur, ""
	}
	if cur == impl {
		return Agree, cur, ""
	}
	if modelFailed(cur) {
		atomic.AddInt64(&c.ModelFailures, 1)
		c.Note("model could not answer " + op + ": " + cur)
		return Agree, cur, ""
	}
	none := c.Pool.Ask(w, drv.Req("n", op, args...))
	atomic.AddInt64(&c.Disagree, 1)
	if none == impl {
		atomic.AddInt64(&c.Better, 1)
		return BetterThanRecorded, cur, none
	}
	return Violation, cur, none
}

func modelFailed(s string) bool {
	return strings.HasPrefix(s, "EXC ") || strings.HasPrefix(s, "DRIVER-ERROR") || s == "BADOP" || s == "BAD"
}

// Explained reports whether an oracle failure on this case is exactly the behaviour of a
// recorded deviation flag: the implementation agrees with the model under the known flags,
// and that differs from the specification model. Such cases are counted, not reported
// (the finding's own witness prints the KNOWN-FINDING line).
func (c *Ctx) Explained(w int, op string, impl string, args ...[]byte) bool {
	cur := c.Pool.Ask(w, drv.Req("c", op, args...))
	if cur != impl {
		return false
	}
	none := c.Pool.Ask(w, drv.Req("n", op, args...))
	if none == cur {
		return false
	}
	c.Count("oracle_failures_explained_by_recorded_flags", 1)
	return true
}

// CheckCase = Impl + Tie + report. Returns true when no violation.
func (c *Ctx) CheckCase(w int, op string, theorem string, args ...[]byte) bool {
	impl := c.Impl(w, op, args...)
	v, cur, none := c.Tie(w, op, impl, args...)
	atomic.AddInt64(&c.Evals, 1)
	if v != Violation {
		return true
	}
	c.Report(w, op, theorem, args, impl, cur, none)
	return false
}

// minimise args[0] by chunk deletion while the case stays a violation of the same shape.
func (c *Ctx) minimise(w int, op string, args [][]byte) [][]byte {
	if len(args) == 0 || len(args[0]) > 4096 {
		return args
	}
	still := func(a0 []byte) bool {
		as := append([][]byte{a0}, args[1:]...)
		if dom := Domain[op]; dom != nil && !dom(as) {
			return false
		}
		impl := c.Impl(w, op, as...)
		v, _, _ := c.Tie(w, op, impl, as...)
		return v == Violation
	}
	cur := append([]byte(nil), args[0]...)
	for chunk := len(cur) / 2; chunk >= 1; {
		changed := false
		for i := 0; i+chunk <= len(cur); {
			cand := append(append([]byte(nil), cur[:i]...), cur[i+chunk:]...)
			if still(cand) {
				cur = cand
				changed = true
			} else {
				i += chunk
			}
		}
		if !changed || chunk > len(cur) {
			chunk /= 2
		}
		if chunk > len(cur) {
			chunk = len(cur)
		}
	}
	return append([][]byte{cur}, args[1:]...)
}

func (c *Ctx) Report(w int, op, theorem string, args [][]byte, impl, cur, none string) {
	c.mu.Lock()
	if len(c.Violations) >= 5 {
		c.mu.Unlock()
		return
	}
	c.mu.Unlock()
	margs := c.minimise(w, op, args)
	mimpl := c.Impl(w, op, margs...)
	_, mcur, mnone := c.Tie(w, op, mimpl, margs...)
	if mnone == "" {
		mnone = c.Pool.Ask(w, drv.Req("n", op, margs...))
	}
	hx := make([]string, len(margs))
	tx := make([]string, len(margs))
	for i, a := range margs {
		hx[i] = drv.Hex(a)
		tx[i] = string(a)
	}
	key := op + " " + strings.Join(hx, " ")
	c.mu.Lock()
	if c.vioSeen[key] {
		c.mu.Unlock()
		return
	}
	c.vioSeen[key] = true
	c.mu.Unlock()
	ohx := make([]string, len(args))
	for i, a := range args {
		ohx[i] = drv.Hex(a)
	}
	path := c.writeReplay(map[string]interface{}{
		"property": c.Prop, "kind": "disagreement", "op": op, "args": hx, "args_text": tx,
		"original_args": ohx,
		"implementation": mimpl, "model_spec": mnone, "model_known_flags": mcur,
		"theorem": theorem,
		"note": "implementation output differs from the proved model (dev_none) and from the model with the recorded deviation flags",
		"replay_cmd": fmt.Sprintf("bin/check %s --replay <this file>", c.Prop),
	})
	c.mu.Lock()
	c.Violations = append(c.Violations, path)
	c.mu.Unlock()
	fmt.Printf("VIOLATION property=%s replay=%s\n", c.Prop, path)
}

// ReportOracle reports a violation found by a property oracle on implementation outputs alone.
func (c *Ctx) ReportOracle(kind string, detail map[string]interface{}) {
	c.mu.Lock()
	if len(c.Violations) >= 5 {
		c.mu.Unlock()
		return
	}
	c.mu.Unlock()
	detail["property"] = c.Prop
	detail["kind"] = kind
	js, _ := json.Marshal(detail)
	key := string(js)
	c.mu.Lock()
	if c.vioSeen[key] {
		c.mu.Unlock()
		return
	}
	c.vioSeen[key] = true
	c.mu.Unlock()
	path := c.writeReplay(detail)
	c.mu.Lock()
	c.Violations = append(c.Violations, path)
	c.mu.Unlock()
	fmt.Printf("VIOLATION property=%s replay=%s\n", c.Prop, path)
}

func (c *Ctx) writeReplay(m map[string]interface{}) string {
	js, _ := json.MarshalIndent(m, "", " ")
	h := sha1.Sum(js)
	dir := filepath.Join(c.Root, "replays")
	os.MkdirAll(dir, 0o755)
	path := filepath.Join(dir, fmt.Sprintf("%s-%s.json", c.Prop, hex.EncodeToString(h[:6])))
	os.WriteFile(path, js, 0o644)
	return path
}

// Seen records a case for the distinct-nontrivial count; nontrivial decided by the caller.
func (c *Ctx) Seen(nontrivial bool, parts ...[]byte) {
	if !nontrivial {
		return
	}
	h := sha1.New()
	for _, p := range parts {
		h.Write(p)
		h.Write([]byte{0})
	}
	var k [20]byte
	copy(k[:], h.Sum(nil))
	c.mu.Lock()
	c.distinct[k] = struct{}{}
	c.mu.Unlock()
}

func (c *Ctx) Count(key string, n int64) {
	c.mu.Lock()
	c.Dist[key] += n
	c.mu.Unlock()
}

func (c *Ctx) Sample(x interface{}) {
	c.mu.Lock()
	if len(c.Samples) < 12 {
		c.Samples = append(c.Samples, x)
	}
	c.mu.Unlock()
}

func (c *Ctx) Note(s string) {
	c.mu.Lock()
	if len(c.Notes) < 50 {
		c.Notes = append(c.Notes, s)
	}
	c.mu.Unlock()
}

// ReplayKnown replays the committed witness of every known finding of this property and
// prints the KNOWN-FINDING line when it still reproduces (impl == flagged model != spec model).
func (c *Ctx) ReplayKnown() {
	for _, f := range c.Known {
		mine := f.Property == c.Prop
		for _, a := range f.Also {
			if a == c.Prop {
				mine = true
			}
		}
		if !mine || f.Op == "" {
			continue
		}
		if f.Status == "fixed" {
			// regression corpus: the witness of a repaired finding must agree with the model
			// (no flag is recorded for it, so any disagreement is reported like any other)
			args := make([][]byte, len(f.Args))
			for i, a := range f.Args {
				if a == "-" {
					continue
				}
				bs, _ := hex.DecodeString(a)
				args[i] = bs
			}
			impl := c.Impl(0, f.Op, args...)
			if v, cur, none := c.Tie(0, f.Op, impl, args...); v == Violation {
				c.Report(0, f.Op, "witness of repaired finding "+f.ID, args, impl, cur, none)
			}
			c.Count("repaired_finding_witnesses_replayed", 1)
			continue
		}
		if f.Status != "known" {
			continue
		}
		args := make([][]byte, len(f.Args))
		for i, a := range f.Args {
			if a == "-" {
				continue
			}
			bs, _ := hex.DecodeString(a)
			args[i] = bs
		}
		impl := c.Impl(0, f.Op, args...)
		none := c.Pool.Ask(0, drv.Req("n", f.Op, args...))
		cur := c.Pool.Ask(0, drv.Req("c", f.Op, args...))
		switch {
		case impl == none:
			c.Note(fmt.Sprintf("known finding %s no longer reproduces on its witness (implementation agrees with the specification model)", f.ID))
		case impl == cur:
			line := fmt.Sprintf("KNOWN-FINDING: property=%s %s: %s", c.Prop, f.ID, f.What)
			fmt.Println(line)
			c.KnownLines = append(c.KnownLines, line)
		default:
			c.Report(0, f.Op, "witness of "+f.ID, args, impl, cur, none)
		}
	}
}

type runEvidence struct {
	Evaluations         int64            `json:"evaluations"`
	DistinctNontrivial  int              `json:"distinct_nontrivial"`
	Samples             []interface{}    `json:"samples"`
	Programs            int64            `json:"programs"`
	DisagreementsChecked int64           `json:"disagreements_checked"`
	BetterThanRecorded  int64            `json:"impl_matches_spec_where_flag_recorded"`
	Distribution        map[string]int64 `json:"distribution"`
	Exhaustive          bool             `json:"exhaustive"`
	ExhaustiveBound     string           `json:"exhaustive_bound,omitempty"`
	Violations          []string         `json:"violation_replays"`
	KnownFindings       []string         `json:"known_findings_replayed"`
	Notes               []string         `json:"notes"`
	WallS               float64          `json:"wall_s"`
	Seed                uint64           `json:"seed"`
	Tier                string           `json:"tier"`
}

// WriteEvidence writes the run part; bin/check merges it with the proof part.
func (c *Ctx) WriteEvidence() {
	c.mu.Lock()
	defer c.mu.Unlock()
	ev := runEvidence{Evaluations: c.Evals, DistinctNontrivial: len(c.distinct), Samples: c.Samples,
		Programs: c.Programs, DisagreementsChecked: c.Disagree, BetterThanRecorded: c.Better,
		Distribution: c.Dist, Exhaustive: c.Exhaustive, ExhaustiveBound: c.ExhaustNote,
		Violations: c.Violations, KnownFindings: c.KnownLines, Notes: c.Notes,
		WallS: time.Since(c.started).Seconds(), Seed: c.Seed, Tier: c.Tier}
	if ev.Samples == nil {
		ev.Samples = []interface{}{}
	}
	if ev.Violations == nil {
		ev.Violations = []string{}
	}
	sort.Strings(ev.Violations)
	js, _ := json.MarshalIndent(ev, "", " ")
	os.MkdirAll(filepath.Join(c.Root, "evidence"), 0o755)
	os.WriteFile(filepath.Join(c.Root, "evidence", c.Prop+".run.json"), js, 0o644)
}

func LoadKnown(root string) ([]Finding, []int) {
	bs, err := os.ReadFile(filepath.Join(root, "known_findings.json"))
	if err != nil {
		return nil, nil
	}
	var fs []Finding
	if err := json.Unmarshal(bs, &fs); err != nil {
		fmt.Fprintln(os.Stderr, "known_findings.json:", err)
		os.Exit(2)
	}
	var flags []int
	for _, f := range fs {
		if f.Status == "known" && f.Flag != 0 {
			flags = append(flags, f.Flag)
		}
	}
	return fs, flags
}
