package gen

import (
	"fmt"
	"strings"
	"unicode/utf8"
)

// Tok is one lexical token as text; Punct tokens may touch their neighbours.
type Tok struct {
	Text  string
	Punct bool
}

func P(s string) Tok { return Tok{s, true} }
func W(s string) Tok { return Tok{s, false} }

var ignoredPieces = []string{" ", " ", " ", "  ", "\n", "\t", ",", ", ", "\r\n", "\r", "\n\n", " # c\n", "#\n", "\ufeff", " #é😀 x\r\n", ",,"}

// Render joins tokens with ignored text. mode 0: single spaces; mode 1: random ignored
// tokens (whitespace, commas, line terminators, comments, BOM), none where both neighbours
// are punctuators (sometimes).
func Render(r *Rng, toks []Tok, mode int) string {
	var sb strings.Builder
	if mode == 1 && r.Chance(1, 4) {
		sb.WriteString(Pick(r, ignoredPieces))
	}
	for i, t := range toks {
		if i > 0 {
			prev := toks[i-1]
			need := !(prev.Punct || t.Punct)
			// "..." followed by "." cannot occur; a number followed by "..." must be separated
			if t.Text == "..." && !prev.Punct {
				need = true
			}
			if strings.HasSuffix(prev.Text, "\"") && strings.HasPrefix(t.Text, "\"") {
				need = true
			}
			if mode == 0 {
				sb.WriteByte(' ')
			} else {
				n := r.Intn(3)
				if need && n == 0 {
					n = 1
				}
				for k := 0; k < n; k++ {
					sb.WriteString(Pick(r, ignoredPieces))
				}
			}
		}
		sb.WriteString(t.Text)
	}
	if mode == 1 && r.Chance(1, 3) {
		sb.WriteString(Pick(r, ignoredPieces))
	}
	return sb.String()
}

// QuoteString renders a GraphQL quoted string whose value is s (valid UTF-8 expected).
func QuoteString(r *Rng, s string) string {
	var sb strings.Builder
	sb.WriteByte('"')
	for _, c := range s {
		switch {
		case c == '"':
			sb.WriteString(`\"`)
		case c == '\\':
			sb.WriteString(`\\`)
		case c == '\n':
			sb.WriteString(`\n`)
		case c == '\r':
			sb.WriteString(`\r`)
		case c == '\t':
			if r != nil && r.Bool() {
				sb.WriteByte('\t')
			} else {
				sb.WriteString(`\t`)
			}
		case c == '\b':
			sb.WriteString(`\b`)
		case c == '\f':
			sb.WriteString(`\f`)
		case c == '/':
			if r != nil && r.Chance(1, 4) {
				sb.WriteString(`\/`)
			} else {
				sb.WriteByte('/')
			}
		case c < 0x20:
			fmt.Fprintf(&sb, `\u%04x`, c)
		case c < 0x10000 && c >= 0x80 && !(c >= 0xD800 && c <= 0xDFFF) && r != nil && r.Chance(1, 4):
			if r.Bool() {
				fmt.Fprintf(&sb, `\u%04X`, c)
			} else {
				fmt.Fprintf(&sb, `\u%04x`, c)
			}
		default:
			sb.WriteRune(c)
		}
	}
	sb.WriteByte('"')
	return sb.String()
}

// BlockString renders a block string whose value is s; s must be "block safe":
// no CR, lines carry no common indent, first/last lines are not blank (see SafeBlock).
func BlockString(s string) string {
	return `"""` + strings.ReplaceAll(s, `"""`, `\"""`) + `"""`
}

var stringAtoms = []string{"a", "b c", "", "\"", "\\", "\n", "\t", "/", "é", "日本", "😀", "\u0007", "\u007f", " ", " ", "\ufeff", "x\"y", "\\n", "\\u0041", "#", ",", "{}", "\"\"\"", "'", "\r", "\u0000", "\U000e0001", "ÿ"}

func RandString(r *Rng) string {
	n := r.Intn(4)
	var sb strings.Builder
	for i := 0; i < n; i++ {
		sb.WriteString(Pick(r, stringAtoms))
	}
	return sb.String()
}

var blockLines = []string{"a", "b c", "é😀", "x \"\"\" y", "\\", "\\n", "t\tq", "  ind", "#no", "\"q\"", "end\""}

// SafeBlock returns a value that a block string can carry exactly.
func SafeBlock(r *Rng) string {
	n := 1 + r.Intn(3)
	lines := make([]string, n)
	for i := range lines {
		lines[i] = Pick(r, blockLines)
		if i > 0 && i < n-1 && r.Chance(1, 5) {
			lines[i] = ""
		}
	}
	// no common indent among lines after the first: make sure one later line is unindented
	lines[0] = strings.TrimLeft(lines[0], " \t")
	if lines[0] == "" {
		lines[0] = "a"
	}
	if n > 1 {
		last := strings.TrimLeft(lines[n-1], " \t")
		if last == "" {
			last = "z"
		}
		lines[n-1] = last
	}
	s := strings.Join(lines, "\n")
	if strings.HasSuffix(s, "\"") || strings.HasSuffix(s, "\\") {
		s += " ."
	}
	if !utf8.ValidString(s) {
		return "a"
	}
	return s
}
