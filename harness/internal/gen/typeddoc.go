package gen

import (
	"fmt"
	"sort"
	"strings"

	"github.com/vektah/gqlparser/v2/ast"
)

// TGen generates executable documents that are valid by construction against a loaded
// schema, as ast trees; PrintDoc renders them; DocFaults mutate them to violate one rule.
type TGen struct {
	R      *Rng
	S      *ast.Schema
	vars   []*ast.VariableDefinition // of the operation being generated
	frags  []*ast.FragmentDefinition
	nfrag  int
	nalias int
	used   map[string]bool // response names used anywhere in the document (a repeated name gets a fresh alias)
	allowVars bool
	// sharedOK: the selection set being generated is the body of a field (a scope of its own under a
	// response key that is unique in the document), so a response name used elsewhere may be reused here
	sharedOK bool
	Feat     map[string]int
}

func (g *TGen) feat(k string) {
	if g.Feat != nil {
		g.Feat[k]++
	}
}

func sortedTypeNames(s *ast.Schema) []string {
	var out []string
	for k := range s.Types {
		out = append(out, k)
	}
	sort.Strings(out)
	return out
}

func parseTypeExpr(t *ast.Type) *ast.Type { return t }

// literal for an input type (valid), possibly through a variable
func (g *TGen) value(t *ast.Type, depth int, allowVar bool) *ast.Value {
	r := g.R
	if allowVar && g.allowVars && r.Chance(1, 5) {
		// a variable of exactly this type
		name := fmt.Sprintf("v%d", len(g.vars)+1)
		vd := &ast.VariableDefinition{Variable: name, Type: t}
		if !t.NonNull && r.Chance(1, 3) {
			vd.DefaultValue = g.value(t, 1, false)
		}
		if t.NonNull && r.Chance(1, 3) {
			// a nullable variable with a non-null default may be used in a non-null position
			nt := *t
			nt.NonNull = false
			dv := g.value(t, 1, false)
			if dv.Kind != ast.NullValue {
				vd.Type = &nt
				vd.DefaultValue = dv
				g.feat("nullable_variable_with_default_in_nonnull_position")
			}
		}
		g.vars = append(g.vars, vd)
		g.feat("variable")
		return &ast.Value{Kind: ast.Variable, Raw: name}
	}
	if !t.NonNull && r.Chance(1, 10) {
		return &ast.Value{Kind: ast.NullValue, Raw: "null"}
	}
	if t.Elem != nil {
		if r.Chance(1, 5) && t.Elem.Elem == nil {
			g.feat("single_value_for_list")
			e := *t.Elem
			e.NonNull = true
			return g.value(&e, depth, false)
		}
		v := &ast.Value{Kind: ast.ListValue}
		n := r.Intn(3)
		for i := 0; i < n; i++ {
			e := *t.Elem
			if r.Bool() {
				e.NonNull = true // avoid null items most of the time
			}
			v.Children = append(v.Children, &ast.ChildValue{Value: g.value(&e, depth-1, allowVar)})
		}
		return v
	}
	def := g.S.Types[t.NamedType]
	if def == nil {
		return &ast.Value{Kind: ast.NullValue, Raw: "null"}
	}
	switch def.Kind {
	case ast.Scalar:
		switch def.Name {
		case "Int":
			return &ast.Value{Kind: ast.IntValue, Raw: Pick(r, []string{"0", "1", "-5", "2147483647", "-2147483648"})}
		case "Float":
			if r.Bool() {
				return &ast.Value{Kind: ast.IntValue, Raw: Pick(r, []string{"1", "-3"})}
			}
			return &ast.Value{Kind: ast.FloatValue, Raw: Pick(r, []string{"0.5", "1e3", "-2.5"})}
		case "String":
			if r.Chance(1, 6) {
				return &ast.Value{Kind: ast.BlockValue, Raw: "block"}
			}
			return &ast.Value{Kind: ast.StringValue, Raw: Pick(r, []string{"", "a", "x y", "é"})}
		case "Boolean":
			return &ast.Value{Kind: ast.BooleanValue, Raw: Pick(r, []string{"true", "false"})}
		case "ID":
			if r.Bool() {
				return &ast.Value{Kind: ast.IntValue, Raw: "7"}
			}
			return &ast.Value{Kind: ast.StringValue, Raw: "id"}
		default: // custom scalar: anything
			switch r.Intn(5) {
			case 0:
				return &ast.Value{Kind: ast.IntValue, Raw: "3"}
			case 1:
				return &ast.Value{Kind: ast.StringValue, Raw: "s"}
			case 2:
				return &ast.Value{Kind: ast.ObjectValue, Children: ast.ChildValueList{{Name: "k", Value: &ast.Value{Kind: ast.IntValue, Raw: "1"}}}}
			case 3:
				return &ast.Value{Kind: ast.ListValue, Children: ast.ChildValueList{{Value: &ast.Value{Kind: ast.EnumValue, Raw: "X"}}}}
			default:
				return &ast.Value{Kind: ast.BooleanValue, Raw: "true"}
			}
		}
	case ast.Enum:
		return &ast.Value{Kind: ast.EnumValue, Raw: Pick(r, def.EnumValues).Name}
	case ast.InputObject:
		v := &ast.Value{Kind: ast.ObjectValue}
		oneOf := def.Directives.ForName("oneOf") != nil
		if oneOf {
			f := Pick(r, def.Fields)
			ft := *f.Type
			ft.NonNull = true
			v.Children = append(v.Children, &ast.ChildValue{Name: f.Name, Value: g.value(&ft, depth-1, false)})
			g.feat("oneof_input")
			return v
		}
		for _, f := range def.Fields {
			req := f.Type.NonNull && f.DefaultValue == nil
			if req || (depth > 0 && r.Chance(1, 2)) {
				d := depth - 1
				if !req && d < 0 {
					continue
				}
				v.Children = append(v.Children, &ast.ChildValue{Name: f.Name, Value: g.value(f.Type, d, allowVar)})
			}
		}
		g.feat("input_object")
		return v
	}
	return &ast.Value{Kind: ast.NullValue, Raw: "null"}
}

func (g *TGen) args(defs ast.ArgumentDefinitionList) ast.ArgumentList {
	var out ast.ArgumentList
	for _, a := range defs {
		req := a.Type.NonNull && a.DefaultValue == nil
		if req || g.R.Chance(1, 2) {
			out = append(out, &ast.Argument{Name: a.Name, Value: g.value(a.Type, 2, true)})
		}
	}
	return out
}

func (g *TGen) directives(loc ast.DirectiveLocation) ast.DirectiveList {
	r := g.R
	var out ast.DirectiveList
	if !r.Chance(1, 5) {
		return nil
	}
	var names []string
	for n := range g.S.Directives {
		names = append(names, n)
	}
	sort.Strings(names)
	used := map[string]bool{}
	for k := 0; k < 2; k++ {
		n := Pick(r, names)
		d := g.S.Directives[n]
		ok := false
		for _, l := range d.Locations {
			if l == loc {
				ok = true
			}
		}
		if !ok || (used[n] && !d.IsRepeatable) {
			continue
		}
		used[n] = true
		out = append(out, &ast.Directive{Name: n, Arguments: g.args(d.Arguments)})
		g.feat("directive_" + n)
	}
	return out
}

// occurring: a composite type whose possible types intersect those of p (p itself when it has any)
func (g *TGen) occurring(p *ast.Definition) *ast.Definition {
	pts := g.S.PossibleTypes[p.Name]
	if len(pts) == 0 {
		return nil
	}
	if g.R.Bool() {
		return p
	}
	t := Pick(g.R, pts)
	// an interface listed as a possible type may itself have no implementers
	if len(g.S.PossibleTypes[t.Name]) == 0 {
		return p
	}
	ok := false
	for _, a := range g.S.PossibleTypes[t.Name] {
		for _, b := range pts {
			if a.Name == b.Name {
				ok = true
			}
		}
	}
	if !ok {
		return p
	}
	return t
}

func (g *TGen) composite(t *ast.Definition) bool { return t != nil && t.IsCompositeType() }

// selection set on parent type p
func (g *TGen) selectionSet(p *ast.Definition, depth int) ast.SelectionSet {
	r := g.R
	var ss ast.SelectionSet
	names := map[string]bool{}
	n := 1 + r.Intn(3)
	for i := 0; i < n; i++ {
		switch k := r.Intn(8); {
		case k == 0 && depth > 0:
			// inline fragment without type condition, or on a type that can occur here
			f := &ast.InlineFragment{}
			target := p
			if r.Bool() {
				if t := g.occurring(p); t != nil {
					target = t
					f.TypeCondition = target.Name
				}
			}
			f.Directives = g.directives(ast.LocationInlineFragment)
			so := g.sharedOK
			g.sharedOK = false
			f.SelectionSet = g.selectionSet(target, depth-1)
			g.sharedOK = so
			ss = append(ss, f)
			g.feat("inline_fragment")
		case k == 1 && depth > 0:
			// fragment spread of a new fragment (no cycles: a fragment only spreads newer ones)
			target := g.occurring(p)
			if target == nil {
				continue
			}
			g.nfrag++
			fd := &ast.FragmentDefinition{Name: fmt.Sprintf("F%d", g.nfrag), TypeCondition: target.Name}
			saveVars := g.allowVars
			g.allowVars = false // fragments are shared between operations
			so := g.sharedOK
			g.sharedOK = false
			fd.SelectionSet = g.selectionSet(target, depth-1)
			g.sharedOK = so
			g.allowVars = saveVars
			g.frags = append(g.frags, fd)
			ss = append(ss, &ast.FragmentSpread{Name: fd.Name, Directives: g.directives(ast.LocationFragmentSpread)})
			g.feat("fragment_spread")
		case k == 2:
			if !names["__typename"] {
				names["__typename"] = true
				ss = append(ss, &ast.Field{Alias: "__typename", Name: "__typename"})
				g.feat("typename")
			}
		default:
			if p.Kind == ast.Union {
				if !names["__typename"] {
					names["__typename"] = true
					ss = append(ss, &ast.Field{Alias: "__typename", Name: "__typename"})
				}
				continue
			}
			var cands ast.FieldList
			for _, fd := range p.Fields {
				if !strings.HasPrefix(fd.Name, "__") {
					cands = append(cands, fd)
				}
			}
			if len(cands) == 0 {
				continue
			}
			fd := Pick(r, cands)
			ft := g.S.Types[fd.Type.Name()]
			if g.composite(ft) && depth <= 0 {
				continue
			}
			f := &ast.Field{Name: fd.Name, Alias: fd.Name}
			if names[fd.Name] || g.used[fd.Name] {
				g.nalias++
				f.Alias = fmt.Sprintf("al%d", g.nalias)
				g.feat("alias")
			}
			// the same response name for different fields of one type, in different selection sets
			if g.sharedOK && !names["shared"] && r.Chance(1, 5) {
				f.Alias = "shared"
				g.feat("response_name_reused_in_another_scope")
			}
			names[f.Alias] = true
			if f.Alias != "shared" {
				g.used[f.Alias] = true
			}
			f.Arguments = g.args(fd.Arguments)
			f.Directives = g.directives(ast.LocationField)
			if g.composite(ft) {
				so := g.sharedOK
				g.sharedOK = f.Alias != "shared"
				f.SelectionSet = g.selectionSet(ft, depth-1)
				g.sharedOK = so
			}
			ss = append(ss, f)
			// an identical copy merges with the original
			if r.Chance(1, 10) {
				ss = append(ss, f)
				g.feat("duplicate_field_mergeable")
			}
		}
	}
	if len(ss) == 0 {
		ss = append(ss, &ast.Field{Alias: "__typename", Name: "__typename"})
	}
	return ss
}

// Doc generates a valid document.
func (g *TGen) Doc() *ast.QueryDocument {
	r := g.R
	doc := &ast.QueryDocument{}
	g.frags = nil
	g.used = map[string]bool{}
	nOps := 1
	if r.Chance(1, 4) {
		nOps = 2
	}
	for i := 0; i < nOps; i++ {
		g.vars = nil
		g.allowVars = true
		op := &ast.OperationDefinition{Operation: ast.Query}
		root := g.S.Query
		switch k := r.Intn(6); {
		case k == 0 && g.S.Mutation != nil:
			op.Operation, root = ast.Mutation, g.S.Mutation
		case k == 1 && g.S.Subscription != nil:
			op.Operation, root = ast.Subscription, g.S.Subscription
		}
		if nOps > 1 || r.Bool() {
			op.Name = fmt.Sprintf("Op%d", i+1)
		}
		if root == nil {
			continue
		}
		if op.Operation == ast.Subscription {
			// a single root field
			var cands ast.FieldList
			for _, fd := range root.Fields {
				if !strings.HasPrefix(fd.Name, "__") {
					cands = append(cands, fd)
				}
			}
			fd := Pick(r, cands)
			f := &ast.Field{Name: fd.Name, Alias: fd.Name, Arguments: g.args(fd.Arguments)}
			g.used[fd.Name] = true
			if ft := g.S.Types[fd.Type.Name()]; g.composite(ft) {
				f.SelectionSet = g.selectionSet(ft, 2)
			}
			op.SelectionSet = ast.SelectionSet{f}
		} else {
			op.SelectionSet = g.selectionSet(root, 2+r.Intn(2))
			if op.Operation == ast.Query && r.Chance(1, 5) {
				op.SelectionSet = append(op.SelectionSet, g.introspection())
			}
		}
		locs := map[ast.Operation]ast.DirectiveLocation{ast.Query: ast.LocationQuery, ast.Mutation: ast.LocationMutation, ast.Subscription: ast.LocationSubscription}
		op.Directives = g.directives(locs[op.Operation])
		op.VariableDefinitions = g.vars
		doc.Operations = append(doc.Operations, op)
		g.feat("operation_" + string(op.Operation))
	}
	if len(doc.Operations) == 0 {
		doc.Operations = append(doc.Operations, &ast.OperationDefinition{Operation: ast.Query, SelectionSet: ast.SelectionSet{&ast.Field{Alias: "__typename", Name: "__typename"}}})
	}
	doc.Fragments = g.frags
	return doc
}

func fld(name string, sub ...ast.Selection) *ast.Field {
	return &ast.Field{Alias: name, Name: name, SelectionSet: sub}
}

func (g *TGen) introspection() ast.Selection {
	g.feat("introspection")
	if g.R.Bool() {
		return fld("__schema", fld("types", fld("name"), fld("fields", fld("name"), fld("type", fld("name"), fld("ofType", fld("name"))))))
	}
	f := fld("__type", fld("name"), fld("fields", fld("name")), fld("possibleTypes", fld("name")))
	f.Arguments = ast.ArgumentList{{Name: "name", Value: &ast.Value{Kind: ast.StringValue, Raw: "Query"}}}
	return f
}

// ---------------- printer ----------------

func PrintValue(v *ast.Value) string {
	switch v.Kind {
	case ast.Variable:
		return "$" + v.Raw
	case ast.StringValue:
		return QuoteString(nil, v.Raw)
	case ast.BlockValue:
		return BlockString(v.Raw)
	case ast.ListValue:
		parts := make([]string, len(v.Children))
		for i, c := range v.Children {
			parts[i] = PrintValue(c.Value)
		}
		return "[" + strings.Join(parts, ", ") + "]"
	case ast.ObjectValue:
		parts := make([]string, len(v.Children))
		for i, c := range v.Children {
			parts[i] = c.Name + ": " + PrintValue(c.Value)
		}
		return "{" + strings.Join(parts, ", ") + "}"
	}
	return v.Raw
}

func printArgs(as ast.ArgumentList) string {
	if len(as) == 0 {
		return ""
	}
	parts := make([]string, len(as))
	for i, a := range as {
		parts[i] = a.Name + ": " + PrintValue(a.Value)
	}
	return "(" + strings.Join(parts, ", ") + ")"
}

func printDirs(ds ast.DirectiveList) string {
	s := ""
	for _, d := range ds {
		s += " @" + d.Name + printArgs(d.Arguments)
	}
	return s
}

func printSels(ss ast.SelectionSet, ind string) string {
	if len(ss) == 0 {
		return ""
	}
	var sb strings.Builder
	sb.WriteString(" {\n")
	for _, s := range ss {
		sb.WriteString(ind + "  ")
		switch x := s.(type) {
		case *ast.Field:
			if x.Alias != "" && x.Alias != x.Name {
				sb.WriteString(x.Alias + ": ")
			}
			sb.WriteString(x.Name + printArgs(x.Arguments) + printDirs(x.Directives) + printSels(x.SelectionSet, ind+"  "))
		case *ast.FragmentSpread:
			sb.WriteString("..." + x.Name + printDirs(x.Directives))
		case *ast.InlineFragment:
			sb.WriteString("...")
			if x.TypeCondition != "" {
				sb.WriteString(" on " + x.TypeCondition)
			}
			sb.WriteString(printDirs(x.Directives) + printSels(x.SelectionSet, ind+"  "))
		}
		sb.WriteString("\n")
	}
	sb.WriteString(ind + "}")
	return sb.String()
}

func printVarDefs(vs ast.VariableDefinitionList) string {
	if len(vs) == 0 {
		return ""
	}
	parts := make([]string, len(vs))
	for i, v := range vs {
		parts[i] = "$" + v.Variable + ": " + v.Type.String()
		if v.DefaultValue != nil {
			parts[i] += " = " + PrintValue(v.DefaultValue)
		}
		parts[i] += printDirs(v.Directives)
	}
	return "(" + strings.Join(parts, ", ") + ")"
}

func PrintDoc(d *ast.QueryDocument) string {
	var sb strings.Builder
	for _, o := range d.Operations {
		if o.Name == "" && len(o.VariableDefinitions) == 0 && len(o.Directives) == 0 && o.Operation == ast.Query {
			sb.WriteString(strings.TrimPrefix(printSels(o.SelectionSet, ""), " ") + "\n")
			continue
		}
		sb.WriteString(string(o.Operation))
		if o.Name != "" {
			sb.WriteString(" " + o.Name)
		}
		sb.WriteString(printVarDefs(o.VariableDefinitions) + printDirs(o.Directives) + printSels(o.SelectionSet, "") + "\n")
	}
	for _, f := range d.Fragments {
		sb.WriteString("fragment " + f.Name + " on " + f.TypeCondition + printDirs(f.Directives) + printSels(f.SelectionSet, "") + "\n")
	}
	return sb.String()
}

// ---------------- faults: each returns the rule expected to report, "" if not applicable ----------------

type DocFault struct {
	Name  string
	Rule  string
	Apply func(g *TGen, d *ast.QueryDocument) bool
}

func firstField(ss ast.SelectionSet) *ast.Field {
	for _, s := range ss {
		if f, ok := s.(*ast.Field); ok && f.Name != "__typename" {
			return f
		}
	}
	return nil
}

// every field of the document with its parent selection set owner
func allFields(ss ast.SelectionSet, visit func(f *ast.Field)) {
	for _, s := range ss {
		switch x := s.(type) {
		case *ast.Field:
			visit(x)
			allFields(x.SelectionSet, visit)
		case *ast.InlineFragment:
			allFields(x.SelectionSet, visit)
		}
	}
}

func docFields(d *ast.QueryDocument, visit func(f *ast.Field)) {
	for _, o := range d.Operations {
		allFields(o.SelectionSet, visit)
	}
	for _, f := range d.Fragments {
		allFields(f.SelectionSet, visit)
	}
}

var DocFaults = []DocFault{
	{"unknown-field", "FieldsOnCorrectType", func(g *TGen, d *ast.QueryDocument) bool {
		op := d.Operations[0]
		op.SelectionSet = append(op.SelectionSet, &ast.Field{Alias: "nopeField", Name: "nopeField"})
		return true
	}},
	{"misspelt-field", "FieldsOnCorrectType", func(g *TGen, d *ast.QueryDocument) bool {
		f := firstField(d.Operations[0].SelectionSet)
		if f == nil || f.Alias != f.Name {
			return false
		}
		f.Name += "x"
		f.Alias = f.Name
		f.Arguments = nil
		f.SelectionSet = nil
		return true
	}},
	{"implementer-field-on-abstract-type", "FieldsOnCorrectType", func(g *TGen, d *ast.QueryDocument) bool {
		// a field that only some (not the first) possible types define, selected on the abstract type itself
		ok := false
		var walk func(parent *ast.Definition, ss *ast.SelectionSet)
		walk = func(parent *ast.Definition, ss *ast.SelectionSet) {
			if parent == nil || ok {
				return
			}
			if parent.Kind == ast.Interface || parent.Kind == ast.Union {
				pts := g.S.GetPossibleTypes(parent)
				for i := 1; i < len(pts) && !ok; i++ {
					for _, pf := range pts[i].Fields {
						if pts[0].Fields.ForName(pf.Name) == nil && parent.Fields.ForName(pf.Name) == nil && !strings.HasPrefix(pf.Name, "__") {
							*ss = append(*ss, &ast.Field{Alias: "zz" + pf.Name, Name: pf.Name})
							ok = true
							break
						}
					}
				}
				if ok {
					return
				}
			}
			for _, sel := range *ss {
				switch x := sel.(type) {
				case *ast.Field:
					if fd := parent.Fields.ForName(x.Name); fd != nil && len(x.SelectionSet) > 0 {
						walk(g.S.Types[fd.Type.Name()], &x.SelectionSet)
					}
				case *ast.InlineFragment:
					if x.TypeCondition == "" {
						walk(parent, &x.SelectionSet)
					} else {
						walk(g.S.Types[x.TypeCondition], &x.SelectionSet)
					}
				}
			}
		}
		for _, o := range d.Operations {
			var root *ast.Definition
			switch o.Operation {
			case ast.Query:
				root = g.S.Query
			case ast.Mutation:
				root = g.S.Mutation
			case ast.Subscription:
				continue // a second root field is not allowed
			}
			walk(root, &o.SelectionSet)
		}
		for _, f := range d.Fragments {
			walk(g.S.Types[f.TypeCondition], &f.SelectionSet)
		}
		return ok
	}},
	{"unknown-argument", "KnownArgumentNames", func(g *TGen, d *ast.QueryDocument) bool {
		f := firstField(d.Operations[0].SelectionSet)
		if f == nil {
			return false
		}
		f.Arguments = append(f.Arguments, &ast.Argument{Name: "a1x", Value: &ast.Value{Kind: ast.IntValue, Raw: "1"}})
		return true
	}},
	{"unknown-directive", "KnownDirectives", func(g *TGen, d *ast.QueryDocument) bool {
		d.Operations[0].Directives = append(d.Operations[0].Directives, &ast.Directive{Name: "nopeDirective"})
		return true
	}},
	{"directive-wrong-location", "KnownDirectives", func(g *TGen, d *ast.QueryDocument) bool {
		d.Operations[0].Directives = append(d.Operations[0].Directives, &ast.Directive{Name: "deprecated"})
		return true
	}},
	{"unknown-fragment", "KnownFragmentNames", func(g *TGen, d *ast.QueryDocument) bool {
		op := d.Operations[0]
		op.SelectionSet = append(op.SelectionSet, &ast.FragmentSpread{Name: "NopeFrag"})
		return true
	}},
	{"unknown-type-condition", "KnownTypeNames", func(g *TGen, d *ast.QueryDocument) bool {
		op := d.Operations[0]
		op.SelectionSet = append(op.SelectionSet, &ast.InlineFragment{TypeCondition: "Nope", SelectionSet: ast.SelectionSet{fld("__typename")}})
		return true
	}},
	{"unknown-fragment-type", "KnownTypeNames", func(g *TGen, d *ast.QueryDocument) bool {
		d.Fragments = append(d.Fragments, &ast.FragmentDefinition{Name: "FX", TypeCondition: "O1x", SelectionSet: ast.SelectionSet{fld("__typename")}})
		d.Operations[0].SelectionSet = append(d.Operations[0].SelectionSet, &ast.FragmentSpread{Name: "FX"})
		return true
	}},
	{"unknown-variable-type", "KnownTypeNames", func(g *TGen, d *ast.QueryDocument) bool {
		op := d.Operations[0]
		op.VariableDefinitions = append(op.VariableDefinitions, &ast.VariableDefinition{Variable: "zz", Type: ast.NamedType("Nope", nil)})
		if op.Name == "" {
			op.Name = "Named"
		}
		return true
	}},
	{"anonymous-with-others", "LoneAnonymousOperation", func(g *TGen, d *ast.QueryDocument) bool {
		d.Operations = append(d.Operations, &ast.OperationDefinition{Operation: ast.Query, SelectionSet: ast.SelectionSet{fld("__typename")}})
		if len(d.Operations) == 2 && d.Operations[0].Name == "" {
			return true
		}
		return len(d.Operations) >= 2
	}},
	{"introspection-too-deep", "MaxIntrospectionDepth", func(g *TGen, d *ast.QueryDocument) bool {
		if d.Operations[0].Operation != ast.Query {
			return false
		}
		deep := fld("__schema", fld("types", fld("fields", fld("type", fld("fields", fld("type", fld("fields", fld("name"))))))))
		d.Operations[0].SelectionSet = append(d.Operations[0].SelectionSet, deep)
		return true
	}},
	{"fragment-cycle", "NoFragmentCycles", func(g *TGen, d *ast.QueryDocument) bool {
		q := g.S.Query.Name
		d.Fragments = append(d.Fragments,
			&ast.FragmentDefinition{Name: "CA", TypeCondition: q, SelectionSet: ast.SelectionSet{fld("__typename"), &ast.FragmentSpread{Name: "CB"}}},
			&ast.FragmentDefinition{Name: "CB", TypeCondition: q, SelectionSet: ast.SelectionSet{&ast.FragmentSpread{Name: "CA"}}})
		if d.Operations[0].Operation != ast.Query {
			return false
		}
		d.Operations[0].SelectionSet = append(d.Operations[0].SelectionSet, &ast.FragmentSpread{Name: "CA"})
		return true
	}},
	{"undefined-variable", "NoUndefinedVariables", func(g *TGen, d *ast.QueryDocument) bool {
		if g.S.Query.Fields.ForName("scalar") == nil || d.Operations[0].Operation != ast.Query {
			return false
		}
		f := &ast.Field{Alias: "undefVar", Name: "scalar", Arguments: ast.ArgumentList{{Name: "req", Value: &ast.Value{Kind: ast.Variable, Raw: "nope"}}}}
		d.Operations[0].SelectionSet = append(d.Operations[0].SelectionSet, f)
		return true
	}},
	{"unused-fragment", "NoUnusedFragments", func(g *TGen, d *ast.QueryDocument) bool {
		d.Fragments = append(d.Fragments, &ast.FragmentDefinition{Name: "Unused", TypeCondition: g.S.Query.Name, SelectionSet: ast.SelectionSet{fld("__typename")}})
		return true
	}},
	{"unused-variable", "NoUnusedVariables", func(g *TGen, d *ast.QueryDocument) bool {
		op := d.Operations[0]
		op.VariableDefinitions = append(op.VariableDefinitions, &ast.VariableDefinition{Variable: "unusedVar", Type: ast.NamedType("Int", nil)})
		if op.Name == "" {
			op.Name = "Named"
		}
		return true
	}},
	{"conflicting-fields", "OverlappingFieldsCanBeMerged", func(g *TGen, d *ast.QueryDocument) bool {
		op := d.Operations[0]
		var leafs []*ast.FieldDefinition
		root := map[ast.Operation]*ast.Definition{ast.Query: g.S.Query, ast.Mutation: g.S.Mutation, ast.Subscription: g.S.Subscription}[op.Operation]
		if root == nil || op.Operation == ast.Subscription {
			return false
		}
		for _, fd := range root.Fields {
			if t := g.S.Types[fd.Type.Name()]; t != nil && t.IsLeafType() && !strings.HasPrefix(fd.Name, "__") {
				req := false
				for _, a := range fd.Arguments {
					if a.Type.NonNull && a.DefaultValue == nil {
						req = true
					}
				}
				if !req {
					leafs = append(leafs, fd)
				}
			}
		}
		if len(leafs) == 0 {
			return false
		}
		op.SelectionSet = append(op.SelectionSet, &ast.Field{Alias: "clash", Name: leafs[0].Name}, &ast.Field{Alias: "clash", Name: "__typename"})
		return true
	}},
	{"differing-arguments", "OverlappingFieldsCanBeMerged", func(g *TGen, d *ast.QueryDocument) bool {
		op := d.Operations[0]
		if op.Operation != ast.Query || g.S.Query.Fields.ForName("scalar") == nil {
			return false
		}
		mk := func(v string) *ast.Field {
			return &ast.Field{Alias: "sameKey", Name: "scalar", Arguments: ast.ArgumentList{{Name: "in", Value: &ast.Value{Kind: ast.NullValue, Raw: "null"}}, {Name: "req", Value: &ast.Value{Kind: ast.IntValue, Raw: v}}}}
		}
		op.SelectionSet = append(op.SelectionSet, mk("1"), mk("2"))
		return true
	}},
	{"impossible-spread", "PossibleFragmentSpreads", func(g *TGen, d *ast.QueryDocument) bool {
		// an object type other than the query root, spread on the query root
		for _, n := range sortedTypeNames(g.S) {
			t := g.S.Types[n]
			if t.Kind == ast.Object && t != g.S.Query && !strings.HasPrefix(n, "__") && d.Operations[0].Operation == ast.Query {
				d.Operations[0].SelectionSet = append(d.Operations[0].SelectionSet, &ast.InlineFragment{TypeCondition: n, SelectionSet: ast.SelectionSet{fld("__typename")}})
				return true
			}
		}
		return false
	}},
	{"missing-required-argument", "ProvidedRequiredArguments", func(g *TGen, d *ast.QueryDocument) bool {
		done := false
		docFields(d, func(f *ast.Field) {
			if done || len(f.Arguments) == 0 {
				return
			}
			done = true
		})
		if g.S.Mutation == nil || g.S.Mutation.Fields.ForName("set") == nil {
			return false
		}
		d.Operations = append(d.Operations, &ast.OperationDefinition{Operation: ast.Mutation, Name: "MissingArg", SelectionSet: ast.SelectionSet{fld("set")}})
		if d.Operations[0].Name == "" {
			d.Operations[0].Name = "Named"
		}
		return true
	}},
	{"leaf-with-selection", "ScalarLeafs", func(g *TGen, d *ast.QueryDocument) bool {
		ok := false
		docFields(d, func(f *ast.Field) {
			if !ok && f.Name == "__typename" {
				f.SelectionSet = ast.SelectionSet{fld("__typename")}
				ok = true
			}
		})
		return ok
	}},
	{"composite-without-selection", "ScalarLeafs", func(g *TGen, d *ast.QueryDocument) bool {
		ok := false
		docFields(d, func(f *ast.Field) {
			if !ok && len(f.SelectionSet) > 0 && f.Name != "__schema" && f.Name != "__type" {
				f.SelectionSet = nil
				ok = true
			}
		})
		return ok
	}},
	{"subscription-two-fields", "SingleFieldSubscriptions", func(g *TGen, d *ast.QueryDocument) bool {
		if g.S.Subscription == nil || g.S.Subscription.Fields.ForName("tick") == nil {
			return false
		}
		d.Operations = append(d.Operations, &ast.OperationDefinition{Operation: ast.Subscription, Name: "TwoFields",
			SelectionSet: ast.SelectionSet{&ast.Field{Alias: "a", Name: "tick"}, &ast.Field{Alias: "b", Name: "tick"}}})
		if d.Operations[0].Name == "" {
			d.Operations[0].Name = "Named"
		}
		return true
	}},
	{"duplicate-argument", "UniqueArgumentNames", func(g *TGen, d *ast.QueryDocument) bool {
		ok := false
		docFields(d, func(f *ast.Field) {
			if !ok && len(f.Arguments) > 0 {
				f.Arguments = append(f.Arguments, f.Arguments[0])
				ok = true
			}
		})
		return ok
	}},
	{"duplicate-directive", "UniqueDirectivesPerLocation", func(g *TGen, d *ast.QueryDocument) bool {
		f := firstField(d.Operations[0].SelectionSet)
		if f == nil {
			return false
		}
		sk := &ast.Directive{Name: "skip", Arguments: ast.ArgumentList{{Name: "if", Value: &ast.Value{Kind: ast.BooleanValue, Raw: "false"}}}}
		f.Directives = append(f.Directives, sk, sk)
		return true
	}},
	{"duplicate-fragment-name", "UniqueFragmentNames", func(g *TGen, d *ast.QueryDocument) bool {
		if len(d.Fragments) == 0 {
			return false
		}
		c := *d.Fragments[0]
		d.Fragments = append(d.Fragments, &c)
		return true
	}},
	{"duplicate-input-field", "UniqueInputFieldNames", func(g *TGen, d *ast.QueryDocument) bool {
		if d.Operations[0].Operation != ast.Query || g.S.Query.Fields.ForName("scalar") == nil {
			return false
		}
		in1 := g.S.Types["In1"]
		if in1 == nil || len(in1.Fields) == 0 {
			return false
		}
		v := g.value(ast.NonNullNamedType("In1", nil), 1, false)
		if v.Kind != ast.ObjectValue || len(v.Children) == 0 {
			return false
		}
		v.Children = append(v.Children, v.Children[0])
		d.Operations[0].SelectionSet = append(d.Operations[0].SelectionSet, &ast.Field{Alias: "dupIn", Name: "scalar", Arguments: ast.ArgumentList{{Name: "in", Value: v}}})
		return true
	}},
	{"duplicate-operation-name", "UniqueOperationNames", func(g *TGen, d *ast.QueryDocument) bool {
		if d.Operations[0].Name == "" {
			d.Operations[0].Name = "Named"
		}
		c := *d.Operations[0]
		d.Operations = append(d.Operations, &c)
		return true
	}},
	{"duplicate-variable", "UniqueVariableNames", func(g *TGen, d *ast.QueryDocument) bool {
		op := d.Operations[0]
		if len(op.VariableDefinitions) == 0 {
			return false
		}
		op.VariableDefinitions = append(op.VariableDefinitions, op.VariableDefinitions[0])
		return true
	}},
	{"wrong-literal-type", "ValuesOfCorrectType", func(g *TGen, d *ast.QueryDocument) bool {
		if d.Operations[0].Operation != ast.Query || g.S.Query.Fields.ForName("scalar") == nil {
			return false
		}
		bad := Pick(g.R, []*ast.Value{{Kind: ast.StringValue, Raw: "x"}, {Kind: ast.FloatValue, Raw: "1.5"}, {Kind: ast.IntValue, Raw: "2147483648"},
			{Kind: ast.EnumValue, Raw: "RED"}, {Kind: ast.ObjectValue}, {Kind: ast.BooleanValue, Raw: "true"}, {Kind: ast.NullValue, Raw: "null"}})
		d.Operations[0].SelectionSet = append(d.Operations[0].SelectionSet, &ast.Field{Alias: "badLit", Name: "scalar", Arguments: ast.ArgumentList{{Name: "req", Value: bad}}})
		return true
	}},
	{"unknown-enum-value", "ValuesOfCorrectType", func(g *TGen, d *ast.QueryDocument) bool {
		if d.Operations[0].Operation != ast.Query || g.S.Query.Fields.ForName("scalar") == nil {
			return false
		}
		bad := Pick(g.R, []*ast.Value{{Kind: ast.EnumValue, Raw: "REDD"}, {Kind: ast.StringValue, Raw: "RED"}, {Kind: ast.EnumValue, Raw: "GREN"}, {Kind: ast.IntValue, Raw: "1"}})
		d.Operations[0].SelectionSet = append(d.Operations[0].SelectionSet, &ast.Field{Alias: "badEnum", Name: "scalar", Arguments: ast.ArgumentList{{Name: "e", Value: bad}}})
		return true
	}},
	{"input-object-faults", "ValuesOfCorrectType", func(g *TGen, d *ast.QueryDocument) bool {
		if d.Operations[0].Operation != ast.Query || g.S.Query.Fields.ForName("scalar") == nil {
			return false
		}
		v := &ast.Value{Kind: ast.ObjectValue, Children: ast.ChildValueList{{Name: "f1x", Value: &ast.Value{Kind: ast.IntValue, Raw: "1"}}}}
		d.Operations[0].SelectionSet = append(d.Operations[0].SelectionSet, &ast.Field{Alias: "badIn", Name: "scalar", Arguments: ast.ArgumentList{{Name: "in", Value: v}}})
		return true
	}},
	{"variable-of-output-type", "VariablesAreInputTypes", func(g *TGen, d *ast.QueryDocument) bool {
		op := d.Operations[0]
		op.VariableDefinitions = append(op.VariableDefinitions, &ast.VariableDefinition{Variable: "outVar", Type: ast.NamedType(g.S.Query.Name, nil)})
		if op.Name == "" {
			op.Name = "Named"
		}
		return true
	}},
	{"variable-wrong-position", "VariablesInAllowedPosition", func(g *TGen, d *ast.QueryDocument) bool {
		op := d.Operations[0]
		if op.Operation != ast.Query || g.S.Query.Fields.ForName("scalar") == nil {
			return false
		}
		t := Pick(g.R, []*ast.Type{ast.NamedType("Int", nil), ast.NamedType("String", nil), ast.ListType(ast.NamedType("Int", nil), nil)})
		op.VariableDefinitions = append(op.VariableDefinitions, &ast.VariableDefinition{Variable: "posVar", Type: t})
		if op.Name == "" {
			op.Name = "Named"
		}
		// Int! expected (with an argument default, which the rule does not take into account): nullable Int is reported
		op.SelectionSet = append(op.SelectionSet, &ast.Field{Alias: "wrongPos", Name: "scalar", Arguments: ast.ArgumentList{{Name: "e", Value: &ast.Value{Kind: ast.Variable, Raw: "posVar"}}}})
		return true
	}},
	{"fragment-on-scalar", "FragmentsOnCompositeTypes", func(g *TGen, d *ast.QueryDocument) bool {
		d.Operations[0].SelectionSet = append(d.Operations[0].SelectionSet, &ast.InlineFragment{TypeCondition: "Int", SelectionSet: ast.SelectionSet{fld("__typename")}})
		return true
	}},
	{"missing-root-type", "KnownRootType", func(g *TGen, d *ast.QueryDocument) bool {
		if g.S.Mutation != nil {
			return false
		}
		d.Operations = append(d.Operations, &ast.OperationDefinition{Operation: ast.Mutation, Name: "NoRoot", SelectionSet: ast.SelectionSet{fld("__typename")}})
		if d.Operations[0].Name == "" {
			d.Operations[0].Name = "Named"
		}
		return true
	}},
}
