package gen

import (
	"github.com/vektah/gqlparser/v2/ast"
)

// SGen generates type-system documents as trees with their token lists.
type SGen struct {
	QGen
	BuiltIn      bool
	NoEmptyDesc  bool // avoid "" descriptions (recorded deviation F-S6 for `extend`)
	IfaceExtImpl bool // `extend interface X implements Y` (recorded deviation F-S4)
}

var typeNames = []string{"A", "B", "Query", "Mutation", "Node", "T1", "Int", "String", "on", "type", "implements", "schema", "input"}
var locNames = []string{"QUERY", "MUTATION", "SUBSCRIPTION", "FIELD", "FRAGMENT_DEFINITION", "FRAGMENT_SPREAD", "INLINE_FRAGMENT",
	"VARIABLE_DEFINITION", "SCHEMA", "SCALAR", "OBJECT", "FIELD_DEFINITION", "ARGUMENT_DEFINITION", "INTERFACE", "UNION", "ENUM",
	"ENUM_VALUE", "INPUT_OBJECT", "INPUT_FIELD_DEFINITION"}

func (g *SGen) tname() string { return Pick(g.R, typeNames) }

// description: returns text ("" = none) and emits the token
func (g *SGen) desc() string {
	r := g.R
	if !r.Chance(1, 3) {
		return ""
	}
	g.feat("description")
	if r.Bool() {
		s := SafeBlock(r)
		g.p(BlockString(s))
		return s
	}
	s := RandString(r)
	if s == "" {
		if g.NoEmptyDesc {
			s = "d"
		}
	}
	g.p(QuoteString(r, s))
	return s
}

func (g *SGen) argDefs() ast.ArgumentDefinitionList {
	r := g.R
	if !r.Chance(1, 3) {
		return nil
	}
	g.p("(")
	var as ast.ArgumentDefinitionList
	n := 1 + r.Intn(3)
	for i := 0; i < n; i++ {
		a := &ast.ArgumentDefinition{}
		a.Description = g.desc()
		a.Name = g.name()
		g.w(a.Name)
		g.p(":")
		a.Type = g.Type(2)
		if r.Chance(1, 3) {
			g.p("=")
			a.DefaultValue = g.Value(2, true)
		}
		a.Directives = g.Directives(true)
		as = append(as, a)
	}
	g.p(")")
	g.feat("argument_definitions")
	return as
}

func (g *SGen) fields(input bool) ast.FieldList {
	r := g.R
	g.p("{")
	var fs ast.FieldList
	n := 1 + r.Intn(3)
	for i := 0; i < n; i++ {
		f := &ast.FieldDefinition{}
		f.Description = g.desc()
		f.Name = g.name()
		g.w(f.Name)
		if !input {
			f.Arguments = g.argDefs()
		}
		g.p(":")
		f.Type = g.Type(2)
		if input && r.Chance(1, 3) {
			g.p("=")
			f.DefaultValue = g.Value(2, true)
		}
		f.Directives = g.Directives(true)
		fs = append(fs, f)
	}
	g.p("}")
	return fs
}

func (g *SGen) implements() []string {
	r := g.R
	if !r.Chance(1, 3) {
		return nil
	}
	g.w("implements")
	if r.Chance(1, 3) {
		g.p("&")
	}
	var out []string
	n := 1 + r.Intn(3)
	for i := 0; i < n; i++ {
		if i > 0 {
			g.p("&")
		}
		t := g.tname()
		g.w(t)
		out = append(out, t)
	}
	g.feat("implements")
	return out
}

func (g *SGen) unionMembers() []string {
	r := g.R
	g.p("=")
	if r.Chance(1, 3) {
		g.p("|")
	}
	var out []string
	n := 1 + r.Intn(3)
	for i := 0; i < n; i++ {
		if i > 0 {
			g.p("|")
		}
		t := g.tname()
		g.w(t)
		out = append(out, t)
	}
	return out
}

func (g *SGen) enumValues() ast.EnumValueList {
	r := g.R
	g.p("{")
	var vs ast.EnumValueList
	n := 1 + r.Intn(3)
	for i := 0; i < n; i++ {
		e := &ast.EnumValueDefinition{}
		e.Description = g.desc()
		e.Name = g.name()
		g.w(e.Name)
		e.Directives = g.Directives(true)
		vs = append(vs, e)
	}
	g.p("}")
	return vs
}

func (g *SGen) opTypes() ast.OperationTypeDefinitionList {
	r := g.R
	g.p("{")
	var os ast.OperationTypeDefinitionList
	n := 1 + r.Intn(3)
	for i := 0; i < n; i++ {
		o := &ast.OperationTypeDefinition{Operation: Pick(r, []ast.Operation{ast.Query, ast.Mutation, ast.Subscription})}
		g.w(string(o.Operation))
		g.p(":")
		o.Type = g.tname()
		g.w(o.Type)
		os = append(os, o)
	}
	g.p("}")
	return os
}

// typeDef generates one of the six type definitions or, with ext, its extension
// (which must not be empty).
func (g *SGen) typeDef(ext bool) *ast.Definition {
	r := g.R
	d := &ast.Definition{BuiltIn: g.BuiltIn}
	if !ext {
		d.Description = g.desc()
	} else {
		g.w("extend")
	}
	k := r.Intn(6)
	switch k {
	case 0:
		g.w("scalar")
		d.Kind = ast.Scalar
		d.Name = g.tname()
		g.w(d.Name)
		d.Directives = g.Directives(true)
		if ext && len(d.Directives) == 0 {
			g.p("@")
			g.w("d")
			d.Directives = ast.DirectiveList{{Name: "d"}}
		}
	case 1, 2:
		if k == 1 {
			g.w("type")
			d.Kind = ast.Object
		} else {
			g.w("interface")
			d.Kind = ast.Interface
		}
		d.Name = g.tname()
		g.w(d.Name)
		if k == 1 || !ext || g.IfaceExtImpl {
			d.Interfaces = g.implements()
		}
		d.Directives = g.Directives(true)
		if r.Chance(3, 4) || (ext && len(d.Directives) == 0 && len(d.Interfaces) == 0) {
			d.Fields = g.fields(false)
		}
	case 3:
		g.w("union")
		d.Kind = ast.Union
		d.Name = g.tname()
		g.w(d.Name)
		d.Directives = g.Directives(true)
		if r.Chance(3, 4) || (ext && len(d.Directives) == 0) {
			d.Types = g.unionMembers()
		}
	case 4:
		g.w("enum")
		d.Kind = ast.Enum
		d.Name = g.tname()
		g.w(d.Name)
		d.Directives = g.Directives(true)
		if r.Chance(3, 4) || (ext && len(d.Directives) == 0) {
			d.EnumValues = g.enumValues()
		}
	default:
		g.w("input")
		d.Kind = ast.InputObject
		d.Name = g.tname()
		g.w(d.Name)
		d.Directives = g.Directives(true)
		if r.Chance(3, 4) || (ext && len(d.Directives) == 0) {
			d.Fields = g.fields(true)
		}
	}
	g.feat("def_" + string(d.Kind))
	if ext {
		g.feat("extension")
	}
	return d
}

// Doc generates a type-system document with 1-4 definitions.
func (g *SGen) SDoc() *ast.SchemaDocument {
	r := g.R
	g.Toks = nil
	doc := &ast.SchemaDocument{}
	n := 1 + r.Intn(4)
	for i := 0; i < n; i++ {
		switch k := r.Intn(8); {
		case k == 0:
			s := &ast.SchemaDefinition{}
			s.Description = g.desc()
			g.w("schema")
			s.Directives = g.Directives(true)
			s.OperationTypes = g.opTypes()
			doc.Schema = append(doc.Schema, s)
			g.feat("schema_definition")
		case k == 1:
			s := &ast.SchemaDefinition{}
			g.w("extend")
			g.w("schema")
			s.Directives = g.Directives(true)
			if len(s.Directives) == 0 || r.Bool() {
				s.OperationTypes = g.opTypes()
			}
			doc.SchemaExtension = append(doc.SchemaExtension, s)
			g.feat("schema_extension")
		case k == 2:
			d := &ast.DirectiveDefinition{}
			d.Description = g.desc()
			g.w("directive")
			g.p("@")
			d.Name = g.name()
			if r.Chance(1, 4) {
				// a document may declare the specified directives itself (spec 3.13)
				d.Name = Pick(r, []string{"include", "skip", "deprecated", "specifiedBy", "defer", "oneOf"})
			}
			g.w(d.Name)
			d.Arguments = g.argDefs()
			if r.Chance(1, 3) {
				g.w("repeatable")
				d.IsRepeatable = true
			}
			g.w("on")
			if r.Chance(1, 3) {
				g.p("|")
			}
			nl := 1 + r.Intn(3)
			for j := 0; j < nl; j++ {
				if j > 0 {
					g.p("|")
				}
				l := Pick(r, locNames)
				g.w(l)
				d.Locations = append(d.Locations, ast.DirectiveLocation(l))
			}
			doc.Directives = append(doc.Directives, d)
			g.feat("directive_definition")
		case k == 3 || k == 4:
			doc.Extensions = append(doc.Extensions, g.typeDef(true))
		default:
			doc.Definitions = append(doc.Definitions, g.typeDef(false))
		}
	}
	return doc
}
