package gen

import (
	"strings"

	"github.com/vektah/gqlparser/v2/ast"
)

// QGen generates executable documents as trees (ast.*) together with their token lists.
type QGen struct {
	R        *Rng
	Toks     []Tok
	MaxDepth int
	// feature switches (kept off for runs that must avoid recorded deviations)
	FragVars       bool // fragment variable definitions (experimental syntax)
	VarDefDirs     bool // directives on variable definitions
	VarDefDirVars  bool // ... with variables in their arguments (non-const)
	Features       map[string]int
}

var names = []string{"a", "b", "c", "foo", "bar", "_x", "A1", "user", "id", "name", "query", "mutation", "subscription", "fragment", "true", "false", "null", "type", "on", "schema", "extend", "input", "Int", "String", "T", "Query"}

func (g *QGen) feat(k string) {
	if g.Features != nil {
		g.Features[k]++
	}
}
func (g *QGen) p(s string) { g.Toks = append(g.Toks, P(s)) }
func (g *QGen) w(s string) { g.Toks = append(g.Toks, W(s)) }

func (g *QGen) name(avoid ...string) string {
	for {
		n := Pick(g.R, names)
		ok := true
		for _, a := range avoid {
			if n == a {
				ok = false
			}
		}
		if ok {
			return n
		}
	}
}

func (g *QGen) Value(depth int, isConst bool) *ast.Value {
	r := g.R
	k := r.Intn(11)
	if depth <= 0 && (k == 8 || k == 9) {
		k = r.Intn(8)
	}
	if isConst && k == 0 {
		k = 1
	}
	switch k {
	case 0:
		n := g.name()
		g.p("$")
		g.w(n)
		g.feat("value_variable")
		return &ast.Value{Kind: ast.Variable, Raw: n}
	case 1:
		v := Pick(r, []string{"0", "1", "-1", "42", "-0", "2147483648", "123456789012345678901"})
		g.w(v)
		return &ast.Value{Kind: ast.IntValue, Raw: v}
	case 2:
		v := Pick(r, []string{"0.5", "-1.25", "1e3", "1E-3", "2.5e+10", "0.0", "1.0E9"})
		g.w(v)
		return &ast.Value{Kind: ast.FloatValue, Raw: v}
	case 3, 10:
		s := RandString(r)
		g.p(QuoteString(r, s))
		g.feat("value_string")
		return &ast.Value{Kind: ast.StringValue, Raw: s}
	case 4:
		s := SafeBlock(r)
		if strings.HasSuffix(s, "\\") {
			s += " ."
		}
		g.p(BlockString(s))
		g.feat("value_block")
		return &ast.Value{Kind: ast.BlockValue, Raw: s}
	case 5:
		v := Pick(r, []string{"true", "false"})
		g.w(v)
		return &ast.Value{Kind: ast.BooleanValue, Raw: v}
	case 6:
		g.w("null")
		return &ast.Value{Kind: ast.NullValue, Raw: "null"}
	case 7:
		n := g.name("true", "false", "null")
		g.w(n)
		return &ast.Value{Kind: ast.EnumValue, Raw: n}
	case 8:
		g.p("[")
		v := &ast.Value{Kind: ast.ListValue}
		n := r.Intn(4)
		for i := 0; i < n; i++ {
			v.Children = append(v.Children, &ast.ChildValue{Value: g.Value(depth-1, isConst)})
		}
		g.p("]")
		g.feat("value_list")
		return v
	default:
		g.p("{")
		v := &ast.Value{Kind: ast.ObjectValue}
		n := r.Intn(4)
		for i := 0; i < n; i++ {
			fn := g.name()
			g.w(fn)
			g.p(":")
			v.Children = append(v.Children, &ast.ChildValue{Name: fn, Value: g.Value(depth-1, isConst)})
		}
		g.p("}")
		g.feat("value_object")
		return v
	}
}

func (g *QGen) Type(depth int) *ast.Type {
	r := g.R
	var t *ast.Type
	if depth > 0 && r.Chance(1, 3) {
		g.p("[")
		e := g.Type(depth - 1)
		g.p("]")
		t = &ast.Type{Elem: e}
	} else {
		n := g.name()
		g.w(n)
		t = &ast.Type{NamedType: n}
	}
	if r.Chance(1, 3) {
		g.p("!")
		t.NonNull = true
	}
	return t
}

func (g *QGen) Arguments(isConst bool) ast.ArgumentList {
	r := g.R
	if !r.Chance(1, 3) {
		return nil
	}
	g.p("(")
	var as ast.ArgumentList
	n := 1 + r.Intn(3)
	for i := 0; i < n; i++ {
		an := g.name()
		g.w(an)
		g.p(":")
		as = append(as, &ast.Argument{Name: an, Value: g.Value(2, isConst)})
	}
	g.p(")")
	g.feat("arguments")
	return as
}

func (g *QGen) Directives(isConst bool) ast.DirectiveList {
	r := g.R
	var ds ast.DirectiveList
	for r.Chance(1, 4) && len(ds) < 3 {
		g.p("@")
		n := g.name()
		g.w(n)
		ds = append(ds, &ast.Directive{Name: n, Arguments: g.Arguments(isConst)})
		g.feat("directive")
	}
	return ds
}

func (g *QGen) VarDefs() ast.VariableDefinitionList {
	r := g.R
	if !r.Chance(1, 3) {
		return nil
	}
	g.p("(")
	var vs ast.VariableDefinitionList
	n := 1 + r.Intn(3)
	for i := 0; i < n; i++ {
		vn := g.name()
		g.p("$")
		g.w(vn)
		g.p(":")
		vd := &ast.VariableDefinition{Variable: vn, Type: g.Type(2)}
		if r.Chance(1, 3) {
			g.p("=")
			vd.DefaultValue = g.Value(2, true)
		}
		if g.VarDefDirs {
			vd.Directives = g.Directives(!g.VarDefDirVars)
			if len(vd.Directives) > 0 {
				g.feat("vardef_directive")
			}
		}
		vs = append(vs, vd)
	}
	g.p(")")
	g.feat("variable_definitions")
	return vs
}

func (g *QGen) SelectionSet(depth int) ast.SelectionSet {
	r := g.R
	g.p("{")
	var ss ast.SelectionSet
	n := 1 + r.Intn(3)
	for i := 0; i < n; i++ {
		switch k := r.Intn(6); {
		case k == 0:
			g.p("...")
			fn := g.name("on")
			g.w(fn)
			ss = append(ss, &ast.FragmentSpread{Name: fn, Directives: g.Directives(false)})
			g.feat("fragment_spread")
		case k == 1 && depth > 0:
			g.p("...")
			f := &ast.InlineFragment{}
			if r.Bool() {
				g.w("on")
				f.TypeCondition = g.name()
				g.w(f.TypeCondition)
			}
			f.Directives = g.Directives(false)
			f.SelectionSet = g.SelectionSet(depth - 1)
			ss = append(ss, f)
			g.feat("inline_fragment")
		default:
			f := &ast.Field{}
			f.Alias = g.name()
			g.w(f.Alias)
			if r.Chance(1, 4) {
				g.p(":")
				f.Name = g.name()
				g.w(f.Name)
				g.feat("alias")
			} else {
				f.Name = f.Alias
			}
			f.Arguments = g.Arguments(false)
			f.Directives = g.Directives(false)
			if depth > 0 && r.Chance(1, 3) {
				f.SelectionSet = g.SelectionSet(depth - 1)
			}
			ss = append(ss, f)
		}
	}
	g.p("}")
	return ss
}

// Doc generates a document with 1-3 definitions.
func (g *QGen) Doc() *ast.QueryDocument {
	r := g.R
	g.Toks = nil
	doc := &ast.QueryDocument{}
	n := 1 + r.Intn(3)
	for i := 0; i < n; i++ {
		switch k := r.Intn(5); {
		case k == 0:
			op := &ast.OperationDefinition{Operation: ast.Query}
			op.SelectionSet = g.SelectionSet(g.MaxDepth)
			doc.Operations = append(doc.Operations, op)
			g.feat("anonymous_query")
		case k == 1:
			g.w("fragment")
			f := &ast.FragmentDefinition{Name: g.name("on")}
			g.w(f.Name)
			if g.FragVars {
				f.VariableDefinition = g.VarDefs()
				if len(f.VariableDefinition) > 0 {
					g.feat("fragment_variables")
				}
			}
			g.w("on")
			f.TypeCondition = g.name()
			g.w(f.TypeCondition)
			f.Directives = g.Directives(false)
			f.SelectionSet = g.SelectionSet(g.MaxDepth)
			doc.Fragments = append(doc.Fragments, f)
			g.feat("fragment_definition")
		default:
			ot := Pick(r, []ast.Operation{ast.Query, ast.Mutation, ast.Subscription})
			g.w(string(ot))
			op := &ast.OperationDefinition{Operation: ot}
			if r.Bool() {
				op.Name = g.name()
				g.w(op.Name)
			}
			op.VariableDefinitions = g.VarDefs()
			op.Directives = g.Directives(false)
			op.SelectionSet = g.SelectionSet(g.MaxDepth)
			doc.Operations = append(doc.Operations, op)
			g.feat("operation_" + string(ot))
		}
	}
	return doc
}

// MutateToks applies one token-level mutation: delete, duplicate, swap, substitute.
func MutateToks(r *Rng, toks []Tok, pool []Tok) []Tok {
	if len(toks) == 0 {
		return []Tok{Pick(r, pool)}
	}
	out := append([]Tok(nil), toks...)
	i := r.Intn(len(out))
	switch r.Intn(5) {
	case 4:
		// a word written as a string literal with the same contents: "query", """on""", "type"
		if ws := WordIndexes(out); len(ws) > 0 {
			k := ws[r.Intn(len(ws))]
			out[k] = Quoted(out[k], r.Chance(1, 4))
		} else {
			out[i] = Pick(r, pool)
		}
	case 0:
		out = append(out[:i], out[i+1:]...)
	case 1:
		out = append(out[:i+1], out[i:]...)
	case 2:
		j := r.Intn(len(out))
		out[i], out[j] = out[j], out[i]
	default:
		out[i] = Pick(r, pool)
	}
	return out
}

// WordIndexes: positions of tokens that are names (keywords included).
func WordIndexes(toks []Tok) []int {
	var out []int
	for i, t := range toks {
		if t.Punct || t.Text == "" {
			continue
		}
		c := t.Text[0]
		if c == '_' || (c >= 'a' && c <= 'z') || (c >= 'A' && c <= 'Z') {
			out = append(out, i)
		}
	}
	return out
}

// Quoted: the string (or block string) literal whose value is the token's text.
func Quoted(t Tok, block bool) Tok {
	if block {
		return P("\"\"\"" + t.Text + "\"\"\"")
	}
	return P("\"" + t.Text + "\"")
}
