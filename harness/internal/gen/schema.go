package gen

import (
	"fmt"
	"strings"
)

// Typed generator of type systems, valid by construction (GSchema), with one-fault variants.

type GArg struct {
	Name, Type, Default, Dirs, Desc string
}
type GField struct {
	Name    string
	Args    []GArg
	Type    string
	Default string
	Dirs    string
	Desc    string
}
type GType struct {
	Kind    string // scalar type interface union enum input
	Name    string
	Ifaces  []string
	Fields  []GField
	Members []string
	Values  []string
	ValDirs map[string]string
	Dirs    string
	Desc    string
	Ext     bool
}
type GDirective struct {
	Name       string
	Args       []GArg
	Repeatable bool
	Locs       []string
	Desc       string
}
type GSchema struct {
	Types      []*GType
	Directives []*GDirective
	// explicit schema definition (nil: default root names)
	SchemaDef  *GSchemaDef
	SchemaDef2 *GSchemaDef // only by fault injection
	SchemaExts []*GSchemaDef
}
type GSchemaDef struct {
	Desc  string
	Dirs  string
	Roots [][2]string // operation, type
}

func descText(d string) string {
	if d == "" {
		return ""
	}
	return QuoteString(nil, d) + " "
}

func (a GArg) render() string {
	s := descText(a.Desc) + a.Name + ": " + a.Type
	if a.Default != "" {
		s += " = " + a.Default
	}
	if a.Dirs != "" {
		s += " " + a.Dirs
	}
	return s
}

func renderArgs(as []GArg) string {
	if len(as) == 0 {
		return ""
	}
	parts := make([]string, len(as))
	for i, a := range as {
		parts[i] = a.render()
	}
	return "(" + strings.Join(parts, ", ") + ")"
}

func (f GField) render() string {
	s := descText(f.Desc) + f.Name + renderArgs(f.Args) + ": " + f.Type
	if f.Default != "" {
		s += " = " + f.Default
	}
	if f.Dirs != "" {
		s += " " + f.Dirs
	}
	return s
}

func (t *GType) Render() string {
	var sb strings.Builder
	if t.Ext {
		sb.WriteString("extend ")
	} else {
		sb.WriteString(descText(t.Desc))
	}
	sb.WriteString(t.Kind + " " + t.Name)
	if len(t.Ifaces) > 0 {
		sb.WriteString(" implements " + strings.Join(t.Ifaces, " & "))
	}
	if t.Dirs != "" {
		sb.WriteString(" " + t.Dirs)
	}
	switch t.Kind {
	case "type", "interface", "input":
		if len(t.Fields) > 0 {
			sb.WriteString(" {\n")
			for _, f := range t.Fields {
				sb.WriteString("  " + f.render() + "\n")
			}
			sb.WriteString("}")
		}
	case "union":
		if len(t.Members) > 0 {
			sb.WriteString(" = " + strings.Join(t.Members, " | "))
		}
	case "enum":
		if len(t.Values) > 0 {
			sb.WriteString(" {\n")
			for _, v := range t.Values {
				sb.WriteString("  " + v)
				if d := t.ValDirs[v]; d != "" {
					sb.WriteString(" " + d)
				}
				sb.WriteString("\n")
			}
			sb.WriteString("}")
		}
	}
	return sb.String()
}

func (d *GDirective) Render() string {
	s := descText(d.Desc) + "directive @" + d.Name + renderArgs(d.Args)
	if d.Repeatable {
		s += " repeatable"
	}
	return s + " on " + strings.Join(d.Locs, " | ")
}

func (s *GSchemaDef) render(ext bool) string {
	out := descText(s.Desc)
	if ext {
		out = "extend "
	}
	out += "schema"
	if s.Dirs != "" {
		out += " " + s.Dirs
	}
	if len(s.Roots) > 0 {
		out += " {"
		for _, r := range s.Roots {
			out += " " + r[0] + ": " + r[1]
		}
		out += " }"
	}
	return out
}

// Chunks renders every top-level definition as its own text (for permutation / partition).
func (s *GSchema) Chunks() []string {
	var out []string
	if s.SchemaDef != nil {
		out = append(out, s.SchemaDef.render(false))
	}
	if s.SchemaDef2 != nil {
		out = append(out, s.SchemaDef2.render(false))
	}
	for _, e := range s.SchemaExts {
		out = append(out, e.render(true))
	}
	for _, d := range s.Directives {
		out = append(out, d.Render())
	}
	for _, t := range s.Types {
		out = append(out, t.Render())
	}
	return out
}

func (s *GSchema) Text() string { return strings.Join(s.Chunks(), "\n") }

func (s *GSchema) find(name string) *GType {
	for _, t := range s.Types {
		if t.Name == name && !t.Ext {
			return t
		}
	}
	return nil
}

var scalarNames = []string{"Int", "Float", "String", "Boolean", "ID"}

func wrapType(r *Rng, base string, depth int) string {
	t := base
	for i := 0; i < depth; i++ {
		if r.Chance(1, 3) {
			t += "!"
		}
		t = "[" + t + "]"
	}
	if r.Chance(1, 3) {
		t += "!"
	}
	return t
}

// literal for an input type expression (valid by construction)
func (s *GSchema) Literal(r *Rng, typ string, depth int) string {
	if strings.HasSuffix(typ, "!") {
		return s.Literal(r, typ[:len(typ)-1], depth)
	}
	if r.Chance(1, 8) {
		return "null"
	}
	if strings.HasPrefix(typ, "[") {
		inner := typ[1 : len(typ)-1]
		if r.Chance(1, 4) && !strings.HasPrefix(inner, "[") {
			v := s.Literal(r, inner, depth)
			if v != "null" {
				return v // single value coerced to a list
			}
		}
		n := r.Intn(3)
		parts := make([]string, n)
		for i := range parts {
			parts[i] = s.Literal(r, inner, depth)
			if parts[i] == "null" && strings.HasSuffix(inner, "!") {
				parts[i] = s.Literal(r, inner+"!", depth) // retry non-null
			}
		}
		for i := range parts {
			if parts[i] == "null" && strings.HasSuffix(inner, "!") {
				return "[]"
			}
		}
		return "[" + strings.Join(parts, ", ") + "]"
	}
	switch typ {
	case "Int":
		return Pick(r, []string{"0", "1", "-7", "42", "2147483647"})
	case "Float":
		return Pick(r, []string{"0.5", "1", "-2.5e3", "3"})
	case "String":
		return QuoteString(nil, Pick(r, []string{"", "a", "x y", "é", "q\"r"}))
	case "Boolean":
		return Pick(r, []string{"true", "false"})
	case "ID":
		return Pick(r, []string{"1", "\"id1\""})
	}
	t := s.find(typ)
	if t == nil {
		return "null"
	}
	switch t.Kind {
	case "scalar":
		return Pick(r, []string{"1", "\"s\"", "{a: 1}", "[1, 2]", "X", "true", "1.5"})
	case "enum":
		return Pick(r, t.Values)
	case "input":
		if depth <= 0 {
			// only required fields
			var parts []string
			for _, f := range t.Fields {
				if strings.HasSuffix(f.Type, "!") && f.Default == "" {
					parts = append(parts, f.Name+": "+s.nonNullLiteral(r, f.Type, depth-1))
				}
			}
			return "{" + strings.Join(parts, ", ") + "}"
		}
		isOneOf := strings.Contains(t.Dirs, "@oneOf")
		if isOneOf {
			f := Pick(r, t.Fields)
			return "{" + f.Name + ": " + s.nonNullLiteral(r, f.Type, depth-1) + "}"
		}
		var parts []string
		for _, f := range t.Fields {
			req := strings.HasSuffix(f.Type, "!") && f.Default == ""
			if req {
				parts = append(parts, f.Name+": "+s.nonNullLiteral(r, f.Type, depth-1))
			} else if r.Bool() {
				parts = append(parts, f.Name+": "+s.Literal(r, f.Type, depth-1))
			}
		}
		return "{" + strings.Join(parts, ", ") + "}"
	}
	return "null"
}

func (s *GSchema) nonNullLiteral(r *Rng, typ string, depth int) string {
	for i := 0; i < 8; i++ {
		v := s.Literal(r, typ, depth)
		if v != "null" {
			return v
		}
	}
	return s.Literal(r, strings.TrimSuffix(typ, "!"), 0)
}

// NewSchema builds a valid type system.
func NewSchema(r *Rng) *GSchema {
	s := &GSchema{}
	// custom scalars
	nScalars := r.Intn(3)
	for i := 0; i < nScalars; i++ {
		s.Types = append(s.Types, &GType{Kind: "scalar", Name: fmt.Sprintf("S%d", i+1)})
	}
	// directives
	s.Directives = append(s.Directives,
		&GDirective{Name: "tag", Args: []GArg{{Name: "name", Type: "String!"}}, Repeatable: true,
			Locs: []string{"FIELD", "FIELD_DEFINITION", "OBJECT", "QUERY", "FRAGMENT_SPREAD", "INLINE_FRAGMENT", "ARGUMENT_DEFINITION", "ENUM_VALUE", "INPUT_FIELD_DEFINITION", "SCHEMA", "VARIABLE_DEFINITION", "FRAGMENT_DEFINITION", "MUTATION", "SUBSCRIPTION", "INTERFACE", "UNION", "ENUM", "INPUT_OBJECT", "SCALAR"}},
		&GDirective{Name: "once", Args: []GArg{{Name: "n", Type: "Int", Default: "3"}},
			Locs: []string{"FIELD", "FIELD_DEFINITION", "QUERY", "OBJECT", "INLINE_FRAGMENT", "FRAGMENT_SPREAD"}})
	// a directive applied to the argument of a directive definition — one defined before it and one
	// defined after it, so that both orders occur however the definitions are arranged
	if r.Chance(1, 3) {
		s.Directives[1].Args[0].Dirs = "@tag(name: \"on-arg\")"
		s.Directives[0].Args[0].Dirs = "@mark"
		s.Directives = append(s.Directives, &GDirective{Name: "mark", Locs: []string{"ARGUMENT_DEFINITION", "FIELD"}})
	}
	if r.Bool() {
		s.Directives = append(s.Directives, &GDirective{Name: "auth", Args: []GArg{{Name: "role", Type: "Role", Default: "USER"}, {Name: "scopes", Type: "[String!]"}},
			Locs: []string{"FIELD_DEFINITION", "OBJECT", "FIELD"}, Desc: "access control"})
		s.Types = append(s.Types, &GType{Kind: "enum", Name: "Role", Values: []string{"USER", "ADMIN"}})
	}
	// enums
	nEnums := 1 + r.Intn(2)
	for i := 0; i < nEnums; i++ {
		vals := []string{"RED", "GREEN", "BLUE", "red"}[:2+r.Intn(3)]
		t := &GType{Kind: "enum", Name: fmt.Sprintf("E%d", i+1), Values: vals, ValDirs: map[string]string{}}
		if r.Chance(1, 3) {
			t.ValDirs[vals[0]] = "@deprecated(reason: \"old\")"
		}
		if r.Chance(1, 4) {
			t.Desc = "an enum"
		}
		s.Types = append(s.Types, t)
	}
	inputBases := func() []string {
		out := append([]string{}, scalarNames...)
		for _, t := range s.Types {
			if t.Kind == "scalar" || t.Kind == "enum" || t.Kind == "input" {
				out = append(out, t.Name)
			}
		}
		return out
	}
	// input objects (later ones may refer to earlier ones; self reference nullable)
	nInputs := 1 + r.Intn(3)
	for i := 0; i < nInputs; i++ {
		name := fmt.Sprintf("In%d", i+1)
		t := &GType{Kind: "input", Name: name}
		oneOf := r.Chance(1, 4)
		nf := 1 + r.Intn(4)
		for j := 0; j < nf; j++ {
			base := Pick(r, inputBases())
			var typ string
			if oneOf {
				typ = base
				if r.Chance(1, 3) {
					typ = "[" + base + "]"
				}
			} else {
				typ = wrapType(r, base, r.Intn(3))
			}
			f := GField{Name: fmt.Sprintf("f%d", j+1), Type: typ}
			if !oneOf && r.Chance(1, 3) {
				f.Default = s.Literal(r, typ, 1)
				if f.Default == "null" && strings.HasSuffix(typ, "!") {
					f.Default = ""
				}
			}
			if r.Chance(1, 6) {
				f.Desc = "input field"
			}
			t.Fields = append(t.Fields, f)
		}
		if !oneOf && r.Chance(1, 3) {
			t.Fields = append(t.Fields, GField{Name: "self", Type: Pick(r, []string{name, "[" + name + "]", "[" + name + "!]"})})
		}
		if oneOf {
			t.Dirs = "@oneOf"
		}
		s.Types = append(s.Types, t)
	}
	mkArgs := func() []GArg {
		var as []GArg
		n := r.Intn(3)
		if r.Chance(1, 2) {
			n = 0
		}
		for k := 0; k < n; k++ {
			typ := wrapType(r, Pick(r, inputBases()), r.Intn(2))
			a := GArg{Name: fmt.Sprintf("a%d", k+1), Type: typ}
			if r.Chance(1, 3) {
				a.Default = s.Literal(r, typ, 1)
				if a.Default == "null" && strings.HasSuffix(typ, "!") {
					a.Default = ""
				}
			}
			if r.Chance(1, 8) {
				a.Desc = "an argument"
			}
			as = append(as, a)
		}
		return as
	}
	// interfaces
	nIfaces := r.Intn(3)
	var ifaces []*GType
	for i := 0; i < nIfaces; i++ {
		t := &GType{Kind: "interface", Name: fmt.Sprintf("N%d", i+1)}
		t.Fields = append(t.Fields, GField{Name: "id", Type: "ID!"})
		if r.Chance(1, 2) {
			t.Fields = append(t.Fields, GField{Name: fmt.Sprintf("items%d", i+1), Type: Pick(r, []string{"[String!]!", "[[Int!]]", "[E1!]"})})
		}
		nf := r.Intn(3)
		for j := 0; j < nf; j++ {
			t.Fields = append(t.Fields, GField{Name: fmt.Sprintf("n%d_%d", i+1, j+1), Type: wrapType(r, Pick(r, append(scalarNames, "E1")), r.Intn(2)), Args: mkArgs()})
		}
		if i > 0 && r.Chance(1, 2) {
			parent := ifaces[r.Intn(len(ifaces))]
			t.Ifaces = append(append([]string{}, parent.Ifaces...), parent.Name)
			for _, pf := range parent.Fields {
				if pf.Name != "id" {
					t.Fields = append(t.Fields, pf)
				}
			}
			for _, gp := range parent.Ifaces {
				for _, pf := range s.find(gp).Fields {
					dup := false
					for _, f := range t.Fields {
						if f.Name == pf.Name {
							dup = true
						}
					}
					if !dup {
						t.Fields = append(t.Fields, pf)
					}
				}
			}
		}
		ifaces = append(ifaces, t)
		s.Types = append(s.Types, t)
	}
	// objects
	nObjs := 2 + r.Intn(3)
	var objs []*GType
	for i := 0; i < nObjs; i++ {
		t := &GType{Kind: "type", Name: fmt.Sprintf("O%d", i+1)}
		if len(ifaces) > 0 && r.Chance(2, 3) {
			it := ifaces[r.Intn(len(ifaces))]
			t.Ifaces = append(append([]string{}, it.Ifaces...), it.Name)
			// the order in which interfaces are listed is free: the nearest first, half of the time
			if r.Bool() {
				for a, z := 0, len(t.Ifaces)-1; a < z; a, z = a+1, z-1 {
					t.Ifaces[a], t.Ifaces[z] = t.Ifaces[z], t.Ifaces[a]
				}
			}
			for _, pf := range it.Fields {
				f := pf
				f.Args = append([]GArg{}, pf.Args...)
				// covariant narrowing: nullable -> non-null
				if r.Chance(1, 4) && !strings.HasSuffix(f.Type, "!") {
					f.Type += "!"
				}
				// an additional optional argument
				if r.Chance(1, 4) {
					f.Args = append(f.Args, GArg{Name: "extra", Type: "Int", Default: Pick(r, []string{"", "1"})})
				}
				t.Fields = append(t.Fields, f)
			}
		}
		nf := 1 + r.Intn(3)
		for j := 0; j < nf; j++ {
			f := GField{Name: fmt.Sprintf("o%d_%d", i+1, j+1), Type: wrapType(r, Pick(r, append(scalarNames, "E1")), r.Intn(2)), Args: mkArgs()}
			if r.Chance(1, 5) {
				f.Dirs = Pick(r, []string{"@deprecated", "@tag(name: \"t\")", "@tag(name: \"a\") @tag(name: \"b\")", "@once"})
			}
			if r.Chance(1, 6) {
				f.Desc = Pick(r, []string{"a field", "multi\nline", "  indented", "with \"\"\" quotes"})
			}
			t.Fields = append(t.Fields, f)
		}
		if r.Chance(1, 4) {
			t.Desc = Pick(r, []string{"an object", "first\n\nthird", " lead"})
		}
		if r.Chance(1, 5) {
			t.Dirs = "@tag(name: \"obj\")"
		}
		objs = append(objs, t)
		s.Types = append(s.Types, t)
	}
	// unions
	nUnions := r.Intn(2)
	var unions []*GType
	for i := 0; i < nUnions; i++ {
		t := &GType{Kind: "union", Name: fmt.Sprintf("U%d", i+1)}
		for _, o := range objs {
			if r.Bool() || len(t.Members) == 0 {
				t.Members = append(t.Members, o.Name)
			}
		}
		unions = append(unions, t)
		s.Types = append(s.Types, t)
	}
	// link composite fields
	var composites []string
	for _, t := range append(append(append([]*GType{}, objs...), ifaces...), unions...) {
		composites = append(composites, t.Name)
	}
	for _, o := range objs {
		n := r.Intn(3)
		for k := 0; k < n; k++ {
			o.Fields = append(o.Fields, GField{Name: fmt.Sprintf("c%d", k+1), Type: wrapType(r, Pick(r, composites), r.Intn(2)), Args: mkArgs()})
		}
	}
	// roots
	qName, mName, subName := "Query", "Mutation", "Subscription"
	custom := r.Chance(1, 3)
	if custom {
		qName, mName, subName = "RootQ", "RootM", "RootS"
	}
	q := &GType{Kind: "type", Name: qName}
	for k, c := range composites {
		if r.Chance(2, 3) || k == 0 {
			q.Fields = append(q.Fields, GField{Name: "get" + c, Type: wrapType(r, c, r.Intn(2)), Args: mkArgs()})
		}
	}
	q.Fields = append(q.Fields, GField{Name: "scalar", Type: "Int", Args: []GArg{{Name: "in", Type: "In1"}, {Name: "e", Type: "E1", Default: "RED"}, {Name: "req", Type: "Int!", Default: "1"}}})
	if nScalars > 0 {
		q.Fields = append(q.Fields, GField{Name: "any", Type: "S1", Args: []GArg{{Name: "v", Type: "S1"}}})
	}
	s.Types = append(s.Types, q)
	hasM, hasS := r.Bool(), r.Bool()
	if hasM {
		s.Types = append(s.Types, &GType{Kind: "type", Name: mName, Fields: []GField{{Name: "set", Type: "Boolean", Args: []GArg{{Name: "v", Type: "In1!"}}}, {Name: "touch", Type: objs[0].Name}}})
	}
	if hasS {
		s.Types = append(s.Types, &GType{Kind: "type", Name: subName, Fields: []GField{{Name: "tick", Type: "Int!"}, {Name: "watch", Type: objs[0].Name}}})
	}
	if custom {
		sd := &GSchemaDef{Roots: [][2]string{{"query", qName}}}
		if hasM {
			sd.Roots = append(sd.Roots, [2]string{"mutation", mName})
		}
		if hasS {
			if r.Bool() {
				s.SchemaExts = append(s.SchemaExts, &GSchemaDef{Roots: [][2]string{{"subscription", subName}}})
			} else {
				sd.Roots = append(sd.Roots, [2]string{"subscription", subName})
			}
		}
		if r.Chance(1, 3) {
			sd.Desc = "the schema"
		}
		if r.Chance(1, 3) {
			sd.Dirs = "@tag(name: \"s\")"
		}
		s.SchemaDef = sd
		// types named like default roots that are not roots
		if r.Bool() {
			s.Types = append(s.Types, &GType{Kind: "type", Name: "Mutation", Fields: []GField{{Name: "notRoot", Type: "Int"}}})
		}
	} else if r.Chance(1, 4) {
		s.SchemaExts = append(s.SchemaExts, &GSchemaDef{Dirs: "@tag(name: \"x\")"})
	}
	// extensions
	if r.Chance(1, 2) {
		o := objs[r.Intn(len(objs))]
		s.Types = append(s.Types, &GType{Kind: "type", Name: o.Name, Ext: true, Fields: []GField{{Name: "extField", Type: "String", Args: mkArgs()}, {Name: "extField2", Type: "Int"}}})
	}
	if r.Chance(1, 4) {
		s.Types = append(s.Types, &GType{Kind: "enum", Name: "E1", Ext: true, Values: []string{"EXTRA"}})
	}
	if r.Chance(1, 4) {
		s.Types = append(s.Types, &GType{Kind: "input", Name: "In1", Ext: true, Fields: []GField{{Name: "extIn", Type: "Int"}}})
	}
	if r.Chance(1, 6) {
		// extension-only type
		s.Types = append(s.Types, &GType{Kind: "type", Name: "OnlyExt", Ext: true, Fields: []GField{{Name: "x", Type: "Int"}}})
	}
	if r.Chance(1, 3) {
		// a type whose name differs from another one only in case (names are case sensitive)
		s.Types = append(s.Types, &GType{Kind: "type", Name: "o1", Fields: []GField{{Name: "lower", Type: "Int"}}})
	}
	if r.Chance(1, 4) {
		// an interface that exists only as an extension, implemented through another extension
		s.Types = append(s.Types, &GType{Kind: "interface", Name: "XN", Ext: true, Fields: []GField{{Name: "xid", Type: "ID"}}})
		s.Types = append(s.Types, &GType{Kind: "type", Name: objs[0].Name, Ext: true, Ifaces: []string{"XN"}, Fields: []GField{{Name: "xid", Type: "ID"}}})
	}
	if r.Chance(1, 5) {
		s.Directives = append(s.Directives, &GDirective{Name: "deprecated", Args: []GArg{{Name: "reason", Type: "String", Default: "\"No longer supported\""}},
			Locs: []string{"FIELD_DEFINITION", "ARGUMENT_DEFINITION", "INPUT_FIELD_DEFINITION", "ENUM_VALUE"}})
	}
	return s
}

// Fault names a single injected violation of a rule the loader enforces.
type Fault struct {
	Name  string
	Apply func(r *Rng, s *GSchema) bool // false: not applicable to this schema
}

func firstOf(s *GSchema, kind string) *GType {
	for _, t := range s.Types {
		if t.Kind == kind && !t.Ext {
			return t
		}
	}
	return nil
}
func firstImplementer(s *GSchema) (*GType, *GType) {
	for _, t := range s.Types {
		if t.Kind == "type" && !t.Ext && len(t.Ifaces) > 0 {
			if it := s.find(t.Ifaces[len(t.Ifaces)-1]); it != nil && it.Kind == "interface" && len(it.Fields) > 0 {
				return t, it
			}
		}
	}
	return nil, nil
}

var SchemaFaults = []Fault{
	{"duplicate-type", func(r *Rng, s *GSchema) bool {
		t := firstOf(s, "type")
		s.Types = append(s.Types, &GType{Kind: "type", Name: t.Name, Fields: []GField{{Name: "z", Type: "Int"}}})
		return true
	}},
	{"duplicate-directive", func(r *Rng, s *GSchema) bool {
		s.Directives = append(s.Directives, &GDirective{Name: "tag", Locs: []string{"FIELD"}})
		return true
	}},
	{"duplicate-field", func(r *Rng, s *GSchema) bool {
		t := firstOf(s, "type")
		t.Fields = append(t.Fields, t.Fields[0])
		return true
	}},
	{"duplicate-field-via-extension", func(r *Rng, s *GSchema) bool {
		t := firstOf(s, "type")
		s.Types = append(s.Types, &GType{Kind: "type", Name: t.Name, Ext: true, Fields: []GField{t.Fields[0]}})
		return true
	}},
	{"undefined-field-type", func(r *Rng, s *GSchema) bool {
		t := firstOf(s, "type")
		t.Fields = append(t.Fields, GField{Name: "bad", Type: "[Nope!]"})
		return true
	}},
	{"undefined-argument-type", func(r *Rng, s *GSchema) bool {
		t := firstOf(s, "type")
		t.Fields = append(t.Fields, GField{Name: "bad", Type: "Int", Args: []GArg{{Name: "x", Type: "Nope"}}})
		return true
	}},
	{"undefined-input-field-type", func(r *Rng, s *GSchema) bool {
		t := firstOf(s, "input")
		t.Fields = append(t.Fields, GField{Name: "bad", Type: "Nope"})
		return true
	}},
	{"undefined-interface", func(r *Rng, s *GSchema) bool {
		t := firstOf(s, "type")
		t.Ifaces = append(t.Ifaces, "NopeIface")
		return true
	}},
	{"implements-non-interface", func(r *Rng, s *GSchema) bool {
		t := firstOf(s, "type")
		t.Ifaces = append(t.Ifaces, "E1")
		return true
	}},
	{"undefined-union-member", func(r *Rng, s *GSchema) bool {
		s.Types = append(s.Types, &GType{Kind: "union", Name: "BadU", Members: []string{"Nope"}})
		return true
	}},
	{"union-member-not-object", func(r *Rng, s *GSchema) bool {
		s.Types = append(s.Types, &GType{Kind: "union", Name: "BadU", Members: []string{"E1"}})
		return true
	}},
	{"undefined-directive", func(r *Rng, s *GSchema) bool {
		t := firstOf(s, "type")
		t.Fields[0].Dirs = "@nope"
		return true
	}},
	{"directive-wrong-location", func(r *Rng, s *GSchema) bool {
		t := firstOf(s, "type")
		t.Fields[0].Dirs = "@skip(if: true)"
		return true
	}},
	{"directive-missing-required-argument", func(r *Rng, s *GSchema) bool {
		t := firstOf(s, "type")
		t.Fields[0].Dirs = "@tag"
		return true
	}},
	{"directive-null-required-argument", func(r *Rng, s *GSchema) bool {
		t := firstOf(s, "type")
		t.Fields[0].Dirs = "@tag(name: null)"
		return true
	}},
	{"directive-unknown-argument", func(r *Rng, s *GSchema) bool {
		t := firstOf(s, "type")
		t.Fields[0].Dirs = "@tag(name: \"a\", zzz: 1)"
		return true
	}},
	{"root-type-missing", func(r *Rng, s *GSchema) bool {
		if s.SchemaDef == nil {
			return false
		}
		s.SchemaDef.Roots = append(s.SchemaDef.Roots, [2]string{"mutation", "NopeRoot"})
		return true
	}},
	{"root-type-missing-in-extension", func(r *Rng, s *GSchema) bool {
		s.SchemaExts = append(s.SchemaExts, &GSchemaDef{Roots: [][2]string{{"subscription", "NopeRoot"}}})
		return true
	}},
	{"two-schema-definitions", func(r *Rng, s *GSchema) bool {
		if s.SchemaDef == nil {
			return false
		}
		s.SchemaDef2 = &GSchemaDef{Roots: [][2]string{s.SchemaDef.Roots[0]}}
		return true
	}},
	{"object-field-of-input-type", func(r *Rng, s *GSchema) bool {
		t := firstOf(s, "type")
		t.Fields = append(t.Fields, GField{Name: "bad", Type: "In1"})
		return true
	}},
	{"input-field-of-output-type", func(r *Rng, s *GSchema) bool {
		t := firstOf(s, "input")
		o := firstOf(s, "type")
		t.Fields = append(t.Fields, GField{Name: "bad", Type: o.Name})
		return true
	}},
	{"argument-of-output-type", func(r *Rng, s *GSchema) bool {
		t := firstOf(s, "type")
		t.Fields = append(t.Fields, GField{Name: "bad", Type: "Int", Args: []GArg{{Name: "x", Type: t.Name}}})
		return true
	}},
	{"interface-field-missing", func(r *Rng, s *GSchema) bool {
		t, it := firstImplementer(s)
		if t == nil {
			return false
		}
		var keep []GField
		for _, f := range t.Fields {
			if f.Name != it.Fields[0].Name {
				keep = append(keep, f)
			}
		}
		t.Fields = append(keep, GField{Name: "filler", Type: "Int"})
		return true
	}},
	{"interface-field-not-covariant", func(r *Rng, s *GSchema) bool {
		t, it := firstImplementer(s)
		if t == nil {
			return false
		}
		for i, f := range t.Fields {
			if f.Name == it.Fields[0].Name { // id: ID!
				t.Fields[i].Type = "ID"
			}
		}
		return true
	}},
	{"interface-field-inner-nullability-weakened", func(r *Rng, s *GSchema) bool {
		for _, t := range s.Types {
			if (t.Kind != "type" && t.Kind != "interface") || t.Ext {
				continue
			}
			for _, iname := range t.Ifaces {
				it := s.find(iname)
				if it == nil {
					continue
				}
				for _, f := range it.Fields {
					if k := strings.Index(f.Type, "!]"); k >= 0 {
						for i := range t.Fields {
							if t.Fields[i].Name == f.Name {
								ft := t.Fields[i].Type
								if j := strings.Index(ft, "!]"); j >= 0 {
									t.Fields[i].Type = ft[:j] + ft[j+1:]
									return true
								}
							}
						}
					}
				}
			}
		}
		return false
	}},
	{"interface-field-list-depth-differs", func(r *Rng, s *GSchema) bool {
		// the implementer wraps or unwraps one list level: [T] for T, or T for [T]
		ot, it := firstImplementer(s)
		if it == nil || ot == nil {
			return false
		}
		for _, f := range it.Fields {
			for i := range ot.Fields {
				if ot.Fields[i].Name != f.Name {
					continue
				}
				ft := ot.Fields[i].Type
				// keep the outer nullability, so that only the list structure differs
				bang := ""
				if strings.HasSuffix(ft, "!") {
					bang = "!"
				}
				inner := strings.TrimSuffix(ft, "!")
				if strings.HasPrefix(inner, "[") && r.Bool() {
					ot.Fields[i].Type = strings.TrimSuffix(inner[1:len(inner)-1], "!") + bang
				} else {
					ot.Fields[i].Type = "[" + inner + "]" + bang
				}
				return true
			}
		}
		return false
	}},
	{"interface-argument-missing", func(r *Rng, s *GSchema) bool {
		t, it := firstImplementer(s)
		if t == nil {
			return false
		}
		it.Fields[0].Args = append(it.Fields[0].Args, GArg{Name: "need", Type: "Int"})
		return true
	}},
	{"interface-argument-different-type", func(r *Rng, s *GSchema) bool {
		t, it := firstImplementer(s)
		if t == nil {
			return false
		}
		it.Fields[0].Args = append(it.Fields[0].Args, GArg{Name: "need", Type: "Int!"})
		for i, f := range t.Fields {
			if f.Name == it.Fields[0].Name {
				t.Fields[i].Args = append(t.Fields[i].Args, GArg{Name: "need", Type: "Int"})
			}
		}
		// other implementers and sub-interfaces get the exact argument
		for _, o := range s.Types {
			if o != t && !o.Ext && (o.Kind == "type" || o.Kind == "interface") {
				for _, n := range o.Ifaces {
					if n == it.Name {
						for i, f := range o.Fields {
							if f.Name == it.Fields[0].Name {
								o.Fields[i].Args = append(o.Fields[i].Args, GArg{Name: "need", Type: "Int!"})
							}
						}
					}
				}
			}
		}
		return true
	}},
	{"additional-required-argument", func(r *Rng, s *GSchema) bool {
		t, it := firstImplementer(s)
		if t == nil {
			return false
		}
		for i, f := range t.Fields {
			if f.Name == it.Fields[0].Name {
				t.Fields[i].Args = append(t.Fields[i].Args, GArg{Name: "must", Type: "Int!"})
			}
		}
		return true
	}},
	{"missing-transitive-interface", func(r *Rng, s *GSchema) bool {
		for _, t := range s.Types {
			if (t.Kind == "type" || t.Kind == "interface") && !t.Ext && len(t.Ifaces) >= 2 {
				// drop an interface that another listed interface implements (in whatever order they are listed)
				for i, anc := range t.Ifaces {
					for _, other := range t.Ifaces {
						if ot := s.find(other); ot != nil && other != anc {
							for _, x := range ot.Ifaces {
								if x == anc {
									t.Ifaces = append(append([]string{}, t.Ifaces[:i]...), t.Ifaces[i+1:]...)
									return true
								}
							}
						}
					}
				}
			}
		}
		return false
	}},
	{"empty-object", func(r *Rng, s *GSchema) bool {
		s.Types = append(s.Types, &GType{Kind: "type", Name: "Empty"})
		return true
	}},
	{"empty-interface", func(r *Rng, s *GSchema) bool {
		s.Types = append(s.Types, &GType{Kind: "interface", Name: "EmptyI"})
		return true
	}},
	{"empty-input", func(r *Rng, s *GSchema) bool {
		s.Types = append(s.Types, &GType{Kind: "input", Name: "EmptyIn"})
		return true
	}},
	{"empty-enum", func(r *Rng, s *GSchema) bool {
		s.Types = append(s.Types, &GType{Kind: "enum", Name: "EmptyE"})
		return true
	}},
	{"dunder-type-name", func(r *Rng, s *GSchema) bool {
		s.Types = append(s.Types, &GType{Kind: "scalar", Name: "__Mine"})
		return true
	}},
	{"dunder-field-name", func(r *Rng, s *GSchema) bool {
		t := firstOf(s, "type")
		t.Fields = append(t.Fields, GField{Name: "__f", Type: "Int"})
		return true
	}},
	{"dunder-argument-name", func(r *Rng, s *GSchema) bool {
		t := firstOf(s, "type")
		t.Fields = append(t.Fields, GField{Name: "g", Type: "Int", Args: []GArg{{Name: "__a", Type: "Int"}}})
		return true
	}},
	{"dunder-input-field-name", func(r *Rng, s *GSchema) bool {
		t := firstOf(s, "input")
		t.Fields = append(t.Fields, GField{Name: "__i", Type: "Int"})
		return true
	}},
	{"dunder-enum-value", func(r *Rng, s *GSchema) bool {
		t := firstOf(s, "enum")
		t.Values = append(t.Values, "__V")
		return true
	}},
	{"dunder-directive-name", func(r *Rng, s *GSchema) bool {
		s.Directives = append(s.Directives, &GDirective{Name: "__d", Locs: []string{"FIELD"}})
		return true
	}},
	{"extension-kind-mismatch", func(r *Rng, s *GSchema) bool {
		t := firstOf(s, "type")
		s.Types = append(s.Types, &GType{Kind: "interface", Name: t.Name, Ext: true, Fields: []GField{{Name: "zz", Type: "Int"}}})
		return true
	}},
	{"directive-refers-to-itself", func(r *Rng, s *GSchema) bool {
		s.Directives = append(s.Directives, &GDirective{Name: "selfref", Args: []GArg{{Name: "x", Type: "Int", Dirs: "@selfref"}}, Locs: []string{"ARGUMENT_DEFINITION"}})
		return true
	}},
	{"enum-value-true", func(r *Rng, s *GSchema) bool {
		t := firstOf(s, "enum")
		t.Values = append(t.Values, "true")
		return true
	}},
}
