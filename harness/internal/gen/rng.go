// Package gen: one SplitMix64 state per run; every random choice derives from it.
package gen

type Rng struct{ s uint64 }

func New(seed uint64) *Rng { return &Rng{s: seed*0x9E3779B97F4A7C15 + 0x1234567} }

func (r *Rng) U64() uint64 {
	r.s += 0x9E3779B97F4A7C15
	z := r.s
	z = (z ^ (z >> 30)) * 0xBF58476D1CE4E5B9
	z = (z ^ (z >> 27)) * 0x94D049BB133111EB
	return z ^ (z >> 31)
}
func (r *Rng) Intn(n int) int {
	if n <= 0 {
		return 0
	}
	return int(r.U64() % uint64(n))
}
func (r *Rng) Bool() bool          { return r.U64()&1 == 1 }
func (r *Rng) Chance(p, q int) bool { return r.Intn(q) < p }

// Fork derives an independent stream (for per-case reproducibility).
func (r *Rng) Fork() *Rng { return &Rng{s: r.U64()} }

func Pick[T any](r *Rng, xs []T) T { return xs[r.Intn(len(xs))] }
