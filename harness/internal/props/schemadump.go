package props

import (
	"encoding/hex"
	"sort"
	"strconv"
	"strings"

	"github.com/vektah/gqlparser/v2"
	"github.com/vektah/gqlparser/v2/ast"

	"verifharness/internal/core"
)

func init() { core.Ops["load"] = implLoad }

func ostr(d *ast.Definition) string {
	if d == nil {
		return "-"
	}
	return hex.EncodeToString([]byte(d.Name))
}

// DumpSchema: canonical text of a loaded schema, maps by sorted key (Coq: Schema.dump_schema).
func DumpSchema(s *ast.Schema) string { return dumpSchemaWith(&dumper{}, s, false) }

// NormDumpSchema: what C13 lists as preserved — types, fields, arguments, defaults, directives,
// roots and (unless left out) descriptions; the possible-type and implementer lists as sets.
func NormDumpSchema(s *ast.Schema, noDesc, noBuiltin bool) string {
	return dumpSchemaWith(&dumper{noDesc: noDesc, noBuiltin: noBuiltin}, s, true)
}

func dumpSchemaWith(d *dumper, s *ast.Schema, sortRel bool) string {
	d.s("SCHEMA(" + ostr(s.Query) + "," + ostr(s.Mutation) + "," + ostr(s.Subscription) + ",")
	d.dirs(s.SchemaDirectives)
	d.s(",")
	d.desc(s.Description)
	d.s(",[")
	var tn []string
	for k := range s.Types {
		tn = append(tn, k)
	}
	sort.Strings(tn)
	for i, k := range tn {
		if i > 0 {
			d.s(",")
		}
		if s.Types[k] == nil {
			d.s("?")
		} else {
			d.def(s.Types[k])
		}
	}
	d.s("],")
	var dn []string
	for k := range s.Directives {
		dn = append(dn, k)
	}
	sort.Strings(dn)
	var dl ast.DirectiveDefinitionList
	for _, k := range dn {
		dl = append(dl, s.Directives[k])
	}
	d.dirdefs(dl)
	d.s(",")
	rel := func(m map[string][]*ast.Definition) {
		var ks []string
		for k := range m {
			ks = append(ks, k)
		}
		sort.Strings(ks)
		d.s("[")
		for i, k := range ks {
			if i > 0 {
				d.s(",")
			}
			d.hex(k)
			d.s("=[")
			var names []string
			for _, x := range m[k] {
				if x == nil {
					names = append(names, "NIL")
				} else {
					names = append(names, hex.EncodeToString([]byte(x.Name)))
				}
			}
			if sortRel {
				sort.Strings(names)
			}
			d.s(strings.Join(names, ","))
			d.s("]")
		}
		d.s("]")
	}
	rel(s.PossibleTypes)
	d.s(",")
	rel(s.Implements)
	d.s(")")
	return d.sb.String()
}

// args: user sources, in order (the prelude is prepended by gqlparser.LoadSchema)
func implLoad(args [][]byte) string {
	srcs := make([]*ast.Source, len(args))
	for i, a := range args {
		srcs[i] = &ast.Source{Name: "s" + strconv.Itoa(i+1) + ".graphql", Input: string(a)}
	}
	s, err := gqlparser.LoadSchema(srcs...)
	if err != nil {
		return "err"
	}
	if s == nil {
		return "ok NIL"
	}
	return "ok " + DumpSchema(s)
}

var _ = strings.Contains
