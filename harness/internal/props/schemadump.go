package props

import (
	"encoding/hex"
	"sort"
	"strconv"
	"strings"

	"github.com/vektah/gqlparser/v2"
	"github.com/vektah/gqlparser/v2/ast"

	"verifharness/internal/core"
)

func init() { core.Ops["load"] = implLoad }

func ostr(d *ast.Definition) string {
	if d == nil {
		return "-"
	}
	return hex.EncodeToString([]byte(d.Name))
}

// DumpSchema: canonical text of a loaded schema, maps by sorted key (Coq: Schema.dump_schema).
func DumpSchema(s *ast.Schema) string {
	d := &dumper{}
	d.s("SCHEMA(" + ostr(s.Query) + "," + ostr(s.Mutation) + "," + ostr(s.Subscription) + ",")
	d.dirs(s.SchemaDirectives)
	d.s(",")
	d.hex(s.Description)
	d.s(",[")
	var tn []string
	for k := range s.Types {
		tn = append(tn, k)
	}
	sort.Strings(tn)
	for i, k := range tn {
		if i > 0 {
			d.s(",")
		}
		if s.Types[k] == nil {
			d.s("?")
		} else {
			d.def(s.Types[k])
		}
	}
	d.s("],")
	var dn []string
	for k := range s.Directives {
		dn = append(dn, k)
	}
	sort.Strings(dn)
	var dl ast.DirectiveDefinitionList
	for _, k := range dn {
		dl = append(dl, s.Directives[k])
	}
	d.dirdefs(dl)
	d.s(",")
	rel := func(m map[string][]*ast.Definition) {
		var ks []string
		for k := range m {
			ks = append(ks, k)
		}
		sort.Strings(ks)
		d.s("[")
		for i, k := range ks {
			if i > 0 {
				d.s(",")
			}
			d.hex(k)
			d.s("=[")
			for j, x := range m[k] {
				if j > 0 {
					d.s(",")
				}
				if x == nil {
					d.s("NIL")
				} else {
					d.hex(x.Name)
				}
			}
			d.s("]")
		}
		d.s("]")
	}
	rel(s.PossibleTypes)
	d.s(",")
	rel(s.Implements)
	d.s(")")
	return d.sb.String()
}

// args: user sources, in order (the prelude is prepended by gqlparser.LoadSchema)
func implLoad(args [][]byte) string {
	srcs := make([]*ast.Source, len(args))
	for i, a := range args {
		srcs[i] = &ast.Source{Name: "s" + strconv.Itoa(i+1) + ".graphql", Input: string(a)}
	}
	s, err := gqlparser.LoadSchema(srcs...)
	if err != nil {
		return "err"
	}
	if s == nil {
		return "ok NIL"
	}
	return "ok " + DumpSchema(s)
}

var _ = strings.Contains
