package props

import (
	"strings"

	gqlparser "github.com/vektah/gqlparser/v2"
	"github.com/vektah/gqlparser/v2/ast"
	"github.com/vektah/gqlparser/v2/gqlerror"
	"github.com/vektah/gqlparser/v2/parser"
	"github.com/vektah/gqlparser/v2/validator"
)

// The convenience entry points of package gqlparser and the accessor methods of ast.Schema and
// ast.Definition are what most callers use; the checks drive the parsers, loader and validator
// directly, so these oracles hold the wrappers to the functions they wrap.

// queryEntryProblem: LoadQuery is ParseQuery followed by Validate with the default rules; MustLoadQuery
// panics exactly when LoadQuery returns errors.
func queryEntryProblem(s *ast.Schema, q string) string {
	doc, perr := parser.ParseQuery(&ast.Source{Input: q})
	ld, lerrs := gqlparser.LoadQuery(s, q)
	if perr != nil {
		ge, _ := perr.(*gqlerror.Error)
		if ld != nil || len(lerrs) != 1 || ge == nil || lerrs[0] == nil || lerrs[0].Message != ge.Message ||
			strings.Join(fullErrors(lerrs), "\n") != strings.Join(fullErrors(gqlerror.List{ge}), "\n") {
			return "LoadQuery on a document that does not parse does not return the parse error alone"
		}
	} else {
		want := validator.Validate(s, doc)
		if strings.Join(fullErrors(lerrs), "\n") != strings.Join(fullErrors(want), "\n") {
			return "LoadQuery reports other errors than ParseQuery followed by Validate"
		}
		if (len(want) == 0) != (ld != nil) {
			return "LoadQuery returns a document exactly when there is no error"
		}
		if ld != nil && DumpQueryDoc(ld, false) != DumpQueryDoc(doc, false) {
			return "LoadQuery returns another document than ParseQuery"
		}
	}
	panicked := false
	var md *ast.QueryDocument
	func() {
		defer func() {
			if recover() != nil {
				panicked = true
			}
		}()
		md = gqlparser.MustLoadQuery(s, q)
	}()
	if panicked != (len(lerrs) > 0) {
		return "MustLoadQuery panics exactly when LoadQuery returns errors"
	}
	if !panicked && (md == nil || ld == nil || DumpQueryDoc(md, false) != DumpQueryDoc(ld, false)) {
		return "MustLoadQuery returns another document than LoadQuery"
	}
	return ""
}

// schemaEntryProblem: gqlparser.LoadSchema is validator.LoadSchema behind the prelude, which is ParseSchemas
// followed by ValidateSchemaDocument; MustLoadSchema panics exactly when LoadSchema returns an error; the
// accessors return the relation tables; the kind predicates of a definition are the ones the
// specification names.
func schemaEntryProblem(srcs []string) string {
	mk := func() []*ast.Source {
		ss := make([]*ast.Source, len(srcs))
		for i, t := range srcs {
			ss[i] = &ast.Source{Name: "s" + itoa(i+1) + ".graphql", Input: t}
		}
		return ss
	}
	s1, e1 := gqlparser.LoadSchema(mk()...)
	s2, e2 := validator.LoadSchema(append([]*ast.Source{validator.Prelude}, mk()...)...)
	if (e1 == nil) != (e2 == nil) || (e1 != nil && e1.Error() != e2.Error()) {
		return "gqlparser.LoadSchema and validator.LoadSchema behind the prelude disagree"
	}
	var s3 *ast.Schema
	var e3 error
	if sd, perr := parser.ParseSchemas(append([]*ast.Source{validator.Prelude}, mk()...)...); perr != nil {
		e3 = perr
	} else {
		s3, e3 = validator.ValidateSchemaDocument(sd)
	}
	if (e1 == nil) != (e3 == nil) || (e1 != nil && e1.Error() != e3.Error()) {
		return "LoadSchema and ParseSchemas followed by ValidateSchemaDocument disagree"
	}
	panicked := false
	var s4 *ast.Schema
	func() {
		defer func() {
			if recover() != nil {
				panicked = true
			}
		}()
		s4 = gqlparser.MustLoadSchema(mk()...)
	}()
	if panicked != (e1 != nil) {
		return "MustLoadSchema panics exactly when LoadSchema returns an error"
	}
	if e1 != nil {
		return ""
	}
	ref := NormDumpSchema(s1, false, false)
	for _, x := range []*ast.Schema{s2, s3, s4} {
		if x == nil || NormDumpSchema(x, false, false) != ref {
			return "the entry points of schema loading return different schemas for the same sources"
		}
	}
	for name, def := range s1.Types {
		if def == nil {
			continue
		}
		same := func(a, b []*ast.Definition) bool {
			if len(a) != len(b) {
				return false
			}
			for i := range a {
				if a[i] != b[i] {
					return false
				}
			}
			return true
		}
		if !same(s1.GetPossibleTypes(def), s1.PossibleTypes[name]) || !same(s1.GetImplements(def), s1.Implements[name]) {
			return "GetPossibleTypes/GetImplements of " + name + " differ from the relation tables"
		}
		k := def.Kind
		if def.IsLeafType() != (k == ast.Scalar || k == ast.Enum) || def.IsInputType() != (k == ast.Scalar || k == ast.Enum || k == ast.InputObject) ||
			def.IsCompositeType() != (k == ast.Object || k == ast.Interface || k == ast.Union) || def.IsAbstractType() != (k == ast.Interface || k == ast.Union) {
			return "kind predicates of " + name + " (" + string(k) + ") are not the ones the specification names"
		}
		if !def.OneOf(name) || def.OneOf(name+"_") || def.OneOf() {
			return "Definition.OneOf of " + name
		}
	}
	return ""
}
