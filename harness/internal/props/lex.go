package props

import (
	"encoding/hex"
	"strconv"
	"strings"

	"github.com/vektah/gqlparser/v2/ast"
	"github.com/vektah/gqlparser/v2/gqlerror"
	"github.com/vektah/gqlparser/v2/lexer"

	"verifharness/internal/core"
)

func init() {
	core.Ops["lex"] = implLex
}

// implLex: lex to the end with the real lexer; same text as Coq's dump_lex.
func implLex(args [][]byte) string {
	input := string(args[0])
	l := lexer.New(&ast.Source{Input: input, Name: "x"})
	var sb strings.Builder
	for n := 0; ; n++ {
		if n > len(input)+2 {
			return sb.String() + "NONTERMINATION"
		}
		tok, err := l.ReadToken()
		if err != nil {
			ge, ok := err.(*gqlerror.Error)
			if !ok || len(ge.Locations) != 1 {
				return sb.String() + "err ? ?"
			}
			sb.WriteString("err ")
			sb.WriteString(strconv.Itoa(ge.Locations[0].Line))
			sb.WriteByte(' ')
			sb.WriteString(strconv.Itoa(ge.Locations[0].Column))
			return sb.String()
		}
		if tok.Kind == lexer.EOF {
			sb.WriteString("ok")
			return sb.String()
		}
		sb.WriteString(strconv.Itoa(int(tok.Kind)))
		sb.WriteByte(' ')
		sb.WriteString(hex.EncodeToString([]byte(tok.Value)))
		sb.WriteByte(' ')
		sb.WriteString(strconv.Itoa(tok.Pos.Start))
		sb.WriteByte(' ')
		sb.WriteString(strconv.Itoa(tok.Pos.End))
		sb.WriteByte(' ')
		sb.WriteString(strconv.Itoa(tok.Pos.Line))
		sb.WriteByte(' ')
		sb.WriteString(strconv.Itoa(tok.Pos.Column))
		sb.WriteByte(';')
	}
}

// LexAlphabet: the lexically significant symbols used for bounded-exhaustive enumeration.
var LexAlphabet = [][]byte{
	[]byte("a"), []byte("0"), []byte("1"), []byte("-"), []byte("."), []byte("e"), []byte("\""),
	[]byte("\\"), []byte("u"), []byte("#"), []byte(","), []byte(" "), []byte("\n"), []byte("\r"),
	[]byte("{"), []byte("$"), []byte("!"), {0xEF, 0xBB, 0xBF}, []byte("é"),
}

var BlockAlphabet = [][]byte{[]byte(" "), []byte("\t"), []byte("\n"), []byte("\r"), []byte("a"), []byte("\"")}

// enumerate all strings of exactly n symbols; idx is the case index in [0, len(alpha)^n)
func nthString(alpha [][]byte, n int, idx int) []byte {
	var out []byte
	k := len(alpha)
	for i := 0; i < n; i++ {
		out = append(out, alpha[idx%k]...)
		idx /= k
	}
	return out
}

func ipow(a, n int) int {
	r := 1
	for i := 0; i < n; i++ {
		r *= a
	}
	return r
}
