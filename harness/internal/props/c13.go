package props

import (
	"bytes"
	"encoding/hex"
	"github.com/vektah/gqlparser/v2/formatter"
	"github.com/vektah/gqlparser/v2/parser"
	"strings"
	"sync"
	"sync/atomic"

	"github.com/vektah/gqlparser/v2/ast"

	"verifharness/internal/core"
	"verifharness/internal/gen"
)

func init() { Runners["C13"] = runC13 }

var fmtSchemaFlagSets = []string{"", "c", "d", "cd", "b", "bd", "bc", "bcd"}

func runC13(c *core.Ctx) {
	const thm = "C13_* (props/C13.v); model op fs = Ops.dump_format_schema"
	c.ReplayKnown()
	nDocs := 10000
	if !c.Quick {
		nDocs = 200000
	}
	type cs struct{ text, expect, expectNoDesc, flags, indent, bi string }
	feats := map[string]int{}
	cases := make([]cs, nDocs)
	for i := range cases {
		g := &gen.SGen{}
		g.R = c.Rng
		g.MaxDepth = 2
		g.Features = feats
		g.BuiltIn = c.Rng.Chance(1, 5)
		g.NoEmptyDesc = true
		doc := g.SDoc()
		// the printer writes all schema definitions (and all schema extensions) as one block
		doc.Schema = mergeSchemaDefs(doc.Schema)
		doc.SchemaExtension = mergeSchemaDefs(doc.SchemaExtension)
		bi := "0"
		if g.BuiltIn {
			bi = "1"
		}
		cases[i] = cs{text: gen.Render(c.Rng, g.Toks, c.Rng.Intn(2)), expect: eraseKinds("ok " + DumpSchemaDoc(doc, false, nil)),
			flags: gen.Pick(c.Rng, fmtSchemaFlagSets), indent: gen.Pick(c.Rng, fmtIndents), bi: bi}
	}
	for k, v := range feats {
		c.Count("feature_"+k, int64(v))
	}
	c.Pool.ParFor(nDocs, func(w, i int) {
		k := cases[i]
		args := [][]byte{[]byte(k.flags), []byte(k.indent), []byte(k.bi), []byte(k.text)}
		impl := c.Impl(w, "fs", args...)
		v, cur, none := c.Tie(w, "fs", impl, args...)
		if v == core.Violation {
			c.Report(w, "fs", thm, args, impl, cur, none)
		}
		// oracle (documents): same definitions back unless descriptions are switched off or
		// built-in definitions are suppressed; fixpoint always
		parts := strings.Split(impl, "|")
		full := !strings.Contains(k.flags, "d") && (k.bi == "0" || strings.Contains(k.flags, "b"))
		ok := len(parts) == 3 && parts[2] == "1" && (!full || eraseKinds(parts[1]) == k.expect)
		if !ok && !c.Explained(w, "fs", impl, args...) {
			c.ReportOracle("format-parse-roundtrip-schema", map[string]interface{}{"op": "fs",
				"args": []string{hexs(k.flags), hexs(k.indent), hexs(k.bi), hexs(k.text)}, "input": k.text, "flags": k.flags, "indent": k.indent,
				"implementation": impl, "expected_tree": k.expect})
		}
		c.Seen(true, []byte(k.text))
	})
	// the scale family: wide definitions and pieces of text around 4 KiB and 64 KiB; the re-parsed
	// document is the document of the input, the text is a fixpoint, the loaded schema survives
	// FormatSchema and reloading (implementation-side oracles), under every option set; the formatter's
	// bytes are the model's up to a hundred elements and 256-byte pieces
	scale := ScaleSchemas()
	tied := map[string]bool{}
	for _, t := range ScaleSchemasUpTo(101, 256) {
		tied[t] = true
	}
	var nScale int64
	c.Pool.ParFor(len(scale), func(w, i int) {
		text := scale[i]
		orig, err := parser.ParseSchema(&ast.Source{Input: text, Name: "s"})
		if err != nil {
			c.ReportOracle("scale-schema-does-not-parse", map[string]interface{}{"input": text[:min(300, len(text))], "error": err.Error()})
			return
		}
		orig.Schema = mergeSchemaDefs(orig.Schema)
		orig.SchemaExtension = mergeSchemaDefs(orig.SchemaExtension)
		expect := eraseKinds("ok " + DumpSchemaDoc(orig, false, nil))
		atomic.AddInt64(&nScale, 1)
		for fi, fl := range []string{"", "c", "m", "cm"} {
			for _, indent := range []string{"", "  ", "\t"} {
				args := [][]byte{[]byte(fl), []byte(indent), []byte("0"), []byte(text)}
				out := c.Impl(w, "fs", args...)
				parts := strings.Split(out, "|")
				if !(len(parts) == 3 && parts[2] == "1" && eraseKinds(parts[1]) == expect) {
					c.ReportOracle("format-parse-roundtrip-schema", map[string]interface{}{"op": "fs", "args": []string{hexs(fl), hexs(indent), hexs("0"), hexs(text)},
						"input": text[:min(300, len(text))], "bytes": len(text), "flags": fl, "indent": indent, "implementation": out[:min(600, len(out))]})
					return
				}
				if tied[text] && fi == i%2 && indent == "  " {
					if v, cur, none := c.Tie(w, "fs", out, args...); v == core.Violation {
						c.Report(w, "fs", thm, args, out, cur, none)
					}
				}
			}
		}
		s, err2 := loadImpl(text)
		if err2 != nil || s == nil {
			return
		}
		for _, fl := range []string{"", "b", "c", "bc"} {
			var buf bytes.Buffer
			formatter.NewFormatter(&buf, fmtOptions(fl, "  ")...).FormatSchema(s)
			s2, err := reloadFormatted(fl, buf.String())
			problem := ""
			if err != nil || s2 == nil {
				problem = "formatted schema does not load"
			} else if bi := strings.Contains(fl, "b"); eraseKinds(NormDumpSchema(s, false, bi)) != eraseKinds(NormDumpSchema(s2, false, bi)) {
				problem = "the reloaded schema differs: " + diffAt(eraseKinds(NormDumpSchema(s, false, bi)), eraseKinds(NormDumpSchema(s2, false, bi)))
			} else {
				var buf2 bytes.Buffer
				formatter.NewFormatter(&buf2, fmtOptions(fl, "  ")...).FormatSchema(s2)
				if buf2.String() != buf.String() {
					problem = "formatting the reloaded schema gives a different text"
				}
			}
			if problem != "" {
				c.ReportOracle("format-load-roundtrip-schema", map[string]interface{}{"sources": []string{text[:min(300, len(text))]}, "bytes": len(text), "flags": fl, "problem": problem})
				return
			}
		}
	})
	c.Count("scale_schemas", nScale)
	c.Evals += int64(nDocs) + nScale*16
	c.Programs = int64(nDocs)
	c.Sample(map[string]string{"document": cases[0].text, "flags": cases[0].flags, "indent": cases[0].indent})
	runC13Loaded(c)
}

// second half: every loaded schema, formatted with FormatSchema and loaded again
func runC13Loaded(c *core.Ctx) {
	const thm = "C13_* (props/C13.v); model op fsl = Ops.dump_format_loaded"
	nSchemas := 400
	if !c.Quick {
		nSchemas = 12000
	}
	type lc struct {
		srcs          []string
		flags, indent string
	}
	var cases []lc
	for i := 0; i < nSchemas; i++ {
		gs := gen.NewSchema(gen.New(c.Rng.U64()))
		srcs := []string{gs.Text()}
		if c.Rng.Chance(1, 4) {
			srcs = gs.Chunks()
		}
		if c.Rng.Chance(1, 10) {
			// an invalid schema: nothing to format, both sides must say so
			gen.Pick(c.Rng, gen.SchemaFaults).Apply(c.Rng, gs)
			srcs = []string{gs.Text()}
		}
		cases = append(cases, lc{srcs, gen.Pick(c.Rng, fmtSchemaFlagSets), gen.Pick(c.Rng, fmtIndents)})
	}
	// hand-written shapes that decide whether the schema block may be left out
	for _, src := range []string{
		"schema { query: Query }\ntype Query { a: Int }\ntype Mutation { notRoot: Int }",
		"schema { query: RootQ mutation: Mutation }\ntype RootQ { a: Int }\ntype Mutation { set: Int }",
		"schema @tag { query: Query }\ndirective @tag on SCHEMA\ntype Query { a: Int }",
		"schema @tag { query: Query subscription: S }\ndirective @tag on SCHEMA\ntype Query { a: Int }\ntype S { t: Int }\ntype Subscription { x: Int }",
		"type Query { a: Int }\ntype Mutation { b: Int }\ntype Subscription { c: Int }",
		"extend schema @tag\ndirective @tag on SCHEMA\ntype Query { a: Int }",
		"schema { mutation: Query }\ntype Query { a: Int }",
		"type Query { a: Int }\nextend schema { mutation: M }\ntype M { b: Int }",
		// a type that is not an object but carries the default name of a root that is absent
		"schema { query: Query }\ntype Query { a: Mutation }\nenum Mutation { A B }",
		"schema { query: Query }\ntype Query { a(x: Subscription): Int }\ninput Subscription { v: Int }",
		"schema { query: Query }\ntype Query { a: Subscription }\nscalar Subscription",
		"schema { query: Query }\ntype Query { a: Mutation }\ninterface Mutation { f: Int }",
		"schema { query: Query mutation: M }\ntype Query { a: Subscription }\ntype M { f: Int }\nunion Subscription = M | Query",
		"schema { query: Q }\ntype Q { a: Query }\nenum Query { A }",
	} {
		for _, fl := range fmtSchemaFlagSets {
			cases = append(cases, lc{[]string{src}, fl, "\t"})
		}
	}
	var loaded, reloaded int64
	var mu sync.Mutex
	c.Pool.ParFor(len(cases), func(w, i int) {
		k := cases[i]
		args := append([][]byte{[]byte(k.flags), []byte(k.indent)}, toArgs(k.srcs)...)
		impl := c.Impl(w, "fsl", args...)
		v, cur, none := c.Tie(w, "fsl", impl, args...)
		if v == core.Violation {
			c.Report(w, "fsl", thm, args, impl, cur, none)
		}
		if impl == "schema-err" {
			return
		}
		// oracle: the reloaded schema is the same schema, and printing it again gives the same text
		parts := strings.Split(impl, "|")
		problem := ""
		if len(parts) != 3 {
			problem = "formatted schema does not load"
		} else if parts[2] != "1" {
			problem = "formatting the reloaded schema gives a different text"
		} else if s, err := loadImpl(k.srcs...); err == nil && s != nil {
			text, _ := hex.DecodeString(parts[0])
			if s2, err := reloadFormatted(k.flags, string(text)); err == nil && s2 != nil {
				noDesc, bi := strings.Contains(k.flags, "d"), strings.Contains(k.flags, "b")
				if NormDumpSchema(s, noDesc, bi) != NormDumpSchema(s2, noDesc, bi) {
					problem = "the reloaded schema differs: " + diffAt(NormDumpSchema(s, noDesc, bi), NormDumpSchema(s2, noDesc, bi))
				}
				mu.Lock()
				reloaded++
				mu.Unlock()
			}
		}
		mu.Lock()
		loaded++
		mu.Unlock()
		if problem != "" && !c.Explained(w, "fsl", impl, args...) {
			c.ReportOracle("format-load-roundtrip-schema", map[string]interface{}{"op": "fsl", "args": hexArgs(args), "sources": k.srcs,
				"flags": k.flags, "indent": k.indent, "problem": problem, "implementation": impl})
		}
		c.Seen(true, []byte(k.srcs[0]))
	})
	c.Evals += int64(len(cases))
	c.Count("loaded_schemas_formatted", loaded)
	c.Count("loaded_schemas_reloaded_and_compared", reloaded)
}

func diffAt(a, b string) string {
	i := 0
	for i < len(a) && i < len(b) && a[i] == b[i] {
		i++
	}
	lo := i - 60
	if lo < 0 {
		lo = 0
	}
	return "at " + itoa(i) + ": " + a[lo:min(len(a), i+60)] + " <> " + b[lo:min(len(b), i+60)]
}
func mergeSchemaDefs(l ast.SchemaDefinitionList) ast.SchemaDefinitionList {
	if len(l) <= 1 {
		return l
	}
	m := &ast.SchemaDefinition{}
	for _, d := range l {
		m.Description += d.Description
		m.Directives = append(m.Directives, d.Directives...)
		m.OperationTypes = append(m.OperationTypes, d.OperationTypes...)
	}
	return ast.SchemaDefinitionList{m}
}
