package props

import (
	"strings"

	"github.com/vektah/gqlparser/v2/ast"

	"verifharness/internal/core"
	"verifharness/internal/gen"
)

func init() { Runners["C13"] = runC13 }

var fmtSchemaFlagSets = []string{"", "c", "d", "cd", "b", "bd", "bc", "bcd"}

func runC13(c *core.Ctx) {
	const thm = "C13_* (props/C13.v); model op fs = Ops.dump_format_schema"
	c.ReplayKnown()
	nDocs := 3000
	if !c.Quick {
		nDocs = 60000
	}
	type cs struct{ text, expect, expectNoDesc, flags, indent, bi string }
	feats := map[string]int{}
	cases := make([]cs, nDocs)
	for i := range cases {
		g := &gen.SGen{}
		g.R = c.Rng
		g.MaxDepth = 2
		g.Features = feats
		g.BuiltIn = c.Rng.Chance(1, 5)
		g.NoEmptyDesc = true
		doc := g.SDoc()
		// the printer writes all schema definitions (and all schema extensions) as one block
		doc.Schema = mergeSchemaDefs(doc.Schema)
		doc.SchemaExtension = mergeSchemaDefs(doc.SchemaExtension)
		bi := "0"
		if g.BuiltIn {
			bi = "1"
		}
		cases[i] = cs{text: gen.Render(c.Rng, g.Toks, c.Rng.Intn(2)), expect: eraseKinds("ok " + DumpSchemaDoc(doc, false, nil)),
			flags: gen.Pick(c.Rng, fmtSchemaFlagSets), indent: gen.Pick(c.Rng, fmtIndents), bi: bi}
	}
	for k, v := range feats {
		c.Count("feature_"+k, int64(v))
	}
	c.Pool.ParFor(nDocs, func(w, i int) {
		k := cases[i]
		args := [][]byte{[]byte(k.flags), []byte(k.indent), []byte(k.bi), []byte(k.text)}
		impl := c.Impl(w, "fs", args...)
		v, cur, none := c.Tie(w, "fs", impl, args...)
		if v == core.Violation {
			c.Report(w, "fs", thm, args, impl, cur, none)
		}
		// oracle (documents): same definitions back unless descriptions are switched off or
		// built-in definitions are suppressed; fixpoint always
		parts := strings.Split(impl, "|")
		full := !strings.Contains(k.flags, "d") && (k.bi == "0" || strings.Contains(k.flags, "b"))
		ok := len(parts) == 3 && parts[2] == "1" && (!full || eraseKinds(parts[1]) == k.expect)
		if !ok && !c.Explained(w, "fs", impl, args...) {
			c.ReportOracle("format-parse-roundtrip-schema", map[string]interface{}{"op": "fs",
				"args": []string{hexs(k.flags), hexs(k.indent), hexs(k.bi), hexs(k.text)}, "input": k.text, "flags": k.flags, "indent": k.indent,
				"implementation": impl, "expected_tree": k.expect})
		}
		c.Seen(true, []byte(k.text))
	})
	c.Evals += int64(nDocs)
	c.Programs = int64(nDocs)
	c.Sample(map[string]string{"document": cases[0].text, "flags": cases[0].flags, "indent": cases[0].indent})
}

func mergeSchemaDefs(l ast.SchemaDefinitionList) ast.SchemaDefinitionList {
	if len(l) <= 1 {
		return l
	}
	m := &ast.SchemaDefinition{}
	for _, d := range l {
		m.Description += d.Description
		m.Directives = append(m.Directives, d.Directives...)
		m.OperationTypes = append(m.OperationTypes, d.OperationTypes...)
	}
	return ast.SchemaDefinitionList{m}
}
