package props

import (
	"crypto/sha1"
	"encoding/hex"
	"fmt"
	"os"
	"os/exec"
	"strings"
	"sync/atomic"

	"github.com/vektah/gqlparser/v2/ast"
	"github.com/vektah/gqlparser/v2/parser"
	"github.com/vektah/gqlparser/v2/validator"

	"verifharness/internal/core"
)

func init() { Runners["C10"] = runC10 }

// c10Cases: the (schema, document) pairs of a run, deterministic in the seed; biased to invalid
// documents and to unknown names with several equally distant candidates.
func c10Cases(c *core.Ctx) []VCase {
	nSchemas, per := 60, 30
	if !c.Quick {
		nSchemas, per = 600, 40
	}
	cases := GenValidationCases(c, nSchemas, per, nil)
	// documents whose fragments reuse response keys and spread one another, one in four with cycles
	nStress := 1500
	if !c.Quick {
		nStress = 20000
	}
	cases = append(cases, OverlapStress(c.Rng, nStress)...)
	// several errors of one rule in one document (several names defined twice, several unknown names ...)
	cases = append(cases, DupStress(c.Rng, nStress)...)
	// equidistant suggestion candidates: type names Aab, Aac, Aad, ...; field names likewise
	sdl := "type Query { aab: Int aac: Int aad: Int x(e: Eq): Int t: Aab } type Aab { a: Int } type Aac { a: Int } type Aad { a: Int } type Abb { a: Int } enum Eq { QA QB QC QD }"
	for _, q := range []string{
		"fragment F on Aaa { a } { t { ...F } }", "{ aaa }", "{ x(e: QX) }", "{ x(e: \"QX\") }", "{ t { ... on Aaa { a } } }",
		"query($v: Aaa) { aab }", "{ aab(zzz: 1) }", "{ x(f: 1) }", "fragment F on Abc { a } { t { ...F } }",
	} {
		cases = append(cases, VCase{Srcs: []string{sdl}, Query: q, Expect: "invalid"})
	}
	// the small-scope family (pairs included: the same construct twice under one response name)
	stride := 2000
	if !c.Quick {
		stride = 100
	}
	cases = append(cases, SmallScope(stride)...)
	return cases
}

// digest of everything observable about validating one pair: fresh parse twice and the same
// tree validated again (messages, order, locations, rule names)
// withoutRule drops the errors of one rule from a list of full error lines (rule name first)
func withoutRule(r string, rule string) string {
	var keep []string
	for _, l := range strings.Split(r, "\n") {
		if !strings.HasPrefix(l, rule+" ") && !strings.HasPrefix(l, rule+"|") && !strings.Contains(l, "rule="+rule) {
			keep = append(keep, l)
		}
	}
	return strings.Join(keep, "\n")
}

// d2Applies: recorded finding F-D2 — in a document with a fragment cycle the errors of
// OverlappingFieldsCanBeMerged depend on which fields the walk has annotated so far, so the same
// document object validated again can report more of them. Nothing else may differ.
func d2Applies(first, again string) bool {
	return strings.Contains(first, "NoFragmentCycles") &&
		withoutRule(first, "OverlappingFieldsCanBeMerged") == withoutRule(again, "OverlappingFieldsCanBeMerged")
}

func c10Digest(k VCase) (string, string) {
	d, diff, _ := c10DigestD2(k, false)
	return d, diff
}

// allowD2: F-D2 is recorded; the third result (bool) says that it was used
func c10DigestD2(k VCase, allowD2 bool) (string, string, bool) {
	s, err := loadImpl(k.Srcs...)
	if err != nil {
		return "schema-err:" + err.Error(), "", false
	}
	var runs []string
	parseAndValidate := func() (*ast.QueryDocument, string) {
		doc, perr := parser.ParseQuery(&ast.Source{Input: k.Query})
		if perr != nil {
			return nil, "parse-err:" + perr.Error()
		}
		return doc, strings.Join(fullErrors(validator.Validate(s, doc)), "\n")
	}
	d1, r1 := parseAndValidate()
	_, r2 := parseAndValidate()
	runs = append(runs, r1, r2)
	if d1 != nil {
		runs = append(runs, strings.Join(fullErrors(validator.Validate(s, d1)), "\n")) // the validated tree again
	}
	used := false
	for i, r := range runs[1:] {
		if r != runs[0] {
			if allowD2 && i == 1 && d2Applies(runs[0], r) {
				used = true
				continue
			}
			return runs[0], "first: " + runs[0] + "\nlater: " + r, used
		}
	}
	return runs[0], "", used
}

// EmitC10 is the child-process mode: one digest line per case.
func EmitC10(c *core.Ctx) {
	for _, k := range c10Cases(c) {
		d, _ := c10Digest(k)
		h := sha1.Sum([]byte(d))
		fmt.Println(hex.EncodeToString(h[:8]))
	}
}

func runC10(c *core.Ctx) {
	const thm = "C10_* (props/C10.v); model op val (the model is a function, so any run-to-run difference is a disagreement)"
	c.ReplayKnown()
	cases := c10Cases(c)
	nProc := 4
	if !c.Quick {
		nProc = 30
	}
	// F-D2 (no model flag: the model has both behaviours, validate and validate_again): replay the witness
	d2 := false
	for _, f := range c.Known {
		if f.ID == "F-D2" && f.Status == "known" && len(f.Args) == 2 {
			q, _ := hex.DecodeString(f.Args[0])
			sdl, _ := hex.DecodeString(f.Args[1])
			_, diff, used := c10DigestD2(VCase{Srcs: []string{string(sdl)}, Query: string(q)}, true)
			if used && diff == "" {
				d2 = true
				line := fmt.Sprintf("KNOWN-FINDING: property=%s %s: %s", c.Prop, f.ID, f.What)
				fmt.Println(line)
				c.KnownLines = append(c.KnownLines, line)
			} else {
				c.Note("known finding F-D2 no longer reproduces on its witness")
			}
		}
	}
	digests := make([]string, len(cases))
	var d2Used int64
	c.Pool.ParFor(len(cases), func(w, i int) {
		k := cases[i]
		d, diff, used := c10DigestD2(k, d2)
		if used {
			atomic.AddInt64(&d2Used, 1)
		}
		// the same document object validated again, against the model's validate_again
		args2 := valArgs("~*", k)
		impl2 := c.Impl(w, "val", args2...)
		if v2, cur2, none2 := c.Tie(w, "val", impl2, args2...); v2 == core.Violation {
			c.Report(w, "val", thm, args2, impl2, cur2, none2)
		}
		h := sha1.Sum([]byte(d))
		digests[i] = hex.EncodeToString(h[:8])
		if diff != "" {
			c.ReportOracle("not-repeatable-in-process", map[string]interface{}{"schema": k.Srcs, "query": k.Query, "difference": diff})
		}
		args := valArgs("*", k)
		impl := c.Impl(w, "val", args...)
		v, cur, none := c.Tie(w, "val", impl, args...)
		if v == core.Violation {
			c.Report(w, "val", thm, args, impl, cur, none)
		}
		c.Seen(k.Expect != "valid", []byte(k.Query), []byte(k.Srcs[0]))
	})
	// histories: one schema object validates the whole small-scope family in order, in reverse order and
	// in order again, then from all workers at once; every result must be the one a freshly loaded
	// schema gives for that document alone (nothing an earlier validation did may be seen by a later one)
	{
		ss := SmallScopeLight()
		ss = append(ss, ScaleDocsUpTo(101, 4097)...)
		alone := make([]string, len(ss))
		one := func(s *ast.Schema, q string) string {
			doc, perr := parser.ParseQuery(&ast.Source{Input: q})
			if perr != nil {
				return "parse-err"
			}
			return strings.Join(fullErrors(validator.Validate(s, doc)), "\n")
		}
		c.Pool.ParFor(len(ss), func(w, i int) {
			s, _ := loadImpl(smallScopeSchema)
			alone[i] = one(s, ss[i].Query)
		})
		shared, _ := loadImpl(smallScopeSchema)
		prev := ""
		visit := func(pass string, i int) {
			if got := one(shared, ss[i].Query); got != alone[i] {
				c.ReportOracle("validation-depends-on-earlier-validations", map[string]interface{}{"schema": ss[i].Srcs, "query": ss[i].Query[:min(400, len(ss[i].Query))],
					"pass": pass, "validated_just_before": prev[:min(400, len(prev))], "on_the_used_schema": got[:min(800, len(got))], "on_a_fresh_schema": alone[i][:min(800, len(alone[i]))]})
			}
			prev = ss[i].Query
		}
		for i := range ss {
			visit("in order", i)
		}
		for i := len(ss) - 1; i >= 0; i-- {
			visit("in reverse order", i)
		}
		for i := range ss {
			visit("in order again", i)
		}
		for rep := 0; rep < 3; rep++ {
			c.Pool.ParFor(len(ss), func(w, i int) {
				if got := one(shared, ss[i].Query); got != alone[i] {
					c.ReportOracle("differs-under-concurrent-validation", map[string]interface{}{"schema": ss[i].Srcs, "query": ss[i].Query[:min(400, len(ss[i].Query))],
						"concurrently": got[:min(800, len(got))], "alone": alone[i][:min(800, len(alone[i]))]})
				}
			})
		}
		c.Evals += int64(7 * len(ss))
		c.Count("history_documents_on_one_schema_object", int64(len(ss)))
	}
	// fresh processes: Go reseeds map iteration and hashing per process
	exe, _ := os.Executable()
	for p := 0; p < nProc; p++ {
		cmd := exec.Command(exe, "-prop", "C10", "-emit", "-tier", c.Tier, "-seed", fmt.Sprint(c.Seed), "-root", c.Root)
		out, err := cmd.Output()
		if err != nil {
			c.Note("child process failed: " + err.Error())
			c.ModelFailures++
			continue
		}
		lines := strings.Split(strings.TrimSpace(string(out)), "\n")
		if len(lines) != len(digests) {
			c.Note(fmt.Sprintf("child produced %d digests, parent %d", len(lines), len(digests)))
			c.ModelFailures++
			continue
		}
		for i := range lines {
			if lines[i] != digests[i] {
				c.ReportOracle("differs-between-processes", map[string]interface{}{"schema": cases[i].Srcs, "query": cases[i].Query,
					"note": "the error list (messages, order, locations) of this pair differs between two fresh processes with the same inputs"})
			}
		}
	}
	c.Evals += int64(len(cases) * (3 + nProc))
	c.Programs = int64(len(cases))
	c.Count("pairs", int64(len(cases)))
	c.Count("fresh_processes", int64(nProc))
	c.Count("revalidation_differences_explained_by_F-D2", d2Used)
	c.Sample(map[string]interface{}{"query": cases[len(cases)-1].Query, "schema": cases[len(cases)-1].Srcs[0]})
}
