package props

import (
	"crypto/sha1"
	"encoding/hex"
	"fmt"
	"os"
	"os/exec"
	"strings"

	"github.com/vektah/gqlparser/v2/ast"
	"github.com/vektah/gqlparser/v2/parser"
	"github.com/vektah/gqlparser/v2/validator"

	"verifharness/internal/core"
)

func init() { Runners["C10"] = runC10 }

// c10Cases: the (schema, document) pairs of a run, deterministic in the seed; biased to invalid
// documents and to unknown names with several equally distant candidates.
func c10Cases(c *core.Ctx) []VCase {
	nSchemas, per := 60, 30
	if !c.Quick {
		nSchemas, per = 600, 40
	}
	cases := GenValidationCases(c, nSchemas, per, nil)
	// equidistant suggestion candidates: type names Aab, Aac, Aad, ...; field names likewise
	sdl := "type Query { aab: Int aac: Int aad: Int x(e: Eq): Int t: Aab } type Aab { a: Int } type Aac { a: Int } type Aad { a: Int } type Abb { a: Int } enum Eq { QA QB QC QD }"
	for _, q := range []string{
		"fragment F on Aaa { a } { t { ...F } }", "{ aaa }", "{ x(e: QX) }", "{ x(e: \"QX\") }", "{ t { ... on Aaa { a } } }",
		"query($v: Aaa) { aab }", "{ aab(zzz: 1) }", "{ x(f: 1) }", "fragment F on Abc { a } { t { ...F } }",
	} {
		cases = append(cases, VCase{Srcs: []string{sdl}, Query: q, Expect: "invalid"})
	}
	return cases
}

// digest of everything observable about validating one pair: fresh parse twice and the same
// tree validated again (messages, order, locations, rule names)
func c10Digest(k VCase) (string, string) {
	s, err := loadImpl(k.Srcs...)
	if err != nil {
		return "schema-err:" + err.Error(), ""
	}
	var runs []string
	parseAndValidate := func() (*ast.QueryDocument, string) {
		doc, perr := parser.ParseQuery(&ast.Source{Input: k.Query})
		if perr != nil {
			return nil, "parse-err:" + perr.Error()
		}
		return doc, strings.Join(fullErrors(validator.Validate(s, doc)), "\n")
	}
	d1, r1 := parseAndValidate()
	_, r2 := parseAndValidate()
	runs = append(runs, r1, r2)
	if d1 != nil {
		runs = append(runs, strings.Join(fullErrors(validator.Validate(s, d1)), "\n")) // the validated tree again
	}
	for _, r := range runs[1:] {
		if r != runs[0] {
			return runs[0], "first: " + runs[0] + "\nlater: " + r
		}
	}
	return runs[0], ""
}

// EmitC10 is the child-process mode: one digest line per case.
func EmitC10(c *core.Ctx) {
	for _, k := range c10Cases(c) {
		d, _ := c10Digest(k)
		h := sha1.Sum([]byte(d))
		fmt.Println(hex.EncodeToString(h[:8]))
	}
}

func runC10(c *core.Ctx) {
	const thm = "C10_* (props/C10.v); model op val (the model is a function, so any run-to-run difference is a disagreement)"
	c.ReplayKnown()
	cases := c10Cases(c)
	nProc := 4
	if !c.Quick {
		nProc = 30
	}
	digests := make([]string, len(cases))
	c.Pool.ParFor(len(cases), func(w, i int) {
		k := cases[i]
		d, diff := c10Digest(k)
		h := sha1.Sum([]byte(d))
		digests[i] = hex.EncodeToString(h[:8])
		if diff != "" {
			c.ReportOracle("not-repeatable-in-process", map[string]interface{}{"schema": k.Srcs, "query": k.Query, "difference": diff})
		}
		args := valArgs("*", k)
		impl := c.Impl(w, "val", args...)
		v, cur, none := c.Tie(w, "val", impl, args...)
		if v == core.Violation {
			c.Report(w, "val", thm, args, impl, cur, none)
		}
		c.Seen(k.Expect != "valid", []byte(k.Query), []byte(k.Srcs[0]))
	})
	// fresh processes: Go reseeds map iteration and hashing per process
	exe, _ := os.Executable()
	for p := 0; p < nProc; p++ {
		cmd := exec.Command(exe, "-prop", "C10", "-emit", "-tier", c.Tier, "-seed", fmt.Sprint(c.Seed), "-root", c.Root)
		out, err := cmd.Output()
		if err != nil {
			c.Note("child process failed: " + err.Error())
			c.ModelFailures++
			continue
		}
		lines := strings.Split(strings.TrimSpace(string(out)), "\n")
		if len(lines) != len(digests) {
			c.Note(fmt.Sprintf("child produced %d digests, parent %d", len(lines), len(digests)))
			c.ModelFailures++
			continue
		}
		for i := range lines {
			if lines[i] != digests[i] {
				c.ReportOracle("differs-between-processes", map[string]interface{}{"schema": cases[i].Srcs, "query": cases[i].Query,
					"note": "the error list (messages, order, locations) of this pair differs between two fresh processes with the same inputs"})
			}
		}
	}
	c.Evals += int64(len(cases) * (3 + nProc))
	c.Programs = int64(len(cases))
	c.Count("pairs", int64(len(cases)))
	c.Count("fresh_processes", int64(nProc))
	c.Sample(map[string]interface{}{"query": cases[len(cases)-1].Query, "schema": cases[len(cases)-1].Srcs[0]})
}
