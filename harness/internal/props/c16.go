package props

import (
	"fmt"
	"strconv"
	"strings"
	"sync/atomic"
	"time"

	"github.com/vektah/gqlparser/v2/ast"
	"github.com/vektah/gqlparser/v2/parser"

	"verifharness/internal/core"
	"verifharness/internal/gen"
)

func init() { Runners["C16"] = runC16 }

func runC16(c *core.Ctx) {
	const thm = "C16_* (props/C16.v); model ops pq/ps with a limit"
	c.ReplayKnown()
	nDocs := 1500
	if !c.Quick {
		nDocs = 20000
	}
	type doc struct {
		text   string
		schema bool
		ntok   int
	}
	docs := make([]doc, nDocs)
	for i := range docs {
		var toks []gen.Tok
		schema := i%2 == 1
		if !schema {
			g := &gen.QGen{R: c.Rng, MaxDepth: 2, VarDefDirs: true, FragVars: c.Rng.Chance(1, 4)}
			g.Doc()
			toks = g.Toks
		} else {
			g := &gen.SGen{}
			g.R = c.Rng
			g.MaxDepth = 2
			g.SDoc()
			toks = g.Toks
		}
		if c.Rng.Chance(1, 5) {
			toks = gen.MutateToks(c.Rng, toks, queryClasses)
		}
		text := gen.Render(c.Rng, toks, 1)
		_, n := TokenStarts(text)
		docs[i] = doc{text, schema, n}
	}
	// small-scope documents (every third) and the constant-site matrices under every limit around their size
	for i, k := range SmallScopeLight() {
		if i%3 == 0 {
			_, n := TokenStarts(k.Query)
			docs = append(docs, doc{k.Query, false, n})
		}
	}
	for _, t := range ConstSites() {
		_, n := TokenStarts(t)
		docs = append(docs, doc{t, true, n})
	}
	for _, n := range []int{1023, 1024, 1025, 2100, 4096} {
		x := strings.Repeat("x", n)
		for _, t := range []string{`{a(s: "` + x + `")}`, `{a(s: """` + x + `""")}`, "{a} #" + x + "\n", "{" + x + "}", `{a(s: ["` + x + `", "` + x + `"])}`} {
			_, k := TokenStarts(t)
			docs = append(docs, doc{t, false, k})
		}
		for _, t := range []string{`"` + x + `" scalar S`, `"""` + x + `""" type T { "` + x + `" a: Int }`, "scalar S #" + x + "\n", `type T { a(s: String = "` + x + `"): Int }`} {
			_, k := TokenStarts(t)
			docs = append(docs, doc{t, true, k})
		}
	}
	nDocs = len(docs)
	var total int64
	c.Pool.ParFor(nDocs, func(w, i int) {
		d := docs[i]
		op := "pq"
		mk := func(l int) [][]byte {
			if d.schema {
				return [][]byte{[]byte("1"), []byte(strconv.Itoa(l)), []byte("0"), []byte(d.text)}
			}
			return [][]byte{[]byte("1"), []byte(strconv.Itoa(l)), []byte(d.text)}
		}
		if d.schema {
			op = "ps"
		}
		unlimited := c.Impl(w, op, mk(0)...)
		for l := 0; l <= d.ntok+2; l++ {
			args := mk(l)
			impl := c.Impl(w, op, args...)
			v, cur, none := c.Tie(w, op, impl, args...)
			if v == core.Violation {
				c.Report(w, op, thm, args, impl, cur, none)
			}
			// oracle on the implementation alone: exactness and identical tree
			var want string
			switch {
			case l == 0:
				want = unlimited
			case strings.HasPrefix(unlimited, "ok") && d.ntok <= l:
				want = unlimited
			case strings.HasPrefix(unlimited, "ok"):
				want = "err L"
			default:
				want = "err*" // fails either way (which error is not prescribed)
			}
			bad := false
			if want == "err*" {
				bad = !strings.HasPrefix(impl, "err")
			} else {
				bad = impl != want
			}
			if bad {
				c.ReportOracle("limit-not-exact", map[string]interface{}{"op": op, "args": []string{"31", hexs(strconv.Itoa(l)), hexs(d.text)},
					"input": d.text, "limit": l, "tokens": d.ntok, "unlimited": unlimited, "implementation": impl, "expected": want})
			}
		}
		c.Seen(true, []byte(d.text))
	})
	// several sources in one call (ParseSchemas / ParseSchemasWithLimit): the limit applies to each
	// source by itself, whatever the other sources are (built-in or not, before or after)
	var sdocs []doc
	for _, d := range docs {
		if d.schema {
			sdocs = append(sdocs, d)
		}
	}
	nMulti := len(sdocs) / 2
	type multi struct {
		srcs [][]byte
		ntok []int
	}
	multis := make([]multi, nMulti)
	for i := range multis {
		k := 2 + c.Rng.Intn(2)
		for j := 0; j < k; j++ {
			d := gen.Pick(c.Rng, sdocs)
			flag := "0"
			if c.Rng.Chance(1, 3) {
				flag = "1"
			}
			multis[i].srcs = append(multis[i].srcs, []byte(flag+d.text))
			multis[i].ntok = append(multis[i].ntok, d.ntok)
		}
	}
	var multiCases int64
	c.Pool.ParFor(nMulti, func(w, i int) {
		m := multis[i]
		limits := map[int]bool{0: true, 1: true}
		for _, n := range m.ntok {
			limits[n-1], limits[n], limits[n+1] = true, true, true
		}
		mk := func(l int) [][]byte {
			return append([][]byte{[]byte("1"), []byte(strconv.Itoa(l))}, m.srcs...)
		}
		unlimited := c.Impl(w, "pss", mk(0)...)
		for l := range limits {
			if l < 0 {
				continue
			}
			args := mk(l)
			impl := c.Impl(w, "pss", args...)
			v, cur, none := c.Tie(w, "pss", impl, args...)
			if v == core.Violation {
				c.Report(w, "pss", thm, args, impl, cur, none)
			}
			atomic.AddInt64(&multiCases, 1)
			if !strings.HasPrefix(unlimited, "ok") {
				continue
			}
			over := false
			for _, n := range m.ntok {
				if l > 0 && n > l {
					over = true
				}
			}
			if (over && impl != "err L") || (!over && impl != unlimited) {
				c.ReportOracle("limit-not-exact", map[string]interface{}{"op": "pss", "args": hexArgs(args), "limit": l, "tokens_per_source": m.ntok,
					"implementation": impl[:min(len(impl), 200)], "note": "ParseSchemasWithLimit: every source by itself is subject to the limit"})
			}
		}
	})
	c.Count("multi_source_x_limit_cases", multiCases)
	for _, d := range docs {
		total += int64(d.ntok + 3)
	}
	c.Evals += total
	c.Programs = int64(nDocs)
	c.Count("documents", int64(nDocs))
	c.Count("document_x_limit_cases", total)
	c.Exhaustive = true
	c.ExhaustNote = "every limit 0..tokens+2 for every generated document"
	c.Sample(map[string]interface{}{"document": docs[0].text, "tokens": docs[0].ntok})

	// work bound (measurement of the runtime residue): multi-megabyte inputs under small limits
	size := 2 * 1024 * 1024
	if !c.Quick {
		size = 8 * 1024 * 1024
	}
	fams := map[string]string{
		"nest [":        "{a(x:" + strings.Repeat("[", size),
		"nest {a":       strings.Repeat("{a", size/2),
		"token flood":   "{" + strings.Repeat("a ", size/2),
		"comment flood": strings.Repeat("#c\n", size/3),
		"type nest":     "type A{a:" + strings.Repeat("[", size),
	}
	for name, in := range fams {
		for _, l := range []int{1, 10, 1000} {
			for _, op := range []string{"pq", "ps"} {
				var args [][]byte
				if op == "pq" {
					args = [][]byte{[]byte("0"), []byte(strconv.Itoa(l)), []byte(in)}
				} else {
					args = [][]byte{[]byte("0"), []byte(strconv.Itoa(l)), []byte("0"), []byte(in)}
				}
				out := c.Impl(0, op, args...)
				// the parse itself, without the harness plumbing around it (copies of a multi-megabyte
				// argument); the least of three runs, so that a busy machine does not look like work
				el := time.Hour
				for rep := 0; rep < 3; rep++ {
					src := &ast.Source{Name: "big", Input: in}
					t0 := time.Now()
					func() {
						defer func() { _ = recover() }()
						if op == "pq" {
							_, _ = parser.ParseQueryWithTokenLimit(src, l)
						} else {
							_, _ = parser.ParseSchemaWithLimit(src, l)
						}
					}()
					if d := time.Since(t0); d < el {
						el = d
					}
				}
				c.Count("big_inputs_under_limit_measured", 1)
				// work proportional to L: generous constant, independent of the input size (a parse
				// that reads a 2 MiB comment run to its end takes 130 ms here, this one microseconds)
				budget := 40*time.Millisecond + time.Duration(l)*100*time.Microsecond
				if el > budget || !strings.HasPrefix(out, "err") {
					c.ReportOracle("limit-does-not-bound-work", map[string]interface{}{"family": name, "bytes": len(in), "limit": l, "op": op,
						"seconds": el.Seconds(), "budget_seconds": budget.Seconds(), "outcome": out[:min(len(out), 60)]})
				}
			}
		}
	}
	_ = fmt.Sprint
}
