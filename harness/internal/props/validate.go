package props

import (
	"encoding/hex"
	"strconv"
	"strings"

	"github.com/vektah/gqlparser/v2/ast"
	"github.com/vektah/gqlparser/v2/gqlerror"
	"github.com/vektah/gqlparser/v2/parser"
	"github.com/vektah/gqlparser/v2/validator"
	"github.com/vektah/gqlparser/v2/validator/rules"

	"verifharness/internal/core"
)

func init() { core.Ops["val"] = implVal }

// AllRules: the exported rules of validator/rules by name.
var AllRules = map[string]validator.Rule{}
var DefaultRuleNames = []string{
	"FieldsOnCorrectType", "FragmentsOnCompositeTypes", "KnownArgumentNames", "KnownDirectives", "KnownFragmentNames",
	"KnownRootType", "KnownTypeNames", "LoneAnonymousOperation", "MaxIntrospectionDepth", "NoFragmentCycles",
	"NoUndefinedVariables", "NoUnusedFragments", "NoUnusedVariables", "OverlappingFieldsCanBeMerged",
	"PossibleFragmentSpreads", "ProvidedRequiredArguments", "ScalarLeafs", "SingleFieldSubscriptions",
	"UniqueArgumentNames", "UniqueDirectivesPerLocation", "UniqueFragmentNames", "UniqueInputFieldNames",
	"UniqueOperationNames", "UniqueVariableNames", "ValuesOfCorrectType", "VariablesAreInputTypes", "VariablesInAllowedPosition",
}
var NoSuggestRuleNames = []string{"FieldsOnCorrectTypeWithoutSuggestions", "KnownArgumentNamesWithoutSuggestions",
	"KnownTypeNamesWithoutSuggestions", "ValuesOfCorrectTypeWithoutSuggestions"}

// NoSuggestSet: the default list with the four suggestion-free variants in place of their standard rules
var NoSuggestSet string

func init() {
	var ns []string
	for _, n := range DefaultRuleNames {
		switch n {
		case "FieldsOnCorrectType", "KnownArgumentNames", "KnownTypeNames", "ValuesOfCorrectType":
			n += "WithoutSuggestions"
		}
		ns = append(ns, n)
	}
	NoSuggestSet = strings.Join(ns, ",")
}

func init() {
	for _, r := range []validator.Rule{
		rules.FieldsOnCorrectTypeRule, rules.FragmentsOnCompositeTypesRule, rules.KnownArgumentNamesRule, rules.KnownDirectivesRule,
		rules.KnownFragmentNamesRule, rules.KnownRootTypeRule, rules.KnownTypeNamesRule, rules.LoneAnonymousOperationRule,
		rules.MaxIntrospectionDepth, rules.NoFragmentCyclesRule, rules.NoUndefinedVariablesRule, rules.NoUnusedFragmentsRule,
		rules.NoUnusedVariablesRule, rules.OverlappingFieldsCanBeMergedRule, rules.PossibleFragmentSpreadsRule,
		rules.ProvidedRequiredArgumentsRule, rules.ScalarLeafsRule, rules.SingleFieldSubscriptionsRule, rules.UniqueArgumentNamesRule,
		rules.UniqueDirectivesPerLocationRule, rules.UniqueFragmentNamesRule, rules.UniqueInputFieldNamesRule,
		rules.UniqueOperationNamesRule, rules.UniqueVariableNamesRule, rules.ValuesOfCorrectTypeRule, rules.VariablesAreInputTypesRule,
		rules.VariablesInAllowedPositionRule,
		rules.FieldsOnCorrectTypeRuleWithoutSuggestions, rules.KnownArgumentNamesRuleWithoutSuggestions,
		rules.KnownTypeNamesRuleWithoutSuggestions, rules.ValuesOfCorrectTypeRuleWithoutSuggestions,
	} {
		AllRules[r.Name] = r
	}
}

// DumpErrors: rule(line:col,...)[hex of the "Did you mean" suffix]; per error (Coq: Validate.dump_verrs)
func DumpErrors(errs gqlerror.List) string {
	var sb strings.Builder
	for _, e := range errs {
		sb.WriteString(e.Rule + "(")
		for i, l := range e.Locations {
			if i > 0 {
				sb.WriteString(",")
			}
			sb.WriteString(strconv.Itoa(l.Line) + ":" + strconv.Itoa(l.Column))
		}
		sb.WriteString(")[")
		if k := strings.Index(e.Message, " Did you mean"); k >= 0 {
			sb.WriteString(hex.EncodeToString([]byte(e.Message[k:])))
		}
		sb.WriteString("];")
	}
	return sb.String()
}

// an explicit list: never nil, even when no name matches (the empty list "-" runs no rule)
func selectRules(spec string) []validator.Rule {
	out := []validator.Rule{}
	for _, n := range strings.Split(spec, ",") {
		if r, ok := AllRules[n]; ok {
			out = append(out, r)
		}
	}
	return out
}

// args: rules ("*" or names; a leading "~" = validate once before, report the second validation), query, user sources...
func implVal(args [][]byte) string {
	srcs := make([]string, len(args)-2)
	for i, a := range args[2:] {
		srcs[i] = string(a)
	}
	s, err := loadImpl(srcs...)
	if err != nil {
		return "schema-err"
	}
	doc, perr := parser.ParseQuery(&ast.Source{Input: string(args[1])})
	if perr != nil {
		return "query-" + dumpErr(perr)
	}
	var errs gqlerror.List
	rulesArg := string(args[0])
	if strings.HasPrefix(rulesArg, "~") {
		// the same document object validated again: the first validation leaves its annotations
		rulesArg = rulesArg[1:]
		validator.Validate(s, doc)
	}
	if rulesArg == "*" {
		errs = validator.Validate(s, doc)
	} else {
		errs = validator.Validate(s, doc, selectRules(rulesArg)...)
	}
	return "ok " + DumpErrors(errs)
}
