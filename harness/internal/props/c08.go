package props

import (
	"strings"
	"sync"

	"github.com/vektah/gqlparser/v2/ast"

	"verifharness/internal/core"
	"verifharness/internal/gen"
)

func init() { Runners["C08"] = runC08 }

// VCase: one (schema, document) pair with what the generator knows about it.
type VCase struct {
	Srcs   []string
	Query  string
	Expect string // "valid", "invalid", ""
	Fault  string
	Rule   string
}

// GenValidationCases: typed valid documents, the same with 1-3 injected faults, type-blind documents.
func GenValidationCases(c *core.Ctx, nSchemas, perSchema int, feats map[string]int) []VCase {
	var out []VCase
	for i := 0; i < nSchemas; i++ {
		gs := gen.NewSchema(gen.New(c.Rng.U64()))
		srcs := []string{gs.Text()}
		s, err := loadImpl(srcs...)
		if err != nil {
			continue
		}
		for k := 0; k < perSchema; k++ {
			tg := &gen.TGen{R: c.Rng, S: s, Feat: feats}
			doc := tg.Doc()
			out = append(out, VCase{srcs, gen.PrintDoc(doc), "valid", "", ""})
			// the same document with 1-3 faults
			nf := 1 + c.Rng.Intn(3)
			var names, rls []string
			tg2 := &gen.TGen{R: c.Rng, S: s}
			d2 := tg2.Doc()
			for j := 0; j < nf; j++ {
				f := gen.Pick(c.Rng, gen.DocFaults)
				if f.Apply(tg2, d2) {
					names = append(names, f.Name)
					rls = append(rls, f.Rule)
				}
			}
			if len(names) > 0 {
				out = append(out, VCase{srcs, gen.PrintDoc(d2), "invalid", strings.Join(names, "+"), strings.Join(rls, "+")})
			}
			// type-blind document over arbitrary names
			g := &gen.QGen{R: c.Rng, MaxDepth: 2}
			g.Doc()
			out = append(out, VCase{srcs, gen.Render(c.Rng, g.Toks, 0), "", "", ""})
		}
	}
	return out
}

func valArgs(rules string, k VCase) [][]byte {
	args := [][]byte{[]byte(rules), []byte(k.Query)}
	for _, s := range k.Srcs {
		args = append(args, []byte(s))
	}
	return args
}

func runC08(c *core.Ctx) {
	const thm = "C08_* (props/C08.v); model op val = Ops.dump_validate_with"
	c.ReplayKnown()
	nSchemas, per := 40, 25
	if !c.Quick {
		nSchemas, per = 400, 50
	}
	feats := map[string]int{}
	cases := GenValidationCases(c, nSchemas, per, feats)
	for k, v := range feats {
		c.Count("feature_"+k, int64(v))
	}
	var mu sync.Mutex
	ruleHits := map[string]int64{}
	faultHits := map[string]int64{}
	c.Pool.ParFor(len(cases), func(w, i int) {
		k := cases[i]
		args := valArgs("*", k)
		impl := c.Impl(w, "val", args...)
		v, cur, none := c.Tie(w, "val", impl, args...)
		if v == core.Violation {
			c.Report(w, "val", thm, args, impl, cur, none)
		}
		valid := impl == "ok "
		if k.Expect == "valid" && !valid && !c.Explained(w, "val", impl, args...) {
			c.ReportOracle("valid-document-rejected", map[string]interface{}{"op": "val", "args": hexArgs(args), "schema": k.Srcs, "query": k.Query, "implementation": impl})
		}
		if k.Expect == "invalid" {
			missing := ""
			// a single fault must be reported by its rule; several faults may mask one another
			if rs := strings.Split(k.Rule, "+"); len(rs) == 1 && !strings.Contains(impl, rs[0]+"(") {
				missing = rs[0]
			}
			if (valid || missing != "") && !c.Explained(w, "val", impl, args...) {
				c.ReportOracle("rule-violation-not-reported", map[string]interface{}{"op": "val", "args": hexArgs(args), "schema": k.Srcs, "query": k.Query,
					"faults": k.Fault, "expected_rule": missing, "implementation": impl})
			}
		}
		mu.Lock()
		for _, e := range strings.Split(strings.TrimPrefix(impl, "ok "), ";") {
			if j := strings.Index(e, "("); j > 0 {
				ruleHits[e[:j]]++
			}
		}
		if k.Fault != "" {
			for _, f := range strings.Split(k.Fault, "+") {
				faultHits[f]++
			}
		}
		mu.Unlock()
		c.Seen(k.Expect != "", []byte(k.Query), []byte(k.Srcs[0]))
	})
	for r, n := range ruleHits {
		c.Count("errors_of_rule_"+r, n)
	}
	for f, n := range faultHits {
		c.Count("fault_"+f, n)
	}
	c.Evals += int64(len(cases))
	c.Programs = int64(len(cases))
	c.Count("pairs", int64(len(cases)))
	for i := 0; i < 3 && i < len(cases); i++ {
		c.Sample(map[string]interface{}{"expect": cases[i].Expect, "fault": cases[i].Fault, "query": cases[i].Query, "schema_head": cases[i].Srcs[0][:min(300, len(cases[i].Srcs[0]))]})
	}
	_ = ast.Query
}
