package props

import (
	"fmt"
	"strings"
	"sync"
	"sync/atomic"

	"github.com/vektah/gqlparser/v2/ast"
	"github.com/vektah/gqlparser/v2/parser"
	"github.com/vektah/gqlparser/v2/validator"

	"verifharness/internal/core"
	"verifharness/internal/gen"
)

func init() { Runners["C08"] = runC08 }

// VCase: one (schema, document) pair with what the generator knows about it.
type VCase struct {
	Srcs   []string
	Query  string
	Expect string // "valid", "invalid", ""
	Fault  string
	Rule   string
	Tag    string // family bookkeeping ("pair": an ordered pair of the small-scope family)
	// ImplOnly: compared by implementation-side oracles only (documents of a size the extracted
	// model, a specification and not an algorithm, answers in seconds per rule list)
	ImplOnly bool
}

// GenValidationCases: typed valid documents, the same with 1-3 injected faults, type-blind documents.
func GenValidationCases(c *core.Ctx, nSchemas, perSchema int, feats map[string]int) []VCase {
	var out []VCase
	for i := 0; i < nSchemas; i++ {
		gs := gen.NewSchema(gen.New(c.Rng.U64()))
		srcs := []string{gs.Text()}
		s, err := loadImpl(srcs...)
		if err != nil {
			continue
		}
		for k := 0; k < perSchema; k++ {
			tg := &gen.TGen{R: c.Rng, S: s, Feat: feats}
			doc := tg.Doc()
			out = append(out, VCase{Srcs: srcs, Query: gen.PrintDoc(doc), Expect: "valid"})
			// the same document with 1-3 faults
			nf := 1 + c.Rng.Intn(3)
			var names, rls []string
			tg2 := &gen.TGen{R: c.Rng, S: s}
			d2 := tg2.Doc()
			for j := 0; j < nf; j++ {
				f := gen.Pick(c.Rng, gen.DocFaults)
				if f.Apply(tg2, d2) {
					names = append(names, f.Name)
					rls = append(rls, f.Rule)
				}
			}
			if len(names) > 0 {
				out = append(out, VCase{Srcs: srcs, Query: gen.PrintDoc(d2), Expect: "invalid", Fault: strings.Join(names, "+"), Rule: strings.Join(rls, "+")})
			}
			// type-blind document over arbitrary names
			g := &gen.QGen{R: c.Rng, MaxDepth: 2}
			g.Doc()
			out = append(out, VCase{Srcs: srcs, Query: gen.Render(c.Rng, g.Toks, 0)})
		}
	}
	return out
}

const overlapSchema = `interface Pet { name: String nick: String owner: Human friends: [Pet] }
type Dog implements Pet { name: String nick: String owner: Human friends: [Pet] barks: Boolean tag: Int }
type Cat implements Pet { name: String nick: String owner: Human friends: [Pet] meows: Boolean tag: String }
type Human { name: String nick: String pet: Pet pets: [Pet] age: Int }
type Query { pet: Pet human: Human dog: Dog cat: Cat }`

// OverlapStress: documents whose fragments reuse a few response keys for different fields, spread
// under exclusive parents (... on Dog / ... on Cat) and together; exercises the pair-scheduling
// and its memo tables of OverlappingFieldsCanBeMerged in many orders.
func OverlapStress(r *gen.Rng, n int) []VCase {
	var out []VCase
	keys := []string{"x", "y"}
	leaf := map[string][]string{"Pet": {"name", "nick"}, "Dog": {"name", "nick", "barks", "tag"}, "Cat": {"name", "nick", "meows", "tag"}, "Human": {"name", "nick", "age"}}
	comp := map[string][][2]string{"Pet": {{"owner", "Human"}, {"friends", "Pet"}}, "Dog": {{"owner", "Human"}, {"friends", "Pet"}}, "Cat": {{"owner", "Human"}, {"friends", "Pet"}}, "Human": {{"pet", "Pet"}, {"pets", "Pet"}}}
	for i := 0; i < n; i++ {
		nf := 2 + r.Intn(3)
		// one document in four lets fragments spread any fragment: cycles (invalid, but every
		// rule must still terminate on them)
		cyclic := r.Chance(1, 4)
		fragType := make([]string, nf)
		for j := range fragType {
			fragType[j] = gen.Pick(r, []string{"Human", "Human", "Human", "Pet", "Dog", "Cat"})
		}
		var sel func(t string, depth int, from int) string
		sel = func(t string, depth int, from int) string {
			var sb strings.Builder
			sb.WriteString("{ ")
			m := 1 + r.Intn(4)
			for k := 0; k < m; k++ {
				switch c := r.Intn(9); {
				case c <= 1:
					sb.WriteString(gen.Pick(r, keys) + ": " + gen.Pick(r, leaf[t]) + " ")
				case (c == 2 || c == 3) && depth > 0:
					cf := gen.Pick(r, comp[t])
					sb.WriteString(gen.Pick(r, []string{"o", "p"}) + ": " + cf[0] + " " + sel(cf[1], depth-1, from) + " ")
				case (c == 4 || c == 5) && depth > 0 && (t == "Pet"):
					sub := gen.Pick(r, []string{"Dog", "Cat"})
					sb.WriteString("... on " + sub + " " + sel(sub, depth-1, from) + " ")
				default:
					// spread a later fragment of a compatible type
					var cands []int
					for j := from; j < nf; j++ {
						ft := fragType[j]
						if ft == t || (t == "Pet" && (ft == "Dog" || ft == "Cat")) || ((t == "Dog" || t == "Cat") && ft == "Pet") {
							cands = append(cands, j)
						}
					}
					if len(cands) > 0 {
						sb.WriteString("...F" + itoa(gen.Pick(r, cands)) + " ")
					} else {
						sb.WriteString(gen.Pick(r, keys) + ": " + gen.Pick(r, leaf[t]) + " ")
					}
				}
			}
			sb.WriteString("}")
			return sb.String()
		}
		var sb strings.Builder
		root := gen.Pick(r, [][2]string{{"pet", "Pet"}, {"human", "Human"}, {"dog", "Dog"}})
		sb.WriteString("{ " + root[0] + " " + sel(root[1], 3, 0) + " ")
		if r.Bool() {
			root2 := gen.Pick(r, [][2]string{{"pet", "Pet"}, {"human", "Human"}, {"cat", "Cat"}})
			sb.WriteString("q2: " + root2[0] + " " + sel(root2[1], 3, 0) + " ")
		}
		sb.WriteString("}")
		for j := 0; j < nf; j++ {
			sb.WriteString(" fragment F" + itoa(j) + " on " + fragType[j] + " " + sel(fragType[j], 2, map[bool]int{false: j + 1, true: 0}[cyclic]))
		}
		out = append(out, VCase{Srcs: []string{overlapSchema}, Query: sb.String()})
	}
	return out
}

// DupStress: documents in which one rule has several things to report at once — several distinct
// names each defined twice or more, several unknown names, several unused or undefined things —
// in varying order. The order and number of the errors is part of the result.
func DupStress(r *gen.Rng, n int) []VCase {
	schema := []string{"type Query { f(x: Int, y: Int, z: Int, in: In): Int g: Query h(e: E): Int } input In { a: Int b: Int c: Int n: In } enum E { A B } directive @d(a: Int) repeatable on FIELD directive @once on FIELD | QUERY"}
	names := []string{"a", "b", "c", "dd", "e1"}
	perm := func(k int) []string {
		var out []string
		for i := 0; i < k; i++ {
			out = append(out, gen.Pick(r, names))
		}
		return out
	}
	var out []VCase
	for i := 0; i < n; i++ {
		var q string
		switch i % 9 {
		case 0: // variables
			var defs, uses []string
			for _, v := range perm(2 + r.Intn(5)) {
				defs = append(defs, "$"+v+": Int")
				uses = append(uses, "$"+v)
			}
			q = "query Q(" + strings.Join(defs, ", ") + ") { f(x: " + gen.Pick(r, uses) + ") u: f(y: $" + gen.Pick(r, names) + ") }"
		case 1: // arguments
			var as []string
			for _, a := range perm(2 + r.Intn(5)) {
				as = append(as, map[string]string{"a": "x", "b": "y", "c": "z", "dd": "x", "e1": "nope"}[a]+": 1")
			}
			q = "{ f(" + strings.Join(as, ", ") + ") @d(" + strings.Join(as, ", ") + ") }"
		case 2: // input fields, nested
			var fs []string
			for _, a := range perm(2 + r.Intn(5)) {
				fs = append(fs, a+": 1")
			}
			q = "{ f(in: {" + strings.Join(fs, ", ") + ", n: {" + strings.Join(fs, ", ") + "}}) }"
		case 3: // operation names
			var ops []string
			for _, a := range perm(2 + r.Intn(4)) {
				ops = append(ops, gen.Pick(r, []string{"query ", "query ", "mutation ", "subscription "})+a+" { g { f } }")
			}
			q = strings.Join(ops, " ")
		case 4: // fragment names, used and unused
			var fr, sp []string
			for _, a := range perm(2 + r.Intn(4)) {
				fr = append(fr, "fragment "+a+" on Query { f }")
				if r.Bool() {
					sp = append(sp, "..."+a)
				}
			}
			q = "{ g { f " + strings.Join(sp, " ") + " ..." + gen.Pick(r, names) + " } } " + strings.Join(fr, " ")
		case 5: // directives per location
			var ds []string
			for _, a := range perm(2 + r.Intn(5)) {
				ds = append(ds, map[string]string{"a": "@once", "b": "@skip(if: false)", "c": "@include(if: true)", "dd": "@d", "e1": "@nope"}[a])
			}
			q = "query Q " + strings.Join(ds, " ") + " { f " + strings.Join(ds, " ") + " }"
		case 6: // unknown types and fields with several candidates
			var vs []string
			for j, a := range perm(2 + r.Intn(3)) {
				vs = append(vs, "$v"+itoa(j)+": "+strings.ToUpper(a)+"x")
			}
			q = "query Q(" + strings.Join(vs, ", ") + ") { " + gen.Pick(r, names) + " " + gen.Pick(r, names) + "x ff gg h(e: " + strings.ToUpper(gen.Pick(r, names)) + ") ... on " + strings.ToUpper(gen.Pick(r, names)) + " { f } }"
		case 7: // unused and undefined variables over fragments
			var defs []string
			for _, v := range perm(2 + r.Intn(4)) {
				defs = append(defs, "$"+v+": Int")
			}
			q = "query Q(" + strings.Join(defs, ", ") + ") { ...F f(x: $" + gen.Pick(r, names) + ") } query R { ...F } fragment F on Query { f(y: $" + gen.Pick(r, names) + ", z: $" + gen.Pick(r, names) + ") }"
		default: // fragment cycles through several fragments
			k := 2 + r.Intn(3)
			var fr []string
			for j := 0; j < k; j++ {
				fr = append(fr, "fragment C"+itoa(j)+" on Query { f ...C"+itoa(r.Intn(k))+" ...C"+itoa(r.Intn(k))+" }")
			}
			q = "{ ...C0 ...C" + itoa(r.Intn(k)) + " } " + strings.Join(fr, " ")
		}
		out = append(out, VCase{Srcs: schema, Query: q})
	}
	return out
}

// TypeMatrix: a small complete cross product for the two rules that compare a value or a variable
// with the type of its position: every literal shape against every argument type, and every
// variable type (without default, with a null default, with a value default) used at every
// argument type (with and without a default of the argument), directly and inside a list or an
// input object.
func TypeMatrix() []VCase { return typeMatrix(false) }

// TypeMatrixLiterals: the literal half only, for a few position types (used where every case is
// validated many times over).
func TypeMatrixLiterals() []VCase { return typeMatrix(true) }

func typeMatrix(literalsOnly bool) []VCase {
	types := []string{"Int", "Int!", "[Int]", "[Int!]", "[Int]!", "[Int!]!", "[[Int]]", "[[Int!]!]!", "[[Int]!]", "String", "String!", "Boolean!",
		"Float!", "ID!", "E", "E!", "[E!]", "Custom", "Custom!", "[Custom!]!", "In", "In!", "[In!]", "One", "One!", "[One!]"}
	okLit := map[string]string{"Int": "1", "String": "\"s\"", "Boolean": "true", "Float": "1.5", "ID": "\"i\"", "E": "A", "Custom": "1", "In": "{r: 1, c: 1}", "One": "{a: 1}"}
	lit := func(t string) string {
		base := strings.Trim(t, "[]!")
		depth := strings.Count(t, "[")
		return strings.Repeat("[", depth) + okLit[base] + strings.Repeat("]", depth)
	}
	lits := []string{"null", "1", "-0", "2147483648", "1.5", "\"s\"", "true", "A", "C", "[]", "[null]", "[1]", "[1, null]", "[[1]]", "[[null]]", "[[1], null]",
		"[\"x\"]", "[[\"x\"]]", "{}", "{r: 1, c: 1}", "{r: null, c: 1}", "{r: 1, c: null}", "{r: 1, c: 1, d: null}", "{r: 1, c: 1, o: null, l: [1, null]}",
		"{r: 1, c: 1, n: {r: 2}}", "{r: 1, c: 1, m: [{r: 1, c: 2}, null]}", "{r: 1, c: 1, zz: 1}", "[{r: 1, c: 1}]", "[A, null]", "[null, [1]]",
		// numbers no machine type holds, alone and nested
		"99999999999999999999", "-99999999999999999999", "1e999", "-1e999", "[99999999999999999999]", "[1e999, 1]", "{r: 99999999999999999999, c: 1e999}",
		"{r: 1, c: {deep: [1e999]}}", "{a: 99999999999999999999}",
		// exactly-one-of input objects
		"{a: 1}", "{a: null}", "{b: \"x\"}", "{a: 1, b: \"x\"}", "{a: 1, b: null}", "{nope: null}", "{nope: 1}", "{a: 1, nope: null}", "{a: $v}", "[{a: 1}, {nope: null}]",
		// object literals where no fields are declared (custom scalars): keys, duplicates and variables inside
		"{k: 1, k: 2}", "{k: {j: 1, j: 2}}", "{k: $v}", "{k: [$v, {j: $w}]}"}
	var sb strings.Builder
	sb.WriteString("scalar Custom\nenum E { A B }\ninput In { r: Int! o: Int l: [Int!] c: Custom! d: Int! = 1 n: In m: [In!] }\ninput One @oneOf { a: Int b: String }\ntype Query {\n")
	for k, t := range types {
		sb.WriteString("  f" + itoa(k) + "(a: " + t + "): Int\n  g" + itoa(k) + "(a: " + t + " = " + lit(t) + "): Int\n")
	}
	sb.WriteString("}\ndirective @dv(a: [Int!]!, c: Custom!) on FIELD\n")
	schema := []string{sb.String()}
	var out []VCase
	add := func(q string) { out = append(out, VCase{Srcs: schema, Query: q}) }
	for k, t := range types {
		if literalsOnly && !(t == "Int!" || t == "Float!" || t == "ID!" || t == "Custom!" || t == "In!" || t == "[Int!]!" || t == "One!" || t == "E!") {
			continue
		}
		for _, l := range lits {
			add("{ f" + itoa(k) + "(a: " + l + ") }")
			if strings.Contains(l, "$") {
				add("query Q($v: Int, $w: Int, $unused: Int) { f" + itoa(k) + "(a: " + l + ") }")
			}
		}
	}
	if literalsOnly {
		return out
	}
	for _, l := range lits {
		add("{ f0 @dv(a: " + l + ", c: 1) }")
		add("{ f0 @dv(a: [1], c: " + l + ") }")
		add("query Q($v: [Int!]! = " + l + ", $c: Custom! = " + l + ") { f5(a: $v) f18(a: $c) }")
	}
	for _, v := range types {
		for _, d := range []string{"", " = null", " = " + lit(v)} {
			for k, p := range types {
				add("query Q($v: " + v + d + ") { f" + itoa(k) + "(a: $v) }")
				add("query Q($v: " + v + d + ") { g" + itoa(k) + "(a: $v) }")
				if strings.HasPrefix(p, "[") {
					add("query Q($v: " + v + d + ") { f" + itoa(k) + "(a: [$v]) }")
				}
			}
			add("query Q($v: " + v + d + ") { f21(a: {r: $v, c: $v}) }")
			add("query Q($v: " + v + d + ") { f21(a: {r: 1, c: 1, l: $v, d: $v, m: $v}) }")
			add("query Q($v: " + v + d + ") { f0 @dv(a: $v, c: $v) }")
			add("query Q($v: " + v + d + ") { ...F } fragment F on Query { f5(a: $v) f2(a: [$v]) }")
		}
	}
	return out
}

func valArgs(rules string, k VCase) [][]byte {
	args := [][]byte{[]byte(rules), []byte(k.Query)}
	for _, s := range k.Srcs {
		args = append(args, []byte(s))
	}
	return args
}

func runC08(c *core.Ctx) {
	const thm = "C08_* (props/C08.v); model op val = Ops.dump_validate_with"
	c.ReplayKnown()
	nSchemas, per := 250, 30
	if !c.Quick {
		nSchemas, per = 3000, 50
	}
	feats := map[string]int{}
	cases := GenValidationCases(c, nSchemas, per, feats)
	nStress := 8000
	if !c.Quick {
		nStress = 60000
	}
	cases = append(cases, OverlapStress(c.Rng, nStress)...)
	c.Count("overlap_stress_documents", int64(nStress))
	nDup := 4000
	if !c.Quick {
		nDup = 40000
	}
	cases = append(cases, DupStress(c.Rng, nDup)...)
	c.Count("several_errors_of_one_rule_documents", int64(nDup))
	tm := TypeMatrix()
	cases = append(cases, tm...)
	c.Count("type_matrix_documents", int64(len(tm)))
	stride := 150
	if !c.Quick {
		stride = 8
	}
	ss := SmallScope(stride)
	cases = append(cases, ss...)
	c.Count("small_scope_documents", int64(len(ss)))
	c.Count("small_scope_atoms", int64(len(smallScopeAtoms)))
	sc := ScaleDocsUpTo(101, 256)
	if !c.Quick {
		sc = ScaleDocsUpTo(129, 256)
	}
	cases = append(append([]VCase{}, sc...), cases...) // the slow ones first
	c.Count("scale_documents", int64(len(sc)))
	idd := IntrospectionDepthDocs()
	cases = append(cases, idd...)
	c.Count("introspection_depth_documents", int64(len(idd)))
	for k, v := range feats {
		c.Count("feature_"+k, int64(v))
	}
	var mu sync.Mutex
	ruleHits := map[string]int64{}
	faultHits := map[string]int64{}
	c.Pool.ParFor(len(cases), func(w, i int) {
		k := cases[i]
		args := valArgs("*", k)
		impl := c.Impl(w, "val", args...)
		v, cur, none := c.Tie(w, "val", impl, args...)
		if v == core.Violation {
			c.Report(w, "val", thm, args, impl, cur, none)
		}
		valid := impl == "ok "
		if k.Expect == "valid" && !valid && !c.Explained(w, "val", impl, args...) {
			c.ReportOracle("valid-document-rejected", map[string]interface{}{"op": "val", "args": hexArgs(args), "schema": k.Srcs, "query": k.Query, "implementation": impl})
		}
		if k.Expect == "invalid" {
			missing := ""
			// a single fault must be reported by its rule; several faults may mask one another
			// (or cancel: leaf-with-selection then composite-without-selection restores the document)
			rs := strings.Split(k.Rule, "+")
			if len(rs) == 1 && !strings.Contains(impl, rs[0]+"(") {
				missing = rs[0]
			}
			if len(rs) == 1 && (valid || missing != "") && !c.Explained(w, "val", impl, args...) {
				c.ReportOracle("rule-violation-not-reported", map[string]interface{}{"op": "val", "args": hexArgs(args), "schema": k.Srcs, "query": k.Query,
					"faults": k.Fault, "expected_rule": missing, "implementation": impl})
			}
		}
		mu.Lock()
		for _, e := range strings.Split(strings.TrimPrefix(impl, "ok "), ";") {
			if j := strings.Index(e, "("); j > 0 {
				ruleHits[e[:j]]++
			}
		}
		if k.Fault != "" {
			for _, f := range strings.Split(k.Fault, "+") {
				faultHits[f]++
			}
		}
		mu.Unlock()
		c.Seen(k.Expect != "", []byte(k.Query), []byte(k.Srcs[0]))
	})
	// the same parsed document validated against one schema and then against another: the second
	// result is the result for the second schema (nothing of the first validation may survive in
	// the document). Documents with fragment cycles are left out (F-D2).
	schemaOf := map[string]*ast.Schema{}
	var texts []string
	for _, k := range cases {
		if _, ok := schemaOf[k.Srcs[0]]; !ok {
			if sc, err := loadImpl(k.Srcs...); err == nil {
				schemaOf[k.Srcs[0]] = sc
				texts = append(texts, k.Srcs[0])
			} else {
				schemaOf[k.Srcs[0]] = nil
			}
		}
	}
	var nTwo int64
	c.Pool.ParFor(len(cases), func(w, i int) {
		k := cases[i]
		if i%3 != 0 || len(texts) < 2 {
			return
		}
		other := texts[(i/3)%len(texts)]
		if other == k.Srcs[0] {
			other = texts[(i/3+1)%len(texts)]
		}
		sA, sB := schemaOf[other], schemaOf[k.Srcs[0]]
		if sA == nil || sB == nil {
			return
		}
		doc, perr := parser.ParseQuery(&ast.Source{Input: k.Query})
		if perr != nil {
			return
		}
		func() {
			defer func() { _ = recover() }()
			validator.Validate(sA, doc)
			second := DumpErrors(validator.Validate(sB, doc))
			fresh, _ := parser.ParseQuery(&ast.Source{Input: k.Query})
			want := DumpErrors(validator.Validate(sB, fresh))
			atomic.AddInt64(&nTwo, 1)
			if second != want && !strings.Contains(want, "NoFragmentCycles") {
				c.ReportOracle("validation-depends-on-an-earlier-schema", map[string]interface{}{"query": k.Query, "first_schema": other, "second_schema": k.Srcs[0],
					"after_the_other_schema": second, "fresh_document": want})
			}
		}()
	})
	// the public entry points on every second case
	var nEntry int64
	c.Pool.ParFor(len(cases), func(w, i int) {
		k := cases[i]
		if i%2 != 0 || schemaOf[k.Srcs[0]] == nil || len(k.Query) > 20000 {
			return
		}
		atomic.AddInt64(&nEntry, 1)
		func() {
			defer func() {
				if r := recover(); r != nil {
					c.ReportOracle("entry-point-panic", map[string]interface{}{"schema": k.Srcs, "query": k.Query[:min(400, len(k.Query))], "panic": fmt.Sprint(r)})
				}
			}()
			if m := queryEntryProblem(schemaOf[k.Srcs[0]], k.Query); m != "" {
				c.ReportOracle("entry-point-differs", map[string]interface{}{"schema": k.Srcs, "query": k.Query[:min(400, len(k.Query))], "problem": m})
			}
		}()
	})
	c.Count("documents_through_LoadQuery_and_MustLoadQuery", nEntry)
	c.Count("documents_validated_against_two_schemas", nTwo)
	for r, n := range ruleHits {
		c.Count("errors_of_rule_"+r, n)
	}
	for f, n := range faultHits {
		c.Count("fault_"+f, n)
	}
	c.Evals += int64(len(cases))
	c.Programs = int64(len(cases))
	c.Count("pairs", int64(len(cases)))
	for i := 0; i < 3 && i < len(cases); i++ {
		c.Sample(map[string]interface{}{"expect": cases[i].Expect, "fault": cases[i].Fault, "query": cases[i].Query, "schema_head": cases[i].Srcs[0][:min(300, len(cases[i].Srcs[0]))]})
	}
	_ = ast.Query
}
