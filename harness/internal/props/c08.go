package props

import (
	"strings"
	"sync"

	"github.com/vektah/gqlparser/v2/ast"

	"verifharness/internal/core"
	"verifharness/internal/gen"
)

func init() { Runners["C08"] = runC08 }

// VCase: one (schema, document) pair with what the generator knows about it.
type VCase struct {
	Srcs   []string
	Query  string
	Expect string // "valid", "invalid", ""
	Fault  string
	Rule   string
}

// GenValidationCases: typed valid documents, the same with 1-3 injected faults, type-blind documents.
func GenValidationCases(c *core.Ctx, nSchemas, perSchema int, feats map[string]int) []VCase {
	var out []VCase
	for i := 0; i < nSchemas; i++ {
		gs := gen.NewSchema(gen.New(c.Rng.U64()))
		srcs := []string{gs.Text()}
		s, err := loadImpl(srcs...)
		if err != nil {
			continue
		}
		for k := 0; k < perSchema; k++ {
			tg := &gen.TGen{R: c.Rng, S: s, Feat: feats}
			doc := tg.Doc()
			out = append(out, VCase{srcs, gen.PrintDoc(doc), "valid", "", ""})
			// the same document with 1-3 faults
			nf := 1 + c.Rng.Intn(3)
			var names, rls []string
			tg2 := &gen.TGen{R: c.Rng, S: s}
			d2 := tg2.Doc()
			for j := 0; j < nf; j++ {
				f := gen.Pick(c.Rng, gen.DocFaults)
				if f.Apply(tg2, d2) {
					names = append(names, f.Name)
					rls = append(rls, f.Rule)
				}
			}
			if len(names) > 0 {
				out = append(out, VCase{srcs, gen.PrintDoc(d2), "invalid", strings.Join(names, "+"), strings.Join(rls, "+")})
			}
			// type-blind document over arbitrary names
			g := &gen.QGen{R: c.Rng, MaxDepth: 2}
			g.Doc()
			out = append(out, VCase{srcs, gen.Render(c.Rng, g.Toks, 0), "", "", ""})
		}
	}
	return out
}

const overlapSchema = `interface Pet { name: String nick: String owner: Human friends: [Pet] }
type Dog implements Pet { name: String nick: String owner: Human friends: [Pet] barks: Boolean tag: Int }
type Cat implements Pet { name: String nick: String owner: Human friends: [Pet] meows: Boolean tag: String }
type Human { name: String nick: String pet: Pet pets: [Pet] age: Int }
type Query { pet: Pet human: Human dog: Dog cat: Cat }`

// OverlapStress: documents whose fragments reuse a few response keys for different fields, spread
// under exclusive parents (... on Dog / ... on Cat) and together; exercises the pair-scheduling
// and its memo tables of OverlappingFieldsCanBeMerged in many orders.
func OverlapStress(r *gen.Rng, n int) []VCase {
	var out []VCase
	keys := []string{"x", "y"}
	leaf := map[string][]string{"Pet": {"name", "nick"}, "Dog": {"name", "nick", "barks", "tag"}, "Cat": {"name", "nick", "meows", "tag"}, "Human": {"name", "nick", "age"}}
	comp := map[string][][2]string{"Pet": {{"owner", "Human"}, {"friends", "Pet"}}, "Dog": {{"owner", "Human"}, {"friends", "Pet"}}, "Cat": {{"owner", "Human"}, {"friends", "Pet"}}, "Human": {{"pet", "Pet"}, {"pets", "Pet"}}}
	for i := 0; i < n; i++ {
		nf := 2 + r.Intn(3)
		// one document in four lets fragments spread any fragment: cycles (invalid, but every
		// rule must still terminate on them)
		cyclic := r.Chance(1, 4)
		fragType := make([]string, nf)
		for j := range fragType {
			fragType[j] = gen.Pick(r, []string{"Human", "Human", "Human", "Pet", "Dog", "Cat"})
		}
		var sel func(t string, depth int, from int) string
		sel = func(t string, depth int, from int) string {
			var sb strings.Builder
			sb.WriteString("{ ")
			m := 1 + r.Intn(4)
			for k := 0; k < m; k++ {
				switch c := r.Intn(9); {
				case c <= 1:
					sb.WriteString(gen.Pick(r, keys) + ": " + gen.Pick(r, leaf[t]) + " ")
				case (c == 2 || c == 3) && depth > 0:
					cf := gen.Pick(r, comp[t])
					sb.WriteString(gen.Pick(r, []string{"o", "p"}) + ": " + cf[0] + " " + sel(cf[1], depth-1, from) + " ")
				case (c == 4 || c == 5) && depth > 0 && (t == "Pet"):
					sub := gen.Pick(r, []string{"Dog", "Cat"})
					sb.WriteString("... on " + sub + " " + sel(sub, depth-1, from) + " ")
				default:
					// spread a later fragment of a compatible type
					var cands []int
					for j := from; j < nf; j++ {
						ft := fragType[j]
						if ft == t || (t == "Pet" && (ft == "Dog" || ft == "Cat")) || ((t == "Dog" || t == "Cat") && ft == "Pet") {
							cands = append(cands, j)
						}
					}
					if len(cands) > 0 {
						sb.WriteString("...F" + itoa(gen.Pick(r, cands)) + " ")
					} else {
						sb.WriteString(gen.Pick(r, keys) + ": " + gen.Pick(r, leaf[t]) + " ")
					}
				}
			}
			sb.WriteString("}")
			return sb.String()
		}
		var sb strings.Builder
		root := gen.Pick(r, [][2]string{{"pet", "Pet"}, {"human", "Human"}, {"dog", "Dog"}})
		sb.WriteString("{ " + root[0] + " " + sel(root[1], 3, 0) + " ")
		if r.Bool() {
			root2 := gen.Pick(r, [][2]string{{"pet", "Pet"}, {"human", "Human"}, {"cat", "Cat"}})
			sb.WriteString("q2: " + root2[0] + " " + sel(root2[1], 3, 0) + " ")
		}
		sb.WriteString("}")
		for j := 0; j < nf; j++ {
			sb.WriteString(" fragment F" + itoa(j) + " on " + fragType[j] + " " + sel(fragType[j], 2, map[bool]int{false: j + 1, true: 0}[cyclic]))
		}
		out = append(out, VCase{Srcs: []string{overlapSchema}, Query: sb.String()})
	}
	return out
}

func valArgs(rules string, k VCase) [][]byte {
	args := [][]byte{[]byte(rules), []byte(k.Query)}
	for _, s := range k.Srcs {
		args = append(args, []byte(s))
	}
	return args
}

func runC08(c *core.Ctx) {
	const thm = "C08_* (props/C08.v); model op val = Ops.dump_validate_with"
	c.ReplayKnown()
	nSchemas, per := 250, 30
	if !c.Quick {
		nSchemas, per = 3000, 50
	}
	feats := map[string]int{}
	cases := GenValidationCases(c, nSchemas, per, feats)
	nStress := 8000
	if !c.Quick {
		nStress = 60000
	}
	cases = append(cases, OverlapStress(c.Rng, nStress)...)
	c.Count("overlap_stress_documents", int64(nStress))
	for k, v := range feats {
		c.Count("feature_"+k, int64(v))
	}
	var mu sync.Mutex
	ruleHits := map[string]int64{}
	faultHits := map[string]int64{}
	c.Pool.ParFor(len(cases), func(w, i int) {
		k := cases[i]
		args := valArgs("*", k)
		impl := c.Impl(w, "val", args...)
		v, cur, none := c.Tie(w, "val", impl, args...)
		if v == core.Violation {
			c.Report(w, "val", thm, args, impl, cur, none)
		}
		valid := impl == "ok "
		if k.Expect == "valid" && !valid && !c.Explained(w, "val", impl, args...) {
			c.ReportOracle("valid-document-rejected", map[string]interface{}{"op": "val", "args": hexArgs(args), "schema": k.Srcs, "query": k.Query, "implementation": impl})
		}
		if k.Expect == "invalid" {
			missing := ""
			// a single fault must be reported by its rule; several faults may mask one another
			// (or cancel: leaf-with-selection then composite-without-selection restores the document)
			rs := strings.Split(k.Rule, "+")
			if len(rs) == 1 && !strings.Contains(impl, rs[0]+"(") {
				missing = rs[0]
			}
			if len(rs) == 1 && (valid || missing != "") && !c.Explained(w, "val", impl, args...) {
				c.ReportOracle("rule-violation-not-reported", map[string]interface{}{"op": "val", "args": hexArgs(args), "schema": k.Srcs, "query": k.Query,
					"faults": k.Fault, "expected_rule": missing, "implementation": impl})
			}
		}
		mu.Lock()
		for _, e := range strings.Split(strings.TrimPrefix(impl, "ok "), ";") {
			if j := strings.Index(e, "("); j > 0 {
				ruleHits[e[:j]]++
			}
		}
		if k.Fault != "" {
			for _, f := range strings.Split(k.Fault, "+") {
				faultHits[f]++
			}
		}
		mu.Unlock()
		c.Seen(k.Expect != "", []byte(k.Query), []byte(k.Srcs[0]))
	})
	for r, n := range ruleHits {
		c.Count("errors_of_rule_"+r, n)
	}
	for f, n := range faultHits {
		c.Count("fault_"+f, n)
	}
	c.Evals += int64(len(cases))
	c.Programs = int64(len(cases))
	c.Count("pairs", int64(len(cases)))
	for i := 0; i < 3 && i < len(cases); i++ {
		c.Sample(map[string]interface{}{"expect": cases[i].Expect, "fault": cases[i].Fault, "query": cases[i].Query, "schema_head": cases[i].Srcs[0][:min(300, len(cases[i].Srcs[0]))]})
	}
	_ = ast.Query
}
