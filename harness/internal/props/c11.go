package props

import (
	"bytes"
	"crypto/sha1"
	"encoding/hex"
	"fmt"
	"os"
	"os/exec"
	"path/filepath"
	"reflect"
	"sort"
	"strings"
	"sync"

	"github.com/vektah/gqlparser/v2/ast"
	"github.com/vektah/gqlparser/v2/formatter"
	"github.com/vektah/gqlparser/v2/parser"
	"github.com/vektah/gqlparser/v2/validator"

	"verifharness/internal/core"
	"verifharness/internal/gen"
)

func init() { Runners["C11"] = runC11 }

// deepSnapshot: every field reachable from the schema (pointers followed once, maps in key
// order), including the annotation slots of schema-owned values and directives.
func deepSnapshot(s *ast.Schema) string {
	h := sha1.New()
	seen := map[uintptr]int{}
	var walk func(v reflect.Value, depth int)
	walk = func(v reflect.Value, depth int) {
		if !v.IsValid() || depth > 60 {
			h.Write([]byte("~"))
			return
		}
		switch v.Kind() {
		case reflect.Ptr:
			if v.IsNil() {
				h.Write([]byte("nil;"))
				return
			}
			if id, ok := seen[v.Pointer()]; ok {
				fmt.Fprintf(h, "ref%d;", id)
				return
			}
			seen[v.Pointer()] = len(seen)
			walk(v.Elem(), depth+1)
		case reflect.Interface:
			if v.IsNil() {
				h.Write([]byte("nil;"))
				return
			}
			walk(v.Elem(), depth+1)
		case reflect.Struct:
			fmt.Fprintf(h, "%s{", v.Type().Name())
			for i := 0; i < v.NumField(); i++ {
				// unexported fields too: a cache hidden in the schema is schema state
				fmt.Fprintf(h, "%s:", v.Type().Field(i).Name)
				walk(v.Field(i), depth+1)
			}
			h.Write([]byte("}"))
		case reflect.Slice:
			if v.IsNil() {
				h.Write([]byte("nilslice;"))
				return
			}
			fmt.Fprintf(h, "[%d:", v.Len())
			for i := 0; i < v.Len(); i++ {
				walk(v.Index(i), depth+1)
			}
			h.Write([]byte("]"))
		case reflect.Map:
			keys := v.MapKeys()
			sort.Slice(keys, func(i, j int) bool { return fmt.Sprint(keys[i]) < fmt.Sprint(keys[j]) })
			fmt.Fprintf(h, "map%d{", len(keys))
			for _, k := range keys {
				fmt.Fprintf(h, "%v=>", k)
				walk(v.MapIndex(k), depth+1)
			}
			h.Write([]byte("}"))
		default:
			fmt.Fprintf(h, "%v;", v)
		}
	}
	walk(reflect.ValueOf(s), 0)
	return hex.EncodeToString(h.Sum(nil))
}

// one unit of work against the shared schema; returns everything observable
type c11Job struct {
	kind  int
	query string
	vars  string
}

func runJob(s *ast.Schema, j c11Job) (out string) {
	defer func() {
		if r := recover(); r != nil {
			out = fmt.Sprint("panic:", r)
		}
	}()
	switch j.kind {
	case 3:
		var buf bytes.Buffer
		formatter.NewFormatter(&buf).FormatSchema(s)
		h := sha1.Sum(buf.Bytes())
		return "fmt:" + hex.EncodeToString(h[:8])
	}
	doc, err := parser.ParseQuery(&ast.Source{Input: j.query})
	if err != nil {
		return "parse-err"
	}
	errs := validator.Validate(s, doc)
	res := strings.Join(fullErrors(errs), "\n")
	if len(errs) > 0 || j.kind == 0 || len(doc.Operations) == 0 {
		return "val:" + res
	}
	v, _ := DecodeGo(j.vars)
	vars, _ := v.(map[string]interface{})
	if vars == nil {
		vars = map[string]interface{}{}
	}
	coerced, cerr := validator.VariableValues(s, doc.Operations[0], vars)
	if cerr != nil {
		return "vars-err:" + cerr.Error()
	}
	if j.kind == 1 {
		return "vars:" + DumpGo(coerced)
	}
	d := &amDumper{vars: coerced}
	for _, o := range doc.Operations {
		d.dirs(o.Directives)
		d.sels(o.SelectionSet)
	}
	for _, f := range doc.Fragments {
		d.sels(f.SelectionSet)
	}
	return "args:" + d.sb.String()
}

// C11Child: run inside the race-enabled binary. Prints one line per history:
// "H <index> ok" or "H <index> DRIFT|MISMATCH ...".
func C11Child(c *core.Ctx) {
	nHist := 40
	if !c.Quick {
		nHist = 400
	}
	// histories over the small-scope family: sixteen goroutines share its schema, each takes every
	// sixteenth document of a block of the family, every kind of call in turn
	{
		light := SmallScopeLight()
		block := 320
		nBlocks := 4
		if !c.Quick {
			nBlocks = (len(light) + block - 1) / block
		}
		for bIdx := 0; bIdx < nBlocks; bIdx++ {
			s, err := loadImpl(smallScopeSchema)
			if err != nil {
				break
			}
			lo := bIdx * block * len(light) / (nBlocks * block)
			if c.Quick {
				lo = bIdx * (len(light) - block) / max(1, nBlocks-1)
			}
			hi := min(len(light), lo+block)
			nG := 16
			jobs := make([][]c11Job, nG)
			for i := lo; i < hi; i++ {
				jobs[i%nG] = append(jobs[i%nG], c11Job{kind: []int{0, 2, 3, 0}[i%4], query: light[i].Query, vars: "{76=i01,62=t}"})
			}
			before := deepSnapshot(s)
			want := make([][]string, nG)
			for g := range jobs {
				for _, j := range jobs[g] {
					want[g] = append(want[g], runJob(s, j))
				}
			}
			afterSeq := deepSnapshot(s)
			got := make([][]string, nG)
			var wg sync.WaitGroup
			start := make(chan struct{})
			for g := range jobs {
				wg.Add(1)
				go func(g int) {
					defer wg.Done()
					<-start
					for _, j := range jobs[g] {
						got[g] = append(got[g], runJob(s, j))
					}
				}(g)
			}
			close(start)
			wg.Wait()
			after := deepSnapshot(s)
			status := "ok"
			if before != afterSeq {
				status = "DRIFT sequential calls changed the schema"
			} else if before != after {
				status = "DRIFT concurrent calls changed the schema"
			} else {
				for g := range jobs {
					for k := range jobs[g] {
						if got[g][k] != want[g][k] {
							status = fmt.Sprintf("MISMATCH goroutine %d call %d kind %d: alone %q, concurrent %q; query %q", g, k, jobs[g][k].kind, want[g][k], got[g][k], jobs[g][k].query)
						}
					}
				}
			}
			fmt.Printf("H small-scope-%d goroutines=%d %s\n", bIdx, nG, status)
			if status != "ok" {
				fmt.Printf("SCHEMA %s\n", hex.EncodeToString([]byte(smallScopeSchema)))
			}
		}
	}
	for hIdx := 0; hIdx < nHist; hIdx++ {
		gs := gen.NewSchema(gen.New(c.Rng.U64()))
		srcs := []string{gs.Text()}
		s, err := loadImpl(srcs...)
		if err != nil {
			continue
		}
		nG := []int{2, 4, 8, 16, 32}[c.Rng.Intn(5)]
		perG := 6
		jobs := make([][]c11Job, nG)
		for g := range jobs {
			for k := 0; k < perG; k++ {
				tg := &gen.TGen{R: c.Rng, S: s}
				doc := tg.Doc()
				if c.Rng.Chance(1, 3) {
					gen.Pick(c.Rng, gen.DocFaults).Apply(tg, doc)
				}
				q := gen.PrintDoc(doc)
				j := c11Job{kind: c.Rng.Intn(4), query: q, vars: "{}"}
				if j.kind == 1 || j.kind == 2 {
					d1 := *doc
					d1.Operations = d1.Operations[:1]
					j.query = gen.PrintDoc(&d1)
					if d2, perr := parser.ParseQuery(&ast.Source{Input: j.query}); perr == nil && len(d2.Operations) > 0 {
						j.vars = EncodeGo(varsFor(c.Rng, s, d2.Operations[0]))
					}
				}
				jobs[g] = append(jobs[g], j)
			}
		}
		before := deepSnapshot(s)
		// each call alone
		want := make([][]string, nG)
		for g := range jobs {
			for _, j := range jobs[g] {
				want[g] = append(want[g], runJob(s, j))
			}
		}
		afterSeq := deepSnapshot(s)
		// all goroutines together on the one schema
		got := make([][]string, nG)
		var wg sync.WaitGroup
		start := make(chan struct{})
		for g := range jobs {
			wg.Add(1)
			go func(g int) {
				defer wg.Done()
				<-start
				for _, j := range jobs[g] {
					got[g] = append(got[g], runJob(s, j))
				}
			}(g)
		}
		close(start)
		wg.Wait()
		after := deepSnapshot(s)
		status := "ok"
		if before != afterSeq {
			status = "DRIFT sequential calls changed the schema"
		} else if before != after {
			status = "DRIFT concurrent calls changed the schema"
		} else {
			for g := range jobs {
				for k := range jobs[g] {
					if got[g][k] != want[g][k] {
						status = fmt.Sprintf("MISMATCH goroutine %d call %d kind %d: alone %q, concurrent %q; query %q", g, k, jobs[g][k].kind, want[g][k], got[g][k], jobs[g][k].query)
					}
				}
			}
		}
		fmt.Printf("H %d goroutines=%d %s\n", hIdx, nG, status)
		if status != "ok" {
			fmt.Printf("SCHEMA %s\n", hex.EncodeToString([]byte(srcs[0])))
		}
	}
}

func runC11(c *core.Ctx) {
	c.ReplayKnown()
	exe := filepath.Join(c.Root, "harness", "verifrun-race")
	if _, err := os.Stat(exe); err != nil {
		c.Note("race-enabled harness binary missing: " + err.Error())
		c.ModelFailures++
		return
	}
	cmd := exec.Command(exe, "-prop", "C11", "-child", "-tier", c.Tier, "-seed", fmt.Sprint(c.Seed), "-root", c.Root)
	cmd.Env = append(os.Environ(), "GORACE=halt_on_error=0 exitcode=66")
	var out, errb bytes.Buffer
	cmd.Stdout = &out
	cmd.Stderr = &errb
	runErr := cmd.Run()
	hist, bad := 0, 0
	for _, line := range strings.Split(out.String(), "\n") {
		if strings.HasPrefix(line, "H ") {
			hist++
			if !strings.HasSuffix(line, " ok") {
				bad++
				c.ReportOracle("shared-schema-history", map[string]interface{}{"history": line, "seed": c.Seed, "tier": c.Tier,
					"note": "replay: harness/verifrun-race -prop C11 -child -seed <seed> -tier <tier>"})
			}
		}
	}
	if strings.Contains(errb.String(), "DATA RACE") {
		report := errb.String()
		if len(report) > 6000 {
			report = report[:6000]
		}
		c.ReportOracle("data-race", map[string]interface{}{"race_detector_report": report, "seed": c.Seed, "tier": c.Tier,
			"note": "replay: harness/verifrun-race -prop C11 -child -seed <seed> -tier <tier>"})
	} else if runErr != nil && bad == 0 {
		c.Note("race child failed: " + runErr.Error() + " " + errb.String()[:min(500, len(errb.String()))])
		c.ModelFailures++
	}
	c.Evals += int64(hist)
	c.Programs = int64(hist)
	for i := 0; i < hist; i++ {
		c.Seen(true, []byte(fmt.Sprint(c.Seed, i)))
	}
	c.Count("histories_2_to_32_goroutines_under_race_detector", int64(hist))
	c.Sample(map[string]interface{}{"history": "per history: one generated schema, 2-32 goroutines x 6 calls each drawn from {parse+validate, +coerce variables, +argument maps of every field, FormatSchema}; every call first alone, then all together; deep snapshot of the schema before/after"})
}
