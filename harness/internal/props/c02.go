package props

import (
	"fmt"
	"strings"
	"time"

	"verifharness/internal/core"
	"verifharness/internal/gen"
)

func init() { Runners["C02"] = runC02 }

const advSchema = `type Query { a: Int b: Int f(x: Int): Q q: Q l: [Q] u: U i: I }
type Q implements I { a: Int b: Int f(x: Int): Q q: Q l: [Q] s: String }
type R implements I { a: Int b: String q: Q }
interface I { a: Int q: Q }
union U = Q | R
type Mutation { a: Int q: Q }
type Subscription { a: Int q: Q }`

type advCase struct {
	family string
	size   int
	query  string
}

// size-parametrised hostile documents
func adversarial(sizes []int) []advCase {
	var out []advCase
	for _, n := range sizes {
		// fragment fan-out 2^n under an introspection field
		var sb strings.Builder
		sb.WriteString("{__schema{...F0}}")
		for i := 0; i < n; i++ {
			fmt.Fprintf(&sb, " fragment F%d on __Schema{...F%d ...F%d}", i, i+1, i+1)
		}
		fmt.Fprintf(&sb, " fragment F%d on __Schema{description}", n)
		out = append(out, advCase{"introspection fragment fan-out", n, sb.String()})
		// the same fan-out under an ordinary field
		sb.Reset()
		sb.WriteString("{q{...F0}}")
		for i := 0; i < n; i++ {
			fmt.Fprintf(&sb, " fragment F%d on Q{...F%d ...F%d}", i, i+1, i+1)
		}
		fmt.Fprintf(&sb, " fragment F%d on Q{a}", n)
		out = append(out, advCase{"fragment fan-out", n, sb.String()})
		// the same fan-out at the top of a subscription and of a mutation (rules that look at root fields)
		for _, root := range [][2]string{{"subscription", "Subscription"}, {"mutation", "Mutation"}} {
			sb.Reset()
			sb.WriteString(root[0] + "{...F0}")
			for i := 0; i < n; i++ {
				fmt.Fprintf(&sb, " fragment F%d on %s{...F%d ...F%d}", i, root[1], i+1, i+1)
			}
			fmt.Fprintf(&sb, " fragment F%d on %s{a}", n, root[1])
			out = append(out, advCase{root[0] + " root fragment fan-out", n, sb.String()})
		}
		// introspection fan-out whose head is spread at two list depths, shallower first and deeper first
		for _, two := range [][2]string{{"{__schema{types{...a0 fields{type{...a0}}}}}", "introspection fan-out at two depths, shallow first"},
			{"{__schema{types{fields{type{...a0}} ...a0}}}", "introspection fan-out at two depths, deep first"},
			{"{__type(name:\"Q\"){...a0 ofType{...a0 ofType{...a0}}}}", "introspection fan-out under ofType"}} {
			sb.Reset()
			sb.WriteString(two[0])
			for i := 0; i < n; i++ {
				fmt.Fprintf(&sb, " fragment a%d on __Type{...a%d ...a%d}", i, i+1, i+1)
			}
			fmt.Fprintf(&sb, " fragment a%d on __Type{name}", n)
			out = append(out, advCase{two[1], n, sb.String()})
		}
		// many operations, each spreading the head of a fan-out whose leaves use a variable
		sb.Reset()
		for k := 0; k < n; k++ {
			fmt.Fprintf(&sb, "query O%d($v: Int) { q { ...V0 } } ", k)
		}
		for i := 0; i < n; i++ {
			fmt.Fprintf(&sb, "fragment V%d on Q{...V%d ...V%d} ", i, i+1, i+1)
		}
		fmt.Fprintf(&sb, "fragment V%d on Q{f(x: $v){a}}", n)
		out = append(out, advCase{"many operations over a variable-using fan-out", n, sb.String()})
		// fan-out under inline fragments and directives
		sb.Reset()
		sb.WriteString("query($v: Boolean!){i{... on Q{...D0} ... on R{q{...D0}}}}")
		for i := 0; i < n; i++ {
			fmt.Fprintf(&sb, " fragment D%d on Q{... on Q @include(if: $v){...D%d} ...D%d @skip(if: $v)}", i, i+1, i+1)
		}
		fmt.Fprintf(&sb, " fragment D%d on Q{a}", n)
		out = append(out, advCase{"fan-out under inline fragments and directives", n, sb.String()})
		// a pair of fragment chains compared first under fields of two different object types
		// (mutually exclusive parents) and then under one type, in both orders, without and with a cycle
		for _, variant := range []struct {
			name, head string
			cyclic     bool
		}{
			{"fragment pairs: exclusive parents first", "{i{... on Q{c: q{...X0}} ... on R{c: q{...Y0}}} q{d: q{...X0} d: q{...Y0}}}", false},
			{"fragment pairs: one parent first", "{q{d: q{...X0} d: q{...Y0}} i{... on Q{c: q{...X0}} ... on R{c: q{...Y0}}}}", false},
			{"fragment pairs with a cycle: exclusive parents first", "{i{... on Q{c: q{...X0}} ... on R{c: q{...Y0}}} q{d: q{...X0} d: q{...Y0}}}", true},
		} {
			sb.Reset()
			sb.WriteString(variant.head)
			for i := 0; i < n; i++ {
				nx := i + 1
				if variant.cyclic && nx == n {
					nx = 0
				}
				if nx == n {
					fmt.Fprintf(&sb, " fragment X%d on Q{a} fragment Y%d on Q{a}", i, i)
				} else {
					fmt.Fprintf(&sb, " fragment X%d on Q{b: q{...X%d} e: q{...X%d}} fragment Y%d on Q{b: q{...Y%d} e: q{...Y%d}}", i, nx, nx, i, nx, nx)
				}
			}
			out = append(out, advCase{variant.name, n, sb.String()})
		}
		// fragment cycle through fields, overlapping on a field with sub-selections
		sb.Reset()
		sb.WriteString("{q{...C0}}")
		for i := 0; i < n; i++ {
			fmt.Fprintf(&sb, " fragment C%d on Q{q{...C%d a} q{...C%d b}}", i, (i+1)%n, (i+2)%n)
		}
		out = append(out, advCase{"fragment cycles through overlapping fields", n, sb.String()})
		// deep aliases / nesting
		out = append(out, advCase{"deep nesting", n * 8, "{" + strings.Repeat("q{", n*8) + "a" + strings.Repeat("}", n*8) + "}"})
		// wide overlapping selections with sub-selections
		sb.Reset()
		sb.WriteString("{")
		for i := 0; i < n*4; i++ {
			sb.WriteString("q{a q{b}} ")
		}
		sb.WriteString("}")
		out = append(out, advCase{"wide overlapping selections", n * 4, sb.String()})
		// many spreads of fragments that overlap pairwise
		sb.Reset()
		sb.WriteString("{q{")
		for i := 0; i < n; i++ {
			fmt.Fprintf(&sb, "...P%d ", i)
		}
		sb.WriteString("}}")
		for i := 0; i < n; i++ {
			fmt.Fprintf(&sb, " fragment P%d on Q{q{a ...P%d} l{b}}", i, (i+1)%n)
		}
		out = append(out, advCase{"pairwise overlapping fragments", n, sb.String()})
		// conflicting aliases at every level
		sb.Reset()
		sb.WriteString("{")
		for i := 0; i < n*2; i++ {
			fmt.Fprintf(&sb, "x: f(x: %d){x: f(x: %d){a}} ", i, i)
		}
		sb.WriteString("}")
		out = append(out, advCase{"conflicting aliases", n * 2, sb.String()})
	}
	for _, n := range sizes {
		// two selections of one field under one response name whose arguments are equal literals nested n
		// deep (objects, lists, both in turn; the same with one leaf different): comparing them is linear
		for _, shape := range [][3]string{{"{k:", "}", "objects"}, {"[", "]", "lists"}, {"[{k:", "}]", "lists of objects"}} {
			v := strings.Repeat(shape[0], n) + "1" + strings.Repeat(shape[1], n)
			w := strings.Repeat(shape[0], n) + "2" + strings.Repeat(shape[1], n)
			out = append(out, advCase{"equal deep " + shape[2] + " as arguments under one response name", n, "{q{a:f(x:" + v + "){a} a:f(x:" + v + "){a}}}"})
			out = append(out, advCase{"deep " + shape[2] + " differing in the leaf under one response name", n, "{q{a:f(x:" + v + "){a} a:f(x:" + w + "){a}}}"})
			out = append(out, advCase{"equal deep " + shape[2] + " as directive arguments", n, "{q{a @skip(if:" + v + ") a @skip(if:" + v + ")}}"})
		}
	}
	return out
}

func cyclicSchemas() []string {
	q := "type Query { a: A } "
	out := []string{
		q + "interface A implements A { f: Int }",
		q + "interface A implements B { f: Int } interface B implements A { f: Int }",
		q + "interface A implements B & C { f: Int } interface B implements C & A { f: Int } interface C implements A & B { f: Int }",
		q + "interface A implements B { f: Int } interface B implements C { f: Int } interface C implements A { f: Int }",
		q + "interface A implements A { f: Int } type T implements A { f: Int }",
		q + "interface A implements B & A { f: Int } interface B implements A & B { f: Int } type T implements A & B { f: Int }",
		q + "type A implements A { f: Int }",
		q + "union U = U type A { f: U }",
		q + "union U = A | U type A { f: U }",
		q + "type A { f(x: In): Int } input In { a: In }",
		q + "type A { f(x: In): Int } input In { a: In! }",
		q + "type A { f(x: In): Int } input In { a: [In!]! b: Other! } input Other { c: In! }",
		q + "type A { f(x: In = {a: {a: {a: null}}}): Int } input In { a: In }",
		q + "type A { f: Int @d } directive @d(x: Int @d) on FIELD_DEFINITION | ARGUMENT_DEFINITION",
		q + "type A { f: Int @d(x: {y: 1}) } directive @d(x: In @e) on FIELD_DEFINITION directive @e(z: In @d) on ARGUMENT_DEFINITION input In { y: Int @e }",
		q + "type A { a: A b: [A!]! f: Int } extend type A implements I interface I { a: A } extend interface I implements I",
	}
	// chains of increasing length: A0 implements A1 ... (each must list all ancestors to load)
	for _, n := range []int{8, 64, 300} {
		var sb strings.Builder
		sb.WriteString("type Query { a: I0 } ")
		for i := 0; i < n; i++ {
			var anc []string
			for j := i + 1; j < n; j++ {
				anc = append(anc, "I"+itoa(j))
			}
			impl := ""
			if len(anc) > 0 {
				impl = " implements " + strings.Join(anc, " & ")
			}
			sb.WriteString("interface I" + itoa(i) + impl + " { f: Int } ")
		}
		out = append(out, sb.String())
	}
	return out
}

func runC02(c *core.Ctx) {
	const thm = "C02_* (props/C02.v); model ops load/val"
	c.ReplayKnown()
	nSchemas, per := 150, 30
	sizes := []int{4, 8, 12, 16, 20, 24}
	if !c.Quick {
		nSchemas, per = 300, 40
		sizes = []int{4, 8, 12, 16, 20, 24, 28, 32}
	}
	cases := GenValidationCases(c, nSchemas, per, nil)
	// fragments that reuse response keys and spread one another, one document in four with cycles
	nStress := 3000
	if !c.Quick {
		nStress = 40000
	}
	cases = append(cases, OverlapStress(c.Rng, nStress)...)
	cases = append(cases, TypeMatrix()...)
	cases = append(cases, DupStress(c.Rng, nStress/2)...)
	// schema loading on arbitrary SDL and on single-fault schemas
	type lc struct{ srcs []string }
	var loads []lc
	for i := 0; i < nSchemas*4; i++ {
		g := &gen.SGen{}
		g.R = c.Rng
		g.MaxDepth = 1
		g.SDoc()
		loads = append(loads, lc{[]string{gen.Render(c.Rng, g.Toks, 0)}})
		s := gen.NewSchema(gen.New(c.Rng.U64()))
		f := gen.Pick(c.Rng, gen.SchemaFaults)
		f.Apply(c.Rng, s)
		if c.Rng.Bool() {
			f2 := gen.Pick(c.Rng, gen.SchemaFaults)
			f2.Apply(c.Rng, s)
		}
		loads = append(loads, lc{[]string{s.Text()}})
	}
	// type systems with cycles: interfaces implementing themselves or one another, input objects
	// containing themselves (nullable, non-null, through lists), long implements chains
	for _, sdl := range cyclicSchemas() {
		loads = append(loads, lc{[]string{sdl}})
	}
	c.Pool.ParFor(len(loads), func(w, i int) {
		args := toArgs(loads[i].srcs)
		impl := c.Impl(w, "load", args...)
		if strings.HasPrefix(impl, "panic") {
			c.ReportOracle("load-panic", map[string]interface{}{"op": "load", "args": hexArgs(args), "sources": loads[i].srcs, "implementation": impl})
			return
		}
		v, cur, none := c.Tie(w, "load", impl, args...)
		if v == core.Violation {
			c.Report(w, "load", thm, args, impl, cur, none)
		}
	})
	c.Pool.ParFor(len(cases), func(w, i int) {
		k := cases[i]
		args := valArgs("*", k)
		t0 := time.Now()
		impl := c.Impl(w, "val", args...)
		el := time.Since(t0)
		if strings.HasPrefix(impl, "panic") {
			c.ReportOracle("validate-panic", map[string]interface{}{"op": "val", "args": hexArgs(args), "schema": k.Srcs, "query": k.Query, "implementation": impl})
			return
		}
		// wall-clock: an overrun is measured twice more and the least of the three counts, so that a
		// loaded machine is not reported as a slow validator
		for rep := 0; rep < 2 && el > time.Second; rep++ {
			t1 := time.Now()
			c.Impl(w, "val", args...)
			if e2 := time.Since(t1); e2 < el {
				el = e2
			}
		}
		if el > time.Second {
			c.ReportOracle("validate-slow", map[string]interface{}{"op": "val", "args": hexArgs(args), "query": k.Query, "seconds": el.Seconds(), "bytes": len(k.Query)})
		}
		v, cur, none := c.Tie(w, "val", impl, args...)
		if v == core.Violation {
			c.Report(w, "val", thm, args, impl, cur, none)
		}
		c.Seen(k.Expect != "valid", []byte(k.Query), []byte(k.Srcs[0]))
	})
	// the complete small-scope family under the default rules and under the set with the four
	// suggestion-free variants in place of their standard rules; the scale family (implementation
	// only: the model answers wide documents slowly) under both sets: no panic, and a second per 4 KiB
	ssStride := 400
	if !c.Quick {
		ssStride = 20
	}
	ss := SmallScope(ssStride)
	idd := IntrospectionDepthDocs()
	ss = append(ss, idd...)
	c.Pool.ParFor(len(ss), func(w, i int) {
		k := ss[i]
		for _, rs := range []string{"*", NoSuggestSet} {
			args := valArgs(rs, k)
			impl := c.Impl(w, "val", args...)
			if strings.HasPrefix(impl, "panic") {
				c.ReportOracle("validate-panic", map[string]interface{}{"op": "val", "args": hexArgs(args), "schema": k.Srcs, "query": k.Query, "rules": rs, "implementation": impl})
				return
			}
			v, cur, none := c.Tie(w, "val", impl, args...)
			if v == core.Violation {
				c.Report(w, "val", thm, args, impl, cur, none)
			}
		}
		c.Seen(true, []byte(k.Query), []byte(k.Srcs[0]))
	})
	c.Count("small_scope_documents", int64(len(ss)))
	scale := ScaleDocs()
	c.Pool.ParFor(len(scale), func(w, i int) {
		k := scale[i]
		for _, rs := range []string{"*", NoSuggestSet} {
			args := valArgs(rs, k)
			t0 := time.Now()
			impl := c.Impl(w, "val", args...)
			el := time.Since(t0)
			if strings.HasPrefix(impl, "panic") {
				c.ReportOracle("validate-panic", map[string]interface{}{"op": "val", "args": hexArgs(args), "schema": k.Srcs, "query": k.Query[:min(300, len(k.Query))], "rules": rs, "implementation": impl[:min(300, len(impl))]})
				return
			}
			for rep := 0; rep < 2 && el.Seconds() > 1.0+float64(len(k.Query))/4096.0; rep++ {
				t1 := time.Now()
				c.Impl(w, "val", args...)
				if e2 := time.Since(t1); e2 < el {
					el = e2
				}
			}
			if el.Seconds() > 1.0+float64(len(k.Query))/4096.0 {
				c.ReportOracle("validate-slow", map[string]interface{}{"op": "val", "args": hexArgs(args), "query": k.Query[:min(300, len(k.Query))], "seconds": el.Seconds(), "bytes": len(k.Query)})
			}
		}
	})
	c.Count("scale_documents", int64(len(scale)))
	c.Evals += int64(2 * (len(ss) + len(scale)))
	// adversarial families: time of the implementation (measured, not proved) and agreement with the model
	adv := adversarial(sizes)
	prev := map[string][]float64{}
	maxMs := map[string]int64{}
	defer func() {
		for f, ms := range maxMs {
			c.Count("slowest_ms_"+strings.ReplaceAll(f, " ", "_"), ms)
		}
	}()
	// what every call pays whatever the document: loading the schema (prelude included)
	base := 1e9
	for rep := 0; rep < 5; rep++ {
		t1 := time.Now()
		c.Impl(0, "val", valArgs("*", VCase{Srcs: []string{advSchema}, Query: "{a}"})...)
		if e := time.Since(t1).Seconds(); e < base {
			base = e
		}
	}
	for _, a := range adv {
		k := VCase{Srcs: []string{advSchema}, Query: a.query}
		args := valArgs("*", k)
		t0 := time.Now()
		impl := c.Impl(0, "val", args...)
		el := time.Since(t0).Seconds()
		// small times are noisy: take the least of three
		for rep := 0; rep < 2 && el < 0.05; rep++ {
			t1 := time.Now()
			c.Impl(0, "val", args...)
			if e2 := time.Since(t1).Seconds(); e2 < el {
				el = e2
			}
		}
		c.Count("adversarial_"+strings.ReplaceAll(a.family, " ", "_"), 1)
		if ms := int64(el * 1000); ms > maxMs[a.family] {
			maxMs[a.family] = ms
		}
		if strings.HasPrefix(impl, "panic") {
			c.ReportOracle("validate-panic", map[string]interface{}{"op": "val", "args": hexArgs(args), "family": a.family, "size": a.size, "implementation": impl})
			continue
		}
		// a kilobyte-sized request must not take seconds; growth must stay polynomial: sizes grow
		// by 4 from 8 on (a factor of at most 1.5), so a polynomial of degree 4 grows by at most 5.1
		// per step; exponential growth multiplies by 16. Two consecutive steps above 6 are reported.
		budget := 1.0 + float64(len(a.query))/4096.0
		net := el - base
		if net < 1e-5 {
			net = 1e-5
		}
		prev[a.family] = append(prev[a.family], net)
		p := prev[a.family]
		doubling := len(p) >= 4 && p[len(p)-1] > 0.002 && p[len(p)-1] > 6*p[len(p)-2] && p[len(p)-2] > 6*p[len(p)-3]
		// wall-clock: what looks like an overrun is measured twice more and the least of the three counts
		for rep := 0; rep < 2 && (el > budget || doubling); rep++ {
			t1 := time.Now()
			c.Impl(0, "val", args...)
			if e2 := time.Since(t1).Seconds(); e2 < el {
				el = e2
				if net = el - base; net < 1e-5 {
					net = 1e-5
				}
				p[len(p)-1] = net
			}
			doubling = len(p) >= 4 && p[len(p)-1] > 0.002 && p[len(p)-1] > 6*p[len(p)-2] && p[len(p)-2] > 6*p[len(p)-3]
		}
		if el > budget || doubling {
			c.ReportOracle("validation-time", map[string]interface{}{"op": "val", "args": hexArgs(args), "family": a.family, "size": a.size, "bytes": len(a.query),
				"seconds": el, "budget_seconds": budget, "times_by_size": p})
			continue
		}
		if len(a.query) <= 3000 {
			v, cur, none := c.Tie(0, "val", impl, args...)
			if v == core.Violation {
				c.Report(0, "val", thm, args, impl, cur, none)
			}
		}
	}
	c.Evals += int64(len(cases) + len(loads) + len(adv))
	c.Programs = int64(len(cases))
	c.Count("schema_document_pairs", int64(len(cases)))
	c.Count("schema_texts_loaded", int64(len(loads)))
	c.Sample(map[string]interface{}{"family": adv[0].family, "size": adv[0].size, "query": adv[0].query[:min(200, len(adv[0].query))]})
	c.Sample(map[string]interface{}{"query": cases[1].Query})
}
