package props

import (
	"encoding/json"
	"fmt"
	"reflect"
	"strconv"
	"strings"

	"github.com/vektah/gqlparser/v2/ast"
	"github.com/vektah/gqlparser/v2/parser"
	"github.com/vektah/gqlparser/v2/validator"

	"verifharness/internal/core"
	"verifharness/internal/gen"
)

func init() {
	Runners["C14"] = runC14
	core.Ops["vars"] = implVars
}

// args: query, variables (text form), sources...
func implVars(args [][]byte) string {
	srcs := make([]string, len(args)-2)
	for i, a := range args[2:] {
		srcs[i] = string(a)
	}
	s, err := loadImpl(srcs...)
	if err != nil {
		return "schema-err"
	}
	doc, perr := parser.ParseQuery(&ast.Source{Input: string(args[0])})
	if perr != nil {
		return "query-" + dumpErr(perr)
	}
	if errs := validator.Validate(s, doc); len(errs) > 0 {
		return "invalid-doc"
	}
	v, _ := DecodeGo(string(args[1]))
	vars, ok := v.(map[string]interface{})
	if !ok || len(doc.Operations) == 0 {
		return "bad-request"
	}
	out, verr := validator.VariableValues(s, doc.Operations[0], vars)
	if verr != nil {
		return "err"
	}
	return "ok " + DumpGo(out)
}

const varsSchema = `type Query { f(a: Int): Int }
enum Color { RED GREEN }
scalar Any
input Pt { x: Int! y: Int = 2 tags: [String!] c: Color self: Pt pts: [Pt] req: Int! = 7 any: Any }
input One @oneOf { a: Int b: String }`

// the same names with other contents: another enum value set, other defaults (nothing learnt about
// one schema may be applied to another)
var varsSchemaB = strings.NewReplacer("RED GREEN", "RED BLUE", "y: Int = 2", "y: Int = 5", "req: Int! = 7", "req: Int! = 8").Replace(varsSchema)

var varLeafTypes = []string{"Int", "Float", "String", "Boolean", "ID", "Color", "Any", "Pt"}

// every list/non-null pattern over a leaf up to the given list depth
func typePatterns(leaf string, depth int) []string {
	cur := []string{leaf, leaf + "!"}
	all := append([]string{}, cur...)
	for d := 0; d < depth; d++ {
		var next []string
		for _, t := range cur {
			next = append(next, "["+t+"]", "["+t+"]!")
		}
		all = append(all, next...)
		cur = next
	}
	return all
}

// conforming value for a type, JSON-like
func conformingValue(r *gen.Rng, t string, depth int) interface{} {
	if strings.HasSuffix(t, "!") {
		return conformingValue(r, t[:len(t)-1], depth)
	}
	if strings.HasPrefix(t, "[") {
		inner := t[1 : len(t)-1]
		n := r.Intn(3)
		out := make([]interface{}, n)
		for i := range out {
			out[i] = conformingValue(r, inner, depth)
			if !strings.HasSuffix(inner, "!") && r.Chance(1, 6) {
				out[i] = nil
			}
		}
		return out
	}
	switch t {
	case "Int":
		return gen.Pick(r, []interface{}{1, int32(2), int64(-3), 4.0, "5", json.Number("1")})
	case "Float":
		return gen.Pick(r, []interface{}{0.5, float32(3), 7, "2.5", json.Number("2.5"), json.Number("1e3")})
	case "String":
		return gen.Pick(r, []interface{}{"", "a", "é"})
	case "Boolean":
		return r.Bool()
	case "ID":
		return gen.Pick(r, []interface{}{"id", 3, int64(4)})
	case "Color":
		return gen.Pick(r, []interface{}{"RED", "GREEN"})
	case "Any":
		return gen.Pick(r, []interface{}{1, "x", true, []interface{}{1}, map[string]interface{}{"k": 1}, 1.5})
	case "Pt":
		m := map[string]interface{}{"x": gen.Pick(r, []interface{}{1, int64(2)})}
		if depth > 0 {
			if r.Bool() {
				m["y"] = 3
			}
			if r.Bool() {
				m["tags"] = []interface{}{"t"}
			}
			if r.Bool() {
				m["c"] = "RED"
			}
			if r.Chance(1, 3) {
				m["self"] = conformingValue(r, "Pt", depth-1)
			}
			if r.Chance(1, 3) {
				m["pts"] = []interface{}{conformingValue(r, "Pt", depth-1)}
			}
			if r.Chance(1, 4) {
				m["any"] = map[string]interface{}{"z": nil}
			}
			if r.Chance(1, 5) {
				m["self"] = nil
			}
			if r.Chance(1, 5) {
				m["req"] = gen.Pick(r, []interface{}{9, int64(10)}) // a value for the non-null field that has a default
			}
			if r.Chance(1, 6) {
				m["y"] = nil // an explicit null for the nullable field that has a default
			}
		}
		return m
	}
	return nil
}

// one injected defect (or none): returns the value and a label
func defectiveValue(r *gen.Rng, t string) (interface{}, string) {
	v := conformingValue(r, t, 2)
	switch r.Intn(10) {
	case 9:
		// an explicit null where the field is non-null: with and without a default of the field
		if m, ok := v.(map[string]interface{}); ok {
			m[gen.Pick(r, []string{"req", "req", "x"})] = nil
			return m, "explicit null for non-null field"
		}
		if l, ok := v.([]interface{}); ok && len(l) > 0 {
			if m, ok := l[0].(map[string]interface{}); ok {
				m["req"] = nil
				return l, "explicit null for non-null field"
			}
		}
		return v, "none"
	case 0:
		return nil, "null at top"
	case 1:
		return gen.Pick(r, []interface{}{true, "zz", 1.5, []interface{}{}, map[string]interface{}{}, json.Number("abc"), json.Number("9007199254740993")}), "wrong kind"
	case 2:
		if l, ok := v.([]interface{}); ok {
			return append(l, nil), "null item"
		}
		return v, "none"
	case 3:
		if l, ok := v.([]interface{}); ok && len(l) > 0 {
			l[0] = gen.Pick(r, []interface{}{true, "zz", map[string]interface{}{"q": 1}})
			return l, "wrong item"
		}
		return v, "none"
	case 4:
		if m, ok := v.(map[string]interface{}); ok {
			m["nope"] = 1
			if r.Bool() {
				m["__typename"] = "Pt" // tolerated by itself (F-C4), but it must not hide the unknown key
			}
			if r.Chance(1, 3) {
				m["zz"] = nil
			}
			return m, "unknown field"
		}
		return v, "none"
	case 5:
		if m, ok := v.(map[string]interface{}); ok {
			delete(m, "x")
			return m, "missing required field"
		}
		return v, "none"
	case 6:
		// single value where a list is expected
		inner := strings.TrimSuffix(t, "!")
		for strings.HasPrefix(inner, "[") {
			inner = strings.TrimSuffix(inner[1:len(inner)-1], "!")
			if r.Bool() {
				break
			}
		}
		return conformingValue(r, inner, 1), "single value for list"
	case 7:
		if m, ok := v.(map[string]interface{}); ok {
			m["__typename"] = "Pt"
			m["c"] = gen.Pick(r, []interface{}{"red", "BLUE", 1})
			return m, "bad enum in object"
		}
		if strings.Contains(t, "Color") {
			return gen.Pick(r, []interface{}{"red", "BLUE", 2, true}), "bad enum"
		}
		return v, "none"
	}
	return v, "none"
}

// conformsProblem: does the coerced value conform to the declared type (Appendix B of DESIGN.md)
func conformsProblem(s *ast.Schema, t *ast.Type, v interface{}, path string) string {
	rv := reflect.ValueOf(v)
	for rv.IsValid() && (rv.Kind() == reflect.Interface || rv.Kind() == reflect.Ptr) {
		if rv.IsNil() {
			rv = reflect.Value{}
			break
		}
		rv = rv.Elem()
	}
	if !rv.IsValid() {
		if t.NonNull {
			return path + ": null in a non-null position"
		}
		return ""
	}
	if t.Elem != nil {
		if rv.Kind() != reflect.Slice {
			return path + ": not a list"
		}
		for i := 0; i < rv.Len(); i++ {
			if m := conformsProblem(s, t.Elem, rv.Index(i).Interface(), path+"["+strconv.Itoa(i)+"]"); m != "" {
				return m
			}
		}
		return ""
	}
	def := s.Types[t.NamedType]
	switch def.Kind {
	case ast.Enum:
		if rv.Kind() != reflect.String || def.EnumValues.ForName(rv.String()) == nil {
			return path + ": not a declared value of " + def.Name
		}
	case ast.InputObject:
		if rv.Kind() != reflect.Map {
			return path + ": not a map"
		}
		for _, k := range rv.MapKeys() {
			if k.String() == "__typename" {
				continue // recorded finding F-C4: __typename is passed through
			}
			if def.Fields.ForName(k.String()) == nil {
				return path + "." + k.String() + ": undeclared field"
			}
		}
		for _, f := range def.Fields {
			fv := rv.MapIndex(reflect.ValueOf(f.Name))
			if !fv.IsValid() {
				if f.Type.NonNull && f.DefaultValue == nil {
					return path + "." + f.Name + ": required field missing"
				}
				continue
			}
			if m := conformsProblem(s, f.Type, fv.Interface(), path+"."+f.Name); m != "" {
				return m
			}
		}
	case ast.Scalar:
		k := rv.Kind()
		isInt := k == reflect.Int || k == reflect.Int32 || k == reflect.Int64
		isFloat := k == reflect.Float32 || k == reflect.Float64
		switch def.Name {
		case "Int":
			if !(isInt || isFloat || (k == reflect.String && validInt(rv.String()))) {
				return path + ": not compatible with Int"
			}
		case "Float":
			if !(isInt || isFloat || (k == reflect.String && validFloat(rv.String()))) {
				return path + ": not compatible with Float"
			}
		case "String":
			if k != reflect.String {
				return path + ": not a string"
			}
		case "Boolean":
			if k != reflect.Bool {
				return path + ": not a bool"
			}
		case "ID":
			if !(isInt || k == reflect.String) {
				return path + ": not compatible with ID"
			}
		}
	}
	return ""
}

func validInt(s string) bool   { _, e := strconv.ParseInt(s, 10, 64); return e == nil }
func validFloat(s string) bool { _, e := strconv.ParseFloat(s, 64); return e == nil }

func runC14(c *core.Ctx) {
	const thm = "C14_* (props/C14.v); model op vars = Ops.dump_vars_with"
	c.ReplayKnown()
	nRandom := 100000
	depth := 2
	if !c.Quick {
		nRandom, depth = 1500000, 3
	}
	s, err := loadImpl(varsSchema)
	if err != nil {
		c.Note("vars schema does not load: " + err.Error())
		c.ModelFailures++
		return
	}
	type cs struct {
		query, vars, label string
		types              []string
	}
	var cases []cs
	var shapes []string
	for _, leaf := range varLeafTypes {
		shapes = append(shapes, typePatterns(leaf, depth)...)
	}
	mk := func(types []string, vals []interface{}, present []bool, defaults []string, label string) cs {
		var decl []string
		vars := map[string]interface{}{}
		for i, t := range types {
			d := fmt.Sprintf("$v%d: %s", i, t)
			if defaults[i] != "" {
				d += " = " + defaults[i]
			}
			decl = append(decl, d)
			if present[i] {
				vars[fmt.Sprintf("v%d", i)] = vals[i]
			}
		}
		var uses []string
		for i := range types {
			uses = append(uses, fmt.Sprintf("u%d: f @tag(x: [$v%d])", i, i))
		}
		q := "query(" + strings.Join(decl, ", ") + ") { " + strings.Join(uses, " ") + " }"
		return cs{q, EncodeGo(vars), label, types}
	}
	// every type shape x (conforming value, null, absent)
	for _, t := range shapes {
		cases = append(cases, mk([]string{t}, []interface{}{conformingValue(c.Rng, t, 2)}, []bool{true}, []string{""}, "conforming"))
		cases = append(cases, mk([]string{t}, []interface{}{nil}, []bool{true}, []string{""}, "explicit null"))
		cases = append(cases, mk([]string{t}, []interface{}{nil}, []bool{false}, []string{""}, "absent"))
	}
	for i := 0; i < nRandom; i++ {
		n := 1 + c.Rng.Intn(3)
		types := make([]string, n)
		vals := make([]interface{}, n)
		present := make([]bool, n)
		defaults := make([]string, n)
		label := "conforming"
		for j := 0; j < n; j++ {
			types[j] = gen.Pick(c.Rng, shapes)
			if c.Rng.Chance(1, 2) {
				var l string
				vals[j], l = defectiveValue(c.Rng, types[j])
				if l != "none" {
					label = l
				}
			} else {
				vals[j] = conformingValue(c.Rng, types[j], 2)
			}
			present[j] = !c.Rng.Chance(1, 5)
			if c.Rng.Chance(1, 4) {
				defaults[j] = gen.Pick(c.Rng, []string{"null", "1", "\"s\"", "[1]", "RED", "{x: 1}", "true", "2.5", "[[1]]", "99999999999999999999"})
			}
		}
		cases = append(cases, mk(types, vals, present, defaults, label))
	}
	nMatrixStart := len(cases)
	matrix := valueMatrix()
	sdl := varsSchema + "\ndirective @tag(x: Any) on FIELD"
	sdlB := varsSchemaB + "\ndirective @tag(x: Any) on FIELD"
	for _, m := range matrix {
		cases = append(cases, cs{m[0], m[1], "matrix", nil})
	}
	c.Count("value_matrix_cases", int64(len(matrix)))
	sdlOf := func(i int) string {
		if i >= nMatrixStart && i < nMatrixStart+len(matrix) {
			return matrixSchema
		}
		if i%3 == 2 {
			return sdlB
		}
		return sdl
	}
	labels := map[string]int64{}
	var nOK, nErr, nInvalid int64
	results := make([]string, len(cases))
	c.Pool.ParFor(len(cases), func(w, i int) {
		k := cases[i]
		args := [][]byte{[]byte(k.query), []byte(k.vars), []byte(sdlOf(i))}
		impl := c.Impl(w, "vars", args...)
		results[i] = impl
		if strings.HasPrefix(impl, "panic") {
			c.ReportOracle("coercion-panic", map[string]interface{}{"op": "vars", "args": hexArgs(args), "query": k.query, "variables": k.vars, "implementation": impl})
			return
		}
		v, cur, none := c.Tie(w, "vars", impl, args...)
		if v == core.Violation {
			c.Report(w, "vars", thm, args, impl, cur, none)
		}
		c.Seen(true, []byte(k.query), []byte(k.vars))
	})
	// conformance of returned values (implementation alone)
	s2A, _ := loadImpl(sdl)
	s2B, _ := loadImpl(sdlB)
	s2M, _ := loadImpl(matrixSchema)
	_ = s
	for i, k := range cases {
		s2 := s2A
		if sdlOf(i) == sdlB {
			s2 = s2B
		}
		if sdlOf(i) == matrixSchema {
			s2 = s2M
		}
		labels[k.label]++
		switch {
		case strings.HasPrefix(results[i], "ok"):
			nOK++
			doc, _ := parser.ParseQuery(&ast.Source{Input: k.query})
			validator.Validate(s2, doc)
			v, _ := DecodeGo(k.vars)
			out, err := validator.VariableValues(s2, doc.Operations[0], v.(map[string]interface{}))
			if err != nil {
				continue
			}
			for _, vd := range doc.Operations[0].VariableDefinitions {
				val, has := out[vd.Variable]
				if !has {
					if vd.Type.NonNull {
						c.ReportOracle("coerced-values-do-not-conform", map[string]interface{}{"query": k.query, "variables": k.vars, "problem": "$" + vd.Variable + " absent though non-null"})
					}
					continue
				}
				if m := conformsProblem(s2, vd.Type, val, "$"+vd.Variable); m != "" &&
					!c.Explained(0, "vars", results[i], []byte(k.query), []byte(k.vars), []byte(sdlOf(i))) {
					c.ReportOracle("coerced-values-do-not-conform", map[string]interface{}{"query": k.query, "variables": k.vars, "problem": m, "result": DumpGo(out)})
				}
			}
		case results[i] == "err":
			nErr++
		default:
			nInvalid++
		}
	}
	// Go slices with a concrete element type ([]string, []int, []float64, []bool, [][]string, ...) in place of
	// []interface{} with the same elements, at the top and inside maps and outer lists: the verdict is the same
	var nTyped int64
	for i, k := range cases {
		if k.label != "matrix" && i%7 != 0 {
			continue
		}
		v, _ := DecodeGo(k.vars)
		vars, _ := v.(map[string]interface{})
		tv, changed := typedSlices(v)
		tvars, _ := tv.(map[string]interface{})
		if !changed || vars == nil || tvars == nil {
			continue
		}
		s2 := s2A
		if sdlOf(i) == sdlB {
			s2 = s2B
		}
		if sdlOf(i) == matrixSchema {
			s2 = s2M
		}
		doc, perr := parser.ParseQuery(&ast.Source{Input: k.query})
		if perr != nil || len(validator.Validate(s2, doc)) > 0 || len(doc.Operations) == 0 {
			continue
		}
		nTyped++
		run := func(m map[string]interface{}) (res string) {
			defer func() {
				if r := recover(); r != nil {
					res = "panic"
				}
			}()
			out, err := validator.VariableValues(s2, doc.Operations[0], m)
			if err != nil {
				return "err"
			}
			return "ok " + DumpGo(out)
		}
		// (when both succeed the values may be represented differently: a typed slice cannot hold the
		// one-element lists that single-value coercion makes of its items, recorded as F-C2b)
		a, b := run(vars), run(tvars)
		if strings.HasPrefix(a, "ok") != strings.HasPrefix(b, "ok") || a == "panic" || b == "panic" {
			c.ReportOracle("typed-slice-treated-differently", map[string]interface{}{"query": k.query, "variables": k.vars, "with_interface_slices": a[:min(300, len(a))], "with_typed_slices": b[:min(300, len(b))],
				"note": "the same elements in a slice of a concrete element type ([]string, []int, ...)"})
		}
	}
	c.Count("typed_slice_variants", nTyped)
	for l, n := range labels {
		c.Count("label_"+strings.ReplaceAll(l, " ", "_"), n)
	}
	c.Count("type_shapes", int64(len(shapes)))
	c.Count("coerced_ok", nOK)
	c.Count("rejected", nErr)
	c.Count("document_invalid_or_other", nInvalid)
	c.Evals += int64(len(cases))
	c.Programs = int64(len(cases))
	c.Exhaustive = true
	c.ExhaustNote = fmt.Sprintf("every list/non-null pattern up to list depth %d over %d leaf types x {conforming, explicit null, absent}", depth, len(varLeafTypes))
	c.Sample(map[string]interface{}{"query": cases[len(shapes)*3].query, "variables": cases[len(shapes)*3].vars})
	c.Sample(map[string]interface{}{"query": cases[len(shapes)*3+1].query, "variables": cases[len(shapes)*3+1].vars})
}

const matrixSchema = `type Query { f(a: Int): Int }
enum Color { RED GREEN }
scalar Any
input M { i: Int f: Float s: String b: Boolean id: ID c: Color a: Any l: [Int] ll: [[Int]] m: M ms: [M] ri: Int! = 7 }
input One @oneOf { a: Int b: String }
directive @tag(x: Any) on FIELD`

// valueMatrix: every leaf value a request can carry (nil, bool, the integer and float kinds, integral
// floats, strings that look like an integer, a float, an exponent form, a boolean, an enum value or
// nothing, json.Number in each of these forms and beyond 64 bits, empty and non-empty lists and maps)
// at every position (top level nullable and non-null, list item, item of a list of lists, input-object
// field, field of an object in a list, field of a nested object) of every leaf type; and every default
// literal (empty and nested empty lists and objects, null, scalars of each kind) with the variable
// absent. Complete, not sampled: (query, variables) pairs over matrixSchema.
func valueMatrix() [][2]string {
	leaves := []interface{}{nil, true, false, 1, int32(1), int64(1), 0, -1, 2147483648, float32(1.5), 1.5, 2.0, 1e20, "abc", "12", "1.5", "1e2", "", "true", "RED", "red",
		json.Number("1"), json.Number("2.5"), json.Number("1e2"), json.Number("abc"), json.Number("99999999999999999999"), json.Number(""),
		[]interface{}{}, []interface{}{1}, []interface{}{nil}, map[string]interface{}{}, map[string]interface{}{"i": 1}, map[string]interface{}{"a": 1}}
	fieldOf := map[string]string{"Int": "i", "Float": "f", "String": "s", "Boolean": "b", "ID": "id", "Color": "c", "Any": "a"}
	var out [][2]string
	one := func(decl string, v interface{}) {
		out = append(out, [2]string{"query($v0: " + decl + ") { u0: f @tag(x: [$v0]) }", EncodeGo(map[string]interface{}{"v0": v})})
	}
	for _, t := range []string{"Int", "Float", "String", "Boolean", "ID", "Color", "Any", "M", "One"} {
		for _, l := range leaves {
			one(t, l)
			one(t+"!", l)
			one("["+t+"]", []interface{}{l})
			one("["+t+"!]", []interface{}{l, l})
			one("[["+t+"]]", []interface{}{[]interface{}{l}})
			one("[["+t+"]!]!", []interface{}{[]interface{}{l}, []interface{}{}})
			one("["+t+"]", l) // a single value where a list is expected
			one("[["+t+"]]", l)
			one("[["+t+"]]", []interface{}{l})
			if f, ok := fieldOf[t]; ok {
				one("M", map[string]interface{}{f: l})
				one("[M]", []interface{}{map[string]interface{}{f: l}})
				one("M", map[string]interface{}{"m": map[string]interface{}{f: l}})
				one("M", map[string]interface{}{"ms": []interface{}{map[string]interface{}{f: l}}})
				one("M", map[string]interface{}{"ms": map[string]interface{}{f: l}})
			}
			if t == "Int" {
				one("M", map[string]interface{}{"l": []interface{}{l}})
				one("M", map[string]interface{}{"l": l})
				one("M", map[string]interface{}{"ll": []interface{}{[]interface{}{l}}})
				one("M", map[string]interface{}{"ll": []interface{}{l}})
				one("M", map[string]interface{}{"ll": l})
				one("M", map[string]interface{}{"ri": l})
			}
		}
	}
	// two different leaves of one Go type in one list (a conforming first item must not vouch for the second)
	for _, t := range []string{"Int", "Float", "String", "Boolean", "ID", "Color", "Any"} {
		for _, l1 := range leaves {
			for _, l2 := range leaves {
				if l1 == nil || l2 == nil || reflect.TypeOf(l1) != reflect.TypeOf(l2) || reflect.TypeOf(l1).Kind() == reflect.Slice || reflect.TypeOf(l1).Kind() == reflect.Map {
					continue
				}
				one("["+t+"!]", []interface{}{l1, l2})
				one("[["+t+"]!]", []interface{}{[]interface{}{l1, l2}, []interface{}{l2}})
				if t == "Int" {
					one("M", map[string]interface{}{"l": []interface{}{l1, l2}})
				}
			}
		}
	}
	defaults := []string{"[]", "[[]]", "[[], []]", "{}", "null", "1", `"s"`, "[1]", "[null]", "[[1], []]", "{l: []}", "{ll: [[]]}", "{ll: []}", "{m: {l: []}}", "{ms: []}", "{ms: [{l: []}]}",
		"{ri: null}", "{a: []}", "{a: {}}", "{a: [[], {}]}", "RED", "true", "1.5", "{i: 1, f: 1, s: \"x\", b: true, id: 1, c: RED}"}
	types := []string{"Int", "[Int]", "[Int!]", "[[Int]]", "[[Int]!]!", "M", "[M]", "[M!]!", "Any", "[Any]", "Color", "[Color]", "String", "[String]", "Float", "Boolean", "ID", "One"}
	for _, t := range types {
		for _, df := range defaults {
			q := "query($v0: " + t + " = " + df + ") { u0: f @tag(x: [$v0]) }"
			out = append(out, [2]string{q, EncodeGo(map[string]interface{}{})})
			out = append(out, [2]string{q, EncodeGo(map[string]interface{}{"v0": nil})})
			out = append(out, [2]string{"query($v0: " + t + " = " + df + ", $v1: Int = 3) { u0: f @tag(x: [$v0, $v1]) }", EncodeGo(map[string]interface{}{"v1": 4})})
		}
	}
	return out
}

// typedSlices: every []interface{} whose elements all have one of the Go types string, int, float64, bool
// (or are themselves slices that become typed slices of one type) replaced by a slice of that type.
func typedSlices(v interface{}) (interface{}, bool) {
	switch x := v.(type) {
	case map[string]interface{}:
		out := map[string]interface{}{}
		ch := false
		for k, e := range x {
			ne, c := typedSlices(e)
			out[k] = ne
			ch = ch || c
		}
		return out, ch
	case []interface{}:
		if len(x) == 0 {
			return x, false
		}
		items := make([]interface{}, len(x))
		ch := false
		for i, e := range x {
			ne, c := typedSlices(e)
			items[i] = ne
			ch = ch || c
		}
		t := reflect.TypeOf(items[0])
		if t == nil {
			return items, ch
		}
		for _, e := range items[1:] {
			if reflect.TypeOf(e) != t {
				return items, ch
			}
		}
		switch t.Kind() {
		case reflect.String, reflect.Int, reflect.Float64, reflect.Bool, reflect.Slice:
			if t == reflect.TypeOf(json.Number("")) || t == reflect.TypeOf([]interface{}{}) {
				return items, ch
			}
			sl := reflect.MakeSlice(reflect.SliceOf(t), len(items), len(items))
			for i, e := range items {
				sl.Index(i).Set(reflect.ValueOf(e))
			}
			return sl.Interface(), true
		}
		return items, ch
	}
	return v, false
}
