package props

import (
	"fmt"

	"verifharness/internal/core"
	"verifharness/internal/gen"
)

func init() { Runners["C03"] = runC03 }

// RandomLexInput: long inputs mixing tokens, Unicode (1-4 bytes, surrogate range, invalid
// sequences), escapes, line terminators and BOMs.
func RandomLexInput(r *gen.Rng, maxParts int) []byte {
	pieces := []string{
		" ", "  ", "\t", ",", "\n", "\r", "\r\n", "\ufeff", "{", "}", "(", ")", "[", "]", ":", "=", "@", "!", "$", "&", "|", "...",
		"..", ".", "a", "_x1", "query", "on", "true", "null", "fragment", "Ab_9", "0", "-0", "12", "-7", "1.5", "0.0", "1e9", "1E-3", "2.5e+10",
		"01", "1.", "1e", "-", "1a", "0x1", "1.2.3", "1_", "\"\"", "\"a\"", "\"a b\"", "\"\\n\"", "\"\\u0041\"", "\"\\uD83D\"", "\"\\u00e9\"",
		"\"\\\"\"", "\"\\\\\"", "\"\\/\\b\\f\\r\\t\"", "\"\\q\"", "\"\\u12\"", "\"\\u12G4\"", "\"é\"", "\"日本\"", "\"😀\"", "\"a\nb\"", "\"abc",
		"\"\"\"\"\"\"", "\"\"\"a\"\"\"", "\"\"\"\n  a\n   b\n  \"\"\"", "\"\"\"a\\\"\"\"b\"\"\"", "\"\"\" x \r\n y \r z\"\"\"", "\"\"\"a\"\"\"\"", "\"\"\"é\n\t😀\"\"\"",
		"\"\"\"ab", "# c\n", "#é😀\n", "#", "# \t x", "'", "\x00", "\x07", "\x7f", "é", "😀", "\xff", "\xc3", "\xe2\x82", "\xed\xa0\x80", "\xf4\x90\x80\x80",
		"\"\xff\"", "\"\\n\xff\"", "\"\"\"\xc3\"\"\"", "#\xff\xfe\n", "\xef\xbb", "\xef", "\u2028", "?", "~", "%", "+", "*", "/", "\\", "`",
	}
	n := 1 + r.Intn(maxParts)
	var out []byte
	for i := 0; i < n; i++ {
		out = append(out, gen.Pick(r, pieces)...)
		if r.Chance(1, 3) {
			out = append(out, ' ')
		}
	}
	return out
}

// EscapeTruncations: quoted strings made of up to three escape pieces (simple escapes, \u escapes
// incl. both halves of surrogate pairs, malformed ones), every prefix of each, alone and followed by
// a line terminator: the lexer's look-ahead at the end of input.
func EscapeTruncations() [][]byte {
	pieces := []string{"\\uD83D", "\\uDE00", "\\u0041", "\\udbff", "\\n", "\\\\", "\\\"", "a", "é", "\\u00", "\\x"}
	seen := map[string]bool{}
	var out [][]byte
	add := func(s string) {
		if !seen[s] {
			seen[s] = true
			out = append(out, []byte(s))
		}
	}
	var rec func(prefix string, depth int)
	rec = func(prefix string, depth int) {
		full := "\"" + prefix + "\""
		for cut := 1; cut <= len(full); cut++ {
			add(full[:cut])
			add(full[:cut] + "\n")
		}
		if depth == 3 {
			return
		}
		for _, p := range pieces {
			rec(prefix+p, depth+1)
		}
	}
	rec("", 0)
	return out
}

// EscapeMutations: every \u escape whose four places range over hex digits of both cases, signs,
// blanks, letters just outside the hex range, quote, backslash and a non-ASCII character, and every
// one-character escape \c for all 256 byte values: what the grammar admits after a backslash, and
// nothing else.
func EscapeMutations() [][]byte {
	alpha := []string{"0", "4", "9", "a", "F", "f", "g", "G", "+", "-", " ", "_", "x", ".", "\"", "\\", "é"}
	var out [][]byte
	for _, a := range alpha {
		for _, b := range alpha {
			for _, c := range alpha {
				for _, d := range alpha {
					out = append(out, []byte("\"\\u"+a+b+c+d+"\" 1"))
				}
			}
		}
	}
	for c := 0; c < 256; c++ {
		out = append(out, append(append([]byte("\"\\"), byte(c)), []byte("z\" 1")...))
	}
	return out
}

func runC03(c *core.Ctx) {
	const thm = "C03 lex_* theorems (props/C03.v); model op lex = Lexer.dump_lex"
	c.ReplayKnown()
	maxLen, maxBlock, nRandom := 5, 7, 60000
	if !c.Quick {
		maxLen, maxBlock, nRandom = 6, 9, 1000000
	}
	for n := 0; n <= maxLen; n++ {
		total := ipow(len(LexAlphabet), n)
		c.Pool.ParFor(total, func(w, i int) {
			in := nthString(LexAlphabet, n, i)
			c.CheckCase(w, "lex", thm, in)
		})
		c.Count(fmt.Sprintf("exhaustive_len_%d", n), int64(total))
	}
	for n := 0; n <= maxBlock; n++ {
		total := ipow(len(BlockAlphabet), n)
		c.Pool.ParFor(total, func(w, i int) {
			body := nthString(BlockAlphabet, n, i)
			in := append(append([]byte("\"\"\""), body...), []byte("\"\"\" b")...)
			c.CheckCase(w, "lex", thm, in)
		})
		c.Count(fmt.Sprintf("exhaustive_block_len_%d", n), int64(total))
	}
	c.Exhaustive = true
	c.ExhaustNote = fmt.Sprintf("all strings of <=%d symbols over the %d-symbol lexical alphabet; all block-string bodies of <=%d symbols over {SP,TAB,LF,CR,a,\"}", maxLen, len(LexAlphabet), maxBlock)
	esc := EscapeTruncations()
	c.Pool.ParFor(len(esc), func(w, i int) { c.CheckCase(w, "lex", thm, esc[i]) })
	c.Count("escape_truncations", int64(len(esc)))
	lf := LexFamilies()
	c.Pool.ParFor(len(lf), func(w, i int) { c.CheckCase(w, "lex", thm, []byte(lf[i])) })
	c.Count("block_string_bodies_and_non_token_placements", int64(len(lf)))
	escm := EscapeMutations()
	c.Pool.ParFor(len(escm), func(w, i int) { c.CheckCase(w, "lex", thm, escm[i]) })
	c.Count("escape_mutations", int64(len(escm)))
	// random long inputs
	inputs := make([][]byte, nRandom)
	for i := range inputs {
		inputs[i] = RandomLexInput(c.Rng, 40)
	}
	c.Pool.ParFor(nRandom, func(w, i int) {
		impl := c.Impl(w, "lex", inputs[i])
		v, cur, none := c.Tie(w, "lex", impl, inputs[i])
		if v == core.Violation {
			c.Report(w, "lex", thm, [][]byte{inputs[i]}, impl, cur, none)
		}
		c.Seen(len(impl) > 12, inputs[i])
		if len(impl) >= 3 && impl[len(impl)-2:] == "ok" {
			c.Count("random_ok", 1)
		} else {
			c.Count("random_lex_error", 1)
		}
	})
	c.Evals += int64(nRandom)
	c.Count("random_long_inputs", int64(nRandom))
	for i := 0; i < 4; i++ {
		c.Sample(map[string]string{"op": "lex", "input": string(inputs[i])})
	}
}
