package props

import (
	"fmt"
	"regexp"
	"strconv"
	"strings"
	"time"

	"github.com/vektah/gqlparser/v2/ast"
	"github.com/vektah/gqlparser/v2/gqlerror"
	"github.com/vektah/gqlparser/v2/parser"

	"verifharness/internal/core"
	"verifharness/internal/gen"
)

func init() { Runners["C01"] = runC01 }

var errRe = regexp.MustCompile(`^err S (-?\d+) (-?\d+)$`)

// errorLocated: the implementation-only oracle of C01 — a syntax error names a line and
// column that exist in the input (1-based, at most one past the last character).
func errorLocated(input, out string) bool {
	m := errRe.FindStringSubmatch(out)
	if m == nil {
		return true
	}
	line, _ := strconv.Atoi(m[1])
	col, _ := strconv.Atoi(m[2])
	for _, lc := range LineCols(input) {
		if lc.Line == line && lc.Col == col {
			return true
		}
	}
	return false
}

// resultShape: a document with a nil error, or a non-nil error.
func resultShape(input string, schema bool, limit int) string {
	src := &ast.Source{Input: input, Name: "x"}
	if schema {
		var d *ast.SchemaDocument
		var err error
		if limit == 0 {
			d, err = parser.ParseSchema(src)
		} else {
			d, err = parser.ParseSchemaWithLimit(src, limit)
		}
		if err == nil && d == nil {
			return "nil document with nil error"
		}
		if err != nil {
			if ge, ok := err.(*gqlerror.Error); ok && (ge == nil || ge.Message == "") {
				return "error with empty message"
			}
		}
		return ""
	}
	var d *ast.QueryDocument
	var err error
	if limit == 0 {
		d, err = parser.ParseQuery(src)
	} else {
		d, err = parser.ParseQueryWithTokenLimit(src, limit)
	}
	if err == nil && d == nil {
		return "nil document with nil error"
	}
	return ""
}

func runC01(c *core.Ctx) {
	const thm = "C01_* (props/C01.v); model ops lex/pq/ps"
	c.ReplayKnown()
	maxLen, nDocs, nRand := 4, 600, 60000
	if !c.Quick {
		maxLen, nDocs, nRand = 5, 6000, 600000
	}
	check := func(w int, input []byte, limit int) {
		lim := []byte(strconv.Itoa(limit))
		for _, op := range []string{"pq", "ps"} {
			var args [][]byte
			if op == "pq" {
				args = [][]byte{[]byte("1"), lim, input}
			} else {
				args = [][]byte{[]byte("1"), lim, []byte("0"), input}
			}
			impl := c.Impl(w, op, args...)
			v, cur, none := c.Tie(w, op, impl, args...)
			if v == core.Violation {
				c.Report(w, op, thm, args, impl, cur, none)
			}
			if !errorLocated(string(input), impl) {
				c.ReportOracle("error-not-located", map[string]interface{}{"op": op, "args": []string{"31", hexs(string(lim)), hexs(string(input))},
					"input": string(input), "implementation": impl, "note": "syntax error names a line/column outside the input"})
			}
			if strings.HasPrefix(impl, "panic") {
				c.ReportOracle("panic", map[string]interface{}{"op": op, "input": string(input), "limit": limit, "implementation": impl})
			}
		}
	}
	// exhaustive small strings x limits
	var evals int64
	for n := 0; n <= maxLen; n++ {
		total := ipow(len(LexAlphabet), n)
		c.Pool.ParFor(total, func(w, i int) {
			in := nthString(LexAlphabet, n, i)
			c.CheckCase(w, "lex", thm, in)
			for _, l := range []int{0, 1, 2} {
				check(w, in, l)
			}
		})
		evals += int64(total) * 7
		c.Count(fmt.Sprintf("exhaustive_len_%d_x_3_limits_x_3_entry_points", n), int64(total))
	}
	c.Exhaustive = true
	c.ExhaustNote = fmt.Sprintf("all strings of <=%d symbols over the %d-symbol lexical alphabet, limits {0,1,2}, lexer + both parsers", maxLen, len(LexAlphabet))
	// truncations of generated documents at every byte, limits around the token count
	type tc struct {
		in    []byte
		limit int
	}
	var cases []tc
	for i := 0; i < nDocs; i++ {
		var text string
		if i%2 == 0 {
			g := &gen.QGen{R: c.Rng, MaxDepth: 2, VarDefDirs: true, FragVars: c.Rng.Chance(1, 4)}
			g.Doc()
			text = gen.Render(c.Rng, g.Toks, 1)
		} else {
			g := &gen.SGen{}
			g.R = c.Rng
			g.MaxDepth = 2
			g.SDoc()
			text = gen.Render(c.Rng, g.Toks, 1)
		}
		_, ntok := TokenStarts(text)
		lims := []int{0, ntok - 1, ntok, ntok + 1}
		for cut := 0; cut <= len(text); cut++ {
			cases = append(cases, tc{[]byte(text[:cut]), gen.Pick(c.Rng, lims)})
		}
		c.Seen(true, []byte(text))
	}
	c.Pool.ParFor(len(cases), func(w, i int) {
		l := cases[i].limit
		if l < 0 {
			l = 0
		}
		check(w, cases[i].in, l)
	})
	evals += int64(len(cases)) * 2
	c.Count("truncations_of_generated_documents", int64(len(cases)))
	c.Programs = int64(nDocs)
	// block strings indented in every way and text that is not a token, at every definition boundary
	lfam := LexFamilies()
	c.Pool.ParFor(len(lfam), func(w, i int) {
		c.CheckCase(w, "lex", thm, []byte(lfam[i]))
		check(w, []byte(lfam[i]), []int{0, 2, 5}[i%3])
	})
	evals += int64(len(lfam)) * 3
	c.Count("block_string_bodies_and_non_token_placements", int64(len(lfam)))
	// every prefix of strings made of escapes (look-ahead at the end of input)
	esc := EscapeTruncations()
	c.Pool.ParFor(len(esc), func(w, i int) {
		c.CheckCase(w, "lex", thm, esc[i])
		check(w, esc[i], 0)
	})
	evals += int64(len(esc)) * 3
	c.Count("escape_truncations", int64(len(esc)))
	// random unicode / invalid utf-8
	rnd := make([][]byte, nRand)
	for i := range rnd {
		rnd[i] = RandomLexInput(c.Rng, 12)
	}
	c.Pool.ParFor(nRand, func(w, i int) {
		check(w, rnd[i], []int{0, 0, 1, 3}[i%4])
	})
	evals += int64(nRand) * 2
	c.Count("random_unicode_and_invalid_utf8", int64(nRand))
	c.Evals += evals
	c.Sample(map[string]string{"truncation": string(cases[len(cases)/2].in)})
	c.Sample(map[string]string{"random": string(rnd[0])})

	// several sources under one limit: every source by itself is subject to the limit, whatever the
	// sources before it have consumed (exactly the limit, one less, one more, in one source or summed
	// over two), also when the source that follows is nested ten, a thousand or twenty thousand deep (thorough tier: also a hundred thousand)
	{
		exact := map[int][]string{1: {"#c"}, 2: {"scalar A"}, 3: {"scalar A #c"}, 5: {"enum E { A }"}, 7: {"type T { a: Int }"}, 4: {"scalar A scalar B"}}
		var tails []string
		depths := []int{3, 10, 1000, 20000}
		if !c.Quick {
			depths = append(depths, 100000)
		}
		for _, k := range depths {
			tails = append(tails, "input I { a: X = "+strings.Repeat("[", k), "type T { a: "+strings.Repeat("[", k)+"Int", "input I { a: X = "+strings.Repeat("{k: ", k),
				"input I { a: X = "+strings.Repeat("[", k)+"1"+strings.Repeat("]", k)+" }", strings.Repeat("scalar S ", k))
		}
		type ms struct{ args [][]byte }
		var mss []ms
		for l, firsts := range exact {
			for _, f := range firsts {
				for _, t := range tails {
					for _, lim := range []int{l - 1, l, l + 1, 2 * l, 0} {
						if lim < 0 {
							continue
						}
						mss = append(mss, ms{[][]byte{[]byte("1"), []byte(strconv.Itoa(lim)), []byte("0" + f), []byte("0" + t)}})
						mss = append(mss, ms{[][]byte{[]byte("1"), []byte(strconv.Itoa(lim)), []byte("0" + f), []byte("1" + f), []byte("0" + t)}})
						mss = append(mss, ms{[][]byte{[]byte("1"), []byte(strconv.Itoa(2 * lim)), []byte("0" + f), []byte("0" + f), []byte("0" + t)}})
					}
				}
			}
		}
		c.Pool.ParFor(len(mss), func(w, i int) {
			impl := c.Impl(w, "pss", mss[i].args...)
			if len(mss[i].args[len(mss[i].args)-1]) < 20000 {
				if v, cur, none := c.Tie(w, "pss", impl, mss[i].args...); v == core.Violation {
					c.Report(w, "pss", thm, mss[i].args, impl, cur, none)
				}
			}
			// the deep tails have more tokens than any of these limits: under a limit the call ends with the limit error
			lim, _ := strconv.Atoi(string(mss[i].args[1]))
			last := string(mss[i].args[len(mss[i].args)-1])
			if lim > 0 && (strings.Count(last, "[") >= 1000 || strings.Count(last, "{k:") >= 1000 || strings.Count(last, "scalar") >= 1000) && impl != "err L" {
				c.ReportOracle("limit-not-applied-to-a-later-source", map[string]interface{}{"op": "pss", "args": hexArgs(mss[i].args[:len(mss[i].args)-1]), "limit": lim,
					"first_source": string(mss[i].args[2]), "last_source_head": last[:min(60, len(last))], "implementation": impl[:min(200, len(impl))]})
			}
		})
		c.Evals += int64(len(mss))
		c.Count("multi_source_calls_around_an_exactly_used_limit", int64(len(mss)))
	}
	// runtime residue (measurement, not proof): maximal nesting at 64 KiB without limit, 8 MiB under limits
	type big struct {
		name  string
		input string
		limit int
	}
	kib64 := 64 * 1024
	bigs := []big{
		{"64KiB of [ in a value", "{a(x:" + strings.Repeat("[", kib64), 0},
		{"64KiB of { selection sets", strings.Repeat("{a", kib64/2), 0},
		{"64KiB of { in a value", "{a(x:" + strings.Repeat("{a:", kib64/3), 0},
		{"64KiB of ( ", "{a" + strings.Repeat("(", kib64), 0},
		{"64KiB of [ in a type (schema)", "type A{a:" + strings.Repeat("[", kib64), 0},
		{"64KiB comments", strings.Repeat("#c\n", kib64/3), 0},
		{"64KiB one string", "{a(x:\"" + strings.Repeat("\\u00e9", kib64/6), 0},
	}
	if !c.Quick {
		mib8 := 8 * 1024 * 1024
		for _, l := range []int{1, 100, 10000} {
			bigs = append(bigs, big{"8MiB of [ under limit", "{a(x:" + strings.Repeat("[", mib8), l},
				big{"8MiB of {a under limit", strings.Repeat("{a", mib8/2), l},
				big{"8MiB comment flood under limit", strings.Repeat("#c\n", mib8/3), l})
		}
	}
	for _, bg := range bigs {
		for _, schema := range []bool{false, true} {
			op := map[bool]string{false: "pq", true: "ps"}[schema]
			args := [][]byte{[]byte("0"), []byte(strconv.Itoa(bg.limit)), []byte(bg.input)}
			if schema {
				args = [][]byte{[]byte("0"), []byte(strconv.Itoa(bg.limit)), []byte("0"), []byte(bg.input)}
			}
			t0 := time.Now()
			out := c.Impl(0, op, args...)
			el := time.Since(t0)
			budget := time.Duration(len(bg.input))*20*time.Microsecond/1 + 50*time.Millisecond
			// a wall-clock measurement: a slow or loaded machine is not a slow parser, so an
			// overrun is measured twice more and the least of the three counts
			for rep := 0; rep < 2 && el > budget; rep++ {
				t0 = time.Now()
				out = c.Impl(0, op, args...)
				if e2 := time.Since(t0); e2 < el {
					el = e2
				}
				c.Count("big_inputs_measured_again_after_an_overrun", 1)
			}
			c.Count("big_inputs_measured", 1)
			if strings.HasPrefix(out, "panic") || el > budget {
				c.ReportOracle("runtime-budget", map[string]interface{}{"family": bg.name, "bytes": len(bg.input), "limit": bg.limit,
					"schema_parser": schema, "seconds": el.Seconds(), "budget_seconds": budget.Seconds(), "outcome": out[:min(len(out), 80)]})
			}
		}
	}
	// the model on the 64 KiB families (lexer + parser recursion depth in the extracted code)
	for _, bg := range bigs[:5] {
		c.CheckCase(0, "pq", thm, []byte("0"), []byte("0"), []byte(bg.input))
	}
}
