package props

import (
	"unicode/utf8"

	"github.com/vektah/gqlparser/v2/ast"
	"github.com/vektah/gqlparser/v2/lexer"
)

// LineCol is the specification-side line/column of every character offset of a source
// (S.linecol of spec/PositionsSpec.v, re-implemented independently in Go for the
// implementation-only oracle): line = 1 + number of line terminators (LF, CR not followed
// by LF, CRLF) wholly before the offset; column = distance from the line start + 1.
type LineCol struct{ Line, Col int }

// LineCols returns the table for offsets 0..nchars (in characters as the lexer counts
// them: one per UTF-8 sequence or invalid byte).
func LineCols(input string) []LineCol {
	var out []LineCol
	line, col := 1, 1
	i := 0
	for i < len(input) {
		out = append(out, LineCol{line, col})
		c := input[i]
		w := 1
		if c >= 0x80 {
			_, w = utf8.DecodeRuneInString(input[i:])
		}
		switch {
		case c == '\n':
			line++
			col = 1
		case c == '\r':
			if i+1 < len(input) && input[i+1] == '\n' {
				// the LF belongs to the same terminator: it sits at the column after the CR
				out = append(out, LineCol{line, col + 1})
				i++
			}
			line++
			col = 1
		default:
			col++
		}
		i += w
	}
	out = append(out, LineCol{line, col})
	return out
}

// TokenStarts lexes with the implementation and returns rune offset -> token kind.
func TokenStarts(input string) (map[int]lexer.Type, int) {
	l := lexer.New(&ast.Source{Input: input, Name: "x"})
	m := map[int]lexer.Type{}
	n := 0
	for i := 0; i <= len(input)+1; i++ {
		tok, err := l.ReadToken()
		if err != nil {
			break
		}
		m[tok.Pos.Start] = tok.Kind
		if tok.Kind == lexer.EOF {
			break
		}
		n++
	}
	return m, n
}
