package props

import (
	"strconv"
	"strings"
	"sync/atomic"

	"verifharness/internal/core"
	"verifharness/internal/gen"
)

func init() { Runners["C06"] = runC06 }

var schemaClasses = []gen.Tok{
	gen.P("{"), gen.P("}"), gen.P("("), gen.P(")"), gen.P("["), gen.P("]"), gen.P(":"), gen.P("="), gen.P("@"), gen.P("!"),
	gen.P("|"), gen.P("&"), gen.P("$"), gen.W("a"), gen.P("\"d\""), gen.P("\"\""), gen.W("schema"), gen.W("type"), gen.W("extend"),
	gen.W("interface"), gen.W("union"), gen.W("enum"), gen.W("input"), gen.W("scalar"), gen.W("directive"), gen.W("on"),
	gen.W("implements"), gen.W("repeatable"), gen.W("QUERY"), gen.W("query"), gen.W("1"),
}

// WideSchemaDocs: one type-system construct repeated or nested n times.
func WideSchemaDocs() []string {
	var out []string
	rep := func(n int, f func(i int) string, sep string) string {
		parts := make([]string, n)
		for i := range parts {
			parts[i] = f(i)
		}
		return strings.Join(parts, sep)
	}
	is := func(i int) string { return strconv.Itoa(i) }
	for _, n := range []int{1, 2, 63, 64, 65, 129, 300} {
		out = append(out,
			"type T { "+rep(n, func(i int) string { return "f" + is(i) + ": Int" }, " ")+" }",
			"type T { f("+rep(n, func(i int) string { return "a" + is(i) + ": Int = " + is(i) }, ", ")+"): Int }",
			"enum E { "+rep(n, func(i int) string { return "V" + is(i) }, " ")+" }",
			"union U = "+rep(n, func(i int) string { return "T" + is(i) }, " | "),
			"type T implements "+rep(n, func(i int) string { return "I" + is(i) }, " & ")+" { a: Int }",
			"directive @d on "+rep(n, func(i int) string { return "FIELD" }, " | "),
			"type T "+rep(n, func(i int) string { return "@d" + is(i) }, " ")+" { a: Int }",
			"input In { "+rep(n, func(i int) string { return "f" + is(i) + ": Int = " + is(i) + " @d" }, " ")+" }",
			rep(n, func(i int) string { return "scalar S" + is(i) }, " "),
			rep(n, func(i int) string { return "extend type T" + is(i) + " @d" }, " "),
			rep(n, func(i int) string { return "\"d" + is(i) + "\" type T" + is(i) + " { \"\"\"f\"\"\" a: Int }" }, " "),
			"type T { a: "+strings.Repeat("[", n)+"Int"+strings.Repeat("]", n)+" }",
			"type T { a: "+strings.Repeat("[", n)+"Int"+strings.Repeat("]", n-1)+" }",
			"type T { a(x: Int = "+strings.Repeat("[", n)+"1"+strings.Repeat("]", n)+"): Int }",
			"type T { a(x: In = "+strings.Repeat("{k: ", n)+"1"+strings.Repeat("}", n)+"): Int }",
			"schema { "+rep(n, func(i int) string { return "query: Q" + is(i) }, " ")+" }",
		)
	}
	// constructs of one definition kind inside another: what belongs to inputs on outputs and back
	out = append(out, "type A { f: Int = 1 }", "interface A { f: Int = 1 }", "extend type A { f: [Int] = [1] }", "input A { f(x: Int): Int }",
		"type A { f(x: Int = 1 @d): Int = 2 }", "enum E { A = 1 }", "enum E { A(x: Int) }", "union U = A = B", "scalar S { a: Int }", "scalar S = Int",
		"input A implements I { a: Int }", "enum E implements I { A }", "union U implements I = A", "type A = B | C", "directive @d(x: Int): Int on FIELD",
		"type A { f: Int! = null }", "input A { f: Int @d = 1 }", "type A { f @d: Int }", "type A { f: @d Int }")
	return out
}

func runC06(c *core.Ctx) {
	const thm = "C06 (props/C06.v); model op ps = ParseSchema.dump_parse_schema"
	c.ReplayKnown()
	maxLen, nDocs := 5, 20000
	if !c.Quick {
		maxLen, nDocs = 6, 300000
	}
	pre := [][]byte{[]byte("1"), []byte("0"), []byte("0")}
	n := enumTokenSeqsPar(c, "ps", pre, schemaClasses, maxLen, thm)
	c.Evals += n
	c.Count("token_sequences_viable_prefix_pruned", n)
	c.Exhaustive = true
	c.ExhaustNote = "all token sequences of <= " + strconv.Itoa(maxLen) + " tokens over " + strconv.Itoa(len(schemaClasses)) + " type-system token classes, viable-prefix pruned"

	type docCase struct {
		expect, r0, r1, mut string
		builtin             string
		toks                []gen.Tok
	}
	feats := map[string]int{}
	cases := make([]docCase, nDocs)
	for i := range cases {
		g := &gen.SGen{}
		g.R = c.Rng
		g.MaxDepth = 2
		g.Features = feats
		g.BuiltIn = c.Rng.Chance(1, 4)
		g.NoEmptyDesc = false
		doc := g.SDoc()
		cases[i].builtin = "0"
		if g.BuiltIn {
			cases[i].builtin = "1"
		}
		cases[i].expect = "ok " + DumpSchemaDoc(doc, false, nil)
		cases[i].toks = g.Toks
		cases[i].r0 = gen.Render(c.Rng, g.Toks, 0)
		cases[i].r1 = gen.Render(c.Rng, g.Toks, 1)
		cases[i].mut = gen.Render(c.Rng, gen.MutateToks(c.Rng, g.Toks, schemaClasses), c.Rng.Intn(2))
	}
	for k, v := range feats {
		c.Count("feature_"+k, int64(v))
	}
	var okMut, errMut, nq int64
	nQuoted := nDocs / 4
	c.Pool.ParFor(nDocs, func(w, i int) {
		cs := cases[i]
		for _, in := range []string{cs.r0, cs.r1} {
			c.CheckCase(w, "ps", thm, []byte("1"), []byte("0"), []byte(cs.builtin), []byte(in))
			got := c.Impl(w, "ps", []byte("0"), []byte("0"), []byte(cs.builtin), []byte(in))
			if got != cs.expect {
				c.ReportOracle("tree-not-faithful", map[string]interface{}{
					"op": "ps", "args": []string{"30", "30", hexs(cs.builtin), hexs(in)}, "input": in,
					"expected_tree": cs.expect, "implementation": got,
					"note": "the generator rendered this type-system tree to tokens (ignored tokens placed at random); parsing must give it back, with the built-in mark of the source"})
			}
		}
		c.Seen(true, []byte(cs.r0))
		if i%4 == 0 {
			c.CheckCase(w, "ps", thm, []byte("1"), []byte(strconv.Itoa(1+i%7)), []byte(cs.builtin), []byte(cs.r0))
			c.CheckCase(w, "ps", thm, []byte("1"), []byte("0"), []byte(cs.builtin), []byte(cs.r0))
		}
		// every word of the document written as a string literal with the same contents
		if i < nQuoted {
			for _, k := range gen.WordIndexes(cs.toks) {
				qt := append([]gen.Tok(nil), cs.toks...)
				qt[k] = gen.Quoted(qt[k], (i+k)%3 == 0)
				c.CheckCase(w, "ps", thm, []byte("1"), []byte("0"), []byte("0"), []byte(gen.Render(nil, qt, 0)))
				atomic.AddInt64(&nq, 1)
			}
		}
		args := [][]byte{[]byte("1"), []byte("0"), []byte("0"), []byte(cs.mut)}
		m := c.Impl(w, "ps", args...)
		v, cur, none := c.Tie(w, "ps", m, args...)
		if v == core.Violation {
			c.Report(w, "ps", thm, args, m, cur, none)
		}
		if strings.HasPrefix(m, "ok") {
			atomic.AddInt64(&okMut, 1)
		} else {
			atomic.AddInt64(&errMut, 1)
		}
	})
	wide := WideSchemaDocs()
	c.Pool.ParFor(len(wide), func(w, i int) {
		c.CheckCase(w, "ps", thm, []byte("1"), []byte("0"), []byte("0"), []byte(wide[i]))
	})
	c.Count("wide_deep_and_misplaced_constructs", int64(len(wide)))
	// constant positions, the small-scope type systems and the scale family, as texts to parse
	extra := append(append(ConstSites(), schemaSmallScope()...), NonTokenPlacements(true)...)
	extra = append(extra, ScaleSchemasUpTo(300, 4097)...)
	c.Pool.ParFor(len(extra), func(w, i int) {
		c.CheckCase(w, "ps", thm, []byte("1"), []byte("0"), []byte("0"), []byte(extra[i]))
	})
	c.Count("constant_sites_small_scope_and_scale_documents", int64(len(extra)))
	// several sources in one call, built-in or not, the same names again with other contents:
	// ParseSchemas is a function of the sources it is given
	nMulti := nDocs / 10
	for i := 0; i < nMulti; i++ {
		args := [][]byte{[]byte("1"), []byte("0")}
		for j := 0; j < 1+c.Rng.Intn(3); j++ {
			k := cases[c.Rng.Intn(len(cases))]
			text := k.r0
			if c.Rng.Chance(1, 5) {
				text = k.mut
			}
			args = append(args, []byte(gen.Pick(c.Rng, []string{"0", "1", "1"})+text))
		}
		c.CheckCase(0, "pss", thm, args...)
	}
	c.Count("multi_source_calls", int64(nMulti))
	c.Evals += int64(nDocs)*5 + int64(len(wide)) + int64(nMulti)
	c.Programs = int64(nDocs)
	c.Count("generated_documents", int64(nDocs))
	c.Count("words_written_as_string_literals", nq)
	c.Count("mutants_accepted", okMut)
	c.Count("mutants_rejected", errMut)
	for i := 0; i < 3; i++ {
		c.Sample(map[string]string{"document": cases[i].r1, "mutant": cases[i].mut})
	}
}

// ConstSites: every place of a type-system document where a value can stand (default values of field
// arguments, interface field arguments, input fields and directive arguments, in definitions and in
// extensions; the arguments of a directive applied at each of the twenty sites a directive can be
// applied) with every shape of value that contains a variable or does not: everything in a type-system
// document is constant.
func ConstSites() []string {
	dsites := []string{
		"schema @d(x: %s) { query: Q }", "extend schema @d(x: %s)", "scalar S @d(x: %s)", "extend scalar S @d(x: %s)", "type T @d(x: %s) { a: Int }", "extend type T @d(x: %s)",
		"type T { a: Int @d(x: %s) }", "type T { a(b: Int @d(x: %s)): Int }", "type T { a(b: Int = 1 @d(x: %s), c: Int): Int }", "directive @y(b: Int @d(x: %s)) on FIELD",
		"interface T @d(x: %s) { a: Int }", "extend interface T @d(x: %s)", "interface T { a: Int @d(x: %s) }", "interface T { a(b: Int @d(x: %s)): Int }", "union U @d(x: %s) = A", "extend union U @d(x: %s)",
		"enum E @d(x: %s) { A }", "extend enum E @d(x: %s)", "enum E { A @d(x: %s) }", "input I @d(x: %s) { a: Int }", "extend input I @d(x: %s)", "input I { a: Int @d(x: %s) }",
		"extend type T { a(b: Int @d(x: %s)): Int }", "extend input I { a: Int = 1 @d(x: %s) }", "extend enum E { A @d(x: %s) }", "type T implements I @d(x: %s) { a: Int }",
		"type T { a(b: Int = %s): Int }", "interface T { a(b: Int = %s): Int }", "input I { a: Int = %s }", "directive @y(b: Int = %s) on FIELD", "extend type T { a(b: Int = %s): Int }",
		"extend input I { a: Int = %s }", "extend interface T { a(b: Int = %s): Int }", "input I { a: Int = %s @d }", "type T { a(b: Int = %s @d): Int @d }",
	}
	vals := []string{"$v", "[$v]", "{k: $v}", "[[1, {k: [$v]}]]", "1", "[1]", "{k: 1}", "[[1, {k: [E]}]]", "$", "{k: $}"}
	var out []string
	for _, st := range dsites {
		for _, v := range vals {
			out = append(out, strings.Replace(st, "%s", v, 1))
		}
	}
	return out
}

// ConstSitesQuery: the same for executable documents: default values of variables are constant; directive
// and field arguments are not.
func ConstSitesQuery() []string {
	sites := []string{
		"query($a: Int = %s) { a }", "query($a: [Int] = %s, $b: Int) { a }", "query($a: Int @d(x: %s)) { a }", "query($a: Int = 1 @d(x: %s)) { a }", "fragment F($a: Int = %s) on T { a }",
		"{ a(x: %s) }", "{ a @d(x: %s) }", "query @d(x: %s) { a }", "query Q($a: Int) @d(x: %s) { a }", "{ ...F @d(x: %s) }", "{ ... @d(x: %s) { a } }", "{ ... on T @d(x: %s) { a } }",
		"fragment F on T @d(x: %s) { a }", "{ a { b(x: %s) @d(y: %s) } }", "mutation { a(x: %s) }", "subscription S @d(x: %s) { a }",
	}
	vals := []string{"$v", "[$v]", "{k: $v}", "[[1, {k: [$v]}]]", "1", "[1]", "{k: 1}", "[[1, {k: [E]}]]", "$", "{k: $}"}
	var out []string
	for _, st := range sites {
		for _, v := range vals {
			out = append(out, strings.ReplaceAll(st, "%s", v))
		}
	}
	return out
}

// NonTokenPlacements: text that is not a token (a stray character, an unterminated string or block
// string, a malformed number, an invalid escape, a lone dot) at the start of a document, after a complete
// definition, between two definitions and inside a definition: acceptance is a statement about strings,
// and what the lexer refuses the parser must refuse wherever it stands.
func NonTokenPlacements(schema bool) []string {
	bad := []string{"~", "?", "'", "\x01", "0x1", "1.", "01", "1e", "-", ".", "..", "\"abc", "\"\\q\"", "\"\\u12\"", "\"\"\"abc", "\"a\nb\"", "%", "^", "`", "\\", "\xff", "\u00e9", "#c\n~"}
	defs := []string{"query A {a}", "{a}", "fragment F on T {c}", "mutation {a(x: 1)}"}
	if schema {
		defs = []string{"scalar A", "type Q { f: Int }", "\"d\" enum E { A }", "extend type Q @d", "directive @d on FIELD", "schema { query: Q }"}
	}
	var out []string
	for _, g := range bad {
		out = append(out, g, g+" "+defs[0])
		for _, d1 := range defs {
			out = append(out, d1+" "+g, d1+g)
			for _, d2 := range defs[:2] {
				out = append(out, d1+" "+g+" "+d2)
			}
			if k := strings.LastIndex(d1, "}"); k > 0 {
				out = append(out, d1[:k]+" "+g+" "+d1[k:])
			}
		}
	}
	return out
}
