package props

import (
	"strconv"
	"strings"
	"sync/atomic"

	"verifharness/internal/core"
	"verifharness/internal/gen"
)

func init() { Runners["C06"] = runC06 }

var schemaClasses = []gen.Tok{
	gen.P("{"), gen.P("}"), gen.P("("), gen.P(")"), gen.P("["), gen.P("]"), gen.P(":"), gen.P("="), gen.P("@"), gen.P("!"),
	gen.P("|"), gen.P("&"), gen.P("$"), gen.W("a"), gen.P("\"d\""), gen.P("\"\""), gen.W("schema"), gen.W("type"), gen.W("extend"),
	gen.W("interface"), gen.W("union"), gen.W("enum"), gen.W("input"), gen.W("scalar"), gen.W("directive"), gen.W("on"),
	gen.W("implements"), gen.W("repeatable"), gen.W("QUERY"), gen.W("query"), gen.W("1"),
}

func runC06(c *core.Ctx) {
	const thm = "C06 (props/C06.v); model op ps = ParseSchema.dump_parse_schema"
	c.ReplayKnown()
	maxLen, nDocs := 5, 20000
	if !c.Quick {
		maxLen, nDocs = 6, 300000
	}
	pre := [][]byte{[]byte("1"), []byte("0"), []byte("0")}
	n := enumTokenSeqsPar(c, "ps", pre, schemaClasses, maxLen, thm)
	c.Evals += n
	c.Count("token_sequences_viable_prefix_pruned", n)
	c.Exhaustive = true
	c.ExhaustNote = "all token sequences of <= " + strconv.Itoa(maxLen) + " tokens over " + strconv.Itoa(len(schemaClasses)) + " type-system token classes, viable-prefix pruned"

	type docCase struct {
		expect, r0, r1, mut string
		builtin            string
		toks               []gen.Tok
	}
	feats := map[string]int{}
	cases := make([]docCase, nDocs)
	for i := range cases {
		g := &gen.SGen{}
		g.R = c.Rng
		g.MaxDepth = 2
		g.Features = feats
		g.BuiltIn = c.Rng.Chance(1, 4)
		g.NoEmptyDesc = false
		doc := g.SDoc()
		cases[i].builtin = "0"
		if g.BuiltIn {
			cases[i].builtin = "1"
		}
		cases[i].expect = "ok " + DumpSchemaDoc(doc, false, nil)
		cases[i].toks = g.Toks
		cases[i].r0 = gen.Render(c.Rng, g.Toks, 0)
		cases[i].r1 = gen.Render(c.Rng, g.Toks, 1)
		cases[i].mut = gen.Render(c.Rng, gen.MutateToks(c.Rng, g.Toks, schemaClasses), c.Rng.Intn(2))
	}
	for k, v := range feats {
		c.Count("feature_"+k, int64(v))
	}
	var okMut, errMut, nq int64
	nQuoted := nDocs / 4
	c.Pool.ParFor(nDocs, func(w, i int) {
		cs := cases[i]
		for _, in := range []string{cs.r0, cs.r1} {
			c.CheckCase(w, "ps", thm, []byte("1"), []byte("0"), []byte(cs.builtin), []byte(in))
			got := c.Impl(w, "ps", []byte("0"), []byte("0"), []byte(cs.builtin), []byte(in))
			if got != cs.expect {
				c.ReportOracle("tree-not-faithful", map[string]interface{}{
					"op": "ps", "args": []string{"30", "30", hexs(cs.builtin), hexs(in)}, "input": in,
					"expected_tree": cs.expect, "implementation": got,
					"note": "the generator rendered this type-system tree to tokens (ignored tokens placed at random); parsing must give it back, with the built-in mark of the source"})
			}
		}
		c.Seen(true, []byte(cs.r0))
		if i%4 == 0 {
			c.CheckCase(w, "ps", thm, []byte("1"), []byte(strconv.Itoa(1+i%7)), []byte(cs.builtin), []byte(cs.r0))
			c.CheckCase(w, "ps", thm, []byte("1"), []byte("0"), []byte(cs.builtin), []byte(cs.r0))
		}
		// every word of the document written as a string literal with the same contents
		if i < nQuoted {
			for _, k := range gen.WordIndexes(cs.toks) {
				qt := append([]gen.Tok(nil), cs.toks...)
				qt[k] = gen.Quoted(qt[k], (i+k)%3 == 0)
				c.CheckCase(w, "ps", thm, []byte("1"), []byte("0"), []byte("0"), []byte(gen.Render(nil, qt, 0)))
				atomic.AddInt64(&nq, 1)
			}
		}
		args := [][]byte{[]byte("1"), []byte("0"), []byte("0"), []byte(cs.mut)}
		m := c.Impl(w, "ps", args...)
		v, cur, none := c.Tie(w, "ps", m, args...)
		if v == core.Violation {
			c.Report(w, "ps", thm, args, m, cur, none)
		}
		if strings.HasPrefix(m, "ok") {
			atomic.AddInt64(&okMut, 1)
		} else {
			atomic.AddInt64(&errMut, 1)
		}
	})
	c.Evals += int64(nDocs) * 5
	c.Programs = int64(nDocs)
	c.Count("generated_documents", int64(nDocs))
	c.Count("words_written_as_string_literals", nq)
	c.Count("mutants_accepted", okMut)
	c.Count("mutants_rejected", errMut)
	for i := 0; i < 3; i++ {
		c.Sample(map[string]string{"document": cases[i].r1, "mutant": cases[i].mut})
	}
}
