// Package props: one runner per property.
package props

import "verifharness/internal/core"

var Runners = map[string]func(*core.Ctx){}
