package props

import (
	"encoding/hex"
	"strconv"
	"strings"

	"github.com/vektah/gqlparser/v2/ast"
)

// Canonical dump of syntax trees; the same text is produced by Coq's Ast.dump_*.
type dumper struct {
	sb   strings.Builder
	wp   bool
	srcs map[*ast.Source]int
	// normalisations for round-trip oracles: descriptions and the built-in mark left out
	noDesc, noBuiltin bool
}

func (d *dumper) desc(x string) {
	if !d.noDesc {
		d.hex(x)
	}
}

func (d *dumper) s(x string)   { d.sb.WriteString(x) }
func (d *dumper) hex(x string) { d.sb.WriteString(hex.EncodeToString([]byte(x))) }
func (d *dumper) b(x bool) {
	if x {
		d.s("1")
	} else {
		d.s("0")
	}
}
func (d *dumper) pos(p *ast.Position) {
	if !d.wp {
		return
	}
	if p == nil {
		d.s("@-")
		return
	}
	src := 0
	if d.srcs != nil {
		src = d.srcs[p.Src]
	}
	d.s("@" + strconv.Itoa(src) + ":" + strconv.Itoa(p.Start) + ":" + strconv.Itoa(p.End) + ":" + strconv.Itoa(p.Line) + ":" + strconv.Itoa(p.Column))
}

func (d *dumper) value(v *ast.Value) {
	if v == nil {
		d.s("NIL")
		return
	}
	d.s("V" + strconv.Itoa(int(v.Kind)) + "(")
	d.hex(v.Raw)
	d.s(",[")
	for i, c := range v.Children {
		if i > 0 {
			d.s(",")
		}
		d.s("(")
		d.hex(c.Name)
		d.s(",")
		d.value(c.Value)
		d.s(")")
		if v.Kind == ast.ObjectValue {
			d.pos(c.Position)
		} else if d.wp {
			d.s("@-")
		}
	}
	d.s("])")
	d.pos(v.Position)
}

func (d *dumper) ovalue(v *ast.Value) {
	if v == nil {
		d.s("-")
		return
	}
	d.value(v)
}

func (d *dumper) typ(t *ast.Type) {
	if t == nil {
		d.s("NIL")
		return
	}
	if t.Elem == nil {
		d.s("N(")
		d.hex(t.NamedType)
	} else {
		d.s("L(")
		d.typ(t.Elem)
	}
	d.s(",")
	d.b(t.NonNull)
	d.s(")")
	d.pos(t.Position)
}

func (d *dumper) args(as ast.ArgumentList) {
	d.s("[")
	for i, a := range as {
		if i > 0 {
			d.s(",")
		}
		d.s("A(")
		d.hex(a.Name)
		d.s(",")
		d.value(a.Value)
		d.s(")")
		d.pos(a.Position)
	}
	d.s("]")
}

func (d *dumper) dirs(ds ast.DirectiveList) {
	d.s("[")
	for i, x := range ds {
		if i > 0 {
			d.s(",")
		}
		d.s("D(")
		d.hex(x.Name)
		d.s(",")
		d.args(x.Arguments)
		d.s(")")
		d.pos(x.Position)
	}
	d.s("]")
}

func (d *dumper) vardefs(vs ast.VariableDefinitionList) {
	d.s("[")
	for i, v := range vs {
		if i > 0 {
			d.s(",")
		}
		d.s("X(")
		d.hex(v.Variable)
		d.s(",")
		d.typ(v.Type)
		d.s(",")
		d.ovalue(v.DefaultValue)
		d.s(",")
		d.dirs(v.Directives)
		d.s(")")
		d.pos(v.Position)
	}
	d.s("]")
}

func (d *dumper) sels(ss ast.SelectionSet) {
	d.s("[")
	for i, s := range ss {
		if i > 0 {
			d.s(",")
		}
		switch x := s.(type) {
		case *ast.Field:
			d.s("F(")
			d.hex(x.Alias)
			d.s(",")
			d.hex(x.Name)
			d.s(",")
			d.args(x.Arguments)
			d.s(",")
			d.dirs(x.Directives)
			d.s(",")
			d.sels(x.SelectionSet)
			d.s(")")
			d.pos(x.Position)
		case *ast.FragmentSpread:
			d.s("S(")
			d.hex(x.Name)
			d.s(",")
			d.dirs(x.Directives)
			d.s(")")
			d.pos(x.Position)
		case *ast.InlineFragment:
			d.s("I(")
			d.hex(x.TypeCondition)
			d.s(",")
			d.dirs(x.Directives)
			d.s(",")
			d.sels(x.SelectionSet)
			d.s(")")
			d.pos(x.Position)
		default:
			d.s("?")
		}
	}
	d.s("]")
}

func opLetter(o ast.Operation) string {
	switch o {
	case ast.Query:
		return "q"
	case ast.Mutation:
		return "m"
	case ast.Subscription:
		return "s"
	}
	return "-"
}

func (d *dumper) qdoc(q *ast.QueryDocument) {
	d.s("Q([")
	for i, o := range q.Operations {
		if i > 0 {
			d.s(",")
		}
		d.s("O(" + opLetter(o.Operation) + ",")
		d.hex(o.Name)
		d.s(",")
		d.vardefs(o.VariableDefinitions)
		d.s(",")
		d.dirs(o.Directives)
		d.s(",")
		d.sels(o.SelectionSet)
		d.s(")")
		d.pos(o.Position)
	}
	d.s("],[")
	for i, f := range q.Fragments {
		if i > 0 {
			d.s(",")
		}
		d.s("G(")
		d.hex(f.Name)
		d.s(",")
		d.vardefs(f.VariableDefinition)
		d.s(",")
		d.hex(f.TypeCondition)
		d.s(",")
		d.dirs(f.Directives)
		d.s(",")
		d.sels(f.SelectionSet)
		d.s(")")
		d.pos(f.Position)
	}
	d.s("])")
	d.pos(q.Position)
}

func (d *dumper) argdefs(as ast.ArgumentDefinitionList) {
	d.s("[")
	for i, a := range as {
		if i > 0 {
			d.s(",")
		}
		d.s("a(")
		d.desc(a.Description)
		d.s(",")
		d.hex(a.Name)
		d.s(",")
		d.ovalue(a.DefaultValue)
		d.s(",")
		d.typ(a.Type)
		d.s(",")
		d.dirs(a.Directives)
		d.s(")")
		d.pos(a.Position)
	}
	d.s("]")
}

func (d *dumper) strs(xs []string) {
	d.s("[")
	for i, x := range xs {
		if i > 0 {
			d.s(",")
		}
		d.hex(x)
	}
	d.s("]")
}

var kindIdx = map[ast.DefinitionKind]string{ast.Scalar: "0", ast.Object: "1", ast.Interface: "2", ast.Union: "3", ast.Enum: "4", ast.InputObject: "5"}

func (d *dumper) defs(ds ast.DefinitionList) {
	d.s("[")
	for i, x := range ds {
		if i > 0 {
			d.s(",")
		}
		d.def(x)
	}
	d.s("]")
}

func (d *dumper) def(x *ast.Definition) {
	d.s("T" + kindIdx[x.Kind] + "(")
	d.desc(x.Description)
	d.s(",")
	d.hex(x.Name)
	d.s(",")
	d.dirs(x.Directives)
	d.s(",")
	d.strs(x.Interfaces)
	d.s(",[")
	for j, f := range x.Fields {
		if j > 0 {
			d.s(",")
		}
		d.s("f(")
		d.desc(f.Description)
		d.s(",")
		d.hex(f.Name)
		d.s(",")
		d.argdefs(f.Arguments)
		d.s(",")
		d.ovalue(f.DefaultValue)
		d.s(",")
		d.typ(f.Type)
		d.s(",")
		d.dirs(f.Directives)
		d.s(")")
		d.pos(f.Position)
	}
	d.s("],")
	d.strs(x.Types)
	d.s(",[")
	for j, e := range x.EnumValues {
		if j > 0 {
			d.s(",")
		}
		d.s("e(")
		d.desc(e.Description)
		d.s(",")
		d.hex(e.Name)
		d.s(",")
		d.dirs(e.Directives)
		d.s(")")
		d.pos(e.Position)
	}
	d.s("],")
	d.b(x.BuiltIn && !d.noBuiltin)
	d.s(")")
	d.pos(x.Position)
}

func (d *dumper) schemadefs(ss ast.SchemaDefinitionList) {
	d.s("[")
	for i, s := range ss {
		if i > 0 {
			d.s(",")
		}
		d.s("C(")
		d.desc(s.Description)
		d.s(",")
		d.dirs(s.Directives)
		d.s(",[")
		for j, o := range s.OperationTypes {
			if j > 0 {
				d.s(",")
			}
			d.s("o(" + opLetter(o.Operation) + ",")
			d.hex(o.Type)
			d.s(")")
			d.pos(o.Position)
		}
		d.s("])")
		d.pos(s.Position)
	}
	d.s("]")
}

func (d *dumper) dirdefs(ds ast.DirectiveDefinitionList) {
	d.s("[")
	for i, x := range ds {
		if i > 0 {
			d.s(",")
		}
		d.s("R(")
		d.desc(x.Description)
		d.s(",")
		d.hex(x.Name)
		d.s(",")
		d.argdefs(x.Arguments)
		d.s(",[")
		for j, l := range x.Locations {
			if j > 0 {
				d.s(",")
			}
			d.hex(string(l))
		}
		d.s("],")
		d.b(x.IsRepeatable)
		d.s(")")
		d.pos(x.Position)
	}
	d.s("]")
}

func (d *dumper) sdoc(s *ast.SchemaDocument) {
	d.s("Z(")
	d.schemadefs(s.Schema)
	d.s(",")
	d.schemadefs(s.SchemaExtension)
	d.s(",")
	d.dirdefs(s.Directives)
	d.s(",")
	d.defs(s.Definitions)
	d.s(",")
	d.defs(s.Extensions)
	d.s(")")
	d.pos(s.Position)
}

func DumpQueryDoc(q *ast.QueryDocument, wp bool) string {
	d := &dumper{wp: wp}
	d.qdoc(q)
	return d.sb.String()
}

func DumpSchemaDoc(s *ast.SchemaDocument, wp bool, srcs map[*ast.Source]int) string {
	d := &dumper{wp: wp, srcs: srcs}
	d.sdoc(s)
	return d.sb.String()
}
