package props

import (
	"strconv"
	"strings"
)

// SmallScope: a complete enumeration of small documents over one fixed schema. Every selection
// "atom" below is a short construct that is valid or has exactly one defect (of every rule that
// looks at selections, arguments, directives, values, fragments, variables); the family is every
// atom alone, every ordered pair of atoms side by side in one selection set, every atom nested under
// every other atom's parent, every variable-definition atom with every use, and a fixed-stride sample
// of triples. Rules that keep state between nodes, memoise per document, or share tables between the
// field and directive handlers see a correct construct directly before and after a faulty one of the
// same kind, in both orders; nothing here is random.
const smallScopeSchema = `directive @cache(ttl: Int!, scope: String) repeatable on FIELD | FRAGMENT_SPREAD | INLINE_FRAGMENT | QUERY
directive @tag on FIELD | QUERY | VARIABLE_DEFINITION
directive @one(a: Int! = 1, b: Int) on FIELD | QUERY | VARIABLE_DEFINITION
interface Pet { name: String id: ID! }
type Dog implements Pet { name: String id: ID! barks: Boolean owner: Human tag: Int }
type Cat implements Pet { name: String id: ID! meows: Boolean tag: String }
union CatOrDog = Cat | Dog
type Human { name: String pets(first: Int!, after: ID): [Pet] pet: Pet }
input Filter { name: String! tags: [String!] sub: Filter n: Int = 3 }
input Either @oneOf { a: Int b: String }
enum Color { RED GREEN }
type Query { dog: Dog cat: Cat pet: Pet human(id: ID!, f: Filter): Human page(ttl: Int!): Dog find(f: Filter, c: Color, ids: [ID!], e: Either): [Pet] cod: CatOrDog }
type Mutation { rename(id: ID!, name: String!): Pet }
type Subscription { tick: Int tock: Int }`

var smallScopeAtoms = []string{
	// fields
	"dog{name}", "dog{name nam}", "dog", "name", "dog{name{x}}", "cat{meows}", "dog{barks owner{name}}",
	// arguments
	"page(ttl:1){name}", "page{name}", "page(ttl:1,ttl:2){name}", "page(tt:1){name}", `page(ttl:"x"){name}`, "page(ttl:$v){name}",
	"page(ttl:$w){name}", "page(ttl:null){name}", "human(id:1){name}", "human{name}", "human(id:1){pets{name}}", "human(id:1){pets(first:2){name}}",
	`human(id:1,f:{name:"a"}){name}`, `human(id:1,f:{nam:"a"}){name}`, `human(id:1,f:{name:"a",name:"b"}){name}`, "human(id:1,f:{}){name}",
	`human(id:1,f:{name:"a",sub:{}}){name}`, `human(id:1,f:{name:"a",tags:["x",1]}){name}`, `human(id:1,f:{name:"a",tags:[]}){name}`,
	"find(c:RED){name}", "find(c:BLUE){name}", `find(c:"RED"){name}`, `find(ids:[1,"a"]){name}`, "find(ids:[1.5]){name}", "find(ids:1){name}",
	"find(e:{a:1}){name}", `find(e:{a:1,b:"x"}){name}`, "find(e:{}){name}", "find(e:{a:null}){name}", "find(e:{a:$v}){name}", "find(f:$f){name}",
	"find(ids:[1.5],f:{nam:\"a\"},c:BLUE){name}", "x:find(ids:[1.5],f:{nam:\"a\"},c:BLUE){name}", "x:page(zz:1,ttl:\"s\",aa:2){name}", "dog @cache(zz:1,ttl:\"s\",aa:2){name}",
	// directives
	"dog @skip(if:true){name}", "dog @skip{name}", "dog @include(if:true) @skip{name}", "dog @skip(if:true) @include{name}",
	"dog @skip(if:true) @skip(if:false){name}", "dog @cache(ttl:1){name}", "dog @cache{name}", "dog @cache(ttl:1) @cache{name}",
	"dog @cache(ttl:1) @cache(ttl:2,scope:\"s\"){name}", "dog @tag{name}", "dog @tag(x:1){name}", "dog @unknown{name}",
	"dog @skip(iff:true,unless:false,if:true){name}", "dog @skip(iff:true,if:true){name}", "dog @one{name}", "dog @one(a:null){name}",
	"dog @one(b:2){name}", "dog{name @skip(if:$b)}", "dog @skip(if:$v){name}", "dog @deprecated{name}",
	// fragments
	"...F", "...Missing", "...G", "... on Dog{name}", "... on Query{dog{name}}", "...{dog{name}}", "... @skip(if:true){dog{name}}", "... @skip{dog{name}}",
	"pet{... on Dog{barks}}", "pet{... on Human{name}}", "pet{...F}", "pet{...G}", "pet{... on Pet{name}}", "pet{... on Color{x}}", "pet{... on Nope{x}}",
	"cod{... on Dog{barks}}", "cod{name}", "cod{__typename}", "cod{... on Pet{name}}", "...F @cache(ttl:1)", "...F @cache",
	// response keys
	"a:dog{name}", "a:cat{name}", "a:dog{id}", "dog{x:name}", "dog{x:id}", "dog{tag}", "pet{... on Dog{tag} ... on Cat{tag}}", "pet{... on Dog{t:tag} ... on Cat{t:tag}}",
	// meta fields
	"__typename", "dog{__typename}", "dog{typename}", "dog{__typenam}", "__schema{types{name}}", `__type(name:"Dog"){name}`, "__type{name}", "dog{__schema{types{name}}}",
}

var smallScopeVarDefs = []string{
	"", "$v:Int", "$v:Int!", "$v:Int=1", "$v:Int!=1", `$v:Int="x"`, "$v:Int=null", "$v:Int!=null", "$v:String", "$v:[Int]", "$v:[Int]=[]", "$v:[Int!]=[null]",
	"$v:Dog", "$v:Nope", "$v:Nope=1", "$v:[Nope!]=[\"a\"]", "$v:Int,$v:Int", "$v:Int,$w:Int", "$v:Int @tag", "$v:Int @one", "$v:Int @one(a:$v)", "$v:Int @skip(if:true)",
	"$b:Boolean", "$b:Boolean!,$v:Int", `$f:Filter={name:"a"}`, "$f:Filter={}", `$f:Filter={name:"a",zz:1}`, "$f:Filter!", "$f:Either={a:1}", `$f:Either={a:1,b:"x"}`, "$v:Color=RED", "$v:Color=BLUE",
}

// further definitions of the document: fragment definitions (on every kind of type, repeated, cyclic,
// with directives and variables) and further operations, each with every use below
var smallScopeDefs = []string{
	"fragment X on Pet{name}", "fragment X on Nope{name}", "fragment X on Color{name}", "fragment X on Filter{name}", "fragment X on CatOrDog{__typename}",
	"fragment X on Dog{name} fragment X on Cat{name}", "fragment X on Pet{...X}", "fragment X on Pet{...Y} fragment Y on Pet{...X}", "fragment X on Pet{...Y} fragment Y on Dog{barks}",
	"fragment X on Pet{nope}", "fragment X on Pet @cache(ttl:1){name}", "fragment X on Pet @cache{name}", "fragment X on Pet @skip(if:true){name}", "fragment X($q:Int) on Pet{name}",
	"fragment X on Pet{x:name x:id}", "fragment X on Nope{name} fragment Y on Nope2{name}", "fragment X on Query{dog{name}}", "fragment X on Human{name}",
	"query B{dog{name}}", "query A{cat{name}}", "{dog{name}}", "{dog{name}} {cat{name}}", "mutation N{rename(id:1,name:\"x\"){name}}", "subscription T{tick tock}", "subscription T{tick}",
	"subscription T{...TT} fragment TT on Subscription{tick tock}", "subscription T{__typename}", "query B($u:Nope){dog{name}}", "query B($u:Int){dog{name}}", "query B($v:Int){page(ttl:$v){name}}",
}

var smallScopeUses = []string{"pet{...X}", "dog{name}", "...X", "pet{...X ...X}", "pet{...Y}", "dog{...X}", "cod{...X}", "pet{...X @cache}", "page(ttl:$q){name}"}

const smallScopeFragments = " fragment F on Pet{name} fragment G on Dog{barks ...G2} fragment G2 on Dog{name}"

func smallScopeDoc(vars string, sels ...string) string {
	op := "query A"
	if vars != "" {
		op += "(" + vars + ")"
	}
	return op + "{" + strings.Join(sels, " ") + "}" + smallScopeFragments
}

// SmallScopeLight: the family without the pairs and triples (every atom alone in each kind of
// operation, every nesting, every variable definition with every use, every further definition with
// every use), for checks that run many rule lists per document.
func SmallScopeLight() []VCase {
	var out []VCase
	for _, k := range SmallScope(1 << 30) {
		if k.Tag != "pair" {
			out = append(out, k)
		}
	}
	return out
}

// SmallScope returns the family; stride > 1 thins the triples (the singles, pairs, nestings and
// variable cross product are always complete).
func SmallScope(tripleStride int) []VCase {
	srcs := []string{smallScopeSchema}
	var out []VCase
	add := func(q string) { out = append(out, VCase{Srcs: srcs, Query: q}) }
	at := smallScopeAtoms
	for _, a := range at {
		add(smallScopeDoc("$v:Int,$b:Boolean", a))
		add("{" + a + "}" + smallScopeFragments)
		add("mutation M{rename(id:1,name:\"n\"){name} " + a + "}" + smallScopeFragments)
		add("subscription S{" + a + "}" + smallScopeFragments)
		add("query A @cache(ttl:1) @one{" + a + "} query B @cache{" + a + "}" + smallScopeFragments)
	}
	for _, a := range at {
		for _, b := range at {
			add(smallScopeDoc("$v:Int,$b:Boolean", a, b))
			out[len(out)-1].Tag = "pair"
		}
	}
	// an atom below another: under pet / dog / cod, and inside the fragment F
	for _, a := range at {
		for _, parent := range []string{"pet", "dog", "cod", "human(id:1)", "x:pet", "pet @skip(if:true)", "pet @cache"} {
			add(smallScopeDoc("$v:Int,$b:Boolean", parent+"{"+a+"}", a))
		}
		add("query A($v:Int,$b:Boolean){...H} fragment H on Query{" + a + "}" + smallScopeFragments)
		add("query A($v:Int,$b:Boolean){...H ...H} query B{...H} fragment H on Query{" + a + " ...H}" + smallScopeFragments)
	}
	for _, v := range smallScopeVarDefs {
		for _, a := range at {
			if strings.Contains(a, "$") || strings.HasPrefix(a, "page") || strings.HasPrefix(a, "dog @skip") {
				add(smallScopeDoc(v, a))
			}
		}
		add(smallScopeDoc(v, "dog{name}"))
		add("query A" + parens(v) + "{dog{name}} query B" + parens(v) + "{page(ttl:$v){name}}" + smallScopeFragments)
		add("query A" + parens(v) + "{...V} fragment V on Query{page(ttl:$v){name} find(f:$f){name}}")
	}
	for _, df := range smallScopeDefs {
		for _, u := range smallScopeUses {
			add("query A($v:Int,$b:Boolean){" + u + "} " + df)
			add(df + " query A($v:Int,$b:Boolean){" + u + "}")
		}
		for _, a := range at {
			if strings.Contains(a, "...") {
				add("query A($v:Int,$b:Boolean){" + a + " pet{...X}} " + df + smallScopeFragments)
			}
		}
	}
	if tripleStride < 1 {
		tripleStride = 1
	}
	n := 0
	for i, a := range at {
		for j, b := range at {
			for k, c := range at {
				n++
				if (i*7+j*3+k+n)%tripleStride != 0 {
					continue
				}
				add(smallScopeDoc("$v:Int,$b:Boolean", a, b, c))
			}
		}
	}
	return out
}

func parens(v string) string {
	if v == "" {
		return ""
	}
	return "(" + v + ")"
}

// IntrospectionDepthDocs: one fragment spread at two places of an introspection query, for every pair
// of list depths of the two places, both document orders, every number of list levels the fragment
// itself adds, directly and through a second fragment, under __schema and under __type. The rule
// memoises per fragment; whether the limit is exceeded depends on the deeper of the two places.
func IntrospectionDepthDocs() []VCase {
	srcs := []string{"type Query { a: Int }"}
	var out []VCase
	levels := []string{"fields", "interfaces", "possibleTypes", "inputFields"}
	// chain(d, leaf): d list levels below a __Type, then leaf
	var chain func(d int, leaf string, i int) string
	chain = func(d int, leaf string, i int) string {
		if d == 0 {
			return leaf
		}
		l := levels[i%len(levels)]
		if l == "fields" || l == "inputFields" {
			return l + "{type{" + chain(d-1, leaf, i+1) + "}}"
		}
		return l + "{" + chain(d-1, leaf, i+1) + "}"
	}
	for fragDepth := 0; fragDepth <= 3; fragDepth++ {
		frag := "fragment N on __Type{name " + chain(fragDepth, "name", 1) + "}"
		via := "fragment V on __Type{kind ...N}"
		for d1 := 0; d1 <= 3; d1++ {
			for d2 := 0; d2 <= 3; d2++ {
				for _, spread := range []string{"...N", "...V"} {
					for _, root := range []string{"__schema{types{", `__type(name:"Query"){ofType{`} {
						a, b := chain(d1, spread, 0), chain(d2, spread, 2)
						q := "{" + root + a + " " + "x" + strconv.Itoa(d2) + ":" + "ofType{" + b + "}}}} " + frag + " " + via
						out = append(out, VCase{Srcs: srcs, Query: q})
						q2 := "{" + root + "y:ofType{" + b + "} " + a + "}}} " + frag + " " + via
						out = append(out, VCase{Srcs: srcs, Query: q2})
					}
				}
			}
		}
	}
	return out
}

// ScaleDocs: the same constructs at sizes around the thresholds implementations like to special-case
// (a few dozen, a hundred, a few hundred, a thousand; pieces of text around 4 KiB and 64 KiB): wide
// selection sets, argument lists, directive lists, variable lists, list and string values, many
// fragments and operations, deep nesting, and documents with more than a hundred errors spread over
// several rules. Over the small-scope schema.
func ScaleDocs() []VCase { return ScaleDocsUpTo(1<<30, 1<<30) }

// ScaleDocsUpTo: the family cut at maxWide elements and maxText bytes per piece (the extracted model is a
// specification, not an algorithm: it answers wide documents in seconds and long names in minutes).
func ScaleDocsUpTo(maxWide, maxText int) []VCase {
	srcs := []string{smallScopeSchema}
	var out []VCase
	add := func(q string) { out = append(out, VCase{Srcs: srcs, Query: q}) }
	rep := func(n int, f func(i int) string, sep string) string {
		parts := make([]string, n)
		for i := range parts {
			parts[i] = f(i)
		}
		return strings.Join(parts, sep)
	}
	is := strconv.Itoa
	for _, n := range []int{31, 32, 33, 100, 101, 129, 300, 1030} {
		if n > maxWide {
			continue
		}
		// valid and wide
		add("{" + rep(n, func(i int) string { return "a" + is(i) + ":dog{name}" }, " ") + "}")
		add("{dog{" + rep(n, func(i int) string { return "a" + is(i) + ":name" }, " ") + "}}")
		add("{pet{" + rep(n, func(i int) string { return "... on Dog{a" + is(i) + ":barks}" }, " ") + "}}")
		add("{pet{" + rep(n, func(i int) string { return "...F" + is(i) }, " ") + "}} " + rep(n, func(i int) string { return "fragment F" + is(i) + " on Pet{a" + is(i) + ":name}" }, " "))
		add(rep(n, func(i int) string { return "query Q" + is(i) + "{dog{name}}" }, " "))
		add("query Q(" + rep(n, func(i int) string { return "$v" + is(i) + ":Int" }, ",") + "){" + rep(n, func(i int) string { return "a" + is(i) + ":page(ttl:$v" + is(i) + "){name}" }, " ") + "}")
		add("{dog " + rep(n, func(i int) string { return "@cache(ttl:" + is(i) + ")" }, " ") + "{name}}")
		add("{find(ids:[" + rep(n, func(i int) string { return is(i) }, ",") + "]){name}}")
		add(`{human(id:1,f:{name:"a",tags:[` + rep(n, func(i int) string { return `"t` + is(i) + `"` }, ",") + "]}){name}}")
		// wide and wrong: many errors of one rule, of two rules, of three
		add("query Q(" + rep(n, func(i int) string { return "$v" + is(i) + ":Int" }, ",") + "){dog{name}}")
		add("{dog{" + rep(n, func(i int) string { return "nope" + is(i) }, " ") + "}}")
		add("query Q(" + rep(n, func(i int) string { return "$v" + is(i) + ":Int" }, ",") + "){dog{" + rep(n, func(i int) string { return "nope" + is(i) }, " ") + "}}")
		add("query Q(" + rep(n, func(i int) string { return "$v" + is(i) + ":Nope" + is(i) }, ",") + "){dog{" + rep(n, func(i int) string { return "nope" + is(i) + " @nope" + is(i) }, " ") + "} " + rep(n, func(i int) string { return "...M" + is(i) }, " ") + "}")
		add("{page(" + rep(n, func(i int) string { return "x" + is(i) + ":1" }, ",") + "){name}}")
		add("{dog @skip(" + rep(n, func(i int) string { return "x" + is(i) + ":1" }, ",") + "){name}}")
		add("{dog " + rep(n, func(i int) string { return "@cache" }, " ") + "{name}}")
		add("{dog " + rep(n, func(i int) string { return "@skip(if:true)" }, " ") + "{name}}")
		add("{find(ids:[" + rep(n, func(i int) string { return "1.5" }, ",") + "]){name}}")
		add(`{human(id:1,f:{` + rep(n, func(i int) string { return "k" + is(i) + ":1" }, ",") + "}){name}}")
		if n <= 129 { // every pair conflicts: the error list is quadratic
			add("{" + rep(n, func(i int) string { return "a:dog{x:name} a:cat{x:id}" }, " ") + "}")
		}
		add(rep(n, func(i int) string { return "fragment U" + is(i) + " on Pet{name}" }, " ") + " {dog{name}}")
		add(rep(n, func(i int) string { return "{dog{name}}" }, " "))
		add("subscription S{" + rep(n, func(i int) string { return "t" + is(i) + ":tick" }, " ") + "}")
	}
	for _, n := range []int{31, 32, 33, 100, 300} {
		if n > maxWide {
			continue
		}
		first := len(out)
		defer func(first, n int) {
			for i := first; i < first+6 && i < len(out); i++ {
				out[i].Tag = "deep" + strconv.Itoa(n)
			}
		}(first, n)
		// deep
		add("{dog{" + strings.Repeat("owner{pet{... on Dog{", n) + "name" + strings.Repeat("}}}", n) + "}}")
		add("{find(ids:" + strings.Repeat("[", n) + "1" + strings.Repeat("]", n) + "){name}}")
		add(`{human(id:1,f:` + strings.Repeat(`{name:"a",sub:`, n) + `{name:"z"}` + strings.Repeat("}", n) + "){name}}")
		add("{pet{" + strings.Repeat("...{", n) + "name" + strings.Repeat("}", n) + "}}")
		add("{...C0} " + rep(n, func(i int) string { return "fragment C" + is(i) + " on Query{dog{name} ...C" + is((i+1)%n) + "}" }, " "))
		add("{...D0} " + rep(n, func(i int) string { return "fragment D" + is(i) + " on Query{dog{name} ...D" + is(i+1) + "}" }, " ") + " fragment D" + is(n) + " on Query{cat{name}}")
	}
	for _, n := range []int{1, 255, 256, 4092, 4093, 4094, 4095, 4096, 4097, 8192, 70000} {
		if n > maxText {
			continue
		}
		// long pieces of text
		add(`{human(id:"` + strings.Repeat("x", n) + `"){name}}`)
		add(`{human(id:1,f:{name:"` + strings.Repeat("é", n/2) + `"}){name}}`)
		add(`{human(id:"""` + strings.Repeat("line\n", n/5) + `"""){name}}`)
		add("{" + strings.Repeat("n", n) + "}")
		add("{dog{name}} #" + strings.Repeat("c", n) + "\n")
		add("query " + strings.Repeat("Q", n) + "{dog{" + strings.Repeat("a", n) + ":name}}")
		add("{find(ids:[" + strings.Repeat("1", n) + "]){name}}")
	}
	return out
}

// ScaleSchemas: valid type systems at sizes around the same thresholds: many fields, enum values, union
// members, arguments, directive arguments and applications, implemented interfaces, input fields,
// types and extensions; descriptions, default values, deprecation reasons and names of 4 KiB and
// 64 KiB, quoted and block form.
func ScaleSchemas() []string { return ScaleSchemasUpTo(1<<30, 1<<30) }

func ScaleSchemasUpTo(maxWide, maxText int) []string {
	var out []string
	rep := func(n int, f func(i int) string, sep string) string {
		parts := make([]string, n)
		for i := range parts {
			parts[i] = f(i)
		}
		return strings.Join(parts, sep)
	}
	is := strconv.Itoa
	q := "type Query { q: Int } "
	for _, n := range []int{31, 32, 33, 100, 101, 300, 1030} {
		if n > maxWide {
			continue
		}
		out = append(out,
			"type Query { "+rep(n, func(i int) string { return "f" + is(i) + ": Int" }, " ")+" }",
			q+"enum E { "+rep(n, func(i int) string { return "V" + is(i) }, " ")+" }",
			q+"union U = "+rep(n, func(i int) string { return "T" + is(i) }, " | ")+" "+rep(n, func(i int) string { return "type T" + is(i) + " { a: Int }" }, " "),
			"type Query { f("+rep(n, func(i int) string { return "a" + is(i) + ": Int = " + is(i) }, ", ")+"): Int }",
			"directive @d("+rep(n, func(i int) string { return "a" + is(i) + ": Int" }, ", ")+") on FIELD_DEFINITION type Query { f: Int @d("+rep(n, func(i int) string { return "a" + is(i) + ": " + is(i) }, ", ")+") }",
			"directive @r(a: Int) repeatable on FIELD_DEFINITION | OBJECT type Query "+rep(n, func(i int) string { return "@r(a: " + is(i) + ")" }, " ")+" { f: Int "+rep(n, func(i int) string { return "@r" }, " ")+" }",
			q+rep(n, func(i int) string { return "interface I" + is(i) + " { a" + is(i) + ": Int }" }, " ")+" type T implements "+rep(n, func(i int) string { return "I" + is(i) }, " & ")+" { "+rep(n, func(i int) string { return "a" + is(i) + ": Int" }, " ")+" }",
			q+"input In { "+rep(n, func(i int) string { return "a" + is(i) + ": [Int!] = [" + is(i) + "]" }, " ")+" }",
			q+rep(n, func(i int) string { return "extend type Query { g" + is(i) + ": Int }" }, " "),
			q+rep(n, func(i int) string { return "\"d" + is(i) + "\" scalar S" + is(i) }, " "),
			q+"enum E { A } "+rep(n, func(i int) string { return "extend enum E { X" + is(i) + " }" }, " "),
			"schema { query: Query } type Query { q: Int } directive @s(a: Int) repeatable on SCHEMA "+rep(n, func(i int) string { return "extend schema @s(a: " + is(i) + ")" }, " "),
			q+"type T { f: "+strings.Repeat("[", n)+"Int"+strings.Repeat("]", n)+" }",
		)
	}
	for _, n := range []int{1, 255, 256, 4092, 4093, 4094, 4095, 4096, 4097, 8192, 70000} {
		if n > maxText {
			continue
		}
		x := strings.Repeat("x", n)
		out = append(out,
			`"`+x+`" type Query { q: Int }`,
			`"""`+x+`""" type Query { q: Int }`,
			`"""`+strings.Repeat("line\n", n/5)+`end""" type Query { q: Int }`,
			`type Query { "`+x+`" q("`+x+`" a: Int): Int }`,
			`type Query { q: Int @deprecated(reason: "`+x+`") }`,
			`type Query { q(a: String = "`+x+`"): Int }`,
			q+`input In { a: [String] = ["`+x+`", "`+x+`"] }`,
			q+`enum E { "`+x+`" A }`,
			"type Query { "+x+": Int }",
			"type Query { q: Int } type T"+x+" { a: Int }",
			q+"#"+x+"\nscalar S",
			`type Query { q: Int } directive @d(a: String) on OBJECT type T @d(a: """`+strings.Repeat("é", n/2)+`""") { a: Int }`,
		)
	}
	return out
}
