package props

import (
	"bytes"
	"encoding/hex"
	"strings"
	"sync/atomic"
	"unicode/utf8"

	"github.com/vektah/gqlparser/v2"
	"github.com/vektah/gqlparser/v2/ast"
	"github.com/vektah/gqlparser/v2/formatter"
	"github.com/vektah/gqlparser/v2/parser"
	"github.com/vektah/gqlparser/v2/validator"

	"verifharness/internal/core"
	"verifharness/internal/gen"
)

func init() {
	Runners["C12"] = runC12
	core.Ops["fq"] = implFormatQuery
	core.Ops["fs"] = implFormatSchema
	core.Ops["fsl"] = implFormatLoaded
	core.Domain["fq"] = func(args [][]byte) bool { return utf8.Valid(args[2]) }
	core.Domain["fs"] = func(args [][]byte) bool { return utf8.Valid(args[3]) }
}

func fmtOptions(flags, indent string) []formatter.FormatterOption {
	opts := []formatter.FormatterOption{formatter.WithIndent(indent)}
	if strings.Contains(flags, "b") {
		opts = append(opts, formatter.WithBuiltin())
	}
	if strings.Contains(flags, "d") {
		opts = append(opts, formatter.WithoutDescription())
	}
	if strings.Contains(flags, "c") {
		opts = append(opts, formatter.WithCompacted())
	}
	if strings.Contains(flags, "m") {
		opts = append(opts, formatter.WithComments())
	}
	return opts
}

// args: flags, indent, input
func implFormatQuery(args [][]byte) string {
	doc, err := parser.ParseQuery(&ast.Source{Input: string(args[2]), Name: "q"})
	if err != nil {
		return dumpErr(err)
	}
	opts := fmtOptions(string(args[0]), string(args[1]))
	var buf bytes.Buffer
	formatter.NewFormatter(&buf, opts...).FormatQueryDocument(doc)
	out := hex.EncodeToString(buf.Bytes()) + "|"
	d2, err := parser.ParseQuery(&ast.Source{Input: buf.String(), Name: "q"})
	if err != nil {
		return out + dumpErr(err)
	}
	var buf2 bytes.Buffer
	formatter.NewFormatter(&buf2, opts...).FormatQueryDocument(d2)
	same := "0"
	if buf2.String() == buf.String() {
		same = "1"
	}
	return out + "ok " + DumpQueryDoc(d2, false) + "|" + same
}

// args: flags, indent, builtin, input
func implFormatSchema(args [][]byte) string {
	bi := string(args[2]) == "1"
	doc, err := parser.ParseSchema(&ast.Source{Input: string(args[3]), Name: "s", BuiltIn: bi})
	if err != nil {
		return dumpErr(err)
	}
	opts := fmtOptions(string(args[0]), string(args[1]))
	var buf bytes.Buffer
	formatter.NewFormatter(&buf, opts...).FormatSchemaDocument(doc)
	out := hex.EncodeToString(buf.Bytes()) + "|"
	d2, err := parser.ParseSchema(&ast.Source{Input: buf.String(), Name: "s", BuiltIn: bi})
	if err != nil {
		return out + dumpErr(err)
	}
	var buf2 bytes.Buffer
	formatter.NewFormatter(&buf2, opts...).FormatSchemaDocument(d2)
	same := "0"
	if buf2.String() == buf.String() {
		same = "1"
	}
	return out + "ok " + DumpSchemaDoc(d2, false, nil) + "|" + same
}

// reloadFormatted: with built-in definitions printed the text is a complete type system, loaded on
// its own as a built-in source; otherwise it is loaded after the prelude like any user source.
func reloadFormatted(flags, text string) (*ast.Schema, error) {
	if strings.Contains(flags, "b") {
		s, err := validator.LoadSchema(&ast.Source{Name: "out", Input: text, BuiltIn: true})
		if err != nil {
			return nil, err
		}
		return s, nil
	}
	s, err := gqlparser.LoadSchema(&ast.Source{Name: "out", Input: text})
	if err != nil {
		return nil, err
	}
	return s, nil
}

// args: flags, indent, user sources...
func implFormatLoaded(args [][]byte) string {
	s, err := loadImpl(strs(args[2:])...)
	if err != nil || s == nil {
		return "schema-err"
	}
	opts := fmtOptions(string(args[0]), string(args[1]))
	var buf bytes.Buffer
	formatter.NewFormatter(&buf, opts...).FormatSchema(s)
	out := hex.EncodeToString(buf.Bytes()) + "|"
	s2, err := reloadFormatted(string(args[0]), buf.String())
	if err != nil || s2 == nil {
		return out + "err"
	}
	var buf2 bytes.Buffer
	formatter.NewFormatter(&buf2, opts...).FormatSchema(s2)
	same := "0"
	if buf2.String() == buf.String() {
		same = "1"
	}
	return out + "ok " + DumpSchema(s2) + "|" + same
}

func strs(bs [][]byte) []string {
	out := make([]string, len(bs))
	for i, b := range bs {
		out[i] = string(b)
	}
	return out
}

// indents are strings of GraphQL WhiteSpace (space, tab); line terminators are not white space
var fmtIndents = []string{"", " ", "\t", "  ", " \t", "\t "}
var fmtFlagSets = []string{"", "c", "d", "cd"}

// eraseKinds: the String/BlockString distinction is not part of the round trip
func eraseKinds(s string) string { return strings.ReplaceAll(s, "V4(", "V3(") }

func runC12(c *core.Ctx) {
	const thm = "C12_* (props/C12.v); model op fq = Ops.dump_format_query"
	c.ReplayKnown()
	nDocs := 10000
	if !c.Quick {
		nDocs = 200000
	}
	type cs struct{ text, expect, flags, indent string }
	feats := map[string]int{}
	cases := make([]cs, nDocs)
	for i := range cases {
		g := &gen.QGen{R: c.Rng, MaxDepth: 2 + c.Rng.Intn(2), Features: feats, VarDefDirs: true, FragVars: c.Rng.Chance(1, 4)}
		doc := g.Doc()
		cases[i] = cs{gen.Render(c.Rng, g.Toks, c.Rng.Intn(2)), eraseKinds("ok " + DumpQueryDoc(doc, false)),
			gen.Pick(c.Rng, fmtFlagSets), gen.Pick(c.Rng, fmtIndents)}
	}
	for k, v := range feats {
		c.Count("feature_"+k, int64(v))
	}
	c.Pool.ParFor(nDocs, func(w, i int) {
		k := cases[i]
		args := [][]byte{[]byte(k.flags), []byte(k.indent), []byte(k.text)}
		impl := c.Impl(w, "fq", args...)
		v, cur, none := c.Tie(w, "fq", impl, args...)
		if v == core.Violation {
			c.Report(w, "fq", thm, args, impl, cur, none)
		}
		for _, fl := range []string{k.flags, k.flags + "m"} { // the oracle also runs with comments on
			out := impl
			if fl != k.flags {
				out = c.Impl(w, "fq", []byte(fl), []byte(k.indent), []byte(k.text))
			}
			parts := strings.Split(out, "|")
			ok := len(parts) == 3 && eraseKinds(parts[1]) == k.expect && parts[2] == "1"
			if !ok && !(fl == k.flags && c.Explained(w, "fq", impl, args...)) {
				c.ReportOracle("format-parse-roundtrip", map[string]interface{}{"op": "fq",
					"args": []string{hexs(fl), hexs(k.indent), hexs(k.text)}, "input": k.text, "flags": fl, "indent": k.indent,
					"implementation": out, "expected_tree": k.expect,
					"note": "formatted text must parse back into the same document and formatting that again must give the same text"})
			}
		}
		c.Seen(true, []byte(k.text))
	})
	// the scale family: pieces of text around 4 KiB and 64 KiB (string and block string values, names,
	// comments), wide lists, selection sets, argument, directive and variable lists, deep nesting; every
	// option set; the re-parsed tree is the tree of the input (implementation-side oracle), and the
	// formatter's bytes are the model's up to a hundred elements and 256-byte pieces
	var scale []string
	for _, k := range ScaleDocs() {
		scale = append(scale, k.Query)
	}
	scale = append(scale, WideQueryDocs()...)
	for _, b := range BlockStringBodies() {
		scale = append(scale, "{a(s:"+b+")}", "query($v: String = "+b+") @d(x: ["+b+", {k: "+b+"}]) {a}")
	}
	tied := map[string]bool{}
	for _, k := range ScaleDocsUpTo(101, 256) {
		if k.Tag == "deep100" {
			continue // the model prints the indentation of 300 levels in minutes
		}
		tied[k.Query] = true
	}
	var nScale int64
	c.Pool.ParFor(len(scale), func(w, i int) {
		text := scale[i]
		orig, err := parser.ParseQuery(&ast.Source{Input: text, Name: "q"})
		if err != nil {
			return
		}
		expect := eraseKinds("ok " + DumpQueryDoc(orig, false))
		atomic.AddInt64(&nScale, 1)
		for fi, fl := range []string{"", "c", "d", "cd", "m", "cm"} {
			for _, indent := range []string{"", "  ", "\t"} {
				args := [][]byte{[]byte(fl), []byte(indent), []byte(text)}
				out := c.Impl(w, "fq", args...)
				parts := strings.Split(out, "|")
				if !(len(parts) == 3 && eraseKinds(parts[1]) == expect && parts[2] == "1") {
					c.ReportOracle("format-parse-roundtrip", map[string]interface{}{"op": "fq", "args": []string{hexs(fl), hexs(indent), hexs(text)},
						"input": text[:min(300, len(text))], "bytes": len(text), "flags": fl, "indent": indent, "implementation": out[:min(600, len(out))],
						"note": "formatted text must parse back into the same document and formatting that again must give the same text"})
					return
				}
				if tied[text] && fi == i%4 && indent == "  " { // one option set per document: the model answers these in seconds
					if v, cur, none := c.Tie(w, "fq", out, args...); v == core.Violation {
						c.Report(w, "fq", thm, args, out, cur, none)
					}
				}
			}
		}
	})
	c.Count("scale_documents", nScale)
	c.Evals += int64(nDocs)*2 + nScale*18
	c.Programs = int64(nDocs)
	c.Sample(map[string]string{"document": cases[0].text, "flags": cases[0].flags, "indent": cases[0].indent})
	c.Sample(map[string]string{"document": cases[1].text, "flags": cases[1].flags, "indent": cases[1].indent})
}
