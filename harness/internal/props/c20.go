package props

import (
	"bytes"
	"encoding/json"
	"fmt"
	"regexp"
	"strconv"
	"strings"
	"sync"
	"unicode/utf8"

	"github.com/vektah/gqlparser/v2"
	"github.com/vektah/gqlparser/v2/ast"
	"github.com/vektah/gqlparser/v2/gqlerror"
	"github.com/vektah/gqlparser/v2/lexer"
	"github.com/vektah/gqlparser/v2/parser"
	"github.com/vektah/gqlparser/v2/validator"

	"verifharness/internal/core"
	"verifharness/internal/gen"
)

func init() {
	Runners["C20"] = runC20
	core.Ops["path"] = implPath
	core.Domain["path"] = func(args [][]byte) bool { return true }
}

// path text form: n<hex>,i<dec>,...
func decodePathText(s string) ast.Path {
	var p ast.Path
	if s == "" {
		return p
	}
	for _, t := range strings.Split(s, ",") {
		if t == "" {
			continue
		}
		switch t[0] {
		case 'n':
			p = append(p, ast.PathName(unhexStr(t[1:])))
		case 'i':
			n, _ := strconv.ParseInt(t[1:], 10, 64)
			p = append(p, ast.PathIndex(int(n)))
		}
	}
	return p
}

func unhexStr(h string) string {
	out := make([]byte, 0, len(h)/2)
	for i := 0; i+1 < len(h); i += 2 {
		v, _ := strconv.ParseUint(h[i:i+2], 16, 8)
		out = append(out, byte(v))
	}
	return string(out)
}

func dumpPath(p ast.Path) string {
	parts := make([]string, len(p))
	for i, e := range p {
		switch x := e.(type) {
		case ast.PathName:
			parts[i] = "n" + hx(string(x))
		case ast.PathIndex:
			parts[i] = "i" + strconv.Itoa(int(x))
		}
	}
	return strings.Join(parts, ",")
}

func implPath(args [][]byte) string {
	p := decodePathText(string(args[0]))
	if p == nil {
		p = ast.Path{}
	}
	bs, err := json.Marshal(p)
	if err != nil {
		return "marshal-error"
	}
	dec := json.NewDecoder(bytes.NewReader(bs))
	dec.UseNumber()
	var generic interface{}
	if err := dec.Decode(&generic); err != nil {
		return "not-json"
	}
	var sb strings.Builder
	dumpJSON(generic, &sb)
	var back ast.Path
	if err := json.Unmarshal(bs, &back); err != nil {
		return sb.String() + "|err"
	}
	return sb.String() + "|ok " + dumpPath(back)
}

var templRe = regexp.MustCompile(`"[^"]*"|\d+|\$\w+`)

// message template: quoted parts, numbers and variable names removed
func template(msg string) string {
	t := templRe.ReplaceAllString(msg, "_")
	if len(t) > 80 {
		t = t[:80]
	}
	return t
}

// wellFormedProblem: what C20 requires of one error. kind: "syntax", "load", "validation", "coercion"
func wellFormedProblem(e *gqlerror.Error, kind string, files map[string]string) string {
	if e == nil {
		return "nil *gqlerror.Error"
	}
	if strings.TrimSpace(e.Message) == "" {
		return "empty message"
	}
	if kind == "validation" {
		if e.Rule == "" {
			return "validation error without rule"
		}
		if len(e.Locations) == 0 {
			return "validation error without location"
		}
	}
	if kind == "syntax" || kind == "load" {
		if len(e.Locations) != 1 {
			return "error without a location"
		}
	}
	for _, l := range e.Locations {
		if l.Line < 1 || l.Column < 1 {
			return fmt.Sprintf("location %d:%d is not positive", l.Line, l.Column)
		}
	}
	file, _ := e.Extensions["file"].(string)
	if kind == "syntax" || kind == "load" {
		if file == "" {
			return "error from a named source without file name"
		}
		src, known := files[file]
		if !known {
			return "file " + file + " is not one of the sources"
		}
		if src != "\x00builtin" && len(e.Locations) == 1 && !located(src, e.Locations[0].Line, e.Locations[0].Column) {
			return fmt.Sprintf("location %d:%d does not exist in %s", e.Locations[0].Line, e.Locations[0].Column, file)
		}
	}
	// JSON shape
	bs, err := json.Marshal(e)
	if err != nil {
		return "error does not encode to JSON: " + err.Error()
	}
	var m map[string]interface{}
	if err := json.Unmarshal(bs, &m); err != nil {
		return "encoded error is not a JSON object"
	}
	if s, ok := m["message"].(string); !ok || s == "" {
		return "JSON lacks a message string"
	}
	if locs, ok := m["locations"]; ok {
		arr, ok := locs.([]interface{})
		if !ok {
			return "locations is not an array"
		}
		for _, l := range arr {
			lm, ok := l.(map[string]interface{})
			if !ok {
				return "location is not an object"
			}
			ln, ok1 := lm["line"].(float64)
			cl, ok2 := lm["column"].(float64)
			if !ok1 || !ok2 || ln < 1 || cl < 1 {
				return "location without positive line and column in JSON: " + string(bs)
			}
		}
	} else if len(e.Locations) > 0 {
		return "locations missing from JSON"
	}
	if p, ok := m["path"]; ok {
		arr, ok := p.([]interface{})
		if !ok {
			return "path is not an array"
		}
		for _, x := range arr {
			switch x.(type) {
			case string, float64:
			default:
				return "path element is neither a name nor an index"
			}
		}
	}
	// the path round trip of this very error
	if len(e.Path) > 0 {
		pb, _ := json.Marshal(e.Path)
		var back ast.Path
		if err := json.Unmarshal(pb, &back); err != nil || dumpPath(back) != dumpPath(e.Path) {
			return "error path does not survive JSON"
		}
	}
	return ""
}

func runC20(c *core.Ctx) {
	const thm = "C20_path_roundtrip (props/C20.v); model op path = Ops.dump_path_roundtrip"
	c.ReplayKnown()
	var mu sync.Mutex
	templates := map[string]int64{}
	note := func(kind string, e *gqlerror.Error) {
		mu.Lock()
		templates[kind+": "+template(e.Message)]++
		mu.Unlock()
	}
	report := func(kind, problem string, detail map[string]interface{}) {
		detail["problem"] = problem
		detail["entry_point"] = kind
		c.ReportOracle("error-not-well-formed", detail)
	}
	// ---- paths: exhaustive up to length 6 over 4 names and 4 indices (quick: length 4), then random
	names := []string{"a", "", "é\"\\", "x y", "7", "-3", "007"}
	idx := []int{0, 1, -1, 9007199254740993}
	elems := []string{}
	for _, n := range names {
		elems = append(elems, "n"+hx(n))
	}
	for _, i := range idx {
		elems = append(elems, "i"+strconv.Itoa(i))
	}
	maxLen := 4
	if !c.Quick {
		maxLen = 6
	}
	for n := 0; n <= maxLen; n++ {
		total := ipow(len(elems), n)
		c.Pool.ParFor(total, func(w, i int) {
			parts := make([]string, n)
			k := i
			for j := 0; j < n; j++ {
				parts[j] = elems[k%len(elems)]
				k /= len(elems)
			}
			text := strings.Join(parts, ",")
			impl := c.Impl(w, "path", []byte(text))
			v, cur, none := c.Tie(w, "path", impl, []byte(text))
			if v == core.Violation {
				c.Report(w, "path", thm, [][]byte{[]byte(text)}, impl, cur, none)
			}
			if !strings.HasSuffix(impl, "|ok "+text) {
				c.ReportOracle("path-roundtrip", map[string]interface{}{"op": "path", "args": []string{hexs(text)}, "path": text, "implementation": impl})
			}
		})
		c.Evals += int64(total)
		c.Count(fmt.Sprintf("paths_len_%d", n), int64(total))
	}
	c.Exhaustive = true
	c.ExhaustNote = fmt.Sprintf("all paths of length <= %d over 7 names (incl. empty, quotes, non-ASCII, and names that read as integers) and 4 indices (incl. negative and 2^53+1)", maxLen)

	// random paths over names with every kind of character a client can put into a key:
	// controls, DEL, line separators, HTML-sensitive characters, non-BMP and non-printable runes
	hard := []string{"\x01", "\x07", "\x7f", "tab\t", "nl\n", "cr\r", "\u2028", "\u2029", "<>&", "\U000E0001", "\U0010FFFF", "\u00ad", "\ufeff", "😀", "a\x00b", "\\u0041"}
	nHard := 4000
	if !c.Quick {
		nHard = 100000
	}
	hardPaths := make([]string, nHard)
	for i := range hardPaths {
		m := 1 + c.Rng.Intn(4)
		parts := make([]string, m)
		for j := range parts {
			switch c.Rng.Intn(4) {
			case 0:
				parts[j] = gen.Pick(c.Rng, elems)
			case 1:
				parts[j] = "n" + hx(gen.Pick(c.Rng, hard)+gen.Pick(c.Rng, hard))
			default:
				parts[j] = "n" + hx(gen.Pick(c.Rng, hard))
			}
		}
		hardPaths[i] = strings.Join(parts, ",")
	}
	c.Pool.ParFor(nHard, func(w, i int) {
		text := hardPaths[i]
		impl := c.Impl(w, "path", []byte(text))
		v, cur, none := c.Tie(w, "path", impl, []byte(text))
		if v == core.Violation {
			c.Report(w, "path", thm, [][]byte{[]byte(text)}, impl, cur, none)
		}
		if !strings.HasSuffix(impl, "|ok "+text) {
			c.ReportOracle("path-roundtrip", map[string]interface{}{"op": "path", "args": []string{hexs(text)}, "path": text, "implementation": impl})
		}
	})
	c.Evals += int64(nHard)
	c.Count("random_paths_over_hard_names", int64(nHard))

	// ---- error-biased streams at every entry point
	n := 20000
	if !c.Quick {
		n = 300000
	}
	// lexing + both parsers, with and without limits
	inputs := make([]string, n)
	for i := range inputs {
		switch i % 3 {
		case 0:
			inputs[i] = string(RandomLexInput(c.Rng, 10))
		case 1:
			g := &gen.QGen{R: c.Rng, MaxDepth: 2}
			g.Doc()
			inputs[i] = gen.Render(c.Rng, gen.MutateToks(c.Rng, g.Toks, schemaClasses), 1)
		default:
			g := &gen.SGen{}
			g.R = c.Rng
			g.MaxDepth = 1
			g.SDoc()
			inputs[i] = gen.Render(c.Rng, gen.MutateToks(c.Rng, g.Toks, queryClasses), 1)
		}
	}
	c.Pool.ParFor(n, func(w, i int) {
		in := inputs[i]
		files := map[string]string{"named.graphql": in}
		src := &ast.Source{Name: "named.graphql", Input: in}
		check := func(kind string, err error, what string) {
			if err == nil {
				return
			}
			ge, ok := err.(*gqlerror.Error)
			if ok && ge == nil {
				report(what, "a non-nil error that holds a nil *gqlerror.Error (no message)", map[string]interface{}{"input": in})
				return
			}
			if !ok {
				if strings.TrimSpace(err.Error()) == "" {
					report(what, "empty message", map[string]interface{}{"input": in})
				}
				mu.Lock()
				templates[what+": "+template(err.Error())]++
				mu.Unlock()
				return
			}
			note(what, ge)
			if m := wellFormedProblem(ge, kind, files); m != "" {
				report(what, m, map[string]interface{}{"input": in, "error": ge.Message})
			}
		}
		l := lexer.New(src)
		for k := 0; k <= len(in)+1; k++ {
			tok, err := l.ReadToken()
			if err != nil {
				check("syntax", err, "lexer")
				break
			}
			if tok.Kind == lexer.EOF {
				break
			}
		}
		_, err := parser.ParseQuery(src)
		check("syntax", err, "ParseQuery")
		_, err = parser.ParseSchema(src)
		check("syntax", err, "ParseSchema")
		_, err = parser.ParseQueryWithTokenLimit(src, 3)
		check("syntax", err, "ParseQueryWithTokenLimit")
		_, err = parser.ParseSchemaWithLimit(src, 3)
		check("syntax", err, "ParseSchemaWithLimit")
	})
	c.Evals += int64(n) * 5
	// schema loading: single- and double-fault schemas split over named files
	nSch := n / 10
	type lc struct{ srcs []string }
	loads := make([]lc, nSch)
	for i := range loads {
		s := gen.NewSchema(gen.New(c.Rng.U64()))
		gen.Pick(c.Rng, gen.SchemaFaults).Apply(c.Rng, s)
		loads[i] = lc{partition(c.Rng, s.Chunks(), 1+c.Rng.Intn(3))}
		// one load in five: one, two or all of its sources do not even parse
		if i%5 == 0 {
			bad := 1 + c.Rng.Intn(len(loads[i].srcs))
			for j := 0; j < bad; j++ {
				k := (j + i) % len(loads[i].srcs)
				loads[i].srcs[k] += gen.Pick(c.Rng, []string{"\n}", "\ntype {", "\n\"unterminated", "\nextend", "\n$"})
			}
		}
	}
	// the small-scope type systems, each definition (or site) in a file of its own, and the scale family
	for _, ch := range schemaSmallScopeChunks() {
		var keep []string
		for _, x := range ch {
			if strings.TrimSpace(x) != "" {
				keep = append(keep, x)
			}
		}
		loads = append(loads, lc{keep})
	}
	for _, t := range ScaleSchemasUpTo(300, 4097) {
		loads = append(loads, lc{[]string{t}})
	}
	nSch = len(loads)
	c.Pool.ParFor(nSch, func(w, i int) {
		files := map[string]string{"prelude.graphql": "\x00builtin"}
		var ss []*ast.Source
		for j, t := range loads[i].srcs {
			name := fmt.Sprintf("s%d.graphql", j+1)
			files[name] = t
			ss = append(ss, &ast.Source{Name: name, Input: t})
		}
		_, err := gqlparser.LoadSchema(ss...)
		if err == nil {
			return
		}
		ge, ok := err.(*gqlerror.Error)
		if !ok || ge == nil {
			report("LoadSchema", "error is not a (non-nil) *gqlerror.Error", map[string]interface{}{"sources": loads[i].srcs})
			return
		}
		note("LoadSchema", ge)
		if m := wellFormedProblem(ge, "load", files); m != "" {
			report("LoadSchema", m, map[string]interface{}{"sources": loads[i].srcs, "error": ge.Message})
		}
	})
	c.Evals += int64(nSch)
	// validation with every rule + variable coercion
	cases := GenValidationCases(c, n/100+4, 20, nil)
	// documents with very many errors: every one of them is a full error, however many there are
	for _, m := range []int{99, 100, 101, 150, 400} {
		var fs, vs []string
		for j := 0; j < m; j++ {
			fs = append(fs, "nope"+strconv.Itoa(j))
			vs = append(vs, "$v"+strconv.Itoa(j)+": Int")
		}
		sdl := "type Query { a: Int }"
		cases = append(cases, VCase{Srcs: []string{sdl}, Query: "{ " + strings.Join(fs, " ") + " }"},
			VCase{Srcs: []string{sdl}, Query: "query Q(" + strings.Join(vs, ", ") + ") { a }"})
	}
	c.Pool.ParFor(len(cases), func(w, i int) {
		k := cases[i]
		s, err := loadImpl(k.Srcs...)
		if err != nil {
			return
		}
		doc, perr := parser.ParseQuery(&ast.Source{Name: "q.graphql", Input: k.Query})
		if perr != nil {
			return
		}
		for _, e := range validator.Validate(s, doc) {
			note("Validate", e)
			if m := wellFormedProblem(e, "validation", nil); m != "" {
				report("Validate", m, map[string]interface{}{"schema": k.Srcs, "query": k.Query, "error": e.Message, "rule": e.Rule})
			}
			if f, _ := e.Extensions["file"].(string); f != "q.graphql" {
				report("Validate", "validation error of a named source does not carry its file name", map[string]interface{}{"query": k.Query, "error": e.Message})
			}
			for _, l := range e.Locations {
				if !located(k.Query, l.Line, l.Column) {
					report("Validate", fmt.Sprintf("location %d:%d does not exist in the document", l.Line, l.Column), map[string]interface{}{"query": k.Query, "error": e.Message})
				}
			}
		}
	})
	c.Evals += int64(len(cases))
	// every rule: the small-scope and scale families under the default set, under the explicit list with
	// the four suggestion-free variants, and (one worker, the registry is global) under the default set
	// after ReplaceRule has put each variant in the place of its standard rule, after AddRule and
	// after RemoveRule; every error is a full error named after its rule
	ssCases := append(SmallScopeLight(), ScaleDocsUpTo(300, 4097)...)
	ssSchema, _ := loadImpl(smallScopeSchema)
	checkErrs := func(entry string, k VCase, errs gqlerror.List) {
		for _, e := range errs {
			note(entry, e)
			if m := wellFormedProblem(e, "validation", nil); m != "" {
				report(entry, m, map[string]interface{}{"schema": k.Srcs, "query": k.Query[:min(400, len(k.Query))], "error": e.Message, "rule": e.Rule})
			}
			if f, _ := e.Extensions["file"].(string); f != "q.graphql" {
				report(entry, "validation error of a named source does not carry its file name", map[string]interface{}{"query": k.Query[:min(400, len(k.Query))], "error": e.Message, "rule": e.Rule})
			}
			for _, l := range e.Locations {
				if len(k.Query) < 5000 && !located(k.Query, l.Line, l.Column) {
					report(entry, fmt.Sprintf("location %d:%d does not exist in the document", l.Line, l.Column), map[string]interface{}{"query": k.Query, "error": e.Message})
				}
			}
		}
	}
	c.Pool.ParFor(len(ssCases), func(w, i int) {
		k := ssCases[i]
		doc, perr := parser.ParseQuery(&ast.Source{Name: "q.graphql", Input: k.Query})
		if perr != nil {
			return
		}
		checkErrs("Validate", k, validator.Validate(ssSchema, doc))
		checkErrs("Validate(rules without suggestions)", k, validator.Validate(ssSchema, doc, selectRules(NoSuggestSet)...))
	})
	c.Evals += int64(2 * len(ssCases))
	{
		before := make([]string, len(ssCases))
		docs := make([]*ast.QueryDocument, len(ssCases))
		for i, k := range ssCases {
			docs[i], _ = parser.ParseQuery(&ast.Source{Name: "q.graphql", Input: k.Query})
			if docs[i] != nil {
				before[i] = strings.Join(fullErrors(validator.Validate(ssSchema, docs[i])), "\n")
			}
		}
		registry := func(entry string, change, undo func(), expect func(i int) string) {
			change()
			for i, k := range ssCases {
				if docs[i] == nil {
					continue
				}
				errs := validator.Validate(ssSchema, docs[i])
				checkErrs(entry, k, errs)
				if expect != nil {
					if got, want := strings.Join(fullErrors(errs), "\n"), expect(i); got != want {
						report(entry, "the default set after the change does not report what the explicit list of its rules reports", map[string]interface{}{"query": k.Query[:min(400, len(k.Query))], "default_set": got[:min(600, len(got))], "explicit_list": want[:min(600, len(want))]})
					}
				}
			}
			undo()
			for i, k := range ssCases {
				if docs[i] == nil || i%7 != 0 {
					continue
				}
				if got := strings.Join(fullErrors(validator.Validate(ssSchema, docs[i])), "\n"); got != before[i] {
					report(entry, "the default set differs after the change was undone", map[string]interface{}{"query": k.Query[:min(400, len(k.Query))], "now": got[:min(600, len(got))], "before": before[i][:min(600, len(before[i]))]})
				}
			}
		}
		for _, ns := range NoSuggestRuleNames {
			std := strings.TrimSuffix(ns, "WithoutSuggestions")
			// the documented way of switching suggestions off: the variant's function under the standard name
			var names []string
			for _, n := range DefaultRuleNames {
				if n == std {
					n = ns
				}
				names = append(names, n)
			}
			rs := selectRules(strings.Join(names, ","))
			registry("ReplaceRule("+std+", variant) + Validate",
				func() { validator.ReplaceRule(std, AllRules[ns].RuleFunc) },
				func() { validator.ReplaceRule(std, AllRules[std].RuleFunc) },
				func(i int) string {
					// the same errors as the explicit list, tagged with the name the rule is registered under
					out := fullErrors(validator.Validate(ssSchema, docs[i], rs...))
					for j := range out {
						if strings.HasPrefix(out[j], ns+"|") {
							out[j] = std + strings.TrimPrefix(out[j], ns)
						}
					}
					return strings.Join(out, "\n")
				})
		}
		extra := func(observers *validator.Events, addError validator.AddErrFunc) {
			observers.OnOperation(func(walker *validator.Walker, op *ast.OperationDefinition) {
				addError(validator.Message("operation %s seen", op.Name), validator.At(op.Position))
			})
		}
		registry("AddRule + Validate", func() { validator.AddRule("SeenOperations", extra) }, func() { validator.RemoveRule("SeenOperations") }, nil)
		registry("ReplaceRule(new name) + Validate", func() { validator.ReplaceRule("SeenOperations2", extra) }, func() { validator.RemoveRule("SeenOperations2") }, nil)
		registry("RemoveRule + Validate", func() { validator.RemoveRule("NoUnusedVariables") }, func() {
			// put it back where it was: remove and re-add what followed it
			idx := -1
			for j, n := range DefaultRuleNames {
				if n == "NoUnusedVariables" {
					idx = j
				}
			}
			for _, n := range DefaultRuleNames[idx+1:] {
				validator.RemoveRule(n)
			}
			for _, n := range DefaultRuleNames[idx:] {
				validator.AddRule(n, AllRules[n].RuleFunc)
			}
		}, func(i int) string {
			var names []string
			for _, n := range DefaultRuleNames {
				if n != "NoUnusedVariables" {
					names = append(names, n)
				}
			}
			return strings.Join(fullErrors(validator.Validate(ssSchema, docs[i], selectRules(strings.Join(names, ","))...)), "\n")
		})
		c.Evals += int64(8 * len(ssCases))
		c.Count("registry_change_sequences", 7)
	}
	// coercion errors
	sdl := varsSchema + "\ndirective @tag(x: Any) on FIELD"
	vs, _ := loadImpl(sdl)
	for i := 0; i < n/3; i++ {
		t := gen.Pick(c.Rng, append(typePatterns("Pt", 2), typePatterns("Color", 1)...))
		val, _ := defectiveValue(c.Rng, t)
		q := "query($v0: " + t + ") { f @tag(x: [$v0]) }"
		doc, perr := parser.ParseQuery(&ast.Source{Input: q})
		if perr != nil || len(validator.Validate(vs, doc)) > 0 {
			continue
		}
		vars := map[string]interface{}{"v0": val}
		if c.Rng.Chance(1, 8) {
			vars = map[string]interface{}{}
		}
		var cerr error
		func() {
			defer func() { recover() }()
			_, cerr = validator.VariableValues(vs, doc.Operations[0], vars)
		}()
		if cerr == nil {
			continue
		}
		ge, ok := cerr.(*gqlerror.Error)
		if !ok || ge == nil {
			report("VariableValues", "error is not a (non-nil) *gqlerror.Error: it has no message", map[string]interface{}{"query": q, "variables": EncodeGo(vars)})
			continue
		}
		note("VariableValues", ge)
		if m := wellFormedProblem(ge, "coercion", nil); m != "" {
			report("VariableValues", m, map[string]interface{}{"query": q, "variables": EncodeGo(vars), "error": ge.Message})
		}
		if len(ge.Path) == 0 {
			report("VariableValues", "coercion error without path", map[string]interface{}{"query": q, "error": ge.Message})
		}
	}
	c.Evals += int64(n / 3)
	for t, k := range templates {
		c.Count("template "+t, k)
	}
	c.Count("distinct_message_templates", int64(len(templates)))
	c.Programs = int64(len(templates))
	for t := range templates {
		c.Seen(true, []byte(t))
	}
	c.Sample(map[string]interface{}{"input": inputs[0]})
	_ = utf8.ValidString
}
