package props

import (
	"encoding/json"
	"fmt"
	"sort"
	"strings"

	"github.com/vektah/gqlparser/v2/ast"
	"github.com/vektah/gqlparser/v2/parser"
	"github.com/vektah/gqlparser/v2/validator"

	"verifharness/internal/core"
	"verifharness/internal/gen"
)

func init() {
	Runners["C15"] = runC15
	core.Ops["argmap"] = implArgMap
}

type amDumper struct {
	sb   strings.Builder
	vars map[string]interface{}
}

func (d *amDumper) call(prefix, name string, f func() map[string]interface{}) {
	d.sb.WriteString(prefix + hx(name) + "=")
	func() {
		defer func() {
			if r := recover(); r != nil {
				d.sb.WriteString("panic")
			}
		}()
		first := DumpGo(f())
		d.sb.WriteString(first)
		// ArgumentMap is a function of the node and the variables: a second call gives the same map
		if again := DumpGo(f()); again != first {
			d.sb.WriteString("!second-call:" + again)
		}
	}()
	d.sb.WriteString(";")
}

func (d *amDumper) dirs(ds ast.DirectiveList) {
	for _, x := range ds {
		if x.Definition != nil {
			x := x
			d.call("D", x.Name, func() map[string]interface{} { return x.ArgumentMap(d.vars) })
		}
	}
}

func (d *amDumper) sels(ss ast.SelectionSet) {
	for _, s := range ss {
		switch x := s.(type) {
		case *ast.Field:
			if x.Definition != nil {
				d.call("F", x.Name, func() map[string]interface{} { return x.ArgumentMap(d.vars) })
			}
			d.dirs(x.Directives)
			d.sels(x.SelectionSet)
		case *ast.InlineFragment:
			d.dirs(x.Directives)
			d.sels(x.SelectionSet)
		case *ast.FragmentSpread:
			d.dirs(x.Directives)
		}
	}
}

// args: mode (raw|coerced), query, variables (text form), sources...
func implArgMap(args [][]byte) string {
	srcs := make([]string, len(args)-3)
	for i, a := range args[3:] {
		srcs[i] = string(a)
	}
	s, err := loadImpl(srcs...)
	if err != nil {
		return "schema-err"
	}
	doc, perr := parser.ParseQuery(&ast.Source{Input: string(args[1])})
	if perr != nil {
		return "query-" + dumpErr(perr)
	}
	if errs := validator.Validate(s, doc); len(errs) > 0 {
		return "invalid-doc"
	}
	v, _ := DecodeGo(string(args[2]))
	vars, ok := v.(map[string]interface{})
	if !ok || len(doc.Operations) == 0 {
		return "bad-request"
	}
	raw, _ := DecodeGo(string(args[2])) // VariableValues may write into the supplied map
	coerced, verr := validator.VariableValues(s, doc.Operations[0], vars)
	if verr != nil {
		return "coercion-err"
	}
	d := &amDumper{vars: coerced}
	if string(args[0]) == "raw" {
		d.vars = raw.(map[string]interface{})
	}
	before := DumpQueryDoc(doc, true)
	for _, o := range doc.Operations {
		d.dirs(o.Directives)
		for _, vd := range o.VariableDefinitions {
			d.dirs(vd.Directives)
		}
		d.sels(o.SelectionSet)
	}
	for _, f := range doc.Fragments {
		d.dirs(f.Directives)
		d.sels(f.SelectionSet)
	}
	if DumpQueryDoc(doc, true) != before {
		d.sb.WriteString("!document-changed-by-ArgumentMap")
	}
	return "ok " + d.sb.String()
}

// variable values for the variable definitions of an operation, valid for their types
func varsFor(r *gen.Rng, s *ast.Schema, op *ast.OperationDefinition) map[string]interface{} {
	out := map[string]interface{}{}
	for _, vd := range op.VariableDefinitions {
		switch {
		case r.Chance(1, 4) && (!vd.Type.NonNull || vd.DefaultValue != nil):
			// omitted
		case r.Chance(1, 6) && !vd.Type.NonNull:
			out[vd.Variable] = nil
		default:
			out[vd.Variable] = goValueFor(r, s, vd.Type, 2)
		}
	}
	return out
}

func goValueFor(r *gen.Rng, s *ast.Schema, t *ast.Type, depth int) interface{} {
	if t.Elem != nil {
		n := r.Intn(3)
		out := make([]interface{}, n)
		for i := range out {
			out[i] = goValueFor(r, s, t.Elem, depth)
		}
		return out
	}
	def := s.Types[t.NamedType]
	if def == nil {
		return nil
	}
	switch def.Kind {
	case ast.Enum:
		return gen.Pick(r, def.EnumValues).Name
	case ast.InputObject:
		m := map[string]interface{}{}
		if def.Directives.ForName("oneOf") != nil {
			f := gen.Pick(r, def.Fields)
			ft := *f.Type
			m[f.Name] = goValueFor(r, s, &ft, depth-1)
			return m
		}
		for _, f := range def.Fields {
			if (f.Type.NonNull && f.DefaultValue == nil) || (depth > 0 && r.Bool()) {
				m[f.Name] = goValueFor(r, s, f.Type, depth-1)
			}
		}
		return m
	}
	switch def.Name {
	case "Int":
		return gen.Pick(r, []interface{}{1, int64(-2), json.Number("1")})
	case "Float":
		return gen.Pick(r, []interface{}{0.5, 3, json.Number("2.5")})
	case "String":
		return gen.Pick(r, []interface{}{"", "s", "é"})
	case "Boolean":
		return r.Bool()
	case "ID":
		return gen.Pick(r, []interface{}{"id", 7})
	}
	return gen.Pick(r, []interface{}{1, "any", true, map[string]interface{}{"k": []interface{}{1}}})
}

func runC15(c *core.Ctx) {
	const thm = "C15_* (props/C15.v); model op argmap = Ops.dump_argmap_with"
	c.ReplayKnown()
	nSchemas, per := 250, 40
	if !c.Quick {
		nSchemas, per = 3000, 60
	}
	type cs struct {
		srcs        []string
		query, vars string
	}
	var cases []cs
	feats := map[string]int{}
	for i := 0; i < nSchemas; i++ {
		gs := gen.NewSchema(gen.New(c.Rng.U64()))
		srcs := []string{gs.Text()}
		s, err := loadImpl(srcs...)
		if err != nil {
			continue
		}
		for k := 0; k < per; k++ {
			tg := &gen.TGen{R: c.Rng, S: s, Feat: feats}
			doc := tg.Doc()
			doc.Operations = doc.Operations[:1] // the document is executed as its single operation
			// fragments reachable only from dropped operations would be unused: keep the document valid
			q := gen.PrintDoc(doc)
			d2, perr := parser.ParseQuery(&ast.Source{Input: q})
			if perr != nil || len(validator.Validate(s, d2)) > 0 {
				continue
			}
			cases = append(cases, cs{srcs, q, EncodeGo(varsFor(c.Rng, s, d2.Operations[0]))})
		}
	}
	// hand-written cases: nested variables, omitted variables with and without defaults, explicit nulls, custom scalars
	hs := "type Query { g(x: Int = 5, l: [Int], o: In, any: Any, e: E = A, fl: Float, id: ID, fls: [Float], ids: [ID!]): Int } input In { a: Int = 1 b: [Int] c: In f: Float i: ID } scalar Any enum E { A B } directive @dd(x: Int = 9, y: String) on FIELD"
	for _, q := range []string{
		"query($v: Int = 7, $w: Int) { g(x: $v, l: [$v, $w, 3], o: {a: $w, b: [$v], c: {a: $v}}) }",
		"query($v: Int = 7) { g(x: $v) }", "query($v: Int) { g(x: $v) a: g(l: [$v]) }", "{ g(any: {k: [1, \"s\", X, null, {z: 1.5}]}, x: null) }",
		"{ g @dd g2: g @dd(x: 1, y: \"s\") }", "query($a: Any) { g(any: $a) b: g(any: [$a]) }", "{ g(any: 99999999999999999999) }", "{ g(any: 1e999) }",
		"query($e: E = B) { g(e: $e) }", "query($o: In = {b: [1]}) { g(o: $o) }",
		// numeric literals beyond float64 / int64 at the built-in numeric and ID positions: rejected by
		// validation on the unchanged tree; never a panic in ArgumentMap
		"{ g(fl: 1e999) }", "{ g(id: 99999999999999999999) }", "{ g(fl: 99999999999999999999) }", "{ g(x: 99999999999) }", "{ g(fls: [1.5, 1e999]) }",
		"{ g(ids: [1, 99999999999999999999]) }", "{ g(o: {f: 1e999}) }", "{ g(o: {i: 99999999999999999999}) }", "{ g @dd(x: 99999999999999999999) }",
		"{ g(fl: 1.7976931348623157e308) }", "{ g(id: 9223372036854775807) }", "{ g(id: 9223372036854775808) }",
	} {
		for _, v := range []string{"{}", "{76=i01}", "{76=n}", "{76=i01,77=i02}", "{61=s78}", "{65=s41}", "{6f={61=i03}}"} {
			cases = append(cases, cs{[]string{hs}, q, v})
		}
	}
	// the small-scope family with several variable maps: whatever validates is resolved
	for i, k := range SmallScopeLight() {
		if !c.Quick || i%2 == 0 {
			for _, v := range []string{"{}", "{76=i01,62=t}", "{76=n}", "{76=i07,62=f,66={6e616d65=s61}}"} {
				cases = append(cases, cs{k.Srcs, k.Query, v})
			}
		}
	}
	// block strings whose lines are indented in every way, at every position a value can stand
	for _, body := range []string{"if ok:\n    go()", "a\n  b\n    c", "  a\n  b", "\n  a\n    b\n", "a\n\tb\n\t\tc", "  first\nsecond\n    third", "x", "  x  ", "\n\n  x\n\n", "a\n\n  b", "  a\n\n    b\n  c"} {
		bs := `"""` + body + `"""`
		for _, q := range []string{
			"{ g(any: " + bs + ") }", "{ g @dd(y: " + bs + ") }", "{ g(any: [" + bs + ", {k: " + bs + "}]) }", "query($s: String = " + bs + ") { g @dd(y: $s) }",
			"query($a: Any = {k: [" + bs + "]}) { g(any: $a) }", "{ g(any: \"" + strings.ReplaceAll(strings.ReplaceAll(body, "\n", "\\n"), "\t", "\\t") + "\") }",
		} {
			for _, v := range []string{"{}", "{73=s78}"} {
				cases = append(cases, cs{[]string{hs}, q, v})
			}
		}
		cases = append(cases, cs{[]string{"type Query { g(s: String = " + bs + ", o: In = {t: " + bs + "}): Int } input In { t: String = " + bs + " }"}, "{ g a: g(o: {}) }", "{}"})
	}
	for k, v := range feats {
		c.Count("feature_"+k, int64(v))
	}
	var entries int64
	c.Pool.ParFor(len(cases), func(w, i int) {
		k := cases[i]
		for _, mode := range []string{"coerced", "raw"} {
			args := append([][]byte{[]byte(mode), []byte(k.query), []byte(k.vars)}, toArgs(k.srcs)...)
			impl := c.Impl(w, "argmap", args...)
			v, cur, none := c.Tie(w, "argmap", impl, args...)
			if v == core.Violation {
				c.Report(w, "argmap", thm, args, impl, cur, none)
			}
			if strings.Contains(impl, "panic") && !c.Explained(w, "argmap", impl, args...) {
				c.ReportOracle("argument-map-panic", map[string]interface{}{"op": "argmap", "args": hexArgs(args), "query": k.query, "variables": k.vars, "mode": mode, "implementation": impl})
			}
		}
		c.Seen(strings.Contains(k.query, "("), []byte(k.query), []byte(k.vars))
	})
	_ = entries
	c.Evals += int64(len(cases) * 2)
	c.Programs = int64(len(cases))
	c.Count("triples", int64(len(cases)))
	c.Sample(map[string]interface{}{"query": cases[0].query, "variables": cases[0].vars})
	_ = fmt.Sprint
	_ = sort.Strings
}
