package props

import "strings"

// BlockStringBodies: block strings whose lines are indented in every way (first line, later lines,
// blank lines, tabs), with LF, CRLF and CR line ends, alone and followed by another token.
func BlockStringBodies() []string {
	bodies := []string{"if ok:\n    go()", "a\n  b\n    c", "  a\n  b", "\n  a\n    b\n", "a\n\tb\n\t\tc", "  first\nsecond\n    third", "x", "  x  ", "\n\n  x\n\n",
		"a\n\n  b", "  a\n\n    b\n  c", "", " ", "\n", "  \n  ", "\\\"\"\"", "a\\\"\"\"b\n  c", "\"", "\"\"", "é\n  é", "\t\ta\n\t b"}
	var out []string
	for _, b := range bodies {
		for _, nl := range []string{"\n", "\r\n", "\r"} {
			out = append(out, `"""`+strings.ReplaceAll(b, "\n", nl)+`"""`)
		}
	}
	return out
}

// LexFamilies: the block strings, the same as an argument and as a description, and every placement of text
// that is not a token.
func LexFamilies() []string {
	var out []string
	for _, b := range BlockStringBodies() {
		out = append(out, b, b+" x", "{a(s:"+b+")}", b+" scalar S")
	}
	out = append(out, NonTokenPlacements(false)...)
	out = append(out, NonTokenPlacements(true)...)
	return out
}
