package props

import (
	"encoding/hex"
	"strconv"
	"strings"

	"github.com/vektah/gqlparser/v2/ast"
	"github.com/vektah/gqlparser/v2/parser"
	"github.com/vektah/gqlparser/v2/validator"

	"verifharness/internal/core"
)

func init() {
	Runners["C09"] = runC09
	core.Ops["link"] = implLink
}

// linkDumper: the "Requires validation" slots of every node, in document order
// (Coq: Link.link_doc); problems: what a valid document must not show (C09 oracle).
type linkDumper struct {
	sb       strings.Builder
	s        *ast.Schema
	problems []string
}

func hx(s string) string { return hex.EncodeToString([]byte(s)) }

func (d *linkDumper) oname(x *ast.Definition) string {
	if x == nil {
		return "-"
	}
	if d.s.Types[x.Name] != x {
		d.problems = append(d.problems, "definition "+x.Name+" is not the schema's own object")
	}
	return hx(x.Name)
}

func (d *linkDumper) value(v *ast.Value, declared bool, where string) {
	d.sb.WriteString("V(")
	if v.ExpectedType != nil {
		d.sb.WriteString(hx(v.ExpectedType.String()))
	} else {
		d.sb.WriteString("-")
		if declared {
			d.problems = append(d.problems, where+": value without expected type")
		}
	}
	d.sb.WriteString(";" + d.oname(v.Definition) + ";")
	if declared && v.Definition == nil {
		d.problems = append(d.problems, where+": value without definition")
	}
	if v.Kind == ast.Variable && v.VariableDefinition != nil {
		p := v.VariableDefinition.Position
		d.sb.WriteString(strconv.Itoa(p.Line) + ":" + strconv.Itoa(p.Column))
		if v.VariableDefinition.Variable != v.Raw {
			d.problems = append(d.problems, where+": variable $"+v.Raw+" linked to the definition of $"+v.VariableDefinition.Variable)
		}
	} else {
		d.sb.WriteString("-")
	}
	d.sb.WriteString(")[")
	// children of a declared type are declared too, except inside custom scalars
	childDeclared := declared && v.Definition != nil && (v.Definition.Kind != ast.Scalar)
	for _, c := range v.Children {
		cd := childDeclared
		if v.Kind == ast.ObjectValue && (v.Definition == nil || v.Definition.Fields.ForName(c.Name) == nil) {
			cd = false
		}
		if v.Kind == ast.ListValue && (v.ExpectedType == nil || v.ExpectedType.Elem == nil) {
			cd = false
		}
		d.value(c.Value, cd, where+"."+c.Name)
	}
	d.sb.WriteString("]")
}

func (d *linkDumper) dirs(ds ast.DirectiveList, where string) {
	d.sb.WriteString("[")
	for _, x := range ds {
		d.sb.WriteString("D(" + hx(x.Name) + ";")
		if x.Definition != nil {
			d.sb.WriteString("1")
			if d.s.Directives[x.Name] != x.Definition {
				d.problems = append(d.problems, where+": directive @"+x.Name+" linked to a foreign definition")
			}
		} else {
			d.sb.WriteString("0")
			d.problems = append(d.problems, where+": directive @"+x.Name+" without definition")
		}
		d.sb.WriteString(";" + string(x.Location) + ";" + d.oname(x.ParentDefinition) + ")[")
		if x.Location == "" {
			d.problems = append(d.problems, where+": directive @"+x.Name+" without location")
		}
		for _, a := range x.Arguments {
			d.value(a.Value, x.Definition != nil && x.Definition.Arguments.ForName(a.Name) != nil, where+"@"+x.Name+"("+a.Name+")")
		}
		d.sb.WriteString("]")
	}
	d.sb.WriteString("]")
}

func (d *linkDumper) sels(ss ast.SelectionSet, where string) {
	d.sb.WriteString("[")
	for _, sel := range ss {
		switch x := sel.(type) {
		case *ast.Field:
			d.sb.WriteString("F(" + hx(x.Name) + ";" + d.oname(x.ObjectDefinition) + ";")
			w := where + "/" + x.Name
			if x.Definition != nil {
				d.sb.WriteString(hx(x.Definition.Name) + ":" + hx(x.Definition.Type.String()))
				if x.Name != "__typename" && x.ObjectDefinition != nil && x.ObjectDefinition.Fields.ForName(x.Name) != x.Definition {
					d.problems = append(d.problems, w+": field linked to a definition that is not the parent type's field")
				}
				if x.Definition.Name != x.Name {
					d.problems = append(d.problems, w+": field linked to the definition of "+x.Definition.Name)
				}
			} else {
				d.sb.WriteString("-")
				d.problems = append(d.problems, w+": field without definition")
			}
			if x.ObjectDefinition == nil {
				d.problems = append(d.problems, w+": field without parent type")
			}
			d.sb.WriteString(")[")
			for _, a := range x.Arguments {
				d.value(a.Value, x.Definition != nil && x.Definition.Arguments.ForName(a.Name) != nil, w+"("+a.Name+")")
			}
			d.sb.WriteString("]")
			d.dirs(x.Directives, w)
			d.sels(x.SelectionSet, w)
		case *ast.InlineFragment:
			d.sb.WriteString("I(" + hx(x.TypeCondition) + ";" + d.oname(x.ObjectDefinition) + ")")
			if x.ObjectDefinition == nil {
				d.problems = append(d.problems, where+": inline fragment without parent type")
			}
			d.dirs(x.Directives, where+"/...")
			d.sels(x.SelectionSet, where+"/...")
		case *ast.FragmentSpread:
			d.sb.WriteString("S(" + hx(x.Name) + ";" + d.oname(x.ObjectDefinition) + ";")
			if x.Definition != nil {
				d.sb.WriteString("1")
				if x.Definition.Name != x.Name {
					d.problems = append(d.problems, where+": spread ..."+x.Name+" linked to fragment "+x.Definition.Name)
				}
			} else {
				d.sb.WriteString("0")
				d.problems = append(d.problems, where+": spread ..."+x.Name+" without definition")
			}
			d.sb.WriteString(")")
			d.dirs(x.Directives, where+"/..."+x.Name)
		}
	}
	d.sb.WriteString("]")
}

func (d *linkDumper) doc(q *ast.QueryDocument) {
	for _, o := range q.Operations {
		d.sb.WriteString("O(" + hx(o.Name) + ")[")
		for _, v := range o.VariableDefinitions {
			d.sb.WriteString("X(" + hx(v.Variable) + ";" + d.oname(v.Definition) + ";")
			if v.Definition == nil {
				d.problems = append(d.problems, "variable $"+v.Variable+" without type definition")
			}
			if v.Used {
				d.sb.WriteString("1")
			} else {
				d.sb.WriteString("0")
			}
			d.sb.WriteString(")")
			if v.DefaultValue != nil {
				d.value(v.DefaultValue, true, "$"+v.Variable+" default")
			} else {
				d.sb.WriteString("-")
			}
			d.dirs(v.Directives, "$"+v.Variable)
		}
		d.sb.WriteString("]")
		d.dirs(o.Directives, "operation "+o.Name)
		d.sels(o.SelectionSet, o.Name)
	}
	for _, f := range q.Fragments {
		d.sb.WriteString("G(" + hx(f.Name) + ";" + d.oname(f.Definition) + ")[")
		if f.Definition == nil {
			d.problems = append(d.problems, "fragment "+f.Name+" without type condition definition")
		}
		for _, v := range f.VariableDefinition {
			d.sb.WriteString("X(" + hx(v.Variable) + ";" + d.oname(v.Definition) + ")")
			if v.Definition == nil {
				d.problems = append(d.problems, "fragment variable $"+v.Variable+" without type definition")
			}
		}
		d.sb.WriteString("]")
		d.dirs(f.Directives, "fragment "+f.Name)
		d.sels(f.SelectionSet, f.Name)
	}
}

// args: query, sources...
func implLink(args [][]byte) string {
	out, _ := linkImpl(args)
	return out
}

func linkImpl(args [][]byte) (string, []string) {
	srcs := make([]string, len(args)-1)
	for i, a := range args[1:] {
		srcs[i] = string(a)
	}
	s, err := loadImpl(srcs...)
	if err != nil {
		return "schema-err", nil
	}
	doc, perr := parser.ParseQuery(&ast.Source{Input: string(args[0])})
	if perr != nil {
		return "query-" + dumpErr(perr), nil
	}
	errs := validator.Validate(s, doc)
	d := &linkDumper{s: s}
	d.doc(doc)
	if len(errs) == 0 {
		return "valid " + d.sb.String(), d.problems
	}
	return "invalid " + d.sb.String(), nil
}

func runC09(c *core.Ctx) {
	const thm = "C09_* (props/C09.v); model op link = Ops.dump_link_with"
	c.ReplayKnown()
	nSchemas, per := 250, 30
	if !c.Quick {
		nSchemas, per = 3000, 50
	}
	feats := map[string]int{}
	cases := GenValidationCases(c, nSchemas, per, feats)
	// fragment variables (experimental syntax) in otherwise valid documents
	for i := 0; i < len(cases); i += 7 {
		if cases[i].Expect == "valid" && strings.Contains(cases[i].Query, "fragment F1 on ") {
			k := cases[i]
			k.Query = strings.Replace(k.Query, "fragment F1 on ", "fragment F1($fv: Int = 1, $fw: [String!]) on ", 1)
			cases = append(cases, k)
		}
	}
	// the small-scope family, the type matrix, the introspection matrix and the scale family (up to a
	// hundred elements): every node of every document carries the links the model computes
	ssStride := 300
	if !c.Quick {
		ssStride = 30
	}
	extra := append(SmallScope(ssStride), TypeMatrix()...)
	extra = append(extra, IntrospectionDepthDocs()...)
	extra = append(extra, ScaleDocsUpTo(101, 256)...)
	cases = append(extra, cases...)
	c.Count("small_scope_matrix_and_scale_documents", int64(len(extra)))
	for k, v := range feats {
		c.Count("feature_"+k, int64(v))
	}
	var nValid int64
	c.Pool.ParFor(len(cases), func(w, i int) {
		k := cases[i]
		args := append([][]byte{[]byte(k.Query)}, toArgs(k.Srcs)...)
		impl := c.Impl(w, "link", args...)
		v, cur, none := c.Tie(w, "link", impl, args...)
		if v == core.Violation {
			c.Report(w, "link", thm, args, impl, cur, none)
		}
		if strings.HasPrefix(impl, "valid ") {
			_, problems := linkImpl(args)
			if len(problems) > 0 {
				c.ReportOracle("validated-document-not-linked", map[string]interface{}{"op": "link", "args": hexArgs(args), "schema": k.Srcs, "query": k.Query, "problems": problems})
			}
			c.Seen(true, []byte(k.Query), []byte(k.Srcs[0]))
		}
	})
	_ = nValid
	c.Evals += int64(len(cases))
	c.Programs = int64(len(cases))
	c.Count("pairs", int64(len(cases)))
	c.Sample(map[string]interface{}{"query": cases[0].Query})
}
