package props

import (
	"encoding/hex"
	"encoding/json"
	"fmt"
	"reflect"
	"sort"
	"strconv"
	"strings"
)

// Text form of JSON-like Go values shared with the Coq model (Vars.dump_gval / parse_gval):
// n t f  i<kind><dec>  d<kind><plain decimal>  j<hex>  s<hex>  [v,v]  {hexkey=v,...}
// kinds: int 0, int32 1, int64 2; float32 0, float64 1.

func EncodeGo(v interface{}) string {
	switch x := v.(type) {
	case nil:
		return "n"
	case bool:
		if x {
			return "t"
		}
		return "f"
	case int:
		return "i0" + strconv.Itoa(x)
	case int32:
		return "i1" + strconv.FormatInt(int64(x), 10)
	case int64:
		return "i2" + strconv.FormatInt(x, 10)
	case float32:
		return "d0" + strconv.FormatFloat(float64(x), 'f', -1, 32)
	case float64:
		return "d1" + strconv.FormatFloat(x, 'f', -1, 64)
	case json.Number:
		return "j" + hex.EncodeToString([]byte(x))
	case string:
		return "s" + hex.EncodeToString([]byte(x))
	case []interface{}:
		parts := make([]string, len(x))
		for i, e := range x {
			parts[i] = EncodeGo(e)
		}
		return "[" + strings.Join(parts, ",") + "]"
	case map[string]interface{}:
		keys := make([]string, 0, len(x))
		for k := range x {
			keys = append(keys, k)
		}
		sort.Strings(keys)
		parts := make([]string, len(keys))
		for i, k := range keys {
			parts[i] = hex.EncodeToString([]byte(k)) + "=" + EncodeGo(x[k])
		}
		return "{" + strings.Join(parts, ",") + "}"
	}
	return "?"
}

// DumpGo renders any result value by reflection (typed slices made by coercion included),
// without the kind digits: the dump side of the text form.
func DumpGo(v interface{}) string {
	if v == nil {
		return "n"
	}
	return dumpRV(reflect.ValueOf(v))
}

func dumpRV(rv reflect.Value) string {
	if !rv.IsValid() {
		return "n"
	}
	if jn, ok := rv.Interface().(json.Number); ok {
		return "j" + hex.EncodeToString([]byte(jn))
	}
	switch rv.Kind() {
	case reflect.Interface, reflect.Ptr:
		if rv.IsNil() {
			return "n"
		}
		return dumpRV(rv.Elem())
	case reflect.Bool:
		if rv.Bool() {
			return "t"
		}
		return "f"
	case reflect.Int, reflect.Int8, reflect.Int16, reflect.Int32, reflect.Int64:
		return "i" + strconv.FormatInt(rv.Int(), 10)
	case reflect.Float32:
		return "d" + strconv.FormatFloat(rv.Float(), 'f', -1, 32)
	case reflect.Float64:
		return "d" + strconv.FormatFloat(rv.Float(), 'f', -1, 64)
	case reflect.String:
		return "s" + hex.EncodeToString([]byte(rv.String()))
	case reflect.Slice:
		parts := make([]string, rv.Len())
		for i := range parts {
			parts[i] = dumpRV(rv.Index(i))
		}
		return "[" + strings.Join(parts, ",") + "]"
	case reflect.Map:
		keys := rv.MapKeys()
		ks := make([]string, len(keys))
		for i, k := range keys {
			ks[i] = k.String()
		}
		sort.Strings(ks)
		parts := make([]string, len(ks))
		for i, k := range ks {
			parts[i] = hex.EncodeToString([]byte(k)) + "=" + dumpRV(rv.MapIndex(reflect.ValueOf(k)))
		}
		return "{" + strings.Join(parts, ",") + "}"
	}
	return fmt.Sprintf("?%s", rv.Kind())
}

// DecodeGo parses the text form back into Go values.
func DecodeGo(s string) (interface{}, string) {
	if s == "" {
		return nil, ""
	}
	isDelim := func(c byte) bool { return c == ',' || c == ']' || c == '}' || c == '=' }
	tok := func(s string) (string, string) {
		i := 0
		for i < len(s) && !isDelim(s[i]) {
			i++
		}
		return s[:i], s[i:]
	}
	switch s[0] {
	case 'n':
		return nil, s[1:]
	case 't':
		return true, s[1:]
	case 'f':
		return false, s[1:]
	case 'i':
		t, r := tok(s[2:])
		n, _ := strconv.ParseInt(t, 10, 64)
		switch s[1] {
		case '0':
			return int(n), r
		case '1':
			return int32(n), r
		}
		return n, r
	case 'd':
		t, r := tok(s[2:])
		f, _ := strconv.ParseFloat(t, 64)
		if s[1] == '0' {
			return float32(f), r
		}
		return f, r
	case 'j':
		t, r := tok(s[1:])
		b, _ := hex.DecodeString(t)
		return json.Number(b), r
	case 's':
		t, r := tok(s[1:])
		b, _ := hex.DecodeString(t)
		return string(b), r
	case '[':
		out := []interface{}{}
		r := s[1:]
		for len(r) > 0 && r[0] != ']' {
			if r[0] == ',' {
				r = r[1:]
				continue
			}
			var v interface{}
			v, r = DecodeGo(r)
			out = append(out, v)
		}
		if len(r) > 0 {
			r = r[1:]
		}
		return out, r
	case '{':
		out := map[string]interface{}{}
		r := s[1:]
		for len(r) > 0 && r[0] != '}' {
			if r[0] == ',' {
				r = r[1:]
				continue
			}
			var k string
			k, r = tok(r)
			kb, _ := hex.DecodeString(k)
			if len(r) > 0 && r[0] == '=' {
				r = r[1:]
			}
			var v interface{}
			v, r = DecodeGo(r)
			out[string(kb)] = v
		}
		if len(r) > 0 {
			r = r[1:]
		}
		return out, r
	}
	return nil, ""
}
