package props

import (
	"fmt"
	"sort"
	"strings"

	"github.com/vektah/gqlparser/v2"
	"github.com/vektah/gqlparser/v2/ast"

	"verifharness/internal/core"
	"verifharness/internal/gen"
)

func init() { Runners["C07"] = runC07 }

// closedProblem walks a loaded schema and checks closure, built-ins and exact relations
// (implementation-only oracle; the specification side is spec/TypeSystemSpec Closed).
func closedProblem(s *ast.Schema) string {
	for k, d := range s.Types {
		if d == nil {
			return "Types[" + k + "] is nil"
		}
		if d.Name != k {
			return "Types[" + k + "] holds a definition named " + d.Name
		}
	}
	resolves := func(t *ast.Type, where string) string {
		if t == nil {
			return where + ": nil type"
		}
		if s.Types[t.Name()] == nil {
			return where + ": type " + t.Name() + " does not resolve"
		}
		return ""
	}
	checkDirs := func(ds ast.DirectiveList, where string) string {
		for _, x := range ds {
			if s.Directives[x.Name] == nil {
				return where + ": directive @" + x.Name + " does not resolve"
			}
		}
		return ""
	}
	for k, d := range s.Types {
		for _, f := range d.Fields {
			if m := resolves(f.Type, k+"."+f.Name); m != "" {
				return m
			}
			for _, a := range f.Arguments {
				if m := resolves(a.Type, k+"."+f.Name+"("+a.Name+")"); m != "" {
					return m
				}
				if td := s.Types[a.Type.Name()]; !td.IsInputType() {
					return k + "." + f.Name + "(" + a.Name + ") is not an input type"
				}
				if m := checkDirs(a.Directives, k+"."+f.Name+"("+a.Name+")"); m != "" {
					return m
				}
			}
			td := s.Types[f.Type.Name()]
			if d.Kind == ast.InputObject && !td.IsInputType() {
				return k + "." + f.Name + ": input field of output type"
			}
			if (d.Kind == ast.Object || d.Kind == ast.Interface) && td.Kind == ast.InputObject {
				return k + "." + f.Name + ": output field of input type"
			}
			if m := checkDirs(f.Directives, k+"."+f.Name); m != "" {
				return m
			}
		}
		for _, i := range d.Interfaces {
			if x := s.Types[i]; x == nil || x.Kind != ast.Interface {
				return k + " implements " + i + " which is not an interface of the schema"
			}
		}
		for _, m := range d.Types {
			if x := s.Types[m]; x == nil || x.Kind != ast.Object {
				return k + " has member " + m + " which is not an object of the schema"
			}
		}
		if m := checkDirs(d.Directives, k); m != "" {
			return m
		}
	}
	for k, dd := range s.Directives {
		if dd == nil || dd.Name != k {
			return "Directives[" + k + "] wrong"
		}
		for _, a := range dd.Arguments {
			if m := resolves(a.Type, "@"+k+"("+a.Name+")"); m != "" {
				return m
			}
		}
	}
	for _, r := range []*ast.Definition{s.Query, s.Mutation, s.Subscription} {
		if r != nil && s.Types[r.Name] != r {
			return "root " + r.Name + " is not the schema's own definition"
		}
	}
	// relations: exactly the ones implied by the definitions
	// (with the multiplicity the definitions give: `union U = O | O` and `implements I & I` are accepted
	// by the loader, which enforces no uniqueness of members, and list their member as often as written)
	wantP, wantI := map[string]map[string]int{}, map[string]map[string]int{}
	add := func(m map[string]map[string]int, k, v string) {
		if m[k] == nil {
			m[k] = map[string]int{}
		}
		m[k][v]++
	}
	for k, d := range s.Types {
		switch d.Kind {
		case ast.Union:
			for _, m := range d.Types {
				add(wantP, k, m)
				add(wantI, m, k)
			}
		case ast.Object:
			add(wantP, k, k)
			fallthrough
		case ast.Interface:
			for _, i := range d.Interfaces {
				add(wantP, i, k)
				add(wantI, k, i)
			}
		}
	}
	cmp := func(name string, got map[string][]*ast.Definition, want map[string]map[string]int) string {
		for k, l := range got {
			seen := map[string]int{}
			for _, d := range l {
				if d == nil {
					return name + "[" + k + "] has a nil entry"
				}
				if s.Types[d.Name] != d {
					return name + "[" + k + "] entry " + d.Name + " is not the schema's own definition"
				}
				if want[k][d.Name] == 0 {
					return name + "[" + k + "] has " + d.Name + " which the definitions do not imply"
				}
				seen[d.Name]++
				if seen[d.Name] > want[k][d.Name] {
					return name + "[" + k + "] lists " + d.Name + " more often than the definitions do"
				}
			}
		}
		for k, m := range want {
			for v := range m {
				found := false
				for _, d := range got[k] {
					if d != nil && d.Name == v {
						found = true
					}
				}
				if !found {
					return name + "[" + k + "] lacks " + v
				}
			}
		}
		return ""
	}
	if m := cmp("PossibleTypes", s.PossibleTypes, wantP); m != "" {
		return m
	}
	if m := cmp("Implements", s.Implements, wantI); m != "" {
		return m
	}
	for _, n := range []string{"Int", "Float", "String", "Boolean", "ID", "__Schema", "__Type", "__Field", "__InputValue", "__EnumValue", "__Directive", "__TypeKind", "__DirectiveLocation"} {
		if s.Types[n] == nil {
			return "built-in type " + n + " missing"
		}
	}
	for _, n := range []string{"skip", "include", "deprecated", "specifiedBy"} {
		if s.Directives[n] == nil {
			return "built-in directive @" + n + " missing"
		}
	}
	if s.Query != nil {
		sf, tf := s.Query.Fields.ForName("__schema"), s.Query.Fields.ForName("__type")
		if sf == nil || sf.Type.String() != "__Schema!" {
			return "query root lacks __schema: __Schema!"
		}
		if tf == nil || tf.Type.String() != "__Type" || tf.Arguments.ForName("name") == nil || tf.Arguments.ForName("name").Type.String() != "String!" {
			return "query root lacks __type(name: String!): __Type"
		}
	}
	return ""
}

func loadImpl(srcs ...string) (*ast.Schema, error) {
	ss := make([]*ast.Source, len(srcs))
	for i, s := range srcs {
		ss[i] = &ast.Source{Name: fmt.Sprintf("s%d.graphql", i+1), Input: s}
	}
	s, err := gqlparser.LoadSchema(ss...)
	if err != nil {
		return nil, err
	}
	return s, nil
}

func toArgs(srcs []string) [][]byte {
	out := make([][]byte, len(srcs))
	for i, s := range srcs {
		out[i] = []byte(s)
	}
	return out
}

// split chunks into k consecutive sources
func partition(r *gen.Rng, chunks []string, k int) []string {
	if k <= 1 || len(chunks) < 2 {
		return []string{strings.Join(chunks, "\n")}
	}
	cuts := map[int]bool{}
	for len(cuts) < k-1 && len(cuts) < len(chunks)-1 {
		cuts[1+r.Intn(len(chunks)-1)] = true
	}
	var idx []int
	for c := range cuts {
		idx = append(idx, c)
	}
	sort.Ints(idx)
	var out []string
	prev := 0
	for _, c := range idx {
		out = append(out, strings.Join(chunks[prev:c], "\n"))
		prev = c
	}
	out = append(out, strings.Join(chunks[prev:], "\n"))
	return out
}

func builtinExtensions() []string {
	q := "type Query { a: Int } "
	return []string{
		q + "extend type __Type { extra: Int }",
		q + "extend type __Type { owner: Missing }",
		q + "extend type __Type { owner: [Missing!]! }",
		q + "extend type __Schema { cfg: SomeInput } input SomeInput { a: Int }",
		q + "extend type __Type { f(a: Query): Int }",
		q + "extend type __Type { f(a: Missing): Int }",
		q + "extend type __Field { name: Int }",
		q + "extend type __Type { __x: Int }",
		q + "extend scalar String @nope",
		q + "extend scalar Int @deprecated",
		q + "directive @tag(n: Int!) on SCALAR | ENUM | OBJECT extend scalar String @tag",
		q + "directive @tag(n: Int!) on SCALAR | ENUM | OBJECT extend scalar String @tag(n: 1)",
		q + "directive @tag on SCALAR extend enum __TypeKind @tag",
		q + "extend enum __TypeKind { EXTRA }",
		q + "extend enum __TypeKind { SCALAR }",
		q + "interface Node { id: ID! } extend type __Type implements Node",
		q + "interface Node { name: String } extend type __Type implements Node",
		q + "interface Node { name: Int } extend type __Type implements Node",
		q + "extend type __Type implements Missing",
		q + "extend type __Type implements Query",
		q + "extend input __Nope { a: Int }",
		q + "extend union __U = Query",
		q + "union _Entity = Missing",
		q + "extend type Query { e: __Type @deprecated(reason: 1) }",
		q + "extend type Query { e(a: __TypeKind = NOPE): Int }",
		q + "extend type Query { e(a: __TypeKind = SCALAR): __Schema! }",
		q + "directive @include(if: Boolean!) on FIELD extend type Query { e: Int @include(if: true) }",
		q + "directive @skip(unless: Int) on FIELD_DEFINITION extend type Query { e: Int @skip(unless: 1) }",
		q + "extend type __Directive @deprecated",
		q + "scalar String",
		q + "type __Type { a: Int }",
		q + "extend schema @nope",
	}
}

// hierarchyMatrix: an interface, an interface implementing it and an object implementing both, with
// every combination of argument lists and of result types on the one field they share — what an
// implementer may add or refine is decided against each interface it lists, not only the nearest.
func hierarchyMatrix() []string {
	argv := []string{"", "(x: Int)", "(x: Int!)", "(x: Int! = 5)", "(x: Int = 5)", "(x: String)", "(x: Int, y: Int!)", "(x: Int, y: Int)"}
	tyv := []string{"String", "String!", "[String]", "[String!]!", "Int"}
	var out []string
	q := "type Query { a: A } "
	for _, a1 := range argv {
		for _, a2 := range argv {
			for _, a3 := range argv {
				out = append(out, q+"interface Base { f"+a1+": String } interface Mid implements Base { f"+a2+": String } type A implements Mid & Base { f"+a3+": String }")
			}
		}
	}
	for _, t1 := range tyv {
		for _, t2 := range tyv {
			for _, t3 := range tyv {
				out = append(out, q+"interface Base { f: "+t1+" } interface Mid implements Base { f: "+t2+" } type A implements Base & Mid { f: "+t3+" }")
			}
		}
	}
	for _, impl := range []string{"Mid", "Base", "Mid & Base", "Base & Mid & Top", "Mid & Top"} {
		out = append(out, q+"interface Top { g: Int } interface Base implements Top { f: Int g: Int } interface Mid implements Base & Top { f: Int g: Int h: Int } type A implements "+impl+" { f: Int g: Int h: Int }",
			q+"interface Top { g: Int } interface Base implements Top { f: Int g: Int } interface Mid implements Base & Top { f: Int g: Int h: Int } type A implements "+impl+" { f: Int h: Int }")
	}
	return out
}

func runC07(c *core.Ctx) {
	const thm = "C07_* (props/C07.v); model op load = Ops.dump_load_with (prelude regenerated from /repo)"
	c.ReplayKnown()
	nSchemas := 600
	if !c.Quick {
		nSchemas = 10000
	}
	type cs struct {
		srcs   []string
		expect string // "ok", "err", "" (unknown)
		fault  string
	}
	var cases []cs
	for i := 0; i < nSchemas; i++ {
		seed := c.Rng.U64()
		base := gen.NewSchema(gen.New(seed))
		cases = append(cases, cs{partition(c.Rng, base.Chunks(), 1+c.Rng.Intn(3)), "ok", ""})
		// one injected violation of each enforced rule
		for _, f := range gen.SchemaFaults {
			if !c.Quick || c.Rng.Chance(1, 3) {
				s := gen.NewSchema(gen.New(seed))
				if f.Apply(c.Rng, s) {
					cases = append(cases, cs{partition(c.Rng, s.Chunks(), 1+c.Rng.Intn(2)), "err", f.Name})
				}
			}
		}
		// random SDL
		g := &gen.SGen{}
		g.R = c.Rng
		g.MaxDepth = 1
		g.SDoc()
		cases = append(cases, cs{[]string{gen.Render(c.Rng, g.Toks, 0)}, "", ""})
	}
	// extensions of the built-in types and uses of the built-in directives: whatever a user source
	// adds to the prelude is subject to the same rules as everything else
	for _, sdl := range builtinExtensions() {
		cases = append(cases, cs{[]string{sdl}, "", ""})
	}
	for _, sdl := range hierarchyMatrix() {
		cases = append(cases, cs{[]string{sdl}, "", ""})
	}
	sss := schemaSmallScope()
	for _, sdl := range sss {
		cases = append(cases, cs{[]string{sdl}, "", ""})
	}
	c.Count("small_scope_schemas", int64(len(sss)))
	var nOK, nErr int64
	faultHits := map[string]int64{}
	c.Pool.ParFor(len(cases), func(w, i int) {
		k := cases[i]
		args := toArgs(k.srcs)
		impl := c.Impl(w, "load", args...)
		v, cur, none := c.Tie(w, "load", impl, args...)
		if v == core.Violation {
			c.Report(w, "load", thm, args, impl, cur, none)
		}
		ok := strings.HasPrefix(impl, "ok")
		if k.expect == "ok" && !ok {
			c.ReportOracle("valid-schema-rejected", map[string]interface{}{"op": "load", "args": hexArgs(args), "sources": k.srcs, "implementation": impl})
		}
		if k.expect == "err" && ok {
			c.ReportOracle("ill-formed-schema-accepted", map[string]interface{}{"op": "load", "args": hexArgs(args), "sources": k.srcs, "fault": k.fault})
		}
		if i%2 == 0 {
			func() {
				defer func() {
					if r := recover(); r != nil {
						c.ReportOracle("entry-point-panic", map[string]interface{}{"sources": k.srcs, "panic": fmt.Sprint(r)})
					}
				}()
				if m := schemaEntryProblem(k.srcs); m != "" {
					c.ReportOracle("entry-point-differs", map[string]interface{}{"op": "load", "args": hexArgs(args), "sources": k.srcs, "problem": m})
				}
			}()
		}
		if ok {
			if s, err := loadImpl(k.srcs...); err == nil {
				if m := closedProblem(s); m != "" {
					c.ReportOracle("loaded-schema-not-closed", map[string]interface{}{"op": "load", "args": hexArgs(args), "sources": k.srcs, "problem": m})
				}
			}
		}
		c.Seen(k.expect != "", []byte(strings.Join(k.srcs, "\x00")))
	})
	for _, k := range cases {
		if k.expect == "ok" {
			nOK++
		} else if k.expect == "err" {
			nErr++
			faultHits[k.fault]++
		}
	}
	for f, n := range faultHits {
		c.Count("fault_"+f, n)
	}
	c.Count("valid_by_construction", nOK)
	c.Count("single_fault", nErr)
	c.Count("random_sdl", int64(nSchemas))
	c.Evals += int64(len(cases))
	c.Programs = int64(len(cases))
	c.Sample(map[string]interface{}{"sources": cases[0].srcs})
	c.Sample(map[string]interface{}{"fault": cases[1].fault, "sources": cases[1].srcs})
}

// schemaSmallScope: complete small cross products over one base type system.
// (1) every kind of named type (scalar, object, interface, union, enum, input object, built-in scalar,
// introspection type, undefined) in every wrapping (T, T!, [T], [T!], [T]!, [T!]!, [[T]], [[T!]!]!) at
// every place a type reference can stand (object, interface and input fields; arguments of object
// fields, interface fields and directives), and unwrapped at every place a type name can stand
// (union member, implemented interface of an object and of an interface, each root operation type,
// each kind of extension);
// (2) every shape of directive definition (no argument, required, optional, required with default,
// repeatable, not for this location) applied in every form (bare, with its argument, with an unknown
// argument, with the argument twice, with a value of the wrong type, null, twice in a row) at each of
// the eleven type-system locations.
func schemaSmallScopeChunks() [][]string {
	base := []string{"scalar S", "type O { a: Int }", "interface I { a: Int }", "union U = O", "enum E { A }", "input In { a: Int }", "type Query { q: Int }"}
	with := func(extra ...string) []string { return append(append([]string{}, base...), extra...) }
	targets := []string{"S", "O", "I", "U", "E", "In", "Int", "ID", "__Type", "Nope"}
	wrap := []func(string) string{
		func(t string) string { return t }, func(t string) string { return t + "!" }, func(t string) string { return "[" + t + "]" },
		func(t string) string { return "[" + t + "!]" }, func(t string) string { return "[" + t + "]!" }, func(t string) string { return "[" + t + "!]!" },
		func(t string) string { return "[[" + t + "]]" }, func(t string) string { return "[[" + t + "!]!]!" },
	}
	refPlaces := []string{
		"type X { f: %s }", "interface X { f: %s }", "input X { f: %s }", "type X { f(a: %s): Int }", "interface X { f(a: %s): Int }",
		"directive @d(a: %s) on FIELD", "extend type O { z: %s }", "extend input In { z: %s }", "extend type Query { z(a: %s): Int }",
		"input X { f: %s = null }", "type X { f(a: %s = null): Int }",
	}
	namePlaces := []string{
		"union X = %s", "union X = O | %s", "type X implements %s { a: Int }", "interface X implements %s { a: Int }", "type X implements I & %s { a: Int }",
		"schema { query: %s }", "schema { query: Query mutation: %s }", "schema { query: Query subscription: %s }", "extend schema { mutation: %s }",
		"extend type %s { z: Int }", "extend interface %s { z: Int }", "extend union %s = O", "extend enum %s { Z }", "extend input %s { z: Int }", "extend scalar %s @deprecated",
		"type %s { z: Int }", "scalar %s", "enum %s { Z }", "directive @%s on FIELD",
	}
	var out [][]string
	for _, p := range refPlaces {
		for _, t := range targets {
			for _, w := range wrap {
				out = append(out, with(strings.Replace(p, "%s", w(t), 1)))
			}
		}
	}
	for _, p := range namePlaces {
		for _, t := range append(targets, "Query", "X", "String") {
			out = append(out, with(strings.Replace(p, "%s", t, 1)))
		}
	}
	// the same name twice: every kind of member, written directly, added by an extension, and in two extensions
	dup := [][3]string{
		{"type X { a: Int %s }", "a: Int", "extend type X { %s }"}, {"interface X { a: Int %s }", "a: Int", "extend interface X { %s }"},
		{"input X { a: Int %s }", "a: Int", "extend input X { %s }"}, {"enum X { A %s }", "A", "extend enum X { %s }"},
		{"type X { f(a: Int %s): Int }", "a: Int", ""}, {"directive @x(a: Int %s) on FIELD", "a: Int", ""}, {"union X = O %s", "| O", "extend union X = O"},
		{"input X { a: Int %s }", "a: String", "extend input X { %s }"}, {"type X { a: Int %s }", "a(z: Int): Int", "extend type X { %s }"},
		{"type X implements I %s { a: Int }", "& I", "extend type X implements I"}, {"directive @x on FIELD %s", "| FIELD", ""},
		{"schema { query: Query %s }", "query: Query", "extend schema { %s }"}, {"type X @r %s { a: Int }", "@r", "extend type X @r"},
	}
	for _, dd := range dup {
		out = append(out, with("directive @r on OBJECT", strings.Replace(dd[0], "%s", "", 1)), with("directive @r on OBJECT", strings.Replace(dd[0], "%s", dd[1], 1)))
		if dd[2] != "" {
			e := strings.Replace(dd[2], "%s", dd[1], 1)
			out = append(out, with("directive @r on OBJECT", strings.Replace(dd[0], "%s", "", 1), e), with("directive @r on OBJECT", strings.Replace(dd[0], "%s", "", 1), e, e),
				with("directive @r on OBJECT", e, strings.Replace(dd[0], "%s", "", 1)), with("directive @r on OBJECT", e, e))
		}
	}
	for _, t := range []string{"scalar S", "type O { b: Int }", "enum O { B }", "directive @x on FIELD", "directive @skip(if: Boolean!) on FIELD", "scalar Int", "type __Type { a: Int }", "type Query { z: Int }"} {
		out = append(out, with(t), with(t, t))
	}
	// a type that is not an object under the default name of a root, without and with a schema block
	for _, root := range []string{"Query", "Mutation", "Subscription"} {
		for _, decl := range []string{"input %s { a: Int }", "interface %s { a: Int }", "enum %s { A }", "scalar %s", "union %s = O", "type %s { a: Int }"} {
			dtxt := strings.Replace(decl, "%s", root, 1)
			if root == "Query" {
				out = append(out, []string{"type O { a: Int }", dtxt}, []string{"type O { a: Int }", dtxt, "schema { query: Query }"}, []string{"type O { a: Int }", dtxt, "schema { query: O }"})
			} else {
				out = append(out, with(dtxt), with(dtxt, "schema { query: Query }"), with(dtxt, "extend schema { "+strings.ToLower(root)+": "+root+" }"))
			}
		}
	}
	allLoc := "SCHEMA | SCALAR | OBJECT | FIELD_DEFINITION | ARGUMENT_DEFINITION | INTERFACE | UNION | ENUM | ENUM_VALUE | INPUT_OBJECT | INPUT_FIELD_DEFINITION"
	defs := []string{
		"directive @x on " + allLoc, "directive @x(a: Int!) on " + allLoc, "directive @x(a: Int) on " + allLoc, "directive @x(a: Int! = 1) on " + allLoc,
		"directive @x(a: Int) repeatable on " + allLoc, "directive @x(a: Int) on FIELD", "directive @x(a: In, b: [E!]) on " + allLoc, "",
	}
	forms := []string{"@x", "@x(a: 1)", "@x(b: 1)", "@x(a: 1, a: 2)", `@x(a: "s")`, "@x(a: null)", "@x @x", "@x(a: 1) @x(a: 2)", "@x(a: {a: 1}, b: [A])", "@x(a: $v)", "@oneOf", "@oneOf(a: 1)", `@deprecated(reason: "r", x: 1)`, "@skip(if: true)"}
	sites := []string{
		"schema %s { query: Query } type Query { q: Int }", "scalar T %s type Query { q: Int }", "type Query %s { q: Int }", "type Query { q: Int %s }",
		"type Query { q(a: Int %s): Int }", "interface T %s { q: Int } type Query { q: Int }", "union T %s = Query type Query { q: Int }", "enum T %s { A } type Query { q: Int }",
		"enum T { A %s } type Query { q: Int }", "input T %s { a: Int } type Query { q: Int }", "input T { a: Int %s } type Query { q: Int }",
		"directive @y(a: Int %s) on FIELD type Query { q: Int }", "extend type Query %s type Query { q: Int }", "type Query { q: Int } extend schema %s",
		"input T { a: Int! %s } type Query { q: Int }", "type Query { q(a: Int! %s): Int }",
	}
	for _, df := range defs {
		for _, f := range forms {
			for _, st := range sites {
				out = append(out, []string{"input In { a: Int }", "enum E { A }", df, strings.Replace(st, "%s", f, 1)})
			}
		}
	}
	return out
}

func schemaSmallScope() []string {
	var out []string
	for _, ch := range schemaSmallScopeChunks() {
		out = append(out, strings.Join(ch, " "))
	}
	return out
}
