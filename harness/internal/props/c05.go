package props

import (
	"strconv"
	"strings"
	"sync/atomic"

	"github.com/vektah/gqlparser/v2/ast"

	"verifharness/internal/core"
	"verifharness/internal/gen"
)

func init() { Runners["C05"] = runC05 }

var queryClasses = []gen.Tok{
	gen.P("{"), gen.P("}"), gen.P("("), gen.P(")"), gen.P("["), gen.P("]"), gen.P(":"), gen.P("="), gen.P("@"), gen.P("!"),
	gen.P("$"), gen.P("..."), gen.W("a"), gen.W("on"), gen.W("query"), gen.W("fragment"), gen.W("1"), gen.P("\"s\""),
}

func runC05(c *core.Ctx) {
	const thm = "C05 (props/C05.v); model op pq = ParseQuery.dump_parse_query"
	c.ReplayKnown()
	maxLen, nDocs := 7, 20000
	if !c.Quick {
		maxLen, nDocs = 8, 300000
	}
	pre := [][]byte{[]byte("1"), []byte("0")}
	n := enumTokenSeqsPar(c, "pq", pre, queryClasses, maxLen, thm)
	c.Evals += n
	c.Count("token_sequences_viable_prefix_pruned", n)
	c.Exhaustive = true
	c.ExhaustNote = "all token sequences of <= " + strconv.Itoa(maxLen) + " tokens over " + strconv.Itoa(len(queryClasses)) + " token classes, viable-prefix pruned"

	type docCase struct {
		toks   []gen.Tok
		expect string
		r0, r1 string
		mut    string
	}
	feats := map[string]int{}
	cases := make([]docCase, nDocs)
	for i := range cases {
		g := &gen.QGen{R: c.Rng, MaxDepth: 2 + c.Rng.Intn(2), Features: feats}
		g.VarDefDirs = c.Rng.Chance(1, 2)
		g.FragVars = c.Rng.Chance(1, 4)
		doc := g.Doc()
		cases[i].toks = g.Toks
		cases[i].expect = "ok " + DumpQueryDoc(doc, false)
		cases[i].r0 = gen.Render(c.Rng, g.Toks, 0)
		cases[i].r1 = gen.Render(c.Rng, g.Toks, 1)
		cases[i].mut = gen.Render(c.Rng, gen.MutateToks(c.Rng, g.Toks, queryClasses), c.Rng.Intn(2))
	}
	for k, v := range feats {
		c.Count("feature_"+k, int64(v))
	}
	var okMut, errMut, nq int64
	nQuoted := nDocs / 4
	c.Pool.ParFor(nDocs, func(w, i int) {
		cs := cases[i]
		for _, in := range []string{cs.r0, cs.r1} {
			c.CheckCase(w, "pq", thm, []byte("1"), []byte("0"), []byte(in))
			// oracle on the implementation alone: the tree is exactly what was written
			got := c.Impl(w, "pq", []byte("0"), []byte("0"), []byte(in))
			if got != cs.expect {
				c.ReportOracle("tree-not-faithful", map[string]interface{}{
					"op": "pq", "args": []string{"30", "30", hexs(in)}, "input": in,
					"expected_tree": cs.expect, "implementation": got,
					"note": "the generator rendered this tree to tokens (with ignored tokens placed at random); parsing must give the tree back, independent of layout"})
			}
		}
		c.Seen(true, []byte(cs.r0))
		// a limited parse in between (the limited and the unlimited entry point share no state)
		if i%4 == 0 {
			c.CheckCase(w, "pq", thm, []byte("1"), []byte(strconv.Itoa(1+i%7)), []byte(cs.r0))
			c.CheckCase(w, "pq", thm, []byte("1"), []byte("0"), []byte(cs.r0))
		}
		// every word of the document written as a string literal with the same contents
		if i < nQuoted {
			for _, k := range gen.WordIndexes(cs.toks) {
				qt := append([]gen.Tok(nil), cs.toks...)
				qt[k] = gen.Quoted(qt[k], (i+k)%3 == 0)
				c.CheckCase(w, "pq", thm, []byte("1"), []byte("0"), []byte(gen.Render(nil, qt, 0)))
				atomic.AddInt64(&nq, 1)
			}
		}
		m := c.Impl(w, "pq", []byte("1"), []byte("0"), []byte(cs.mut))
		v, cur, none := c.Tie(w, "pq", m, []byte("1"), []byte("0"), []byte(cs.mut))
		if v == core.Violation {
			c.Report(w, "pq", thm, [][]byte{[]byte("1"), []byte("0"), []byte(cs.mut)}, m, cur, none)
		}
		if strings.HasPrefix(m, "ok") {
			atomic.AddInt64(&okMut, 1)
		} else {
			atomic.AddInt64(&errMut, 1)
		}
	})
	wide := WideQueryDocs()
	c.Pool.ParFor(len(wide), func(w, i int) {
		c.CheckCase(w, "pq", thm, []byte("1"), []byte("0"), []byte(wide[i]))
	})
	c.Count("wide_and_deep_documents", int64(len(wide)))
	// constant and non-constant positions with every shape of value; the small-scope documents (light)
	// and the scale family as texts to parse
	extra := append(ConstSitesQuery(), NonTokenPlacements(false)...)
	for _, k := range SmallScopeLight() {
		extra = append(extra, k.Query)
	}
	for _, k := range ScaleDocsUpTo(300, 4097) {
		extra = append(extra, k.Query)
	}
	c.Pool.ParFor(len(extra), func(w, i int) {
		c.CheckCase(w, "pq", thm, []byte("1"), []byte("0"), []byte(extra[i]))
	})
	c.Count("constant_sites_small_scope_and_scale_documents", int64(len(extra)))
	c.Evals += int64(nDocs)*5 + int64(len(wide))
	c.Programs = int64(nDocs)
	c.Count("generated_documents", int64(nDocs))
	c.Count("words_written_as_string_literals", nq)
	c.Count("mutants_accepted", okMut)
	c.Count("mutants_rejected", errMut)
	for i := 0; i < 3; i++ {
		c.Sample(map[string]string{"document": cases[i].r1, "mutant": cases[i].mut})
	}
	_ = ast.Query
}

// WideQueryDocs: one construct repeated or nested n times, for n around 64 and beyond: nothing in
// the grammar counts.
func WideQueryDocs() []string {
	var out []string
	rep := func(n int, f func(i int) string, sep string) string {
		parts := make([]string, n)
		for i := range parts {
			parts[i] = f(i)
		}
		return strings.Join(parts, sep)
	}
	for _, n := range []int{1, 2, 63, 64, 65, 66, 129, 300} {
		is := func(i int) string { return strconv.Itoa(i) }
		out = append(out,
			"{ "+rep(n, func(i int) string { return "...F" }, " ")+" } fragment F on T { a }",
			"{ "+rep(n, func(i int) string { return "... on T { a }" }, " ")+" }",
			"{ "+rep(n, func(i int) string { return "... @d { a }" }, " ")+" }",
			"{ "+rep(n, func(i int) string { return "a" + is(i) }, " ")+" }",
			"{ f("+rep(n, func(i int) string { return "a" + is(i) + ": " + is(i) }, ", ")+") }",
			"query Q("+rep(n, func(i int) string { return "$v" + is(i) + ": Int = " + is(i) }, ", ")+") { a }",
			"query Q "+rep(n, func(i int) string { return "@d" + is(i) + "(x: " + is(i) + ")" }, " ")+" { a }",
			"{ f(l: ["+rep(n, func(i int) string { return is(i) }, ", ")+"]) }",
			"{ f(o: {"+rep(n, func(i int) string { return "k" + is(i) + ": $v" }, ", ")+"}) }",
			rep(n, func(i int) string { return "query Q" + is(i) + " { a ...F" + is(i) + " }" }, " "),
			rep(n, func(i int) string { return "fragment F" + is(i) + " on T { a }" }, " "),
			strings.Repeat("{ a ", n)+"b"+strings.Repeat(" }", n),
			"{ "+strings.Repeat("... { ", n)+"a"+strings.Repeat(" }", n)+" }",
			"{ "+strings.Repeat("... on T { ", n)+"a"+strings.Repeat(" }", n)+" }",
			"{ f(l: "+strings.Repeat("[", n)+"1"+strings.Repeat("]", n)+") }",
			"{ f(o: "+strings.Repeat("{k: ", n)+"1"+strings.Repeat("}", n)+") }",
			"query Q($v: "+strings.Repeat("[", n)+"Int"+strings.Repeat("]", n)+") { a }",
			"query Q($v: "+strings.Repeat("[", n)+"Int!"+strings.Repeat("]!", n)+") { a }",
			// the same with one closing token missing
			"query Q($v: "+strings.Repeat("[", n)+"Int"+strings.Repeat("]", n-1)+") { a }",
			"{ f(l: "+strings.Repeat("[", n)+"1"+strings.Repeat("]", n-1)+") }",
			"{ "+strings.Repeat("... { ", n)+"a"+strings.Repeat(" }", n-1)+" }",
		)
	}
	return out
}

func hexs(s string) string {
	const hexd = "0123456789abcdef"
	if s == "" {
		return "-"
	}
	out := make([]byte, 0, 2*len(s))
	for i := 0; i < len(s); i++ {
		out = append(out, hexd[s[i]>>4], hexd[s[i]&15])
	}
	return string(out)
}

// enumTokenSeqsPar: DFS with viable-prefix pruning, parallel over the first two tokens.
func enumTokenSeqsPar(c *core.Ctx, op string, pre [][]byte, classes []gen.Tok, maxLen int, thm string) int64 {
	var total int64
	var rec func(w int, seq []int)
	rec = func(w int, seq []int) {
		toks := make([]string, len(seq))
		starts := make([]int, len(seq))
		col := 1
		for i, k := range seq {
			toks[i] = classes[k].Text
			starts[i] = col
			col += len([]rune(toks[i])) + 1
		}
		input := []byte(strings.Join(toks, " "))
		args := append(append([][]byte{}, pre...), input)
		impl := c.Impl(w, op, args...)
		v, cur, none := c.Tie(w, op, impl, args...)
		atomic.AddInt64(&total, 1)
		if v == core.Violation {
			c.Report(w, op, thm, args, impl, cur, none)
		}
		if len(seq) >= maxLen {
			return
		}
		if strings.HasPrefix(cur, "err S ") && len(seq) > 0 {
			f := strings.Fields(cur)
			if len(f) == 4 {
				ecol, _ := strconv.Atoi(f[3])
				if f[2] == "1" && ecol < starts[len(seq)-1] {
					return
				}
			}
		}
		for k := range classes {
			rec(w, append(append([]int(nil), seq...), k))
		}
	}
	// lengths 0 and 1 serially (without descending), then every length-2 seed in parallel
	saved := maxLen
	maxLen = 0
	rec(0, []int{})
	maxLen = 1
	for a := range classes {
		rec(0, []int{a})
	}
	maxLen = saved
	if maxLen >= 2 {
		var seeds [][]int
		for a := range classes {
			for b := range classes {
				seeds = append(seeds, []int{a, b})
			}
		}
		c.Pool.ParFor(len(seeds), func(w, i int) { rec(w, seeds[i]) })
	}
	return atomic.LoadInt64(&total)
}
