package props

import (
	"strings"

	"github.com/vektah/gqlparser/v2/ast"
	"github.com/vektah/gqlparser/v2/gqlerror"
	"github.com/vektah/gqlparser/v2/parser"
	"github.com/vektah/gqlparser/v2/validator"

	"verifharness/internal/core"
	"verifharness/internal/gen"
)

func init() { Runners["C18"] = runC18 }

// full rendering of an error list (messages included), for implementation-only comparisons
func fullErrors(errs gqlerror.List) []string {
	out := make([]string, len(errs))
	for i, e := range errs {
		var sb strings.Builder
		sb.WriteString(e.Rule + "|" + e.Message + "|")
		for _, l := range e.Locations {
			sb.WriteString(itoa(l.Line) + ":" + itoa(l.Column) + ",")
		}
		out[i] = sb.String()
	}
	return out
}

func validateImpl(s *ast.Schema, query string, ruleNames []string) ([]string, bool) {
	doc, err := parser.ParseQuery(&ast.Source{Input: query})
	if err != nil {
		return nil, false
	}
	if ruleNames == nil {
		return fullErrors(validator.Validate(s, doc)), true
	}
	rs := make([]validator.Rule, len(ruleNames))
	for i, n := range ruleNames {
		rs[i] = AllRules[n]
	}
	return fullErrors(validator.Validate(s, doc, rs...)), true
}

func filterRule(errs []string, rule string) []string {
	var out []string
	for _, e := range errs {
		if strings.HasPrefix(e, rule+"|") {
			out = append(out, e)
		}
	}
	return out
}

func eqStrs(a, b []string) bool {
	if len(a) != len(b) {
		return false
	}
	for i := range a {
		if a[i] != b[i] {
			return false
		}
	}
	return true
}

func stripSuggestion(e string) string {
	parts := strings.SplitN(e, "|", 3)
	if len(parts) != 3 {
		return e
	}
	if k := strings.Index(parts[1], " Did you mean"); k >= 0 {
		parts[1] = parts[1][:k]
	}
	return parts[1] + "|" + parts[2]
}

func runC18(c *core.Ctx) {
	const thm = "C18_* (props/C18.v); model op val with explicit rule lists"
	c.ReplayKnown()
	nSchemas, per, nSubsets := 40, 12, 8
	if !c.Quick {
		nSchemas, per, nSubsets = 400, 30, 40
	}
	cases := GenValidationCases(c, nSchemas, per, nil)
	cases = append(cases, TypeMatrixLiterals()...)
	// the small-scope family (every second document in the quick tier) and the scale family up to
	// a hundred elements: more than a hundred errors spread over several rules
	light := SmallScopeLight()
	for i, k := range light {
		if !c.Quick || i%2 == 0 {
			cases = append(cases, k)
		}
	}
	scale := ScaleDocsUpTo(300, 4097)
	for i := range scale {
		scale[i].ImplOnly = true
	}
	cases = append(scale, cases...)
	c.Count("small_scope_documents", int64(len(light)))
	all := append(append([]string{}, DefaultRuleNames...), NoSuggestRuleNames...)
	// random subsets and orders, fixed for the run
	subsets := make([][]string, nSubsets)
	for i := range subsets {
		p := append([]string{}, all...)
		for j := len(p) - 1; j > 0; j-- {
			x := c.Rng.Intn(j + 1)
			p[j], p[x] = p[x], p[j]
		}
		subsets[i] = p[:1+c.Rng.Intn(len(p))]
	}
	schemas := map[string]*ast.Schema{}
	for _, k := range cases {
		if _, ok := schemas[k.Srcs[0]]; !ok {
			s, err := loadImpl(k.Srcs...)
			if err == nil {
				schemas[k.Srcs[0]] = s
			}
		}
	}
	c.Pool.ParFor(len(cases), func(w, i int) {
		k := cases[i]
		s := schemas[k.Srcs[0]]
		if s == nil {
			return
		}
		def, ok := validateImpl(s, k.Query, nil)
		if !ok {
			return
		}
		report := func(kind string, detail map[string]interface{}) {
			detail["schema"] = k.Srcs
			detail["query"] = k.Query
			c.ReportOracle(kind, detail)
		}
		// the default set is the explicit list of all specified rules
		expl, _ := validateImpl(s, k.Query, DefaultRuleNames)
		if !eqStrs(def, expl) {
			report("default-set-differs-from-explicit-list", map[string]interface{}{"default": def, "explicit": expl})
		}
		single := map[string][]string{}
		for _, r := range all {
			single[r], _ = validateImpl(s, k.Query, []string{r})
			// tie: singleton rule lists against the model
			if k.ImplOnly {
				continue
			}
			args := valArgs(r, k)
			impl := c.Impl(w, "val", args...)
			v, cur, none := c.Tie(w, "val", impl, args...)
			if v == core.Violation {
				c.Report(w, "val", thm, args, impl, cur, none)
			}
		}
		for _, r := range DefaultRuleNames {
			if !eqStrs(filterRule(def, r), single[r]) {
				report("rule-differs-alone-and-in-default-set", map[string]interface{}{"rule": r, "in_set": filterRule(def, r), "alone": single[r]})
			}
		}
		// the empty subset: an explicit list without members runs no rule at all
		if none, _ := validateImpl(s, k.Query, []string{}); len(none) != 0 {
			report("empty-rule-list-reports-errors", map[string]interface{}{"errors": none})
		}
		if !k.ImplOnly {
			args := valArgs("-", k)
			impl := c.Impl(w, "val", args...)
			if v, cur, none := c.Tie(w, "val", impl, args...); v == core.Violation {
				c.Report(w, "val", thm, args, impl, cur, none)
			}
		}
		for _, sub := range subsets {
			got, _ := validateImpl(s, k.Query, sub)
			total := 0
			for _, r := range sub {
				fr := filterRule(got, r)
				total += len(fr)
				if !eqStrs(fr, single[r]) {
					report("rule-differs-alone-and-in-subset", map[string]interface{}{"rule": r, "subset": sub, "in_set": fr, "alone": single[r]})
				}
			}
			if total != len(got) {
				report("errors-not-union-of-members", map[string]interface{}{"subset": sub, "errors": got})
			}
			if k.ImplOnly {
				continue
			}
			args := valArgs(strings.Join(sub, ","), k)
			impl := c.Impl(w, "val", args...)
			v, cur, none := c.Tie(w, "val", impl, args...)
			if v == core.Violation {
				c.Report(w, "val", thm, args, impl, cur, none)
			}
		}
		// without-suggestions variants: same errors, only the "Did you mean" suffix removed
		for _, ns := range NoSuggestRuleNames {
			std := strings.TrimSuffix(ns, "WithoutSuggestions")
			a, b := single[std], single[ns]
			same := len(a) == len(b)
			for j := 0; same && j < len(a); j++ {
				if stripSuggestion(a[j]) != stripSuggestion(b[j]) || strings.Contains(b[j], " Did you mean") {
					same = false
				}
			}
			if !same {
				report("without-suggestions-variant-differs", map[string]interface{}{"rule": std, "standard": a, "variant": b})
			}
		}
		c.Seen(len(def) > 0, []byte(k.Query), []byte(k.Srcs[0]))
	})
	c.Evals += int64(len(cases) * (len(all) + nSubsets + 2))
	c.Programs = int64(len(cases))
	c.Count("pairs", int64(len(cases)))
	c.Count("singleton_rules", int64(len(all)))
	c.Count("random_subsets_and_orders", int64(nSubsets))
	c.Sample(map[string]interface{}{"subset": subsets[0], "query": cases[0].Query})
	_ = gen.Pick[int]
}
