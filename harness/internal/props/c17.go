package props

import (
	gqlparser "github.com/vektah/gqlparser/v2"
	"sort"
	"strings"

	"github.com/vektah/gqlparser/v2/ast"
	"github.com/vektah/gqlparser/v2/gqlerror"

	"verifharness/internal/core"
	"verifharness/internal/gen"
)

func init() { Runners["C17"] = runC17 }

// normalisedSchema: the loaded schema with everything the property treats as a set sorted
// (fields per type, interfaces, members, enum values, directives, relation entries).
func normalisedSchema(s *ast.Schema) string {
	var sb strings.Builder
	name := func(d *ast.Definition) string {
		if d == nil {
			return "-"
		}
		return d.Name
	}
	sb.WriteString("roots:" + name(s.Query) + "," + name(s.Mutation) + "," + name(s.Subscription) + ";desc:" + s.Description + ";")
	dd := func(ds ast.DirectiveList) string {
		var l []string
		for _, x := range ds {
			d := &dumper{}
			d.dirs(ast.DirectiveList{x})
			l = append(l, d.sb.String())
		}
		sort.Strings(l)
		return strings.Join(l, "")
	}
	sb.WriteString("sdirs:" + dd(s.SchemaDirectives) + ";")
	var tn []string
	for k := range s.Types {
		tn = append(tn, k)
	}
	sort.Strings(tn)
	for _, k := range tn {
		t := s.Types[k]
		sb.WriteString("T " + string(t.Kind) + " " + k + " desc=" + t.Description + " dirs=" + dd(t.Directives))
		l := append([]string{}, t.Interfaces...)
		sort.Strings(l)
		sb.WriteString(" ifaces=" + strings.Join(l, ","))
		l = append([]string{}, t.Types...)
		sort.Strings(l)
		sb.WriteString(" members=" + strings.Join(l, ","))
		var fl []string
		for _, f := range t.Fields {
			d := &dumper{}
			d.def(&ast.Definition{Kind: ast.Object, Fields: ast.FieldList{f}})
			fl = append(fl, d.sb.String())
		}
		sort.Strings(fl)
		sb.WriteString(" fields=" + strings.Join(fl, ""))
		var el []string
		for _, e := range t.EnumValues {
			el = append(el, e.Name+"("+e.Description+")"+dd(e.Directives))
		}
		sort.Strings(el)
		sb.WriteString(" values=" + strings.Join(el, ",") + "\n")
	}
	var dn []string
	for k := range s.Directives {
		dn = append(dn, k)
	}
	sort.Strings(dn)
	for _, k := range dn {
		d := &dumper{}
		d.dirdefs(ast.DirectiveDefinitionList{s.Directives[k]})
		sb.WriteString(d.sb.String() + "\n")
	}
	rel := func(m map[string][]*ast.Definition) {
		var ks []string
		for k := range m {
			ks = append(ks, k)
		}
		sort.Strings(ks)
		for _, k := range ks {
			var l []string
			for _, x := range m[k] {
				l = append(l, name(x))
			}
			sort.Strings(l)
			sb.WriteString(k + "=" + strings.Join(l, ",") + ";")
		}
		sb.WriteString("\n")
	}
	rel(s.PossibleTypes)
	rel(s.Implements)
	return sb.String()
}

func runC17(c *core.Ctx) {
	const thm = "C17_* (props/C17.v); model op load on every permutation"
	c.ReplayKnown()
	nSchemas, nPerm := 600, 6
	if !c.Quick {
		nSchemas, nPerm = 5000, 40
	}
	type base struct {
		chunks []string
		fault  string
	}
	var bases []base
	for i := 0; i < nSchemas; i++ {
		seed := c.Rng.U64()
		s := gen.NewSchema(gen.New(seed))
		bases = append(bases, base{s.Chunks(), ""})
		f := gen.Pick(c.Rng, gen.SchemaFaults)
		s2 := gen.NewSchema(gen.New(seed))
		if f.Apply(c.Rng, s2) {
			bases = append(bases, base{s2.Chunks(), f.Name})
		}
	}
	// the small-scope type systems, one definition (or one site) per chunk
	for _, ch := range schemaSmallScopeChunks() {
		var keep []string
		for _, x := range ch {
			if strings.TrimSpace(x) != "" {
				keep = append(keep, x)
			}
		}
		bases = append(bases, base{keep, "small-scope"})
	}
	perms := make([][][]string, len(bases)) // per base: list of source lists
	for i, b := range bases {
		perms[i] = append(perms[i], []string{strings.Join(b.chunks, "\n")})
		for k := 0; k < nPerm; k++ {
			p := append([]string{}, b.chunks...)
			for j := len(p) - 1; j > 0; j-- {
				x := c.Rng.Intn(j + 1)
				p[j], p[x] = p[x], p[j]
			}
			perms[i] = append(perms[i], partition(c.Rng, p, 1+c.Rng.Intn(5)))
		}
	}
	c.Pool.ParFor(len(bases), func(w, i int) {
		var ref string
		for k, srcs := range perms[i] {
			args := toArgs(srcs)
			impl := c.Impl(w, "load", args...)
			v, cur, none := c.Tie(w, "load", impl, args...)
			if v == core.Violation {
				c.Report(w, "load", thm, args, impl, cur, none)
			}
			// oracle on the implementation alone: same verdict and same schema (as sets) for every order and split
			var norm string
			s, err := loadImpl(srcs...)
			if err != nil {
				norm = "err"
				// the error names one of the files
				if ge, ok := err.(*gqlerror.Error); ok && ge != nil {
					file, _ := ge.Extensions["file"].(string)
					okFile := file == "prelude.graphql"
					for j := range srcs {
						if file == "s"+itoa(j+1)+".graphql" {
							okFile = true
							if len(ge.Locations) == 1 && !located(srcs[j], ge.Locations[0].Line, ge.Locations[0].Column) {
								okFile = false
							}
						}
					}
					if !okFile {
						c.ReportOracle("load-error-file", map[string]interface{}{"op": "load", "args": hexArgs(args), "sources": srcs, "error": ge.Error(), "file": file})
					}
				}
			} else {
				norm = normalisedSchema(s)
			}
			if k == 0 {
				ref = norm
			} else if norm != ref {
				c.ReportOracle("order-or-split-dependent", map[string]interface{}{"op": "load", "args": hexArgs(args), "sources": srcs,
					"original": perms[i][0], "fault": bases[i].fault, "this_order": firstDiff(ref, norm)})
			}
		}
		c.Seen(true, []byte(strings.Join(bases[i].chunks, "\n")))
	})
	// sources marked built-in and ordinary sources in every order behind the prelude (which LoadSchema puts
	// first: of two declarations of a specified directive the first is kept, a documented arbitrary choice, so
	// the prelude's place is not permuted); what one source declares another declares again, extends, or uses
	type flagged struct {
		text    string
		builtin bool
	}
	q := "type Query { a: Int }"
	sets := [][]flagged{
		{{"directive @key(fields: String!) on OBJECT", true}, {"directive @key(fields: String!) on OBJECT " + q, false}},
		{{"directive @key(fields: String!) on OBJECT", true}, {"type T @key(fields: \"a\") { a: Int } " + q, false}},
		{{"scalar JSON", true}, {"scalar JSON " + q, false}},
		{{"scalar JSON", true}, {"extend scalar JSON @deprecated " + q, false}},
		{{"directive @skip(if: Boolean!) on FIELD | FRAGMENT_SPREAD | INLINE_FRAGMENT " + q, false}},
		{{"directive @skip(if: Boolean!) on FIELD", true}, {q, false}},
		{{"scalar String " + q, false}}, {{"scalar String", true}, {q, false}}, {{"type __Type { a: Int } " + q, false}},
		{{"extend type __Type { z: Int } " + q, false}}, {{"directive @key on OBJECT", true}, {"directive @key on OBJECT", true}, {q, false}},
		{{"directive @key on OBJECT", false}, {"directive @key on OBJECT " + q, false}}, {{"scalar A", true}, {"scalar A", true}, {q, false}},
		{{"directive @skip(if: Boolean!) on FIELD", true}, {"directive @skip(if: Boolean!, x: Int) on FIELD " + q, false}},
		{{"directive @key(fields: String!) on OBJECT", true}, {"directive @key(fields: String!) on OBJECT", false}, {"type T @key(fields: \"a\") { a: Int } " + q, false}},
		{{"type A { a: Int }", true}, {"extend type A { b: Int } " + q, false}}, {{"extend type A { b: Int }", true}, {"type A { a: Int } " + q, false}},
	}
	var nOrders int64
	for _, set := range sets {
		all := append([]flagged{}, set...)
		idx := make([]int, len(all))
		for i := range idx {
			idx[i] = i
		}
		ref, refOrder := "", ""
		var rec func(k int)
		rec = func(k int) {
			if k == len(idx) {
				var srcs []*ast.Source
				order := ""
				for _, j := range idx {
					name := "s" + itoa(j+1) + ".graphql"
					srcs = append(srcs, &ast.Source{Name: name, Input: all[j].text, BuiltIn: all[j].builtin})
					order += name + " "
				}
				verdict := ""
				func() {
					defer func() {
						if r := recover(); r != nil {
							verdict = "panic"
						}
					}()
					s, err := gqlparser.LoadSchema(srcs...)
					if err != nil {
						verdict = "err " + err.Error()[strings.Index(err.Error(), " ")+1:]
					} else {
						verdict = normalisedSchema(s)
					}
				}()
				nOrders++
				if ref == "" {
					ref, refOrder = verdict, order
				} else if verdict != ref {
					c.ReportOracle("order-dependent-with-built-in-sources", map[string]interface{}{"sources": set, "order": order, "this_order": firstDiff(ref, verdict),
						"first_order": refOrder, "first_result": ref[:min(300, len(ref))]})
				}
				return
			}
			for i := k; i < len(idx); i++ {
				idx[k], idx[i] = idx[i], idx[k]
				rec(k + 1)
				idx[k], idx[i] = idx[i], idx[k]
			}
		}
		rec(0)
	}
	c.Count("orders_of_prelude_built_in_and_ordinary_sources", nOrders)
	c.Evals += int64(len(bases)*(nPerm+1)) + nOrders
	c.Programs = int64(len(bases))
	c.Count("schemas_valid_and_single_fault", int64(len(bases)))
	c.Count("permutations_x_partitions", int64(len(bases)*nPerm))
	c.Sample(map[string]interface{}{"sources": perms[0][1]})
}

func itoa(i int) string {
	return strings.TrimSpace(strings.Replace(strings.Repeat(" ", 0)+fmtInt(i), " ", "", -1))
}
func fmtInt(i int) string {
	if i == 0 {
		return "0"
	}
	s := ""
	for i > 0 {
		s = string(rune('0'+i%10)) + s
		i /= 10
	}
	return s
}

func located(input string, line, col int) bool {
	for _, lc := range LineCols(input) {
		if lc.Line == line && lc.Col == col {
			return true
		}
	}
	return false
}

func firstDiff(a, b string) string {
	i := 0
	for i < len(a) && i < len(b) && a[i] == b[i] {
		i++
	}
	lo := i - 60
	if lo < 0 {
		lo = 0
	}
	ha, hb := i+100, i+100
	if ha > len(a) {
		ha = len(a)
	}
	if hb > len(b) {
		hb = len(b)
	}
	return "reference: ..." + a[lo:ha] + " | permuted: ..." + b[lo:hb]
}
