package props

import (
	"bytes"
	"encoding/hex"
	"encoding/json"
	"sort"
	"strings"
	"sync"
	"sync/atomic"
	"unicode/utf8"

	"github.com/vektah/gqlparser/v2/ast"
	"github.com/vektah/gqlparser/v2/parser"

	"verifharness/internal/core"
	"verifharness/internal/gen"
)

func init() {
	Runners["C19"] = runC19
	core.Ops["json"] = implJSON
	core.Domain["json"] = func(args [][]byte) bool { return utf8.Valid(args[0]) }
}

// dumpJSON: canonical text of a JSON value (keys sorted), same as Coq's Json.dump_j.
func dumpJSON(v interface{}, sb *strings.Builder) {
	switch x := v.(type) {
	case nil:
		sb.WriteString("n")
	case bool:
		if x {
			sb.WriteString("t")
		} else {
			sb.WriteString("f")
		}
	case json.Number:
		sb.WriteString(x.String())
	case string:
		sb.WriteString("\"" + hex.EncodeToString([]byte(x)) + "\"")
	case []interface{}:
		sb.WriteString("[")
		for i, e := range x {
			if i > 0 {
				sb.WriteString(",")
			}
			dumpJSON(e, sb)
		}
		sb.WriteString("]")
	case map[string]interface{}:
		keys := make([]string, 0, len(x))
		for k := range x {
			keys = append(keys, k)
		}
		sort.Strings(keys)
		sb.WriteString("{")
		first := true
		for _, k := range keys {
			if k == "Comment" {
				continue // comment groups are outside the model and outside the property
			}
			if !first {
				sb.WriteString(",")
			}
			first = false
			sb.WriteString(hex.EncodeToString([]byte(k)) + ":")
			dumpJSON(x[k], sb)
		}
		sb.WriteString("}")
	default:
		sb.WriteString("?")
	}
}

func implJSON(args [][]byte) string {
	doc, err := parser.ParseQuery(&ast.Source{Input: string(args[0]), Name: "q"})
	if err != nil {
		return dumpErr(err)
	}
	bs, err2 := json.Marshal(doc)
	if err2 != nil {
		return "marshal-error"
	}
	dec := json.NewDecoder(bytes.NewReader(bs))
	dec.UseNumber()
	var generic interface{}
	if err := dec.Decode(&generic); err != nil {
		return "marshal-output-not-json"
	}
	var sb strings.Builder
	dumpJSON(generic, &sb)
	sb.WriteString("|")
	var back ast.QueryDocument
	if err := json.Unmarshal(bs, &back); err != nil {
		sb.WriteString("decode-error")
		return sb.String()
	}
	fresh := DumpQueryDoc(&back, false)
	sb.WriteString("ok " + fresh)
	// decoding into a destination that held another document before gives the same document
	used, _ := c19Used.Get().(*ast.QueryDocument)
	if used == nil {
		used = &ast.QueryDocument{}
	}
	if err := json.Unmarshal(bs, used); err != nil || DumpQueryDoc(used, false) != fresh {
		sb.WriteString("!decoding-into-a-used-destination-differs")
	}
	c19Used.Put(used)
	return sb.String()
}

var c19Used sync.Pool

func runC19(c *core.Ctx) {
	const thm = "C19_roundtrip (props/C19.v); model op json = Ops.dump_json_roundtrip"
	c.ReplayKnown()
	nDocs := 15000
	if !c.Quick {
		nDocs = 300000
	}
	feats := map[string]int{}
	texts := make([]string, nDocs)
	expect := make([]string, nDocs)
	for i := range texts {
		g := &gen.QGen{R: c.Rng, MaxDepth: 2 + c.Rng.Intn(3), Features: feats, VarDefDirs: true, FragVars: c.Rng.Chance(1, 4)}
		doc := g.Doc()
		texts[i] = gen.Render(c.Rng, g.Toks, c.Rng.Intn(2))
		expect[i] = "ok " + DumpQueryDoc(doc, false)
	}
	for k, v := range feats {
		c.Count("feature_"+k, int64(v))
	}
	c.Pool.ParFor(nDocs, func(w, i int) {
		impl := c.Impl(w, "json", []byte(texts[i]))
		v, cur, none := c.Tie(w, "json", impl, []byte(texts[i]))
		if v == core.Violation {
			c.Report(w, "json", thm, [][]byte{[]byte(texts[i])}, impl, cur, none)
		}
		// oracle on the implementation alone: decode(encode(doc)) is the document that was written
		if k := strings.Index(impl, "|"); k >= 0 {
			if impl[k+1:] != expect[i] {
				c.ReportOracle("json-roundtrip", map[string]interface{}{"op": "json", "args": []string{hexs(texts[i])}, "input": texts[i],
					"decoded": impl[k+1:], "expected": expect[i],
					"note": "Marshal then Unmarshal must give back the same operations, fragments and selections (kinds kept at every depth)"})
			}
		}
		c.Seen(strings.Contains(texts[i], "..."), []byte(texts[i]))
	})
	// the scale family: wide selection sets, argument, directive, variable and value lists, many
	// operations and fragments, deep nesting, long strings and names: decode(encode(doc)) is the parsed
	// document (implementation-side oracle, three times each: a decoder that works concurrently must
	// still give the same document); tied to the model up to a hundred elements and 256-byte pieces
	var scale []string
	for _, k := range ScaleDocs() {
		scale = append(scale, k.Query)
	}
	scale = append(scale, WideQueryDocs()...)
	for _, b := range BlockStringBodies() {
		scale = append(scale, "{a(s:"+b+")}", "query($v: String = "+b+") @d(x: ["+b+", {k: "+b+"}]) {a}")
	}
	tied := map[string]bool{}
	for _, k := range ScaleDocsUpTo(101, 256) {
		if k.Tag != "deep100" {
			tied[k.Query] = true
		}
	}
	var nScale int64
	c.Pool.ParFor(len(scale), func(w, i int) {
		orig, err := parser.ParseQuery(&ast.Source{Input: scale[i], Name: "q"})
		if err != nil {
			return
		}
		want := "ok " + DumpQueryDoc(orig, false)
		atomic.AddInt64(&nScale, 1)
		for rep := 0; rep < 3; rep++ {
			impl := c.Impl(w, "json", []byte(scale[i]))
			k := strings.Index(impl, "|")
			if k < 0 || impl[k+1:] != want {
				got := impl[k+1:]
				c.ReportOracle("json-roundtrip", map[string]interface{}{"op": "json", "args": []string{hexs(scale[i])}, "input": scale[i][:min(300, len(scale[i]))], "bytes": len(scale[i]),
					"difference": diffAt(want, got), "note": "Marshal then Unmarshal must give back the same operations, fragments and selections, in order"})
				return
			}
			if rep == 0 && tied[scale[i]] {
				if v, cur, none := c.Tie(w, "json", impl, []byte(scale[i])); v == core.Violation {
					c.Report(w, "json", thm, [][]byte{[]byte(scale[i])}, impl, cur, none)
				}
			}
		}
	})
	c.Count("scale_documents", nScale)
	c.Evals += int64(nDocs) + 3*nScale
	c.Programs = int64(nDocs)
	c.Sample(map[string]string{"document": texts[0]})
	c.Sample(map[string]string{"document": texts[1]})
}
