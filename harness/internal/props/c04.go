package props

import (
	"fmt"
	"regexp"
	"strconv"
	"strings"
	"sync/atomic"
	"unicode/utf8"

	"github.com/vektah/gqlparser/v2"
	"github.com/vektah/gqlparser/v2/ast"
	"github.com/vektah/gqlparser/v2/gqlerror"
	"github.com/vektah/gqlparser/v2/lexer"
	"github.com/vektah/gqlparser/v2/parser"
	"github.com/vektah/gqlparser/v2/validator"

	"verifharness/internal/core"
	"verifharness/internal/gen"
)

func init() { Runners["C04"] = runC04 }

var posRe = regexp.MustCompile(`@(\d+):(-?\d+):(-?\d+):(-?\d+):(-?\d+)`)

// positionsTruthful checks every position of a dump against the specification-side
// line/column table of its source and the implementation lexer's token starts.
// knownStringCol: the recorded deviation F-P1 (String tokens report column+1) is the only
// exemption, and only at offsets where a String token starts.
func positionsTruthful(dump string, inputs []string, knownStringCol bool) string {
	type src struct {
		lcs    []LineCol
		starts map[int]lexer.Type
	}
	srcs := make([]*src, len(inputs))
	for _, m := range posRe.FindAllStringSubmatch(dump, -1) {
		si, _ := strconv.Atoi(m[1])
		start, _ := strconv.Atoi(m[2])
		line, _ := strconv.Atoi(m[4])
		col, _ := strconv.Atoi(m[5])
		if si >= len(inputs) {
			return "position names source " + m[1] + " which does not exist"
		}
		if srcs[si] == nil {
			st, _ := TokenStarts(inputs[si])
			srcs[si] = &src{LineCols(inputs[si]), st}
		}
		s := srcs[si]
		if start < 0 || start >= len(s.lcs) {
			return "offset " + m[2] + " outside the source"
		}
		k, isTok := s.starts[start]
		if !isTok {
			return "offset " + m[2] + " is not the start of a token"
		}
		want := s.lcs[start]
		if knownStringCol && k == lexer.String {
			want.Col++
		}
		if want.Line != line || want.Col != col {
			return "offset " + m[2] + " reported as line " + m[4] + " column " + m[5] + ", source says line " +
				strconv.Itoa(want.Line) + " column " + strconv.Itoa(want.Col)
		}
	}
	return ""
}

// lexPositionsTruthful: every token of a lex dump starts where the source's line/column table
// says (valid UTF-8 inputs only: the table counts characters).
func lexPositionsTruthful(dump, input string, knownStringCol bool) string {
	if !utf8.ValidString(input) {
		return ""
	}
	lcs := LineCols(input)
	for _, t := range strings.Split(dump, ";") {
		f := strings.Fields(t)
		if len(f) != 6 {
			continue // the final "ok" / "err l c"
		}
		kind, _ := strconv.Atoi(f[0])
		start, _ := strconv.Atoi(f[2])
		line, _ := strconv.Atoi(f[4])
		col, _ := strconv.Atoi(f[5])
		if start < 0 || start >= len(lcs) {
			return "token offset " + f[2] + " outside the source"
		}
		want := lcs[start]
		if knownStringCol && lexer.Type(kind) == lexer.String {
			want.Col++
		}
		if want.Line != line || want.Col != col {
			return "token at offset " + f[2] + " reported as line " + f[4] + " column " + f[5] + ", source says line " +
				strconv.Itoa(want.Line) + " column " + strconv.Itoa(want.Col)
		}
	}
	return ""
}

// locationProblem: a location attached to an error must be the line and column of the start of a
// token of the file the error names (String tokens: column+1 where F-P1 is recorded).
func locationProblem(src string, line, col int, knownStringCol bool) string {
	lcs := LineCols(src)
	starts, _ := TokenStarts(src)
	for off, k := range starts {
		if off < 0 || off >= len(lcs) {
			continue
		}
		want := lcs[off]
		if want.Line == line && (want.Col == col || (knownStringCol && k == lexer.String && want.Col+1 == col)) {
			return ""
		}
	}
	return fmt.Sprintf("location %d:%d is not the line and column of a token start of the file the error names", line, col)
}

func knownFlag(c *core.Ctx, id string) bool {
	for _, f := range c.Known {
		if f.ID == id && f.Status == "known" {
			return true
		}
	}
	return false
}

func runC04(c *core.Ctx) {
	const thm = "C04_* (props/C04.v); positions in the dumps of ops lex/pq/ps/pss"
	c.ReplayKnown()
	nDocs := 30000
	if !c.Quick {
		nDocs = 500000
	}
	fp1 := knownFlag(c, "F-P1")
	type cs struct {
		op   string
		args [][]byte
		in   string
	}
	cases := make([]cs, 0, nDocs*2)
	for i := 0; i < nDocs; i++ {
		var toks []gen.Tok
		schema := i%2 == 1
		if !schema {
			g := &gen.QGen{R: c.Rng, MaxDepth: 2, VarDefDirs: true, FragVars: c.Rng.Chance(1, 4)}
			g.Doc()
			toks = g.Toks
		} else {
			g := &gen.SGen{}
			g.R = c.Rng
			g.MaxDepth = 2
			g.SDoc()
			toks = g.Toks
		}
		if c.Rng.Chance(1, 4) {
			toks = gen.MutateToks(c.Rng, toks, schemaClasses) // error-producing inputs
		}
		text := gen.Render(c.Rng, toks, 1)
		if schema {
			cases = append(cases, cs{"ps", [][]byte{[]byte("1"), []byte("0"), []byte("0"), []byte(text)}, text})
		} else {
			cases = append(cases, cs{"pq", [][]byte{[]byte("1"), []byte("0"), []byte(text)}, text})
		}
	}
	// the small-scope and scale families and the constant-site matrices: positions of every node
	for _, k := range SmallScopeLight() {
		cases = append(cases, cs{"pq", [][]byte{[]byte("1"), []byte("0"), []byte(k.Query)}, k.Query})
	}
	for _, k := range ScaleDocsUpTo(300, 4097) {
		cases = append(cases, cs{"pq", [][]byte{[]byte("1"), []byte("0"), []byte(k.Query)}, k.Query})
	}
	for i, t := range LexFamilies() {
		if i%2 == 0 {
			cases = append(cases, cs{"pq", [][]byte{[]byte("1"), []byte("0"), []byte(t)}, t})
		} else {
			cases = append(cases, cs{"ps", [][]byte{[]byte("1"), []byte("0"), []byte("0"), []byte(t)}, t})
		}
	}
	for _, q := range ConstSitesQuery() {
		cases = append(cases, cs{"pq", [][]byte{[]byte("1"), []byte("0"), []byte(q)}, q})
	}
	for _, t := range append(append(schemaSmallScope(), ConstSites()...), ScaleSchemasUpTo(300, 4097)...) {
		cases = append(cases, cs{"ps", [][]byte{[]byte("1"), []byte("0"), []byte("0"), []byte(t)}, t})
	}
	var nerr int64
	c.Pool.ParFor(len(cases), func(w, i int) {
		k := cases[i]
		impl := c.Impl(w, k.op, k.args...)
		v, cur, none := c.Tie(w, k.op, impl, k.args...)
		if v == core.Violation {
			c.Report(w, k.op, thm, k.args, impl, cur, none)
		}
		if strings.HasPrefix(impl, "ok") {
			if msg := positionsTruthful(impl, []string{k.in}, fp1); msg != "" {
				c.ReportOracle("position-not-truthful", map[string]interface{}{"op": k.op, "args": hexArgs(k.args), "input": k.in, "problem": msg})
			}
		} else if !errorLocated(k.in, impl) {
			c.ReportOracle("error-position-not-truthful", map[string]interface{}{"op": k.op, "args": hexArgs(k.args), "input": k.in, "implementation": impl})
		}
		// token positions
		lx := c.Impl(w, "lex", []byte(k.in))
		v, cur, none = c.Tie(w, "lex", lx, []byte(k.in))
		if v == core.Violation {
			c.Report(w, "lex", thm, [][]byte{[]byte(k.in)}, lx, cur, none)
		}
		c.Seen(strings.Contains(k.in, "\n") || strings.Contains(k.in, "\r"), []byte(k.in))
	})
	_ = nerr
	// several sources in one call: every position names the source it came from
	var stexts []string
	for _, k := range cases {
		if k.op == "ps" {
			stexts = append(stexts, k.in)
		}
	}
	nMulti := len(stexts) / 8
	type mcase struct {
		args   [][]byte
		inputs []string
	}
	multis := make([]mcase, nMulti)
	for i := range multis {
		m := mcase{args: [][]byte{[]byte("1"), []byte("0")}}
		for j := 0; j < 2+c.Rng.Intn(2); j++ {
			t := gen.Pick(c.Rng, stexts)
			m.inputs = append(m.inputs, t)
			m.args = append(m.args, []byte(gen.Pick(c.Rng, []string{"0", "0", "1"})+t))
		}
		multis[i] = m
	}
	c.Pool.ParFor(nMulti, func(w, i int) {
		m := multis[i]
		impl := c.Impl(w, "pss", m.args...)
		v, cur, none := c.Tie(w, "pss", impl, m.args...)
		if v == core.Violation {
			c.Report(w, "pss", thm, m.args, impl, cur, none)
		}
		if strings.HasPrefix(impl, "ok") {
			if msg := positionsTruthful(impl, m.inputs, fp1); msg != "" {
				c.ReportOracle("position-not-truthful", map[string]interface{}{"op": "pss", "args": hexArgs(m.args), "sources": m.inputs, "problem": msg})
			}
		}
	})
	c.Count("multi_source_documents", int64(nMulti))
	// lexical family: block strings and line terminators. Every block-string body over
	// {SP,TAB,LF,CR,a,"} followed by a token on the closing line and one on the next line, and
	// random mixes of tokens, comments, Unicode and CR/LF/CRLF: token positions against the
	// specification-side line/column table, and against the model.
	maxBlock := 5
	nLex := 20000
	if !c.Quick {
		maxBlock, nLex = 7, 400000
	}
	var lexInputs [][]byte
	for n := 0; n <= maxBlock; n++ {
		total := ipow(len(BlockAlphabet), n)
		for i := 0; i < total; i++ {
			body := nthString(BlockAlphabet, n, i)
			lexInputs = append(lexInputs, append(append([]byte("a \"\"\""), body...), []byte("\"\"\" b\r\nc")...))
		}
	}
	c.Count("block_string_bodies_exhaustive", int64(len(lexInputs)))
	for i := 0; i < nLex; i++ {
		lexInputs = append(lexInputs, RandomLexInput(c.Rng, 16))
	}
	c.Pool.ParFor(len(lexInputs), func(w, i int) {
		in := lexInputs[i]
		lx := c.Impl(w, "lex", in)
		v, cur, none := c.Tie(w, "lex", lx, in)
		if v == core.Violation {
			c.Report(w, "lex", thm, [][]byte{in}, lx, cur, none)
		}
		if msg := lexPositionsTruthful(lx, string(in), fp1); msg != "" && !c.Explained(w, "lex", lx, in) {
			c.ReportOracle("token-position-not-truthful", map[string]interface{}{"op": "lex", "args": hexArgs([][]byte{in}), "input": string(in), "problem": msg})
		}
	})
	c.Count("lexical_inputs", int64(len(lexInputs)))
	// ---- locations attached to schema and validation errors: every one of them, in the file the
	// error names (multi-file schemas with one seeded fault; typed documents with seeded faults)
	nSch := 3000
	if !c.Quick {
		nSch = 60000
	}
	type lc struct{ srcs []string }
	loads := make([]lc, nSch)
	for i := range loads {
		sc := gen.NewSchema(gen.New(c.Rng.U64()))
		gen.Pick(c.Rng, gen.SchemaFaults).Apply(c.Rng, sc)
		loads[i] = lc{partition(c.Rng, sc.Chunks(), 1+c.Rng.Intn(3))}
		// now and then a source that (legally) extends a type of the prelude: it concerns this load only
		if i%40 == 7 {
			loads[i].srcs = append(loads[i].srcs, gen.Pick(c.Rng, []string{"extend type __Type { extra: Int }", "directive @tag on SCALAR\nextend scalar ID @tag",
				"extend enum __TypeKind { EXTRA }", "extend type __Field { note: String }"}))
		}
	}
	var nLoadErr, nValErr int64
	c.Pool.ParFor(nSch, func(w, i int) {
		files := map[string]string{}
		var ss []*ast.Source
		for j, t := range loads[i].srcs {
			name := fmt.Sprintf("s%d.graphql", j+1)
			files[name] = t
			ss = append(ss, &ast.Source{Name: name, Input: t})
		}
		_, err := gqlparser.LoadSchema(ss...)
		ge, ok := err.(*gqlerror.Error)
		if err == nil || !ok || ge == nil {
			return
		}
		file, _ := ge.Extensions["file"].(string)
		src, known := files[file]
		if !known {
			if file != "" && file != "prelude.graphql" {
				c.ReportOracle("schema-error-names-foreign-file", map[string]interface{}{"sources": loads[i].srcs, "error": ge.Message, "file": file,
					"problem": "the error names a file that is not among the sources of this load"})
			}
			return // the prelude, or no file: C20's business
		}
		atomic.AddInt64(&nLoadErr, 1)
		for _, l := range ge.Locations {
			if msg := locationProblem(src, l.Line, l.Column, fp1); msg != "" {
				c.ReportOracle("schema-error-location-not-truthful", map[string]interface{}{"sources": loads[i].srcs, "error": ge.Message, "file": file, "problem": msg})
				return
			}
		}
	})
	vcases := GenValidationCases(c, nSch/60+4, 20, nil)
	vcases = append(vcases, SmallScopeLight()...)
	vcases = append(vcases, ScaleDocsUpTo(300, 4097)...)
	c.Pool.ParFor(len(vcases), func(w, i int) {
		k := vcases[i]
		sch, err := loadImpl(k.Srcs...)
		if err != nil {
			return
		}
		doc, perr := parser.ParseQuery(&ast.Source{Name: "q.graphql", Input: k.Query})
		if perr != nil {
			return
		}
		for _, e := range validator.Validate(sch, doc) {
			atomic.AddInt64(&nValErr, 1)
			for _, l := range e.Locations {
				if msg := locationProblem(k.Query, l.Line, l.Column, fp1); msg != "" {
					c.ReportOracle("validation-error-location-not-truthful", map[string]interface{}{"schema": k.Srcs, "query": k.Query, "error": e.Message, "rule": e.Rule, "problem": msg})
					return
				}
			}
		}
	})
	c.Count("schema_errors_located", nLoadErr)
	c.Count("validation_errors_located", nValErr)
	c.Evals += int64(nSch) + int64(len(vcases))
	c.Evals += int64(len(cases))*2 + int64(len(lexInputs))
	c.Programs = int64(len(cases))
	c.Count("documents_with_random_layout", int64(len(cases)))
	c.Sample(map[string]string{"document": cases[0].in})
	c.Sample(map[string]string{"document": cases[1].in})
}

func hexArgs(args [][]byte) []string {
	out := make([]string, len(args))
	for i, a := range args {
		out[i] = hexs(string(a))
	}
	return out
}
