package props

import (
	"strconv"

	"github.com/vektah/gqlparser/v2/ast"
	"github.com/vektah/gqlparser/v2/gqlerror"
	"github.com/vektah/gqlparser/v2/parser"

	"verifharness/internal/core"
)

func init() {
	core.Ops["pq"] = implParseQuery
	core.Ops["ps"] = implParseSchema
}

func dumpErr(err error) string {
	if ge, ok := err.(*gqlerror.Error); ok {
		if len(ge.Locations) == 1 {
			return "err S " + strconv.Itoa(ge.Locations[0].Line) + " " + strconv.Itoa(ge.Locations[0].Column)
		}
		return "err S ? ?"
	}
	return "err L"
}

// args: wp ("1"/"0"), limit (decimal), input
func implParseQuery(args [][]byte) string {
	wp := string(args[0]) == "1"
	limit, _ := strconv.Atoi(string(args[1]))
	src := &ast.Source{Input: string(args[2]), Name: "q"}
	var doc *ast.QueryDocument
	var err error
	if limit == 0 {
		doc, err = parser.ParseQuery(src)
	} else {
		doc, err = parser.ParseQueryWithTokenLimit(src, limit)
	}
	if err != nil {
		return dumpErr(err)
	}
	if doc == nil {
		return "ok NIL"
	}
	return "ok " + DumpQueryDoc(doc, wp)
}

// args: wp, limit, builtin ("1"/"0"), input
func implParseSchema(args [][]byte) string {
	wp := string(args[0]) == "1"
	limit, _ := strconv.Atoi(string(args[1]))
	src := &ast.Source{Input: string(args[3]), Name: "s", BuiltIn: string(args[2]) == "1"}
	var doc *ast.SchemaDocument
	var err error
	if limit == 0 {
		doc, err = parser.ParseSchema(src)
	} else {
		doc, err = parser.ParseSchemaWithLimit(src, limit)
	}
	if err != nil {
		return dumpErr(err)
	}
	if doc == nil {
		return "ok NIL"
	}
	return "ok " + DumpSchemaDoc(doc, wp, nil)
}
