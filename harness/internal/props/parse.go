package props

import (
	"strconv"

	"github.com/vektah/gqlparser/v2/ast"
	"github.com/vektah/gqlparser/v2/gqlerror"
	"github.com/vektah/gqlparser/v2/parser"

	"verifharness/internal/core"
)

func init() {
	core.Ops["pq"] = implParseQuery
	core.Ops["ps"] = implParseSchema
	core.Ops["pss"] = implParseSchemas
}

func dumpErr(err error) string {
	if ge, ok := err.(*gqlerror.Error); ok {
		if len(ge.Locations) == 1 {
			return "err S " + strconv.Itoa(ge.Locations[0].Line) + " " + strconv.Itoa(ge.Locations[0].Column)
		}
		return "err S ? ?"
	}
	return "err L"
}

// args: wp ("1"/"0"), limit (decimal), input
func implParseQuery(args [][]byte) string {
	wp := string(args[0]) == "1"
	limit, _ := strconv.Atoi(string(args[1]))
	src := &ast.Source{Input: string(args[2]), Name: "q"}
	var doc *ast.QueryDocument
	var err error
	if limit == 0 {
		doc, err = parser.ParseQuery(src)
	} else {
		doc, err = parser.ParseQueryWithTokenLimit(src, limit)
	}
	if err != nil {
		return dumpErr(err)
	}
	if doc == nil {
		return "ok NIL"
	}
	return "ok " + DumpQueryDoc(doc, wp)
}

// args: wp, limit, builtin ("1"/"0"), input
func implParseSchema(args [][]byte) string {
	wp := string(args[0]) == "1"
	limit, _ := strconv.Atoi(string(args[1]))
	src := &ast.Source{Input: string(args[3]), Name: "s", BuiltIn: string(args[2]) == "1"}
	var doc *ast.SchemaDocument
	var err error
	if limit == 0 {
		doc, err = parser.ParseSchema(src)
	} else {
		doc, err = parser.ParseSchemaWithLimit(src, limit)
	}
	if err != nil {
		return dumpErr(err)
	}
	if doc == nil {
		return "ok NIL"
	}
	return "ok " + DumpSchemaDoc(doc, wp, nil)
}

// args: wp, limit, sources...; each source is one flag byte ('1' = built-in) followed by its text
func implParseSchemas(args [][]byte) string {
	wp := string(args[0]) == "1"
	limit, _ := strconv.Atoi(string(args[1]))
	var srcs []*ast.Source
	idx := map[*ast.Source]int{}
	for i, a := range args[2:] {
		src := &ast.Source{Name: "s" + strconv.Itoa(i+1) + ".graphql"}
		if len(a) > 0 {
			src.BuiltIn = a[0] == '1'
			src.Input = string(a[1:])
		}
		idx[src] = i
		srcs = append(srcs, src)
	}
	var doc *ast.SchemaDocument
	var err error
	if limit == 0 {
		doc, err = parser.ParseSchemas(srcs...)
	} else {
		doc, err = parser.ParseSchemasWithLimit(limit, srcs...)
	}
	if err != nil {
		return dumpErr(err)
	}
	if doc == nil {
		return "ok NIL"
	}
	return "ok " + DumpSchemaDoc(doc, wp, idx)
}
