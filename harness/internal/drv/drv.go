// Package drv talks to the OCaml driver built from the extracted Coq model.
package drv

import (
	"bufio"
	"encoding/hex"
	"fmt"
	"io"
	"os/exec"
	"strings"
	"sync"
	"time"
)

type proc struct {
	cmd *exec.Cmd
	in  io.WriteCloser
	out *bufio.Reader
}

// Pool is a set of driver processes; each worker owns one.
type Pool struct {
	path  string
	flags []int
	procs []*proc
}

func NewPool(path string, n int, flags []int) (*Pool, error) {
	p := &Pool{path: path, flags: flags}
	for i := 0; i < n; i++ {
		pr, err := p.spawn()
		if err != nil {
			return nil, err
		}
		p.procs = append(p.procs, pr)
	}
	return p, nil
}

func (p *Pool) spawn() (*proc, error) {
	// the extracted code recurses on the input; give it an unlimited system stack
	cmd := exec.Command("/bin/sh", "-c", "ulimit -s unlimited 2>/dev/null || ulimit -s 1000000 2>/dev/null; exec \"$0\"", p.path)
	in, err := cmd.StdinPipe()
	if err != nil {
		return nil, err
	}
	out, err := cmd.StdoutPipe()
	if err != nil {
		return nil, err
	}
	if err := cmd.Start(); err != nil {
		return nil, err
	}
	pr := &proc{cmd: cmd, in: in, out: bufio.NewReaderSize(out, 1<<20)}
	var sb strings.Builder
	sb.WriteString("flags")
	for _, f := range p.flags {
		fmt.Fprintf(&sb, " %d", f)
	}
	if _, err := pr.ask(sb.String()); err != nil {
		return nil, err
	}
	return pr, nil
}

func (pr *proc) ask(line string) (string, error) {
	if _, err := io.WriteString(pr.in, line+"\n"); err != nil {
		return "", err
	}
	s, err := pr.out.ReadString('\n')
	if err != nil {
		return "", err
	}
	return strings.TrimSuffix(s, "\n"), nil
}

func (p *Pool) N() int { return len(p.procs) }

func (p *Pool) Close() {
	for _, pr := range p.procs {
		pr.in.Close()
		pr.cmd.Wait()
	}
}

// Hex encodes an argument ("-" for empty).
func Hex(b []byte) string {
	if len(b) == 0 {
		return "-"
	}
	return hex.EncodeToString(b)
}

// Req builds a request line.
func Req(mode, op string, args ...[]byte) string {
	var sb strings.Builder
	sb.WriteString(mode)
	sb.WriteByte(' ')
	sb.WriteString(op)
	for _, a := range args {
		sb.WriteByte(' ')
		sb.WriteString(Hex(a))
	}
	return sb.String()
}

// Deadline: a request the driver has not answered after this long is abandoned (the extracted model is a
// specification, not an algorithm); the process is killed and replaced. 0 = wait for ever.
var Deadline time.Duration

// Ask sends one request on worker w.
func (p *Pool) Ask(w int, line string) string {
	pr := p.procs[w]
	type ans struct {
		s   string
		err error
	}
	ch := make(chan ans, 1)
	go func() {
		s, err := pr.ask(line)
		ch <- ans{s, err}
	}()
	var s string
	var err error
	if Deadline > 0 {
		select {
		case a := <-ch:
			s, err = a.s, a.err
		case <-time.After(Deadline):
			pr.cmd.Process.Kill()
			<-ch
			if np, e2 := p.spawn(); e2 == nil {
				p.procs[w] = np
			}
			return "DRIVER-TIMEOUT"
		}
	} else {
		a := <-ch
		s, err = a.s, a.err
	}
	if err != nil {
		// driver died (stack overflow / exception): restart and report
		pr, e2 := p.spawn()
		if e2 == nil {
			p.procs[w] = pr
		}
		return "DRIVER-ERROR " + err.Error()
	}
	return s
}

// ParFor runs f(worker, i) for i in [0,n) over all workers.
func (p *Pool) ParFor(n int, f func(w, i int)) {
	var wg sync.WaitGroup
	nw := p.N()
	next := make(chan int, 1024)
	go func() {
		for i := 0; i < n; i++ {
			next <- i
		}
		close(next)
	}()
	for w := 0; w < nw; w++ {
		wg.Add(1)
		go func(w int) {
			defer wg.Done()
			for i := range next {
				f(w, i)
			}
		}(w)
	}
	wg.Wait()
}
